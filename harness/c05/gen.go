// Operand sets of the C05 harness. A "lane tuple" is one value per parameter of the (lane-wise) scalar
// operation; vector operands are packed from consecutive lane tuples.
package main

import (
	c "github.com/tetratelabs/wazero/internal/zz_verif/common"
)

type Val [2]uint64 // lo, hi (hi only for v128)

type sets struct{ core, ext []uint64 }

func pow2set(w uint, core []uint64, extra []uint64) sets {
	mask := ^uint64(0)
	if w < 64 {
		mask = 1<<w - 1
	}
	var ext []uint64
	for k := uint(0); k < w; k++ {
		p := uint64(1) << k
		ext = append(ext, p&mask, (p-1)&mask, (p+1)&mask, (-p)&mask, (-p-1)&mask)
	}
	ext = append(ext, extra...)
	return sets{core, ext}
}

var (
	setI8  = pow2set(8, []uint64{0, 1, 2, 0x7e, 0x7f, 0x80, 0x81, 0xfe, 0xff, 0x55, 0xaa, 7, 8, 9, 0x40}, nil)
	setI16 = pow2set(16, []uint64{0, 1, 2, 0x7f, 0x80, 0xff, 0x100, 0x7ffe, 0x7fff, 0x8000, 0x8001, 0xfffe, 0xffff, 0x5555, 0xaaaa, 15, 16, 17, 0x4000, 0xc000}, nil)
	setI32 = pow2set(32, []uint64{0, 1, 2, 0x7f, 0x80, 0xff, 0x7fff, 0x8000, 0xffff, 0x7fffffff, 0x80000000, 0x80000001, 0xfffffffe, 0xffffffff,
		0x55555555, 0xaaaaaaaa, 31, 32, 33},
		[]uint64{0x01000001, 0x01000002, 0x01000003, 0x7fffff80, 0x7fffffbf, 0x7fffffc0, 0x7fffffc1, 0xffffff7f, 0xffffff80, 0xffffff81, 0x80000040, 0x80000080, 0x800000c0,
			0xfeffffff, 0xff000001, 123456789, 0xdeadbeef})
	setI64 = pow2set(64, []uint64{0, 1, 2, 0x80, 0xff, 0x8000, 0xffff, 0x7fffffff, 0x80000000, 0xffffffff, 0x100000000, 0xffffffff80000000,
		0x7fffffffffffffff, 0x8000000000000000, 0x8000000000000001, 0xfffffffffffffffe, 0xffffffffffffffff,
		0x5555555555555555, 0xaaaaaaaaaaaaaaaa, 63, 64, 65},
		[]uint64{0x20000000000001, 0x20000000000002, 0x20000000000003, 0x7ffffffffffffdff, 0x7ffffffffffffe00, 0x7ffffffffffffe01, 0x7ffffffffffffc00,
			0xfffffffffffff7ff, 0xfffffffffffff800, 0xfffffffffffffbff, 0xfffffffffffffc00, 0xfffffffffffffc01, 0xfffffffffffff400,
			0xffffff7fffffffff, 0xffffff8000000000, 0xffffff8000000001, 0x7fffffbfffffffff, 0x7fffffc000000000, 0x7fffffc000000001,
			0x1000001, 0x1000002, 0x1000003, 0x8000004000000000, 0x8000008000000000, 0x8000000000000400, 0x8000000000000200, 0x8000000000000600,
			0xdeadbeefcafebabe, 1234567890123456789})
	setF32 = sets{
		[]uint64{0, 0x80000000, 1, 0x80000001, 0x007fffff, 0x00800000, 0x3f800000, 0xbf800000, 0x3f000000, 0xbf000000, 0x3fc00000, 0x40200000, 0xc0200000,
			0x7f7fffff, 0xff7fffff, 0x7f800000, 0xff800000, 0x7fc00000, 0xffc00000, 0x7fc00001, 0x7fa00000, 0xff800001},
		[]uint64{0x4f000000, 0x4effffff, 0xcf000000, 0xcf000001, 0xceffffff, 0x4f800000, 0x4f7fffff, 0x5f000000, 0x5effffff, 0xdf000000, 0xdf000001, 0xdeffffff,
			0x5f800000, 0x5f7fffff, 0xbf7fffff, 0xbf800001, 0x3f7fffff, 0x3effffff, 0x3f000001, 0xbeffffff, 0xbf000001, 0x40600000, 0x40900000, 0xc0600000, 0xbfc00000,
			0x40b00000, 0xc0b00000, 0x4b000000, 0x4b000001, 0x4affffff, 0x4afffffe, 0xcaffffff, 0xcb000000, 0x4b800000, 0x4a800001, 0x4a7fffff, 0x4a800002, 0x4a800003,
			0x7f800001, 0x7fffffff, 0xffffffff, 0xffa00000, 0x7fbfffff, 0x00000002, 0x00400000, 0x3f800001, 0x40000000, 0x40400000, 0x40490fdb, 0xc0490fdb, 0x7f000000,
			0x00ffffff, 0x33800000, 0x34000000, 0x80800000, 0x807fffff, 0x3fffffff, 0x7effffff, 0x00000003, 0x4e800000, 0x4f000001, 0x47800000, 0x477fff00, 0x437f0000, 0x43800000,
			0xc3000000, 0xc3008000, 0x42fe0000, 0x42ff0000, 0x46fffe00, 0x47000000, 0xc7000000, 0xc7000080, 0x3e800000, 0x3f400000, 0xbf400000, 0x3fa00000},
	}
	setF64 = sets{
		[]uint64{0, 0x8000000000000000, 1, 0x8000000000000001, 0x000fffffffffffff, 0x0010000000000000, 0x3ff0000000000000, 0xbff0000000000000,
			0x3fe0000000000000, 0xbfe0000000000000, 0x3ff8000000000000, 0x4004000000000000, 0xc004000000000000, 0x7fefffffffffffff, 0xffefffffffffffff,
			0x7ff0000000000000, 0xfff0000000000000, 0x7ff8000000000000, 0xfff8000000000000, 0x7ff8000000000001, 0x7ff4000000000000, 0xfff0000000000001},
		[]uint64{0x41e0000000000000, 0x41dfffffffffffff, 0x41dfffffffc00000, 0x41dfffffffe00000, 0xc1e0000000000000, 0xc1e00000001fffff, 0xc1e0000000200000, 0xc1e0000000100000,
			0xc1e0000000200001, 0x41f0000000000000, 0x41efffffffffffff, 0x41efffffffe00000, 0x41effffffff00000, 0x43e0000000000000, 0x43dfffffffffffff, 0xc3e0000000000000,
			0xc3e0000000000001, 0xc3dfffffffffffff, 0x43f0000000000000, 0x43efffffffffffff, 0xbfefffffffffffff, 0xbff0000000000001, 0x3fefffffffffffff, 0x3fdfffffffffffff,
			0x3fe0000000000001, 0xbfdfffffffffffff, 0xbfe0000000000001, 0x400c000000000000, 0x4012000000000000, 0xc00c000000000000, 0xbff8000000000000, 0x4016000000000000,
			0x4330000000000000, 0x4330000000000001, 0x432fffffffffffff, 0x432ffffffffffffe, 0xc32fffffffffffff, 0x4340000000000000, 0x4320000000000001, 0x431fffffffffffff,
			0x4320000000000002, 0x4320000000000003, 0x47efffffe0000000, 0x47efffffefffffff, 0x47effffff0000000, 0x47effffff0000001, 0xc7effffff0000000, 0x47f0000000000000,
			0x3810000000000000, 0x380fffffffffffff, 0x380ffffff0000000, 0x36a0000000000000, 0x3690000000000000, 0x3690000000000001, 0x36a8000000000000, 0x36b4000000000000,
			0xb690000000000000, 0x368fffffffffffff, 0x3ff0000010000000, 0x3ff0000010000001, 0x3ff0000030000000, 0x3ff000002fffffff, 0x3ff0000020000000,
			0x7ff0000000000001, 0x7ff0000020000000, 0x7ff7ffffffffffff, 0x7fffffffffffffff, 0xffffffffffffffff, 0xfff4000000000000, 0x7ff800000fffffff, 0x2, 0x0008000000000000,
			0x3ff0000000000001, 0x4000000000000000, 0x4008000000000000, 0x400921fb54442d18, 0xc00921fb54442d18, 0x7fe0000000000000, 0x001fffffffffffff, 0x3ca0000000000000,
			0x3cb0000000000000, 0x40e0000000000000, 0x40dfffc000000000, 0x406fe00000000000, 0x4070000000000000, 0xc060000000000000, 0xc060100000000000, 0x40efffe000000000,
			0x40f0000000000000, 0x3fd0000000000000, 0x3fe8000000000000, 0xbfe8000000000000, 0x3ff4000000000000, 0x41dfffffff000000, 0xc1dfffffffc00000},
	}
	idxSet = sets{[]uint64{0, 1, 7, 8, 14, 15, 16, 17, 31, 32, 127, 128, 255, 129, 0x80 | 3, 0xf0}, []uint64{2, 3, 4, 5, 6, 9, 10, 11, 12, 13, 64, 254}}
)

func shiftSet(w int) sets {
	var core []uint64
	for k := 0; k <= 2*w; k++ {
		core = append(core, uint64(k))
	}
	return sets{[]uint64{0, 1, uint64(w - 1), uint64(w), uint64(w + 1), uint64(2*w - 1), uint64(2 * w), 0xffffffff, 0x80000000, 0x7fffffff, uint64(0x100 + w/2)}, core}
}

// laneKind describes one parameter: lane width in bits (of the packed value), lanes per operand
type laneKind struct {
	w     int  // bits per lane tuple element
	lanes int  // 1 for scalars, 128/w for vectors
	set   sets // boundary values
	float bool
	sparse bool
}

func kindOf(shape string) laneKind {
	switch shape {
	case "i32":
		return laneKind{32, 1, setI32, false, false}
	case "i64":
		return laneKind{64, 1, setI64, false, false}
	case "f32":
		return laneKind{32, 1, setF32, true, false}
	case "f64":
		return laneKind{64, 1, setF64, true, false}
	case "sh8":
		return laneKind{32, 1, shiftSet(8), false, false}
	case "sh16":
		return laneKind{32, 1, shiftSet(16), false, false}
	case "sh32":
		return laneKind{32, 1, shiftSet(32), false, false}
	case "sh64":
		return laneKind{64, 1, shiftSet(64), false, false}
	case "v8":
		return laneKind{8, 16, setI8, false, false}
	case "v16":
		return laneKind{16, 8, setI16, false, false}
	case "v32":
		return laneKind{32, 4, setI32, false, false}
	case "v64":
		return laneKind{64, 2, setI64, false, false}
	case "vf32":
		return laneKind{32, 4, setF32, true, false}
	case "vf64":
		return laneKind{64, 2, setF64, true, false}
	case "vidx":
		return laneKind{8, 16, idxSet, false, false}
	case "vsparse":
		return laneKind{8, 16, setI8, false, true}
	case "vsparse8":
		return laneKind{8, 16, setI8, false, true}
	case "vsparse16":
		return laneKind{16, 8, setI16, false, true}
	case "vsparse32":
		return laneKind{32, 4, setI32, false, true}
	case "vsparse64":
		return laneKind{64, 2, setI64, false, true}
	}
	panic("shape " + shape)
}

func maskW(w int) uint64 {
	if w >= 64 {
		return ^uint64(0)
	}
	return 1<<uint(w) - 1
}

func randLane(r *c.Rng, k laneKind) uint64 {
	m := maskW(k.w)
	switch r.Intn(6) {
	case 0:
		return r.Pick(k.set.core)
	case 1:
		return r.Pick(k.set.ext)
	case 2:
		if k.float { // moderate exponent, random mantissa: values with fractional parts
			if k.w == 32 {
				e := uint64(127 - 3 + r.Intn(30))
				return (r.U64()&1)<<31 | e<<23 | r.U64()&0x7fffff
			}
			e := uint64(1023 - 3 + r.Intn(60))
			return (r.U64()&1)<<63 | e<<52 | r.U64()&0xfffffffffffff
		}
		return r.U64() & m >> uint(r.Intn(k.w))
	case 3:
		if k.float { // near-integers and halves
			n := float64(int64(r.U64()>>uint(20+r.Intn(43)))) / 2
			if r.Bool() {
				n = -n
			}
			if k.w == 32 {
				return uint64(f32bits(float32(n)))
			}
			return f64bits(n)
		}
		return (r.Pick(k.set.ext) + uint64(r.Intn(5)) - 2) & m
	}
	return r.U64() & m
}

// laneTuples produces the per-lane operand tuples for an operation whose parameters have the given kinds.
// budget bounds the number of crossed core tuples kept (all are kept when full is set).
func laneTuples(r *c.Rng, ks []laneKind, budget int, nrand int, exhaustive8 bool, extN int) [][]uint64 {
	var out [][]uint64
	n := len(ks)
	// exhaustive operand sets for narrow lanes: all 8-bit values for unary operations and for value x shift count
	// (always); all 8-bit pairs and all 16-bit values of unary operations when asked for (thorough tier)
	plain := func(k laneKind, w int) bool { return k.w == w && k.lanes > 1 && !k.sparse }
	switch {
	case n == 1 && plain(ks[0], 8):
		for a := 0; a < 256; a++ {
			out = append(out, []uint64{uint64(a)})
		}
		// plus mixed vectors: 16 consecutive values share their sign bit, which says little about bitmask, narrow, extadd
		for i := 0; i < nrand+16*len(ks[0].set.core); i++ {
			out = append(out, []uint64{randLane(r, ks[0])})
		}
		return out
	case n == 1 && plain(ks[0], 16) && exhaustive8:
		for a := 0; a < 65536; a++ {
			out = append(out, []uint64{uint64(a)})
		}
		return out
	case n == 2 && plain(ks[0], 8) && ks[1].lanes == 1 && len(ks[1].set.ext) == 17: // i8x16 shifts: counts 0..16
		for _, cnt := range append(append([]uint64{}, ks[1].set.ext...), ks[1].set.core...) {
			for a := 0; a < 256; a += 16 {
				for l := 0; l < 16; l++ { // one vector per (count, 16 consecutive values)
					out = append(out, []uint64{uint64(a + l), cnt})
				}
			}
		}
		return out
	case n == 2 && plain(ks[0], 8) && plain(ks[1], 8) && exhaustive8:
		for a := 0; a < 256; a++ {
			for b := 0; b < 256; b++ {
				out = append(out, []uint64{uint64(a), uint64(b)})
			}
		}
		return out
	}
	// crossed core sets
	idx := make([]int, n)
	var cross [][]uint64
	for {
		t := make([]uint64, n)
		for i := range t {
			t[i] = ks[i].set.core[idx[i]]
		}
		cross = append(cross, t)
		j := n - 1
		for j >= 0 {
			idx[j]++
			if idx[j] < len(ks[j].set.core) {
				break
			}
			idx[j] = 0
			j--
		}
		if j < 0 {
			break
		}
	}
	if len(cross) > budget { // keep a seed-dependent subset
		for i := 0; i < budget; i++ {
			j := i + r.Intn(len(cross)-i)
			cross[i], cross[j] = cross[j], cross[i]
		}
		cross = cross[:budget]
	}
	out = append(out, cross...)
	// every ext value in every position, partnered with a random pick
	for i := range ks {
		ext := ks[i].set.ext
		if extN > 0 && len(ext) > extN { // a seed-dependent sample of the extended boundary set
			ext = append([]uint64{}, ext...)
			for a := 0; a < extN; a++ {
				b := a + r.Intn(len(ext)-a)
				ext[a], ext[b] = ext[b], ext[a]
			}
			ext = ext[:extN]
		}
		for _, v := range ext {
			t := make([]uint64, n)
			for j := range t {
				if j == i {
					t[j] = v
				} else if r.Intn(3) == 0 {
					t[j] = v & maskW(ks[j].w) // equal operands are a class of their own
				} else {
					t[j] = randLane(r, ks[j])
				}
			}
			out = append(out, t)
		}
	}
	for i := 0; i < nrand; i++ {
		t := make([]uint64, n)
		for j := range t {
			t[j] = randLane(r, ks[j])
		}
		out = append(out, t)
	}
	return out
}

// pack builds the operand values of calls from lane tuples.
func pack(r *c.Rng, ks []laneKind, tuples [][]uint64) [][]Val {
	group := 1
	for _, k := range ks {
		if k.lanes > group {
			group = k.lanes
		}
	}
	var calls [][]Val
	for s := 0; s < len(tuples); s += group {
		args := make([]Val, len(ks))
		for p, k := range ks {
			if k.lanes == 1 {
				args[p] = Val{tuples[s][p], 0}
				continue
			}
			var v Val
			// operands with fewer lanes than the group take every (group/lanes)-th tuple
			for l := 0; l < k.lanes; l++ {
				ti := s + l*(group/k.lanes)
				var x uint64
				if ti < len(tuples) {
					x = tuples[ti][p]
				} else {
					x = tuples[(ti-s)%len(tuples)][p]
				}
				x &= maskW(k.w)
				bit := l * k.w
				if bit < 64 {
					v[0] |= x << uint(bit)
				} else {
					v[1] |= x << uint(bit-64)
				}
			}
			if k.sparse {
				v = sparsify(r, k, v, s/group)
			}
			args[p] = v
		}
		calls = append(calls, args)
	}
	return calls
}

// sparsify: operands for any_true/all_true — all zero, exactly one non-zero lane/bit, exactly one zero lane, all non-zero.
func sparsify(r *c.Rng, k laneKind, v Val, n int) Val {
	lane := r.Intn(k.lanes)
	setLane := func(v Val, l int, x uint64) Val {
		bit := l * k.w
		m := maskW(k.w)
		if bit < 64 {
			v[0] = v[0]&^(m<<uint(bit)) | (x&m)<<uint(bit)
		} else {
			v[1] = v[1]&^(m<<uint(bit-64)) | (x&m)<<uint(bit-64)
		}
		return v
	}
	switch n % 5 {
	case 0:
		return Val{0, 0}
	case 1: // one non-zero lane (often a single bit)
		x := uint64(1) << uint(r.Intn(k.w))
		if r.Bool() {
			x = r.U64() | 1
		}
		return setLane(Val{0, 0}, lane, x)
	case 2: // exactly one zero lane, the others non-zero
		for l := 0; l < k.lanes; l++ {
			v = setLane(v, l, uint64(1)<<uint(r.Intn(k.w)))
		}
		return setLane(v, lane, 0)
	case 3: // all lanes non-zero
		for l := 0; l < k.lanes; l++ {
			x := uint64(1) << uint(r.Intn(k.w))
			if r.Bool() {
				x = r.U64() | 0x80
			}
			v = setLane(v, l, x)
		}
		return v
	}
	return v
}
