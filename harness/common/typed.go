package common

// Typed mirror terms (coq/Wasm/Validate.v: tinstr / tfuncdef) for the programs of gen.go, recovered from the
// ENCODED function bodies: the block types that Sem.v's Block/Loop/If drop (they only carry arities) are read
// back from the bytes the engines execute. Does not touch gen.go's behaviour.

import (
	"fmt"
	"strings"
)

type tdec struct {
	b     []byte
	p     int
	types []Sig
}

func (d *tdec) u8() (byte, error) {
	if d.p >= len(d.b) {
		return 0, fmt.Errorf("unexpected end of body at %d", d.p)
	}
	c := d.b[d.p]
	d.p++
	return c, nil
}

func (d *tdec) uleb() (uint64, error) {
	var r uint64
	var sh uint
	for {
		c, err := d.u8()
		if err != nil {
			return 0, err
		}
		r |= uint64(c&0x7f) << sh
		sh += 7
		if c&0x80 == 0 {
			return r, nil
		}
		if sh > 70 {
			return 0, fmt.Errorf("leb128 too long")
		}
	}
}

func (d *tdec) sleb() (int64, error) {
	var r int64
	var sh uint
	for {
		c, err := d.u8()
		if err != nil {
			return 0, err
		}
		r |= int64(c&0x7f) << sh
		sh += 7
		if c&0x80 == 0 {
			if sh < 64 && c&0x40 != 0 {
				r |= -1 << sh
			}
			return r, nil
		}
		if sh > 70 {
			return 0, fmt.Errorf("leb128 too long")
		}
	}
}


func (d *tdec) blockType() (string, error) {
	if d.p < len(d.b) {
		switch d.b[d.p] {
		case 0x40:
			d.p++
			return "[] []", nil
		case I32, I64:
			t := d.b[d.p]
			d.p++
			return "[] " + widths([]byte{t}), nil
		}
	}
	i, err := d.sleb()
	if err != nil {
		return "", err
	}
	if i < 0 || int(i) >= len(d.types) {
		return "", fmt.Errorf("block type index %d out of range", i)
	}
	return widths(d.types[i].P) + " " + widths(d.types[i].R), nil
}

// seq decodes instructions up to (and consuming) `end` or `else`; returns the terminator
func (d *tdec) seq() ([]string, byte, error) {
	var out []string
	for {
		op, err := d.u8()
		if err != nil {
			return nil, 0, err
		}
		switch {
		case op == 0x0b || op == 0x05:
			return out, op, nil
		case op == 0x00:
			out = append(out, "TUnreachable")
		case op == 0x01:
			out = append(out, "TNop")
		case op == 0x02 || op == 0x03:
			bt, err := d.blockType()
			if err != nil {
				return nil, 0, err
			}
			body, term, err := d.seq()
			if err != nil {
				return nil, 0, err
			}
			if term != 0x0b {
				return nil, 0, fmt.Errorf("else outside if")
			}
			k := "TBlock"
			if op == 0x03 {
				k = "TLoop"
			}
			out = append(out, fmt.Sprintf("%s %s [%s]", k, bt, strings.Join(body, "; ")))
		case op == 0x04:
			bt, err := d.blockType()
			if err != nil {
				return nil, 0, err
			}
			th, term, err := d.seq()
			if err != nil {
				return nil, 0, err
			}
			var el []string
			if term == 0x05 {
				el, term, err = d.seq()
				if err != nil {
					return nil, 0, err
				}
				if term != 0x0b {
					return nil, 0, fmt.Errorf("two else")
				}
			}
			out = append(out, fmt.Sprintf("TIf %s [%s] [%s]", bt, strings.Join(th, "; "), strings.Join(el, "; ")))
		case op == 0x0c || op == 0x0d:
			l, err := d.uleb()
			if err != nil {
				return nil, 0, err
			}
			out = append(out, fmt.Sprintf("%s %d", map[byte]string{0x0c: "TBr", 0x0d: "TBrIf"}[op], l))
		case op == 0x0e:
			n, err := d.uleb()
			if err != nil {
				return nil, 0, err
			}
			ls := make([]string, n)
			for i := range ls {
				l, err := d.uleb()
				if err != nil {
					return nil, 0, err
				}
				ls[i] = fmt.Sprint(l)
			}
			dl, err := d.uleb()
			if err != nil {
				return nil, 0, err
			}
			out = append(out, fmt.Sprintf("TBrTable [%s]%%nat %d", strings.Join(ls, "; "), dl))
		case op == 0x0f:
			out = append(out, "TReturn")
		case op == 0x10:
			f, err := d.uleb()
			if err != nil {
				return nil, 0, err
			}
			out = append(out, fmt.Sprintf("TCall %d", f))
		case op == 0x11:
			ty, err := d.uleb()
			if err != nil {
				return nil, 0, err
			}
			tb, err := d.uleb()
			if err != nil {
				return nil, 0, err
			}
			if tb != 0 {
				return nil, 0, fmt.Errorf("call_indirect on table %d", tb)
			}
			out = append(out, fmt.Sprintf("TCallIndirect %d", ty))
		case op == 0x1a:
			out = append(out, "TDrop")
		case op == 0x1b:
			out = append(out, "TSelect")
		case op >= 0x20 && op <= 0x24:
			i, err := d.uleb()
			if err != nil {
				return nil, 0, err
			}
			out = append(out, fmt.Sprintf("%s %d", []string{"TLocalGet", "TLocalSet", "TLocalTee", "TGlobalGet", "TGlobalSet"}[op-0x20], i))
		case op >= 0x28 && op <= 0x3e:
			if _, err := d.uleb(); err != nil { // alignment
				return nil, 0, err
			}
			off, err := d.uleb()
			if err != nil {
				return nil, 0, err
			}
			type ld struct {
				w, n int
				sx   bool
			}
			loads := map[byte]ld{0x28: {32, 4, false}, 0x29: {64, 8, false}, 0x2c: {32, 1, true}, 0x2d: {32, 1, false},
				0x2e: {32, 2, true}, 0x2f: {32, 2, false}, 0x30: {64, 1, true}, 0x31: {64, 1, false}, 0x32: {64, 2, true},
				0x33: {64, 2, false}, 0x34: {64, 4, true}, 0x35: {64, 4, false}}
			stores := map[byte]int{0x36: 4, 0x37: 8, 0x3a: 1, 0x3b: 2, 0x3c: 1, 0x3d: 2, 0x3e: 4}
			if l, ok := loads[op]; ok {
				out = append(out, fmt.Sprintf("TLoad %d %d %v %d", l.w, l.n, l.sx, off))
			} else if n, ok := stores[op]; ok {
				out = append(out, fmt.Sprintf("TStore %d %d", n, off))
			} else {
				return nil, 0, fmt.Errorf("float memory opcode %#x", op)
			}
		case op == 0x3f || op == 0x40:
			if _, err := d.u8(); err != nil {
				return nil, 0, err
			}
			out = append(out, map[byte]string{0x3f: "TMemorySize", 0x40: "TMemoryGrow"}[op])
		case op == 0x41:
			v, err := d.sleb()
			if err != nil {
				return nil, 0, err
			}
			out = append(out, fmt.Sprintf("TConst 32 %d", uint32(v)))
		case op == 0x42:
			v, err := d.sleb()
			if err != nil {
				return nil, 0, err
			}
			out = append(out, fmt.Sprintf("TConst 64 %d", uint64(v)))
		case op == 0x45:
			out = append(out, "TUn (UEqz 32)")
		case op == 0x50:
			out = append(out, "TUn (UEqz 64)")
		case op >= 0x46 && op <= 0x4f:
			out = append(out, fmt.Sprintf("TBin (BRel 32 %s)", irelops[op-0x46]))
		case op >= 0x51 && op <= 0x5a:
			out = append(out, fmt.Sprintf("TBin (BRel 64 %s)", irelops[op-0x51]))
		case op >= 0x67 && op <= 0x69:
			out = append(out, fmt.Sprintf("TUn (UInt 32 %s)", iunops[op-0x67]))
		case op >= 0x6a && op <= 0x78:
			out = append(out, fmt.Sprintf("TBin (BInt 32 %s)", ibinops[op-0x6a]))
		case op >= 0x79 && op <= 0x7b:
			out = append(out, fmt.Sprintf("TUn (UInt 64 %s)", iunops[op-0x79]))
		case op >= 0x7c && op <= 0x8a:
			out = append(out, fmt.Sprintf("TBin (BInt 64 %s)", ibinops[op-0x7c]))
		case op == 0xa7:
			out = append(out, "TUn UWrap")
		case op == 0xac:
			out = append(out, "TUn UExtS")
		case op == 0xad:
			out = append(out, "TUn UExtU")
		case op >= 0xc0 && op <= 0xc4:
			out = append(out, []string{"TUn (UInt 32 Extend8S)", "TUn (UInt 32 Extend16S)", "TUn (UInt 64 Extend8S)",
				"TUn (UInt 64 Extend16S)", "TUn (UInt 64 Extend32S)"}[op-0xc0])
		default:
			return nil, 0, fmt.Errorf("opcode %#x outside the subset of Wasm/Sem.v", op)
		}
	}
}

// TypedBody decodes a function body (an expression ending in `end`) into a Coq `list tinstr`.
func TypedBody(body []byte, types []Sig) (string, error) {
	d := &tdec{b: body, types: types}
	is, term, err := d.seq()
	if err != nil {
		return "", err
	}
	if term != 0x0b || d.p != len(body) {
		return "", fmt.Errorf("trailing bytes or else at top level")
	}
	return "[" + strings.Join(is, "; ") + "]", nil
}

// TypedFunc renders one `tfuncdef` of instance 0.
func TypedFunc(sig Sig, locals []byte, body []byte, types []Sig) (string, error) {
	b, err := TypedBody(body, types)
	if err != nil {
		return "", err
	}
	return fmt.Sprintf("TFWasm 0 %s %s %s %s", widths(sig.P), widths(sig.R), widths(locals), b), nil
}

func TypedHost(h int, sig Sig) string {
	return fmt.Sprintf("TFHost %d %s %s", h, widths(sig.P), widths(sig.R))
}

// CoqTypedFuncs: the typed mirror of CoqStore's function list, from the module's own encoding.
func (m *ModSpec) CoqTypedFuncs() (string, error) {
	for _, h := range m.Hosts {
		m.TypeIdx(h.Sig)
	}
	for _, f := range m.Funcs {
		m.TypeIdx(f.Sig)
	}
	var fs []string
	for _, h := range m.Hosts {
		fs = append(fs, TypedHost(h.H, h.Sig))
	}
	for _, f := range m.Funcs {
		s, err := TypedFunc(f.Sig, f.Locals, append(seqBin(f.Body), 0x0b), m.Types)
		if err != nil {
			return "", err
		}
		fs = append(fs, s)
	}
	return "[" + strings.Join(fs, ";\n   ") + "]", nil
}

func (m *ModSpec) CoqGlobalTypes() string { return widths(m.Globals) }
