package common

// Running generated programs on the real engines and projecting the observables.

import (
	"context"
	"errors"
	"fmt"
	"sort"
	"strings"

	"github.com/tetratelabs/wazero"
	"github.com/tetratelabs/wazero/api"
	"github.com/tetratelabs/wazero/internal/wasmruntime"
	"github.com/tetratelabs/wazero/sys"
)

// HostLog records host-function calls in order.
type HostLog struct{ Events [][]uint64 } // [h, args...]

// StdHost is the deterministic host function shared with the Coq model (Wasm/Harness.v std_host):
// result i (of width w) = (sum of args + 7*h + 1 + i) mod 2^w.
func StdHost(h int, args []uint64, res []byte) []uint64 {
	var sum uint64
	for _, a := range args {
		sum += a
	}
	out := make([]uint64, len(res))
	for i, t := range res {
		v := sum + 7*uint64(h) + 1 + uint64(i)
		if t == I32 {
			v &= 0xffffffff
		}
		out[i] = v
	}
	return out
}

func vts(ts []byte) []api.ValueType {
	o := make([]api.ValueType, len(ts))
	for i, t := range ts {
		o[i] = api.ValueType(t)
	}
	return o
}

// InstantiateEnv builds the "env" host module for the import list of m, logging every call.
func InstantiateEnv(ctx context.Context, r wazero.Runtime, m *ModSpec, log *HostLog) error {
	b := r.NewHostModuleBuilder("env")
	for i, h := range m.Hosts {
		h := h
		body := func(stack []uint64) {
			args := make([]uint64, len(h.Sig.P))
			copy(args, stack[:len(h.Sig.P)])
			for j, t := range h.Sig.P {
				if t == I32 {
					args[j] &= 0xffffffff
				}
			}
			log.Events = append(log.Events, append([]uint64{uint64(h.H)}, args...))
			copy(stack, StdHost(h.H, args, h.Sig.R))
		}
		// both stack-based definition styles: odd hosts take no api.Module (api.GoFunction), even ones do
		if h.H%2 == 1 {
			b = b.NewFunctionBuilder().WithGoFunction(api.GoFunc(func(ctx context.Context, stack []uint64) { body(stack) }),
				vts(h.Sig.P), vts(h.Sig.R)).Export(fmt.Sprintf("h%d", i))
		} else {
			b = b.NewFunctionBuilder().WithGoModuleFunction(api.GoModuleFunc(func(ctx context.Context, mod api.Module, stack []uint64) { body(stack) }),
				vts(h.Sig.P), vts(h.Sig.R)).Export(fmt.Sprintf("h%d", i))
		}
	}
	_, err := b.Instantiate(ctx)
	return err
}

// TrapClass projects an error returned by a call onto the classes of the reference semantics.
func TrapClass(err error) string {
	var ee *sys.ExitError
	switch {
	case err == nil:
		return ""
	case errors.As(err, &ee):
		return fmt.Sprintf("exit:%d", ee.ExitCode())
	case errors.Is(err, wasmruntime.ErrRuntimeUnreachable):
		return "unreachable"
	case errors.Is(err, wasmruntime.ErrRuntimeIntegerDivideByZero), errors.Is(err, wasmruntime.ErrRuntimeIntegerOverflow):
		return "div"
	case errors.Is(err, wasmruntime.ErrRuntimeOutOfBoundsMemoryAccess):
		return "oob"
	case errors.Is(err, wasmruntime.ErrRuntimeInvalidTableAccess), errors.Is(err, wasmruntime.ErrRuntimeIndirectCallTypeMismatch):
		return "indirect"
	case errors.Is(err, wasmruntime.ErrRuntimeStackOverflow):
		return "exhaust"
	case errors.Is(err, wasmruntime.ErrRuntimeInvalidConversionToInteger):
		return "conv"
	}
	msg := err.Error()
	if i := strings.Index(msg, "\n"); i > 0 {
		msg = msg[:i]
	}
	return "other:" + msg
}

// CallObs is the observation of one export call.
type CallObs struct {
	Res  []uint64 `json:"res,omitempty"`
	Trap string   `json:"trap,omitempty"`
}

// NonZero dumps the non-zero bytes of a memory as sorted (addr, value) pairs (at most limit).
func NonZero(mem api.Memory, limit int) [][2]uint32 {
	var o [][2]uint32
	if mem == nil {
		return o
	}
	pg, _ := mem.Grow(0)
	n := uint64(pg) << 16
	if n > 1<<26 {
		n = 1 << 26
	}
	buf, _ := mem.Read(0, uint32(n))
	for i, b := range buf {
		if b != 0 {
			o = append(o, [2]uint32{uint32(i), uint32(b)})
			if len(o) >= limit {
				break
			}
		}
	}
	sort.Slice(o, func(i, j int) bool { return o[i][0] < o[j][0] })
	return o
}

func MaskRes(vs []uint64, ts []byte) []uint64 {
	o := make([]uint64, len(vs))
	for i, v := range vs {
		if i < len(ts) && ts[i] == I32 {
			v &= 0xffffffff
		}
		o[i] = v
	}
	return o
}
