// Package common: minimal WebAssembly binary encoder, PRNG and JSON-lines output shared by the
// correspondence harnesses. Compiled into the wazero module via `go build -overlay`.
package common

import (
	"bufio"
	"encoding/json"
	"os"
)

func U32(v uint32) []byte {
	var o []byte
	for {
		b := byte(v & 0x7f)
		v >>= 7
		if v != 0 {
			o = append(o, b|0x80)
		} else {
			return append(o, b)
		}
	}
}

func S64(v int64) []byte {
	var o []byte
	for {
		b := byte(v & 0x7f)
		s := b&0x40 != 0
		v >>= 7
		if (v == 0 && !s) || (v == -1 && s) {
			return append(o, b)
		}
		o = append(o, b|0x80)
	}
}
func S32(v int32) []byte { return S64(int64(v)) }
func Vec(items ...[]byte) []byte {
	o := U32(uint32(len(items)))
	for _, i := range items {
		o = append(o, i...)
	}
	return o
}
func Cat(bs ...[]byte) []byte {
	var o []byte
	for _, b := range bs {
		o = append(o, b...)
	}
	return o
}
func Sec(id byte, body []byte) []byte {
	if body == nil {
		return nil
	}
	return Cat([]byte{id}, U32(uint32(len(body))), body)
}
func Name(s string) []byte { return Cat(U32(uint32(len(s))), []byte(s)) }

const (
	I32       = 0x7f
	I64       = 0x7e
	F32       = 0x7d
	F64       = 0x7c
	V128      = 0x7b
	FuncRef   = 0x70
	ExternRef = 0x6f
)

func FT(params, results []byte) []byte {
	return Cat([]byte{0x60}, U32(uint32(len(params))), params, U32(uint32(len(results))), results)
}

type Mod struct {
	Types, Imports, Funcs, Tables, Mems, Globals, Exports, Elems, Codes, Datas [][]byte
	Start                                                                      []byte
	DataCount                                                                  bool
	Custom                                                                     [][]byte // raw custom sections appended at the end
}

func (m *Mod) Bytes() []byte {
	o := []byte{0, 0x61, 0x73, 0x6d, 1, 0, 0, 0}
	add := func(id byte, items [][]byte) {
		if len(items) > 0 {
			o = append(o, Sec(id, Vec(items...))...)
		}
	}
	add(1, m.Types)
	add(2, m.Imports)
	add(3, m.Funcs)
	add(4, m.Tables)
	add(5, m.Mems)
	add(6, m.Globals)
	add(7, m.Exports)
	if m.Start != nil {
		o = append(o, Sec(8, m.Start)...)
	}
	add(9, m.Elems)
	if m.DataCount {
		o = append(o, Sec(12, U32(uint32(len(m.Datas))))...)
	}
	add(10, m.Codes)
	add(11, m.Datas)
	for _, c := range m.Custom {
		o = append(o, Sec(0, c)...)
	}
	return o
}

// Code builds a function body; locals lists one type per local.
func Code(locals []byte, body ...[]byte) []byte {
	var l [][]byte
	for _, t := range locals {
		l = append(l, Cat(U32(1), []byte{t}))
	}
	b := Cat(Vec(l...), Cat(body...), []byte{0x0b})
	return Cat(U32(uint32(len(b))), b)
}
func Export(name string, kind byte, idx uint32) []byte {
	return Cat(Name(name), []byte{kind}, U32(idx))
}
func ImportFunc(mod, name string, typ uint32) []byte {
	return Cat(Name(mod), Name(name), []byte{0}, U32(typ))
}
func B(b ...byte) []byte          { return b }
func I32Const(v int32) []byte     { return Cat(B(0x41), S32(v)) }
func I64Const(v int64) []byte     { return Cat(B(0x42), S64(v)) }
func LocalGet(i uint32) []byte    { return Cat(B(0x20), U32(i)) }
func LocalSet(i uint32) []byte    { return Cat(B(0x21), U32(i)) }
func LocalTee(i uint32) []byte    { return Cat(B(0x22), U32(i)) }
func GlobalGet(i uint32) []byte   { return Cat(B(0x23), U32(i)) }
func GlobalSet(i uint32) []byte   { return Cat(B(0x24), U32(i)) }
func Call(i uint32) []byte        { return Cat(B(0x10), U32(i)) }
func MemArg(align, off uint32) []byte { return Cat(U32(align), U32(off)) }
func MemLimits(min uint32, max *uint32) []byte {
	if max == nil {
		return Cat(B(0), U32(min))
	}
	return Cat(B(1), U32(min), U32(*max))
}

// ---- deterministic PRNG (splitmix64): every random choice of a harness derives from one seed ----
type Rng struct{ s uint64 }

// NewRng scrambles the seed with the splitmix finalizer so that consecutive seeds give unrelated streams.
func NewRng(seed uint64) *Rng {
	z := seed + 0x9E3779B97F4A7C15
	z = (z ^ (z >> 30)) * 0xBF58476D1CE4E5B9
	z = (z ^ (z >> 27)) * 0x94D049BB133111EB
	return &Rng{z ^ (z >> 31)}
}
func (r *Rng) U64() uint64 {
	r.s += 0x9E3779B97F4A7C15
	z := r.s
	z = (z ^ (z >> 30)) * 0xBF58476D1CE4E5B9
	z = (z ^ (z >> 27)) * 0x94D049BB133111EB
	return z ^ (z >> 31)
}
func (r *Rng) Intn(n int) int      { return int(r.U64() % uint64(n)) }
func (r *Rng) Bool() bool          { return r.U64()&1 == 1 }
func (r *Rng) Pick(xs []uint64) uint64 { return xs[r.Intn(len(xs))] }

// ---- JSON lines output ----
type Out struct{ w *bufio.Writer }

func NewOut() *Out { return &Out{bufio.NewWriterSize(os.Stdout, 1<<20)} }
func (o *Out) Emit(v any) {
	b, err := json.Marshal(v)
	if err != nil {
		panic(err)
	}
	o.w.Write(b)
	o.w.WriteByte('\n')
}
func (o *Out) Flush() { o.w.Flush() }
