// C20 correspondence harness: generated programs run with a recording FunctionListenerFactory on both
// engines (all functions listened, or a random subset); the event stream, the stack iterator contents at
// every before-event and the call results are printed for comparison with the reference semantics.
package main

import (
	"context"
	"encoding/hex"
	"flag"
	"fmt"
	"sync"

	"github.com/tetratelabs/wazero"
	"github.com/tetratelabs/wazero/api"
	"github.com/tetratelabs/wazero/experimental"
	c "github.com/tetratelabs/wazero/internal/zz_verif/common"
)

type EngObs struct {
	Obs      []c.CallObs `json:"obs"`
	HLog     [][]uint64  `json:"hlog"`
	Globals  []uint64    `json:"globals"`
	Events   [][]uint64  `json:"events"` // kind(0 before,1 after,2 abort), fa, values...
	StackBad string      `json:"stack_bad,omitempty"`
	Plain    []c.CallObs `json:"plain"` // the same calls on a fresh instance without listeners
	Err      string      `json:"err,omitempty"`
}

type Case struct {
	ID      int               `json:"id"`
	Store   string            `json:"store"`
	HRes    [][]int           `json:"hres"`
	Calls   [][]uint64        `json:"calls"`
	Mask    []bool            `json:"mask"`
	All     bool              `json:"all"`
	Engines map[string]EngObs `json:"engines"`
	Wasm    string            `json:"wasm"`
	Lib     string            `json:"lib,omitempty"`   // hex of a second module "lib" instantiated first (cross-module cases)
	CloseCM bool              `json:"close_cm"`        // the CompiledModule values are closed after instantiation, before the calls (documented as safe)
	Decoy   []bool            `json:"decoy,omitempty"` // the same binary was compiled before, on the same runtime, with THIS listener set (kept open)
}

type rec struct {
	mu     sync.Mutex
	m      *c.ModSpec
	mask   []bool
	all    bool
	events [][]uint64
	open   []uint64 // function addresses of open before-events
	bad    string
}

func (r *rec) fa(def api.FunctionDefinition) int {
	if def.ModuleName() == "lib" {
		return 100 + int(def.Index())
	}
	return int(def.Index())
}

type lst struct {
	r  *rec
	fa int
}

func mask32(vs []uint64, ts []api.ValueType) []uint64 {
	o := make([]uint64, len(vs))
	for i, v := range vs {
		if i < len(ts) && ts[i] == api.ValueTypeI32 {
			v &= 0xffffffff
		}
		o[i] = v
	}
	return o
}

func (l lst) Before(ctx context.Context, mod api.Module, def api.FunctionDefinition, params []uint64, it experimental.StackIterator) {
	r := l.r
	r.events = append(r.events, append([]uint64{0, uint64(l.fa)}, mask32(params, def.ParamTypes())...))
	if r.all && r.bad == "" {
		// the stack iterator must list the real call chain, callee outward = this function, then the open befores
		want := []uint64{uint64(l.fa)}
		for i := len(r.open) - 1; i >= 0; i-- {
			want = append(want, r.open[i])
		}
		var got []uint64
		for it.Next() {
			got = append(got, uint64(r.fa(it.Function().Definition())))
		}
		if fmt.Sprint(got) != fmt.Sprint(want) {
			r.bad = fmt.Sprintf("at before(%d): iterator %v, open calls %v", l.fa, got, want)
		}
	}
	r.open = append(r.open, uint64(l.fa))
}
func (l lst) After(ctx context.Context, mod api.Module, def api.FunctionDefinition, results []uint64) {
	l.r.events = append(l.r.events, append([]uint64{1, uint64(l.fa)}, mask32(results, def.ResultTypes())...))
	if n := len(l.r.open); n > 0 {
		l.r.open = l.r.open[:n-1]
	}
}
func (l lst) Abort(ctx context.Context, mod api.Module, def api.FunctionDefinition, err error) {
	l.r.events = append(l.r.events, []uint64{2, uint64(l.fa)})
	if n := len(l.r.open); n > 0 {
		l.r.open = l.r.open[:n-1]
	}
}

func (r *rec) NewFunctionListener(def api.FunctionDefinition) experimental.FunctionListener {
	fa := r.fa(def)
	if fa >= 100 || (fa < len(r.mask) && r.mask[fa]) {
		return lst{r, fa}
	}
	return nil
}

func instantiate(ctx context.Context, rt wazero.Runtime, bin []byte, name string, closeCM bool) (api.Module, error) {
	cm, err := rt.CompileModule(ctx, bin)
	if err != nil {
		return nil, err
	}
	mod, err := rt.InstantiateModule(ctx, cm, wazero.NewModuleConfig().WithName(name))
	if err == nil && closeCM {
		_ = cm.Close(ctx)
	}
	return mod, err
}

func runOn(engine string, m *c.ModSpec, bin []byte, calls [][]uint64, mask []bool, all bool, lib []byte, closeCM bool, decoy []bool) (eo EngObs) {
	defer func() {
		if e := recover(); e != nil {
			eo.Err = fmt.Sprint("PANIC: ", e)
		}
	}()
	for pass := 0; pass < 2; pass++ {
		ctx := context.Background()
		r := &rec{m: m, mask: mask, all: all}
		if pass == 0 {
			ctx = experimental.WithFunctionListenerFactory(ctx, r)
		}
		var rc wazero.RuntimeConfig
		if engine == "compiler" {
			rc = wazero.NewRuntimeConfigCompiler()
		} else {
			rc = wazero.NewRuntimeConfigInterpreter()
		}
		rt := wazero.NewRuntimeWithConfig(ctx, rc)
		log := &c.HostLog{}
		if err := c.InstantiateEnv(ctx, rt, m, log); err != nil {
			eo.Err = "env: " + err.Error()
			return
		}
		if lib != nil {
			if _, err := instantiate(ctx, rt, lib, "lib", closeCM); err != nil {
				eo.Err = "instantiate lib: " + err.Error()
				return
			}
		}
		if pass == 0 && decoy != nil {
			// an earlier compilation of the same bytes with another listener set must not be taken for this one
			dr := &rec{m: m, mask: decoy}
			if _, err := rt.CompileModule(experimental.WithFunctionListenerFactory(context.Background(), dr), bin); err != nil {
				eo.Err = "decoy compile: " + err.Error()
				return
			}
		}
		mod, err := instantiate(ctx, rt, bin, "m", closeCM)
		if err != nil {
			eo.Err = "instantiate: " + err.Error()
			return
		}
		var obs []c.CallObs
		for _, cl := range calls {
			fi := int(cl[0])
			res, err := mod.ExportedFunction(fmt.Sprintf("f%d", fi)).Call(ctx, cl[1:]...)
			if err != nil {
				obs = append(obs, c.CallObs{Trap: c.TrapClass(err)})
			} else if lib != nil {
				obs = append(obs, c.CallObs{Res: c.MaskRes(res, []byte{c.I32})})
			} else {
				obs = append(obs, c.CallObs{Res: c.MaskRes(res, m.FuncSig(fi).R)})
			}
		}
		if pass == 0 {
			eo.Obs, eo.HLog, eo.Events, eo.StackBad = obs, log.Events, r.events, r.bad
			for i, t := range m.Globals {
				v := mod.ExportedGlobal(fmt.Sprintf("g%d", i)).Get()
				if t == c.I32 {
					v &= 0xffffffff
				}
				eo.Globals = append(eo.Globals, v)
			}
		} else {
			eo.Plain = obs
		}
		rt.Close(ctx)
	}
	return
}

func main() {
	seed := flag.Uint64("seed", 1, "")
	n := flag.Int("n", 100, "")
	ln := flag.Int("ln", 40, "linked cases")
	flag.Parse()
	rng := c.NewRng(*seed)
	out := c.NewOut()
	defer out.Flush()
	cases := make([]Case, *n)
	mods := make([]*c.ModSpec, *n)
	bins := make([][]byte, *n)
	libs := make([][]byte, *n)
	for i := 0; i < *n; i++ {
		g := &c.Gen{R: rng, OOBRate: 1 + rng.Intn(2), TrapRate: 3 + rng.Intn(6)}
		m := g.Program(3 + rng.Intn(4))
		bin := m.Encode()
		var calls [][]uint64
		for k := 2 + rng.Intn(4); k > 0; k-- {
			fi := len(m.Hosts) + rng.Intn(len(m.Funcs))
			cl := []uint64{uint64(fi)}
			for _, t := range m.FuncSig(fi).P {
				v := rng.Pick([]uint64{0, 1, 2, 3, 0xffffffff, 0x80000000, rng.U64(), rng.U64()})
				if t == c.I32 {
					v &= 0xffffffff
				}
				cl = append(cl, v)
			}
			calls = append(calls, cl)
		}
		nf := len(m.Hosts) + len(m.Funcs)
		mask := make([]bool, nf)
		all := rng.Intn(2) == 0
		for j := range mask {
			mask[j] = all || rng.Intn(2) == 0
		}
		var hres [][]int
		for _, h := range m.Hosts {
			ws := []int{}
			for _, t := range h.Sig.R {
				if t == c.I64 {
					ws = append(ws, 64)
				} else {
					ws = append(ws, 32)
				}
			}
			hres = append(hres, ws)
		}
		cases[i] = Case{ID: i, Store: m.CoqStore(), HRes: hres, Calls: calls, Mask: mask, All: all, Wasm: hex.EncodeToString(bin), Engines: map[string]EngObs{}, CloseCM: i%3 == 1}
		if i%4 == 2 {
			d := make([]bool, nf)
			for j := range d {
				d[j] = rng.Intn(2) == 0
			}
			// the decoy must differ from the mask on a DEFINED function: two compilations of one binary on one runtime
			// with the same listener presence are one cache entry by design (see F59)
			j := len(m.Hosts) + rng.Intn(len(m.Funcs))
			d[j] = !mask[j]
			cases[i].Decoy = d
		}
		mods[i], bins[i] = m, bin
	}
	// fixed deep case: a trap (and a normal return) unwinding through more than 30 listened frames
	{
		m := &c.ModSpec{}
		m.Hosts = []c.HostSpec{{H: 0, Sig: c.Sig{P: []byte{c.I32}, R: []byte{c.I32}}}}
		f := &c.FuncSpec{Sig: c.Sig{P: []byte{c.I32, c.I32}, R: []byte{c.I32}}}
		// f(n, mode): if n == 0 { if mode { unreachable }; return h0(7) }; return f(n-1, mode) + 1
		f.Body = []c.Ins{
			c.ILocalGet(0), c.IEqz(c.I32),
			m.IIf(nil, nil, []c.Ins{c.ILocalGet(1), m.IIf(nil, nil, []c.Ins{c.IUnreachable}, nil), c.IConst(c.I32, 7), c.ICall(0), c.IReturn}, nil),
			c.ILocalGet(0), c.IConst(c.I32, 1), c.IBin(c.I32, 1), c.ILocalGet(1), c.ICall(1), c.IConst(c.I32, 1), c.IBin(c.I32, 0),
		}
		m.Funcs = []*c.FuncSpec{f}
		bin := m.Encode()
		calls := [][]uint64{{1, 45, 1}, {1, 60, 0}, {1, 33, 1}}
		cases = append(cases, Case{ID: len(cases), Store: m.CoqStore(), HRes: [][]int{{32}}, Calls: calls, Mask: []bool{true, true}, All: true,
			Wasm: hex.EncodeToString(bin), Engines: map[string]EngObs{}})
		mods, bins, libs = append(mods, m), append(bins, bin), append(libs, nil)
		cases = append(cases, Case{ID: len(cases), Store: m.CoqStore(), HRes: [][]int{{32}}, Calls: calls, Mask: []bool{true, true}, All: true,
			Wasm: hex.EncodeToString(bin), Engines: map[string]EngObs{}, CloseCM: true})
		mods, bins, libs = append(mods, m), append(bins, bin), append(libs, nil)
	}
	// fixed chain cases: 18 defined functions f1 -> f2 -> ... -> f18 (index 0 is a host import), listener sets that differ
	// only in functions whose index is 8 or 16 apart, or are nested prefixes of each other, after a decoy compilation
	{
		m := &c.ModSpec{}
		m.Hosts = []c.HostSpec{{H: 0, Sig: c.Sig{P: []byte{c.I32}, R: []byte{c.I32}}}}
		for i := 1; i <= 18; i++ {
			f := &c.FuncSpec{Sig: c.Sig{P: []byte{c.I32}, R: []byte{c.I32}}}
			if i < 18 {
				f.Body = []c.Ins{c.ILocalGet(0), c.ICall(i + 1), c.IConst(c.I32, 1), c.IBin(c.I32, 0)}
			} else {
				f.Body = []c.Ins{c.ILocalGet(0), c.ICall(0)}
			}
			m.Funcs = append(m.Funcs, f)
		}
		bin := m.Encode()
		set := func(idx ...int) []bool {
			b := make([]bool, 19)
			for _, i := range idx {
				b[i] = true
			}
			return b
		}
		upto := func(n int) []bool {
			b := make([]bool, 19)
			for i := 0; i <= n; i++ {
				b[i] = true
			}
			return b
		}
		for _, pr := range [][2][]bool{{set(1, 9), set(1)}, {set(1), set(1, 9)}, {upto(18), upto(8)}, {upto(8), upto(18)}, {set(2, 10, 18), set(2, 10)},
			{set(0, 1, 17), set(0, 1, 9, 17)}, {set(5, 13), set(13)}, {set(3, 4, 12), set(3, 4, 11)}} {
			cases = append(cases, Case{ID: len(cases), Store: m.CoqStore(), HRes: [][]int{{32}}, Calls: [][]uint64{{1, 5}, {9, 7}}, Mask: pr[0], All: false,
				Wasm: hex.EncodeToString(bin), Engines: map[string]EngObs{}, Decoy: pr[1]})
			mods, bins, libs = append(mods, m), append(bins, bin), append(libs, nil)
		}
	}
	// fixed cross-module cases: a listened function calls a listened function of ANOTHER module and then returns through
	// each kind of return path (end, br, taken/untaken br_if to the function label, br_table, return)
	{
		lib := &c.Mod{}
		lib.Types = [][]byte{c.FT(c.B(c.I32), c.B(c.I32))}
		lib.Funcs = [][]byte{c.U32(0), c.U32(0)}
		lib.Mems = [][]byte{c.MemLimits(1, nil)}
		lib.Exports = [][]byte{c.Export("g", 0, 0), c.Export("g2", 0, 1)}
		lib.Codes = [][]byte{
			c.Code(nil, c.LocalGet(0), c.I32Const(1), c.B(0x6a)),
			c.Code(nil, c.I32Const(0), c.B(0x40, 0), c.B(0x1a), c.LocalGet(0), c.Call(0), c.I32Const(2), c.B(0x6c)),
		}
		libBin := lib.Bytes()
		mm := &c.Mod{}
		mm.Types = [][]byte{c.FT(c.B(c.I32), c.B(c.I32))}
		mm.Imports = [][]byte{c.ImportFunc("lib", "g", 0), c.ImportFunc("lib", "g2", 0)}
		bodies := [][]byte{
			c.Cat(c.LocalGet(0), c.Call(0)),                                                                   // end
			c.Cat(c.LocalGet(0), c.Call(1), c.B(0x0c, 0)),                                                     // br 0
			c.Cat(c.LocalGet(0), c.Call(0), c.LocalGet(0), c.B(0x0d, 0), c.B(0x1a), c.I32Const(99)),           // br_if 0 (taken iff x != 0)
			c.Cat(c.LocalGet(0), c.Call(1), c.B(0x0f)),                                                        // return
			c.Cat(c.LocalGet(0), c.Call(0), c.I32Const(0), c.B(0x0e, 0, 0)),                                   // br_table
			c.Cat(c.LocalGet(0), c.Call(2), c.LocalGet(0), c.B(0x0d, 0), c.B(0x1a), c.LocalGet(0), c.Call(1)), // nested local call then br_if
		}
		for i, b := range bodies {
			mm.Funcs = append(mm.Funcs, c.U32(0))
			mm.Codes = append(mm.Codes, c.Code(nil, b))
			mm.Exports = append(mm.Exports, c.Export(fmt.Sprintf("f%d", i+2), 0, uint32(i+2)))
		}
		mainBin := mm.Bytes()
		var calls [][]uint64
		for i := range bodies {
			calls = append(calls, []uint64{uint64(i + 2), 5}, []uint64{uint64(i + 2), 0})
		}
		mask := make([]bool, 2+len(bodies))
		for i := range mask {
			mask[i] = true
		}
		cases = append(cases, Case{ID: len(cases), Store: "", HRes: nil, Calls: calls, Mask: mask, All: false,
			Wasm: hex.EncodeToString(mainBin), Lib: hex.EncodeToString(libBin), Engines: map[string]EngObs{}})
		mods, bins, libs = append(mods, &c.ModSpec{}), append(bins, mainBin), append(libs, libBin)
	}
	var wg sync.WaitGroup
	var mu sync.Mutex
	sem := make(chan struct{}, 12)
	for i := range cases {
		for _, eng := range []string{"interp", "compiler"} {
			wg.Add(1)
			sem <- struct{}{}
			go func(i int, eng string) {
				defer wg.Done()
				defer func() { <-sem }()
				eo := runOn(eng, mods[i], bins[i], cases[i].Calls, cases[i].Mask, cases[i].All, libs[i], cases[i].CloseCM, cases[i].Decoy)
				mu.Lock()
				cases[i].Engines[eng] = eo
				mu.Unlock()
			}(i, eng)
		}
	}
	wg.Wait()
	for i := range cases {
		out.Emit(cases[i])
	}
	// linked cases (link.go): several modules, start functions, failure paths at depth, listener subsets
	lrng := c.NewRng(*seed ^ 0x5eed1e)
	lcs := make([]*lcase, *ln)
	for i := range lcs {
		lcs[i] = genLinked(lrng, i)
	}
	lcs = append(lcs, fixedLinked(false, "alternate"), fixedLinked(false, "hosts"), fixedLinked(false, "guests"), fixedLinked(true, "alternate"))
	outs := make([]LCase, len(lcs))
	for i := range lcs {
		outs[i] = lcs[i].export(len(cases) + i)
		outs[i].Fixed = i >= *ln
	}
	for i := range lcs {
		for _, eng := range []string{"interp", "compiler"} {
			wg.Add(1)
			sem <- struct{}{}
			go func(i int, eng string) {
				defer wg.Done()
				defer func() { <-sem }()
				po := map[string]passObs{"A": runLinked(eng, lcs[i], allMask(lcs[i])), "plain": runLinked(eng, lcs[i], nil)}
				if lcs[i].mode != "all" {
					po["B"] = runLinked(eng, lcs[i], lcs[i].mask)
				}
				mu.Lock()
				outs[i].Engines[eng] = po
				mu.Unlock()
			}(i, eng)
		}
	}
	wg.Wait()
	for i := range outs {
		out.Emit(outs[i])
	}
}
