// C15 correspondence harness: every exported function of wasi_snapshot_preview1 is called through a PROXY guest
// module (one exported guest function per import, forwarding its parameters with `call`), with argument tuples
// from the boundary product of pointers/lengths/counts/descriptors/flags, on small pattern-filled memories, a
// temp-dir preopen, logging stdio and (optionally) a TCP listener. One JSON line per call: inputs, descriptor
// table before/after, placed memory, result class, memory diff, host reader/writer calls, heap growth.
package main

import (
	"context"
	"encoding/hex"
	"encoding/json"
	"errors"
	"flag"
	"fmt"
	"io"
	"io/fs"
	"net"
	"os"
	"path/filepath"
	"runtime"
	"runtime/metrics"
	"sort"
	"strings"
	"time"

	"github.com/tetratelabs/wazero"
	"github.com/tetratelabs/wazero/api"
	expsock "github.com/tetratelabs/wazero/experimental/sock"
	experimentalsys "github.com/tetratelabs/wazero/experimental/sys"
	expsysfs "github.com/tetratelabs/wazero/experimental/sysfs"
	wasi "github.com/tetratelabs/wazero/imports/wasi_snapshot_preview1"
	"github.com/tetratelabs/wazero/internal/fsapi"
	socketapi "github.com/tetratelabs/wazero/internal/sock"
	internalsys "github.com/tetratelabs/wazero/internal/sys"
	"github.com/tetratelabs/wazero/internal/sysfs"
	"github.com/tetratelabs/wazero/internal/wasm"
	"github.com/tetratelabs/wazero/internal/wasmruntime"
	c "github.com/tetratelabs/wazero/internal/zz_verif/common"
	wsys "github.com/tetratelabs/wazero/sys"
)

const fill = 0xA5

// memory layout of the placed data (all inside the first page)
const (
	aIovs  = 0x100  // 8 iovec entries
	aSubs  = 0x200  // 8 subscriptions
	aPaths = 0x400  // path strings, 32 bytes apart
	aOut   = 0x800  // result slots, 64 bytes apart
	aBuf   = 0x1000 // 4 data buffers of 1 KiB
	aBig   = 0x2000 // 8 KiB buffer
)

var paths = []string{"a.txt", "dir", "new", "ln", "dir/x", "../x", "nope", "dir/", "b.txt", "."}

// ---------------------------------------------------------------- parameter roles

type pk int

const (
	pFd pk = iota
	pOut    // result pointer of fixed size sz
	pPath   // pointer to a path string
	pPathLen
	pIovs
	pIovCnt
	pBuf // output buffer pointer
	pBufLen
	pSubs
	pEvOut
	pNsubs
	pI64
	pFlags
	pClock
	pWhence
	pAdvice
	pHow
	pExit
)

type pspec struct {
	k  pk
	sz uint32
}

func po(sz uint32) pspec { return pspec{pOut, sz} }

var (
	fd_, path_, plen_, iovs_, icnt_, buf_, blen_, i64_, fl_ = pspec{k: pFd}, pspec{k: pPath}, pspec{k: pPathLen}, pspec{k: pIovs}, pspec{k: pIovCnt},
		pspec{k: pBuf}, pspec{k: pBufLen}, pspec{k: pI64}, pspec{k: pFlags}
)

var specs = map[string][]pspec{
	"args_get":                {{pBuf, 0}, {pBuf, 0}},
	"args_sizes_get":          {po(4), po(4)},
	"environ_get":             {{pBuf, 0}, {pBuf, 0}},
	"environ_sizes_get":       {po(4), po(4)},
	"clock_res_get":           {{k: pClock}, po(8)},
	"clock_time_get":          {{k: pClock}, i64_, po(8)},
	"fd_advise":               {fd_, i64_, i64_, {k: pAdvice}},
	"fd_allocate":             {fd_, i64_, i64_},
	"fd_close":                {fd_},
	"fd_datasync":             {fd_},
	"fd_fdstat_get":           {fd_, po(24)},
	"fd_fdstat_set_flags":     {fd_, fl_},
	"fd_fdstat_set_rights":    {fd_, i64_, i64_},
	"fd_filestat_get":         {fd_, po(64)},
	"fd_filestat_set_size":    {fd_, i64_},
	"fd_filestat_set_times":   {fd_, i64_, i64_, fl_},
	"fd_pread":                {fd_, iovs_, icnt_, i64_, po(4)},
	"fd_prestat_get":          {fd_, po(8)},
	"fd_prestat_dir_name":     {fd_, buf_, blen_},
	"fd_pwrite":               {fd_, iovs_, icnt_, i64_, po(4)},
	"fd_read":                 {fd_, iovs_, icnt_, po(4)},
	"fd_readdir":              {fd_, buf_, blen_, i64_, po(4)},
	"fd_renumber":             {fd_, fd_},
	"fd_seek":                 {fd_, i64_, {k: pWhence}, po(8)},
	"fd_sync":                 {fd_},
	"fd_tell":                 {fd_, po(8)},
	"fd_write":                {fd_, iovs_, icnt_, po(4)},
	"path_create_directory":   {fd_, path_, plen_},
	"path_filestat_get":       {fd_, fl_, path_, plen_, po(64)},
	"path_filestat_set_times": {fd_, fl_, path_, plen_, i64_, i64_, fl_},
	"path_link":               {fd_, fl_, path_, plen_, fd_, path_, plen_},
	"path_open":               {fd_, fl_, path_, plen_, fl_, i64_, i64_, fl_, po(4)},
	"path_readlink":           {fd_, path_, plen_, buf_, blen_, po(4)},
	"path_remove_directory":   {fd_, path_, plen_},
	"path_rename":             {fd_, path_, plen_, fd_, path_, plen_},
	"path_symlink":            {path_, plen_, fd_, path_, plen_},
	"path_unlink_file":        {fd_, path_, plen_},
	"poll_oneoff":             {{k: pSubs}, {k: pEvOut}, {k: pNsubs}, po(4)},
	"proc_exit":               {{k: pExit}},
	"proc_raise":              {fl_},
	"sched_yield":             {},
	"random_get":              {buf_, blen_},
	"sock_accept":             {fd_, fl_, po(4)},
	"sock_recv":               {fd_, iovs_, icnt_, fl_, po(4), po(2)},
	"sock_send":               {fd_, iovs_, icnt_, fl_, po(4)},
	"sock_shutdown":           {fd_, {k: pHow}},
}

// ---------------------------------------------------------------- logging stdio and file system

type ioRec [3]int64 // len(buf), n, errno (experimental/sys numbering)

type logReader struct {
	left int
	log  *[]ioRec
}

func (r *logReader) Read(b []byte) (int, error) {
	n := len(b)
	if n > r.left {
		n = r.left
	}
	for i := 0; i < n; i++ {
		b[i] = 'i'
	}
	r.left -= n
	var err error
	if n == 0 && len(b) > 0 {
		err = io.EOF
	}
	*r.log = append(*r.log, ioRec{int64(len(b)), int64(n), int64(experimentalsys.UnwrapOSError(err))})
	return n, err
}

type logWriter struct{ log *[]ioRec }

func (w *logWriter) Write(b []byte) (int, error) {
	*w.log = append(*w.log, ioRec{int64(len(b)), int64(len(b)), 0})
	return len(b), nil
}

type logFS struct {
	experimentalsys.FS
	log *[]ioRec
}

func (l *logFS) OpenFile(path string, flag experimentalsys.Oflag, perm fs.FileMode) (experimentalsys.File, experimentalsys.Errno) {
	f, errno := l.FS.OpenFile(path, flag, perm)
	if errno != 0 {
		return nil, errno
	}
	return &logFile{File: fsapi.Adapt(f), log: l.log}, 0
}

type logFile struct {
	fsapi.File
	log *[]ioRec
}

func (f *logFile) rec(l, n int, e experimentalsys.Errno) {
	*f.log = append(*f.log, ioRec{int64(l), int64(n), int64(e)})
}
func (f *logFile) Read(b []byte) (int, experimentalsys.Errno) {
	n, e := f.File.Read(b)
	f.rec(len(b), n, e)
	return n, e
}
func (f *logFile) Pread(b []byte, off int64) (int, experimentalsys.Errno) {
	n, e := f.File.Pread(b, off)
	f.rec(len(b), n, e)
	return n, e
}
func (f *logFile) Write(b []byte) (int, experimentalsys.Errno) {
	n, e := f.File.Write(b)
	f.rec(len(b), n, e)
	return n, e
}
func (f *logFile) Pwrite(b []byte, off int64) (int, experimentalsys.Errno) {
	n, e := f.File.Pwrite(b, off)
	f.rec(len(b), n, e)
	return n, e
}

type patRand struct{}

func (patRand) Read(b []byte) (int, error) {
	for i := range b {
		b[i] = 0x11
	}
	return len(b), nil
}

// ---------------------------------------------------------------- runtime, proxy, world

type engine struct {
	name    string
	r       wazero.Runtime
	proxies map[uint32]wazero.CompiledModule
	defs    map[string]api.FunctionDefinition
	names   []string
}

func proxyModule(names []string, defs map[string]api.FunctionDefinition, pages uint32, withMem bool) []byte {
	m := &c.Mod{}
	for i, n := range names {
		d := defs[n]
		var ps, rs []byte
		for _, t := range d.ParamTypes() {
			ps = append(ps, byte(t))
		}
		for _, t := range d.ResultTypes() {
			rs = append(rs, byte(t))
		}
		m.Types = append(m.Types, c.FT(ps, rs))
		m.Imports = append(m.Imports, c.ImportFunc(wasi.ModuleName, n, uint32(i)))
	}
	for i, n := range names {
		m.Funcs = append(m.Funcs, c.U32(uint32(i)))
		var body [][]byte
		for j := range defs[n].ParamTypes() {
			body = append(body, c.LocalGet(uint32(j)))
		}
		body = append(body, c.Call(uint32(i)))
		m.Codes = append(m.Codes, c.Code(nil, body...))
		m.Exports = append(m.Exports, c.Export(n, 0, uint32(len(names)+i)))
	}
	if withMem {
		mx := uint32(4)
		m.Mems = [][]byte{c.MemLimits(pages, &mx)}
		m.Exports = append(m.Exports, c.Export("memory", 2, 0))
	}
	return m.Bytes()
}

func newEngine(ctx context.Context, name string) (*engine, error) {
	var rc wazero.RuntimeConfig
	if name == "compiler" {
		rc = wazero.NewRuntimeConfigCompiler()
	} else {
		rc = wazero.NewRuntimeConfigInterpreter()
	}
	e := &engine{name: name, r: wazero.NewRuntimeWithConfig(ctx, rc), proxies: map[uint32]wazero.CompiledModule{}}
	cm, err := wasi.NewBuilder(e.r).Compile(ctx)
	if err != nil {
		return nil, err
	}
	e.defs = cm.ExportedFunctions()
	for n := range e.defs {
		e.names = append(e.names, n)
	}
	sort.Strings(e.names)
	if _, err := e.r.InstantiateModule(ctx, cm, wazero.NewModuleConfig().WithName(wasi.ModuleName)); err != nil {
		return nil, err
	}
	for _, pg := range []uint32{0, 1, 2, 3} { // 0: a guest without memory
		p := pg
		if p == 0 {
			p = 1
		}
		pm, err := e.r.CompileModule(ctx, proxyModule(e.names, e.defs, p, pg != 0))
		if err != nil {
			return nil, fmt.Errorf("proxy: %w", err)
		}
		e.proxies[pg] = pm
	}
	return e, nil
}

type world struct {
	e     *engine
	mod   api.Module
	mem   api.Memory
	fsc   *internalsys.FSContext
	dir   string
	log   []ioRec
	slept []int64
	pages uint32
	ms    uint64
	sock  bool
	addr  string
	conns []net.Conn
	id    int
	seq   int
	dead  bool
}

var (
	args    = []string{"prog", "-x", "hello"}
	environ = [][2]string{{"A", "1"}, {"BB", "22"}}
	baseDir string
	worldN  int
)

func newWorld(ctx context.Context, e *engine, pages uint32, sock bool) (*world, error) {
	worldN++
	w := &world{e: e, pages: pages, ms: uint64(pages) << 16, sock: sock, id: worldN}
	w.dir = filepath.Join(baseDir, fmt.Sprintf("w%d", worldN))
	if err := os.MkdirAll(filepath.Join(w.dir, "dir"), 0o755); err != nil {
		return nil, err
	}
	os.WriteFile(filepath.Join(w.dir, "a.txt"), []byte(strings.Repeat("abcdefghij", 30)), 0o644)
	os.WriteFile(filepath.Join(w.dir, "b.txt"), nil, 0o644)
	os.WriteFile(filepath.Join(w.dir, "dir", "x"), []byte("xx"), 0o644)
	os.WriteFile(filepath.Join(w.dir, "dir", "yyyyyyyyyyyyyyyyyyyy"), []byte("y"), 0o644)
	os.Symlink("a.txt", filepath.Join(w.dir, "ln"))
	lfs := &logFS{FS: sysfs.DirFS(w.dir), log: &w.log}
	cfg := wazero.NewModuleConfig().WithName("").WithArgs(args...).
		WithStdin(&logReader{left: 100, log: &w.log}).WithStdout(&logWriter{&w.log}).WithStderr(&logWriter{&w.log}).
		WithRandSource(patRand{}).WithNanosleep(func(ns int64) { w.slept = append(w.slept, ns) }).
		WithFSConfig(wazero.NewFSConfig().(expsysfs.FSConfig).WithSysFSMount(lfs, "/"))
	for _, kv := range environ {
		cfg = cfg.WithEnv(kv[0], kv[1])
	}
	ictx := ctx
	if sock {
		ictx = expsock.WithConfig(ctx, expsock.NewConfig().WithTCPListener("127.0.0.1", 0))
	}
	mod, err := e.r.InstantiateModule(ictx, e.proxies[pages], cfg)
	if err != nil {
		return nil, err
	}
	w.mod = mod
	w.mem = mod.Memory()
	w.fsc = mod.(*wasm.ModuleInstance).Sys.FS()
	if sock {
		if f, ok := w.fsc.LookupFile(4); ok {
			if s, ok := f.File.(interface{ Addr() *net.TCPAddr }); ok {
				w.addr = s.Addr().String()
			}
		}
	}
	return w, nil
}

func (w *world) close(ctx context.Context) {
	for _, cn := range w.conns {
		cn.Close()
	}
	if w.mod != nil {
		w.mod.Close(ctx)
	}
	os.RemoveAll(w.dir)
}

// dial makes one pending connection whose peer keeps sending and draining, so that guest accept/recv/send never block.
func (w *world) dial() bool {
	if w.addr == "" {
		return false
	}
	cn, err := net.DialTimeout("tcp", w.addr, 5*time.Second)
	if err != nil {
		return false
	}
	w.conns = append(w.conns, cn)
	go func() {
		b := []byte(strings.Repeat("n", 512))
		for {
			if _, err := cn.Write(b); err != nil {
				return
			}
		}
	}()
	go func() { io.Copy(io.Discard, cn) }()
	time.Sleep(2 * time.Millisecond)
	return true
}

type fdInfo struct {
	Fd      int32 `json:"fd"`
	Pre     bool  `json:"pre"`
	Dir     bool  `json:"dir"`
	NameLen int   `json:"namelen"`
	Sock    int   `json:"sock"` // 0 none, 1 listener, 2 connection
	Nb      bool  `json:"nb"`
}

func (w *world) table() []fdInfo {
	var t []fdInfo
	w.fsc.ZZRange(func(fd int32, e *internalsys.FileEntry) bool {
		fi := fdInfo{Fd: fd, Pre: e.IsPreopen, NameLen: len(e.Name), Nb: e.File.IsNonblock()}
		if _, ok := e.File.(socketapi.TCPSock); ok {
			fi.Sock = 1
		} else if _, ok := e.File.(socketapi.TCPConn); ok {
			fi.Sock = 2
		} else if d, errno := e.File.IsDir(); errno == 0 {
			fi.Dir = d
		}
		t = append(t, fi)
		return true
	})
	return t
}

type result struct {
	Kind  string `json:"kind"` // errno | exit | trap | gopanic | hostpanic | error
	Errno uint32 `json:"errno"`
	Msg   string `json:"msg,omitempty"`
}

type Case struct {
	Fn       string      `json:"fn"`
	Args     []uint64    `json:"args"`
	Eng      string      `json:"eng"`
	Ms       uint64      `json:"ms"`
	World    int         `json:"world"`
	Seq      int         `json:"seq"`
	Tag      string      `json:"tag"`
	Tbl      []fdInfo    `json:"tbl"`
	Tcap     int         `json:"tcap"`
	Placed   [][2]any    `json:"placed"` // [addr, hex]
	Res      result      `json:"res"`
	Diff     [][2]uint64 `json:"diff"`
	Coarse   bool        `json:"coarse,omitempty"`
	TblAfter []fdInfo    `json:"tbl_after"`
	TcapAft  int         `json:"tcap_after"`
	TblWf    bool        `json:"tbl_wf"`
	Alloc    uint64      `json:"alloc"`
	Log      []ioRec     `json:"log"`
	Argc     int         `json:"argc"`
	ArgLens  []int       `json:"arglens"`
	EnvLens  []int       `json:"envlens"`
	OutVal   uint64      `json:"outval"` // little-endian value at the last result pointer after the call (when readable)
	Slept    []int64     `json:"slept"`  // every duration the call handed to the configured sleep function (ns)
}

type placer struct {
	w   *world
	buf []byte
	rec [][2]any
}

func (p *placer) put(addr uint64, b []byte) {
	if addr+uint64(len(b)) > uint64(len(p.buf)) {
		return
	}
	copy(p.buf[addr:], b)
	p.rec = append(p.rec, [2]any{addr, hex.EncodeToString(b)})
}
func le32(v uint32) []byte { return []byte{byte(v), byte(v >> 8), byte(v >> 16), byte(v >> 24)} }
func le64(v uint64) []byte {
	return append(le32(uint32(v)), le32(uint32(v>>32))...)
}

func classify(err error) result {
	var ee *wsys.ExitError
	if errors.As(err, &ee) {
		return result{Kind: "exit", Errno: ee.ExitCode()}
	}
	var we *wasmruntime.Error
	if errors.As(err, &we) {
		return result{Kind: "trap", Msg: we.Error()}
	}
	msg := err.Error()
	if i := strings.Index(msg, "\n"); i > 0 {
		msg = msg[:i]
	}
	var re runtime.Error
	if errors.As(err, &re) {
		return result{Kind: "gopanic", Msg: msg}
	}
	if strings.Contains(err.Error(), "recovered by wazero") {
		return result{Kind: "hostpanic", Msg: msg}
	}
	return result{Kind: "error", Msg: msg}
}

var out *c.Out

// allocBytes is the cumulative number of heap bytes allocated (the quantity of MemStats.TotalAlloc), read through
// runtime/metrics, which does not stop the world.
var allocSample = []metrics.Sample{{Name: "/gc/heap/allocs:bytes"}}

func allocBytes() uint64 {
	metrics.Read(allocSample)
	return allocSample[0].Value.Uint64()
}

// call performs one recorded call: fill memory, place data, snapshot, call, diff.
func (w *world) call(ctx context.Context, tag, fn string, a []uint64, place func(p *placer)) *Case {
	cs := &Case{Fn: fn, Args: a, Eng: w.e.name, Ms: w.ms, World: w.id, Seq: w.seq, Tag: tag, Argc: len(args)}
	w.seq++
	for _, s := range args {
		cs.ArgLens = append(cs.ArgLens, len(s))
	}
	for _, kv := range environ {
		cs.EnvLens = append(cs.EnvLens, len(kv[0])+1+len(kv[1]))
	}
	var buf []byte
	if w.mem != nil {
		buf, _ = w.mem.Read(0, uint32(w.ms))
		for i := range buf {
			buf[i] = fill
		}
		p := &placer{w: w, buf: buf}
		if place != nil {
			place(p)
		}
		cs.Placed = p.rec
	}
	pre := append([]byte(nil), buf...)
	cs.Tbl = w.table()
	cs.Tcap = w.fsc.ZZCap()
	w.log = w.log[:0]
	w.slept = w.slept[:0]
	if fn == "sock_accept" && w.sock && !w.dial() {
		// no pending connection could be made: accepting on the (blocking) listener would wait forever
		if f, ok := w.fsc.LookupFile(int32(uint32(a[0]))); ok {
			if _, isSock := f.File.(socketapi.TCPSock); isSock {
				return nil
			}
		}
	}
	// everything recorded so far reaches the pipe before the call, and the call itself is announced, so that a
	// fatal error of the runtime (out of memory under the cap) is attributed to the right call
	out.Emit(map[string]any{"next": fn, "args": a, "world": w.id})
	out.Flush()
	f := w.mod.ExportedFunction(fn)
	wd := time.AfterFunc(30*time.Second, func() {
		cs.Res = result{Kind: "hang"}
		out.Emit(cs)
		out.Flush()
		os.Exit(3)
	})
	a0 := allocBytes()
	res, err := f.Call(ctx, a...)
	cs.Alloc = allocBytes() - a0
	wd.Stop()
	if err != nil {
		cs.Res = classify(err)
		if cs.Res.Kind == "exit" {
			w.dead = true
		}
	} else if len(res) > 0 {
		cs.Res = result{Kind: "errno", Errno: uint32(res[0])}
	} else {
		cs.Res = result{Kind: "errno"}
	}
	cs.Log = append([]ioRec(nil), w.log...)
	cs.Slept = append([]int64{}, w.slept...)
	if w.mem != nil {
		post, _ := w.mem.Read(0, uint32(w.ms))
		if uint64(len(post)) != w.ms {
			cs.Res = result{Kind: "error", Msg: "memory size changed"}
		} else {
			i := 0
			for i < len(post) {
				if post[i] == pre[i] {
					i++
					continue
				}
				j := i
				for j < len(post) && post[j] != pre[j] {
					j++
				}
				cs.Diff = append(cs.Diff, [2]uint64{uint64(i), uint64(j - i)})
				i = j
			}
			if len(cs.Diff) > 400 {
				lo, hi := cs.Diff[0][0], cs.Diff[len(cs.Diff)-1][0]+cs.Diff[len(cs.Diff)-1][1]
				cs.Diff = [][2]uint64{{lo, hi - lo}}
				cs.Coarse = true
			}
			if sp := specs[fn]; len(sp) > 0 && sp[len(sp)-1].k == pOut && len(a) == len(sp) {
				ptr, sz := a[len(a)-1], uint64(sp[len(sp)-1].sz)
				if sz > 8 {
					sz = 8
				}
				if ptr+sz <= w.ms {
					for k := uint64(0); k < sz; k++ {
						cs.OutVal |= uint64(post[ptr+k]) << (8 * k)
					}
				}
			}
		}
	}
	cs.TblAfter = w.table()
	cs.TcapAft = w.fsc.ZZCap()
	cs.TblWf = w.fsc.ZZWf()
	out.Emit(cs)
	return cs
}

// ---------------------------------------------------------------- argument generation

type gen struct {
	rng *c.Rng
	w   *world
	// state shared between the parameters of one tuple
	lastPtr  uint64
	lastPath int
	iovN     int
	subN     int
	safeTo   bool // fd_renumber: second descriptor must stay small when the first is renumberable
}

func (g *gen) ptrBoundary(sz uint64) []uint64 {
	ms := g.w.ms
	v := []uint64{0, 1, ms - sz - 1, ms - sz, ms - sz + 1, ms - 1, ms, ms + 1, ms - 4, ms - 8, ms + 8, ms - 7, ms - 3, ms + 7,
		1<<31 - 1, 1 << 31, 1<<32 - 8, 1<<32 - 4, 1<<32 - 2, 1<<32 - 1, 1<<32 - sz, 1<<32 - sz - 1}
	return v
}

func (g *gen) validFds() []uint64 {
	var v []uint64
	for _, fi := range g.w.table() {
		v = append(v, uint64(uint32(fi.Fd)))
	}
	return v
}

var fdBoundary = []uint64{0xffffffff, 0, 1, 2, 3, 4, 5, 6, 63, 64, 65, 1 << 20, 1<<31 - 1, 1 << 31, 127, 128}

func (g *gen) value(fn string, idx int, sp pspec, boundary bool) uint64 {
	r := g.rng
	ms := g.w.ms
	u32 := func(v uint64) uint64 { return uint64(uint32(v)) }
	switch sp.k {
	case pFd:
		var v uint64
		if boundary {
			v = r.Pick(fdBoundary)
		} else if fds := g.validFds(); len(fds) > 0 {
			v = r.Pick(fds)
			if r.Intn(3) == 0 {
				v = 3
			}
			if (fn == "sock_accept") && g.w.sock {
				v = 4
			}
		}
		if fn == "fd_renumber" {
			if idx == 0 {
				g.safeTo = false
				for _, fi := range g.w.table() {
					if uint64(uint32(fi.Fd)) == v && !fi.Pre {
						g.safeTo = true
					}
				}
			} else if g.safeTo && v > 1<<20 && v < 1<<31 {
				v = 1 << 20 // never let a renumberable descriptor move beyond 2^20 here (F15 is probed separately)
			}
		}
		return v
	case pOut:
		if boundary {
			return u32(r.Pick(g.ptrBoundary(uint64(sp.sz))))
		}
		return aOut + 64*uint64(idx)
	case pPath:
		g.lastPath = r.Intn(len(paths))
		g.lastPtr = aPaths + 32*uint64(g.lastPath)
		if boundary {
			g.lastPtr = u32(r.Pick(append(g.ptrBoundary(5), ms-5)))
			if g.lastPtr == ms-5 {
				g.lastPath = 0
			}
		}
		return g.lastPtr
	case pPathLen:
		n := uint64(len(paths[g.lastPath]))
		if boundary {
			return u32(r.Pick([]uint64{0, 1, n + 1, ms - g.lastPtr, ms - g.lastPtr + 1, ms, ms + 1, 1 << 31, 1<<32 - 1, 1<<32 - g.lastPtr, 4096, 70000}))
		}
		return n
	case pIovs:
		g.lastPtr = aIovs
		if boundary {
			g.lastPtr = u32(r.Pick(append(g.ptrBoundary(8), ms-16, ms-24, aIovs+4)))
		}
		return g.lastPtr
	case pIovCnt:
		if boundary {
			return u32(r.Pick([]uint64{0, 1, 2, 3, 8, 9, 1 << 29, 1<<29 + 1, 1<<29 + 2, 1<<30 + 1, 1 << 31, 1<<32 - 1, (ms - g.lastPtr) / 8, (ms-g.lastPtr)/8 + 1, 1000}))
		}
		return uint64(1 + r.Intn(4))
	case pBuf:
		g.lastPtr = aBig
		if boundary {
			g.lastPtr = u32(r.Pick(append(g.ptrBoundary(24), ms-24, ms-100, aOut)))
		}
		return g.lastPtr
	case pBufLen:
		if boundary {
			return u32(r.Pick([]uint64{0, 1, 2, 23, 24, 25, 47, 48, 100, ms - g.lastPtr, ms - g.lastPtr + 1, ms - g.lastPtr - 1, ms, ms + 1, 1<<31 - 1, 1 << 31, 1<<32 - 1, 1<<32 - g.lastPtr, 1<<32 - g.lastPtr - 1}))
		}
		return r.Pick([]uint64{1, 64, 256, 1024, 4096})
	case pSubs:
		g.lastPtr = aSubs
		if boundary {
			g.lastPtr = u32(r.Pick(append(g.ptrBoundary(48), ms-96, aSubs+8)))
		}
		return g.lastPtr
	case pEvOut:
		if boundary {
			return u32(r.Pick(append(g.ptrBoundary(32), ms-64, aSubs, aSubs+48, aSubs-16)))
		}
		return aBig
	case pNsubs:
		if boundary {
			return u32(r.Pick([]uint64{0, 1, 2, 3, 8, 9, 1 << 26, 1 << 27, 1<<27 + 1, 1 << 28, 1<<28 + 1, 1<<28 + 2, 89478485, 89478486, 89478487, 1 << 31, 1<<32 - 1,
				(ms - g.lastPtr) / 48, (ms-g.lastPtr)/48 + 1, 134217729, 1431655766, 2863311531}))
		}
		return uint64(1 + r.Intn(4))
	case pI64:
		if boundary {
			return r.Pick([]uint64{0, 1, 100, 299, 300, 301, 1 << 31, 1 << 32, 1<<63 - 1, 1 << 63, 1<<64 - 1, 1 << 62, 1 << 40, 1<<64 - 100})
		}
		return r.Pick([]uint64{0, 0, 0, 1, 10, 100})
	case pFlags:
		if boundary {
			return r.Pick([]uint64{0, 1, 2, 3, 4, 5, 8, 9, 15, 16, 0xff, 0x100, 0xffff, 0x10000, 0x80000000, 0xffffffff, 0x101, 0x10001})
		}
		return r.Pick([]uint64{0, 0, 1, 2, 4})
	case pClock:
		if boundary {
			return r.Pick([]uint64{0, 1, 2, 3, 0xffffffff, 0x80000000, 0x100, 0x100000001 & 0xffffffff})
		}
		return uint64(r.Intn(2))
	case pWhence:
		if boundary {
			return r.Pick([]uint64{0, 1, 2, 3, 0xffffffff, 0x80000000, 256})
		}
		return uint64(r.Intn(3))
	case pAdvice:
		if boundary {
			return r.Pick([]uint64{0, 5, 6, 255, 256, 0xffffffff, 0x105})
		}
		return uint64(r.Intn(6))
	case pHow:
		if boundary {
			return r.Pick([]uint64{0, 1, 2, 3, 4, 255, 256, 0x101, 0xffffffff})
		}
		return uint64(1 + r.Intn(3))
	case pExit:
		return r.Pick([]uint64{0, 1, 255, 0xffffffff})
	}
	return 0
}

// tuple builds an argument tuple: mode 0 = all valid, 1 = one boundary parameter (which), 2 = random mix.
func (g *gen) tuple(fn string, mode, which int) []uint64 {
	sp := specs[fn]
	a := make([]uint64, len(sp))
	for i, s := range sp {
		b := false
		switch mode {
		case 1:
			b = i == which
		case 2:
			b = g.rng.Intn(100) < 35
		}
		a[i] = g.value(fn, i, s, b)
	}
	return a
}

// placeAll writes the structured data every call may refer to.
func (g *gen) placeAll(p *placer) {
	r := g.rng
	ms := g.w.ms
	for i, s := range paths {
		p.put(aPaths+32*uint64(i), []byte(s))
	}
	p.put(ms-5, []byte("a.txt"))
	iov := func() (uint32, uint32) {
		switch r.Intn(14) {
		case 0:
			return uint32(aBuf + 1024*uint64(r.Intn(4))), 0
		case 1:
			return uint32(ms - 4), 8
		case 2:
			return uint32(ms - 8), 8
		case 3:
			return 0xfffffff0, 32
		case 4:
			return uint32(aBuf), 0xffffffff
		case 5:
			return uint32(ms), 0
		case 6:
			return uint32(ms), 1
		case 7:
			return uint32(aBig), uint32(r.Pick([]uint64{100, 299, 300, 301, 4096}))
		case 8:
			if r.Intn(4) == 0 {
				return aIovs + 8, 24 // aliases the iovec array itself
			}
			return uint32(ms + 1), 0
		default:
			return uint32(aBuf + 1024*uint64(r.Intn(4))), uint32(1 + r.Intn(64))
		}
	}
	for i := 0; i < 8; i++ {
		o, l := iov()
		p.put(aIovs+8*uint64(i), append(le32(o), le32(l)...))
	}
	p.put(ms-8, append(le32(aBuf), le32(16)...))
	p.put(ms-16, append(le32(aBuf+1024), le32(0)...))
	p.put(ms-24, append(le32(aBuf+2048), le32(5)...))
	for i := 0; i < 4; i++ { // source data for writes
		p.put(aBuf+1024*uint64(i), []byte(strings.Repeat("w", 64)))
	}
	sub := func(addr uint64) {
		b := make([]byte, 48)
		copy(b, le64(r.U64()|0x0101010101010101))
		b[8] = byte(r.Pick([]uint64{0, 0, 0, 1, 1, 2, 2, 3, 0xff}))
		switch b[8] {
		case 0:
			copy(b[16:], le32(uint32(r.Intn(4))))
			copy(b[24:], le64(r.Pick([]uint64{0, 1, 1000, 1 << 40, 1<<63 - 1, 1 << 63, 1<<64 - 1})))
			fl := r.Pick([]uint64{0, 0, 0, 0, 1, 2, 0xffff})
			b[40], b[41] = byte(fl), byte(fl>>8)
		default:
			copy(b[16:], le32(uint32(r.Pick([]uint64{0, 0, 1, 2, 3, 4, 5, 99, 0xffffffff, 0x80000000, 1 << 20}))))
		}
		p.put(addr, b)
	}
	for i := 0; i < 8; i++ {
		sub(aSubs + 48*uint64(i))
	}
	sub(ms - 48)
	sub(ms - 96)
}

// prelude varies the descriptor table with ordinary, valid calls (they are recorded as cases too).
func (g *gen) prelude(ctx context.Context) {
	w := g.w
	r := g.rng
	open := func(pi int, oflags uint64) {
		if w.dead {
			return
		}
		w.call(ctx, "prelude", "path_open", []uint64{3, 1, aPaths + 32*uint64(pi), uint64(len(paths[pi])), oflags, 0x42 | 1<<26, 0, 0, aOut}, g.placeAll)
	}
	n := r.Intn(4)
	for i := 0; i < n && !w.dead; i++ {
		switch r.Intn(8) {
		case 0, 1:
			open(0, 0) // a.txt
		case 2:
			open(1, 2) // dir, O_DIRECTORY
		case 3:
			open(8, 0) // b.txt
		case 4:
			fds := g.validFds()
			w.call(ctx, "prelude", "fd_close", []uint64{r.Pick(fds)}, g.placeAll)
		case 5:
			open(0, 0)
			fds := g.validFds()
			from := fds[len(fds)-1]
			if from > 3 {
				w.call(ctx, "prelude", "fd_renumber", []uint64{from, r.Pick([]uint64{7, 63, 64, 65, 127, 128, 1000})}, g.placeAll)
			}
		case 6:
			if w.sock {
				w.call(ctx, "prelude", "sock_accept", []uint64{4, 0, aOut}, g.placeAll)
			} else {
				open(2, 1) // create "new"
			}
		case 7:
			open(0, 0)
			open(0, 0)
		}
	}
}

func main() {
	seed := flag.Uint64("seed", 1, "")
	n := flag.Int("n", 100, "argument tuples per function")
	compilerEvery := flag.Int("compiler-every", 8, "every k-th world runs on the compiler engine (0: never)")
	only := flag.String("only", "", "restrict to one function")
	f15to := flag.Uint64("f15-to", 1<<22, "target descriptor of the fd_renumber allocation probe (0: skip)")
	repro := flag.Bool("repro", false, "replay the open findings with the public API only (default module configuration, no wrappers) and print what happens")
	corpus := flag.String("corpus", "", "JSON file of fixed regression calls, replayed first")
	flag.Parse()
	ctx := context.Background()
	if *repro {
		reproduce(ctx)
		return
	}
	out = c.NewOut()
	defer out.Flush()
	var err error
	baseDir, err = os.MkdirTemp("", "c15-")
	if err != nil {
		panic(err)
	}
	defer os.RemoveAll(baseDir)
	// common.NewRng(k) and NewRng(k+1) are the same splitmix stream shifted by one step, and streams that differ by a
	// small shift re-synchronise as soon as the consumers draw different amounts: scramble the seed first.
	mix := *seed + 0x632BE59BD9B4E019
	mix = (mix ^ (mix >> 30)) * 0xBF58476D1CE4E5B9
	mix = (mix ^ (mix >> 27)) * 0x94D049BB133111EB
	mix ^= mix >> 31
	rng := c.NewRng(mix)
	engs := map[string]*engine{}
	for _, nm := range []string{"interp", "compiler"} {
		if nm == "compiler" && *compilerEvery == 0 {
			continue
		}
		e, err := newEngine(ctx, nm)
		if err != nil {
			out.Emit(map[string]any{"fatal": err.Error()})
			return
		}
		engs[nm] = e
	}
	e0 := engs["interp"]
	// signature table of the real host module (the check compares it with the roles assumed above)
	sigs := map[string]any{}
	for _, nm := range e0.names {
		d := e0.defs[nm]
		ints := func(ts []api.ValueType) []int {
			o := []int{}
			for _, t := range ts {
				o = append(o, int(t))
			}
			return o
		}
		sigs[nm] = map[string]any{"params": ints(d.ParamTypes()), "results": ints(d.ResultTypes()), "names": d.ParamNames(), "roles": len(specs[nm])}
		if _, ok := specs[nm]; !ok {
			sigs[nm].(map[string]any)["roles"] = -1
		}
	}
	out.Emit(map[string]any{"sigs": sigs})

	// fixed regression calls (corpus/C15): each in a fresh one-page world with descriptor 4 = a.txt and 5 = dir
	if *corpus != "" && *only == "" {
		raw, err := os.ReadFile(*corpus)
		var fixed []struct {
			Fn   string   `json:"fn"`
			Args []uint64 `json:"args"`
			Why  string   `json:"why"`
			Big  bool     `json:"big"` // also place 512 iovecs {0, 16 KiB} at 0x8000 (overlapping: 8 MiB in total from 64 KiB of memory)
		}
		if err == nil {
			err = json.Unmarshal(raw, &fixed)
		}
		if err != nil {
			out.Emit(map[string]any{"fatal": "corpus: " + err.Error()})
			return
		}
		for _, fx := range fixed {
			if len(fx.Args) != len(specs[fx.Fn]) {
				out.Emit(map[string]any{"fatal": "corpus: bad arity for " + fx.Fn})
				return
			}
			for _, eng := range []*engine{e0, engs["compiler"]} {
				if eng == nil {
					continue
				}
				w, err := newWorld(ctx, eng, 1, false)
				if err != nil {
					continue
				}
				g := &gen{rng: rng, w: w}
				w.call(ctx, "prelude", "path_open", []uint64{3, 1, aPaths, 5, 0, 0x42, 0, 0, aOut}, g.placeAll)
				w.call(ctx, "prelude", "path_open", []uint64{3, 1, aPaths + 32, 3, 2, 0x42, 0, 0, aOut}, g.placeAll)
				place := g.placeAll
				if fx.Big {
					place = func(p *placer) {
						g.placeAll(p)
						blob := make([]byte, 0, 4096)
						for k := 0; k < 512; k++ {
							blob = append(blob, append(le32(0), le32(0x4000)...)...)
						}
						p.put(0x8000, blob)
					}
				}
				w.call(ctx, "fixed", fx.Fn, fx.Args, place)
				w.close(ctx)
			}
		}
	}
	// job list: per function, modes 0 (valid), 1 (one boundary parameter, swept), 2 (random mix)
	type job struct {
		fn          string
		mode, which int
	}
	var jobs []job
	for _, fn := range e0.names {
		if *only != "" && fn != *only {
			continue
		}
		np := len(specs[fn])
		cnt := *n
		if np == 0 {
			cnt = 3
		}
		for t := 0; t < cnt; t++ {
			switch {
			case t < 4 || np == 0:
				jobs = append(jobs, job{fn, 0, 0})
			case t%2 == 0:
				jobs = append(jobs, job{fn, 1, (t / 2) % np})
			default:
				jobs = append(jobs, job{fn, 2, 0})
			}
		}
	}
	for i := len(jobs) - 1; i > 0; i-- {
		j := rng.Intn(i + 1)
		jobs[i], jobs[j] = jobs[j], jobs[i]
	}
	wi := 0
	for len(jobs) > 0 {
		eng := e0
		if *compilerEvery > 0 && wi%*compilerEvery == *compilerEvery-1 {
			eng = engs["compiler"]
		}
		pages := uint32(1 + rng.Intn(3))
		sock := rng.Intn(5) == 0
		w, err := newWorld(ctx, eng, pages, sock)
		if err != nil && sock {
			w, err = newWorld(ctx, eng, pages, false)
		}
		if err != nil {
			out.Emit(map[string]any{"fatal": "world: " + err.Error()})
			return
		}
		wi++
		g := &gen{rng: rng, w: w}
		g.prelude(ctx)
		k := 1 + rng.Intn(6)
		for i := 0; i < k && len(jobs) > 0 && !w.dead; i++ {
			j := jobs[len(jobs)-1]
			jobs = jobs[:len(jobs)-1]
			a := g.tuple(j.fn, j.mode, j.which)
			w.call(ctx, fmt.Sprintf("m%d", j.mode), j.fn, a, g.placeAll)
		}
		w.close(ctx)
	}
	// F15 probe: renumber an ordinary descriptor to a moderately large number and measure the table and the heap
	if *f15to != 0 && (*only == "" || *only == "fd_renumber") {
		for _, pages := range []uint32{1, 3} {
			w, err := newWorld(ctx, e0, pages, false)
			if err != nil {
				continue
			}
			g := &gen{rng: rng, w: w}
			w.call(ctx, "prelude", "path_open", []uint64{3, 1, aPaths, 5, 0, 0x42, 0, 0, aOut}, g.placeAll)
			runtime.GC()
			w.call(ctx, "f15", "fd_renumber", []uint64{4, *f15to}, g.placeAll)
			w.call(ctx, "f15-after", "fd_fdstat_get", []uint64{*f15to, aOut}, g.placeAll)
			w.close(ctx)
			runtime.GC()
		}
	}
	// a guest without memory calling WASI (reported separately)
	if *only == "" {
		pm := e0.proxies[0]
		mod, err := e0.r.InstantiateModule(ctx, pm, wazero.NewModuleConfig().WithName(""))
		if err == nil {
			w := &world{e: e0, mod: mod, fsc: mod.(*wasm.ModuleInstance).Sys.FS(), id: -1}
			for _, fn := range []string{"args_sizes_get", "fd_write", "clock_time_get", "random_get", "sched_yield", "fd_close"} {
				a := make([]uint64, len(specs[fn]))
				w.call(ctx, "nomem", fn, a, nil)
			}
			mod.Close(ctx)
		}
	}
}

// reproduce replays the open findings through the public API only: default ModuleConfig (stdin/stdout/stderr unset),
// no logging wrappers, no overlay accessors.
func reproduce(ctx context.Context) {
	r := wazero.NewRuntimeWithConfig(ctx, wazero.NewRuntimeConfigInterpreter())
	defer r.Close(ctx)
	cm, err := wasi.NewBuilder(r).Compile(ctx)
	if err != nil {
		panic(err)
	}
	defs := cm.ExportedFunctions()
	var names []string
	for n := range defs {
		names = append(names, n)
	}
	sort.Strings(names)
	if _, err := r.InstantiateModule(ctx, cm, wazero.NewModuleConfig().WithName(wasi.ModuleName)); err != nil {
		panic(err)
	}
	dir, _ := os.MkdirTemp("", "c15-repro-")
	defer os.RemoveAll(dir)
	os.WriteFile(filepath.Join(dir, "a.txt"), []byte("hello"), 0o644)
	first := func(err error) string {
		if err == nil {
			return "<nil>"
		}
		s := err.Error()
		if i := strings.Index(s, "\n"); i > 0 {
			s = s[:i]
		}
		return s
	}
	mod, err := r.InstantiateModule(ctx, mustCompile(ctx, r, proxyModule(names, defs, 1, true)),
		wazero.NewModuleConfig().WithName("").WithFSConfig(wazero.NewFSConfig().WithDirMount(dir, "/")))
	if err != nil {
		panic(err)
	}
	for fd := uint64(0); fd < 3; fd++ {
		res, err := mod.ExportedFunction("fd_filestat_set_times").Call(ctx, fd, 0, 0, 0)
		fmt.Printf("fd_filestat_set_times(fd=%d, 0, 0, 0) on the default stdio: results=%v err=%s\n", fd, res, first(err))
	}
	mod.Memory().Write(1024, []byte("a.txt"))
	res, err := mod.ExportedFunction("path_open").Call(ctx, 3, 1, 1024, 5, 0, 0x42, 0, 0, 2048)
	fmt.Printf("path_open(a.txt): results=%v err=%s\n", res, first(err))
	var m0, m1 runtime.MemStats
	runtime.GC()
	runtime.ReadMemStats(&m0)
	res, err = mod.ExportedFunction("fd_renumber").Call(ctx, 4, 1<<22)
	runtime.ReadMemStats(&m1)
	fmt.Printf("fd_renumber(4, 2^22) with 64 KiB of guest memory: results=%v err=%s allocated=%d bytes\n", res, first(err), m1.TotalAlloc-m0.TotalAlloc)
	nomem, err := r.InstantiateModule(ctx, mustCompile(ctx, r, proxyModule(names, defs, 1, false)), wazero.NewModuleConfig().WithName(""))
	if err != nil {
		panic(err)
	}
	res, err = nomem.ExportedFunction("args_sizes_get").Call(ctx, 0, 0)
	fmt.Printf("args_sizes_get(0, 0) from a guest without memory: results=%v err=%s\n", res, first(err))
}

func mustCompile(ctx context.Context, r wazero.Runtime, b []byte) wazero.CompiledModule {
	cm, err := r.CompileModule(ctx, b)
	if err != nil {
		panic(err)
	}
	return cm
}
