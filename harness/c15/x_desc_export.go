package descriptor

// verification-only accessors (added through go build -overlay; not part of the repository)

func (t *Table[Key, Item]) ZZCap() int { return len(t.items) }

func (t *Table[Key, Item]) ZZWf(present func(Item) bool) bool {
	if len(t.items) != 64*len(t.masks) {
		return false
	}
	for i, it := range t.items {
		bit := t.masks[i/64]&(1<<(uint(i)%64)) != 0
		if bit != present(it) {
			return false
		}
	}
	return true
}
