package sys

// verification-only accessors (added through go build -overlay; not part of the repository)

// ZZRange iterates the descriptor table.
func (c *FSContext) ZZRange(f func(fd int32, e *FileEntry) bool) { c.openedFiles.Range(f) }

// ZZCap is len(items) of the descriptor table; ZZWf checks mask bit <=> item present and len(items) == 64*len(masks).
func (c *FSContext) ZZCap() int { return c.openedFiles.ZZCap() }
func (c *FSContext) ZZWf() bool {
	return c.openedFiles.ZZWf(func(e *FileEntry) bool { return e != nil })
}
