// C12 correspondence harness: the canonical execution trace of small generated guest programs under a
// pairwise-covering sample of the non-semantic configuration lattice, on both engines; plus the memory
// limits DecodeModule derives with and without capacity-from-max, and Module.AssignModuleID samples.
package main

import (
	"context"
	"crypto/sha256"
	"encoding/hex"
	"flag"
	"fmt"
	"os"
	"strings"
	"sync"
	"time"

	"github.com/tetratelabs/wazero"
	"github.com/tetratelabs/wazero/api"
	"github.com/tetratelabs/wazero/experimental"
	"github.com/tetratelabs/wazero/internal/wasm"
	binaryformat "github.com/tetratelabs/wazero/internal/wasm/binary"
	c "github.com/tetratelabs/wazero/internal/zz_verif/common"
)

// ---------------------------------------------------------------- programs
type Prog struct {
	ID     int
	Bin    []byte
	Min    uint32
	HasMax bool
	Max    uint32
	Limit  uint32
	Args   []uint64
	Shape  map[string]int
}

type gen struct {
	rng   *c.Rng
	shape map[string]int
	trap  bool // the trapping path has been emitted
}

// function index space of a generated program
const (
	fLog    = 0 // import env.log   (i64) -> (i64, i64): an api.GoFunction with MORE results than parameters
	fHgrow  = 1 // import env.hgrow (i32) -> i32: the host grows the guest's memory through api.Memory.Grow
	fHelper = 2
	fRun    = 3
	fSpin   = 4
	fGrower = 5 // (i32) -> i32: memory.grow in a callee
	fPeek   = 6 // (i32) -> i64: load in a separate call
)

// addresses used by the store / grow / store shape, peeked and host-read after every call
var sgsAddrs = []uint32{0, 64, 4096, 65528}

const (
	lN = iota // param i32
	lA        // i64
	lB        // i64
	lI        // i32
	lP        // i32
)

var arithOps = []byte{0x7c, 0x7d, 0x7e, 0x83, 0x84, 0x85, 0x86, 0x88, 0x87, 0x89, 0x8a}

func (g *gen) konst() []byte {
	ks := []int64{0, 1, -1, 3, 7, 0x7fffffff, -0x80000000, 0x100000001, 0x0123456789abcdef, -0x0fedcba987654321, 63, 64, 65}
	if g.rng.Bool() {
		return c.I64Const(ks[g.rng.Intn(len(ks))])
	}
	return c.I64Const(int64(g.rng.U64()))
}

func addr(off uint32) []byte { // (p & 0xfff8) as the base of an 8-byte access with a static offset
	_ = off
	return c.Cat(c.LocalGet(lP), c.I32Const(0xfff8), c.B(0x71))
}

func (g *gen) stmt(depth int) []byte {
	r := g.rng
	k := r.Intn(17)
	if depth > 0 && (k == 4 || k == 10) {
		k = 0
	}
	switch k {
	case 0, 1:
		g.shape["arith"]++
		rhs := c.LocalGet(lB)
		if r.Bool() {
			rhs = g.konst()
		}
		return c.Cat(c.LocalGet(lA), rhs, c.B(arithOps[r.Intn(len(arithOps))]), c.LocalSet(lA))
	case 2:
		g.shape["arith"]++
		return c.Cat(c.LocalGet(lN), c.B(0xad), g.konst(), c.B(0x7e), c.LocalGet(lA), c.B(0x7c), c.LocalSet(lB))
	case 3:
		g.shape["store"]++
		off := uint32(r.Intn(32)) * 8
		return c.Cat(addr(off), c.LocalGet(lA), c.B(0x37), c.MemArg(3, off),
			c.LocalGet(lP), c.I32Const(int32(8+r.Intn(64)*8)), c.B(0x6a), c.LocalSet(lP))
	case 4:
		g.shape["loop"]++
		var body []byte
		for i, n := 0, 1+r.Intn(4); i < n; i++ {
			body = append(body, g.stmt(depth+1)...)
		}
		return c.Cat(c.LocalGet(lN), c.I32Const(7), c.B(0x71), c.I32Const(int32(r.Intn(3))), c.B(0x6a), c.LocalSet(lI),
			c.B(0x02, 0x40, 0x03, 0x40), c.LocalGet(lI), c.B(0x45), c.B(0x0d, 1), body,
			c.LocalGet(lI), c.I32Const(1), c.B(0x6b), c.LocalSet(lI), c.B(0x0c, 0), c.B(0x0b, 0x0b))
	case 5:
		g.shape["load"]++
		off := uint32(r.Intn(32)) * 8
		return c.Cat(c.LocalGet(lB), addr(off), c.B(0x29), c.MemArg(3, off), c.B(0x85), c.LocalSet(lB))
	case 6, 7:
		g.shape["hostcall"]++
		return c.Cat(c.LocalGet(lA), c.Call(fLog), c.B(0x85), c.LocalSet(lA))
	case 8:
		g.shape["global"]++
		return c.Cat(c.GlobalGet(0), c.LocalGet(lA), c.B(0x7c), c.GlobalSet(0), c.GlobalGet(0), c.LocalGet(lB), c.B(0x85), c.LocalSet(lB))
	case 9:
		g.shape["grow"]++
		// b += memory.grow(d) (zero-extended: -1 on failure); store a into the last 8 bytes of the memory; a += memory.size
		return c.Cat(c.I32Const(int32(r.Intn(3))), c.B(0x40, 0), c.B(0xad), c.LocalGet(lB), c.B(0x7c), c.LocalSet(lB),
			c.B(0x3f, 0), c.I32Const(16), c.B(0x74), c.I32Const(8), c.B(0x6b), c.LocalGet(lA), c.B(0x37), c.MemArg(3, 0),
			c.LocalGet(lA), c.B(0x3f, 0), c.B(0xad), c.B(0x7c), c.LocalSet(lA))
	case 10:
		g.shape["if"]++
		var t, e []byte
		for i, n := 0, 1+r.Intn(3); i < n; i++ {
			t = append(t, g.stmt(depth+1)...)
		}
		for i, n := 0, r.Intn(3); i < n; i++ {
			e = append(e, g.stmt(depth+1)...)
		}
		return c.Cat(c.LocalGet(lA), c.B(0xa7), c.I32Const(1), c.B(0x71), c.B(0x04, 0x40), t, c.B(0x05), e, c.B(0x0b))
	case 11:
		g.shape["call"]++
		return c.Cat(c.LocalGet(lA), c.LocalGet(lB), c.Call(fHelper), c.LocalSet(lA))
	case 12:
		g.shape["load"]++
		// narrow accesses: a ^= load32_u ; store8
		off := uint32(r.Intn(64))
		return c.Cat(c.LocalGet(lA), addr(0), c.B(0x35), c.MemArg(2, off), c.B(0x85), c.LocalSet(lA),
			addr(0), c.LocalGet(lB), c.B(0x3c), c.MemArg(0, off+1))
	case 13:
		return g.trapPath()
	case 14:
		g.shape["memory.init"]++
		// 8 bytes of the PASSIVE data segment 1 copied to (p & 0xfff8), then b ^= load of them
		return c.Cat(addr(0), c.I32Const(int32(r.Intn(9))), c.I32Const(8), c.B(0xfc, 8, 1, 0),
			c.LocalGet(lB), addr(0), c.B(0x29), c.MemArg(3, 0), c.B(0x85), c.LocalSet(lB))
	default:
		return g.sgsStmt()
	}
}

// sgs emits, on one straight-line path:  store[a] = x ; grow(d) ; store[a] = y ; b ^= load[a]
// where grow is memory.grow, a callee doing memory.grow, or a host function calling api.Memory.Grow.
// Whether the buffer moves at the grow depends on capacity-from-max and on the allocator: the second store
// and everything observed later (a separate peek call, host reads, the final digest) must not.
func sgs(addr uint32, how int, d int32, x, y []byte) []byte {
	var grow []byte
	switch how {
	case 0:
		grow = c.Cat(c.I32Const(d), c.B(0x40, 0))
	case 1:
		grow = c.Cat(c.I32Const(d), c.Call(fGrower))
	default:
		grow = c.Cat(c.I32Const(d), c.Call(fHgrow))
	}
	a := c.I32Const(int32(addr))
	return c.Cat(a, x, c.B(0x37), c.MemArg(3, 0),
		grow, c.B(0xad), c.LocalGet(lB), c.B(0x7c), c.LocalSet(lB),
		a, y, c.B(0x37), c.MemArg(3, 0),
		c.LocalGet(lB), a, c.B(0x29), c.MemArg(3, 0), c.B(0x85), c.LocalSet(lB))
}

var sgsNames = []string{"sgs-direct", "sgs-callee", "sgs-host"}

func (g *gen) sgsStmt() []byte {
	how := g.rng.Intn(3)
	g.shape[sgsNames[how]]++
	return sgs(sgsAddrs[g.rng.Intn(len(sgsAddrs))], how, int32(g.rng.Intn(3)), c.LocalGet(lA), c.Cat(c.LocalGet(lA), g.konst(), c.B(0x7c)))
}

// if (n == 13) { trap }
func (g *gen) trapPath() []byte {
	g.trap = true
	var body []byte
	switch g.rng.Intn(4) {
	case 0:
		g.shape["trap-unreachable"]++
		body = c.B(0x00)
	case 1:
		g.shape["trap-div0"]++
		body = c.Cat(c.LocalGet(lA), c.I64Const(0), c.B(0x80), c.LocalSet(lA))
	case 2:
		g.shape["trap-oob"]++
		body = c.Cat(c.I32Const(-16), c.B(0x29), c.MemArg(3, 0), c.LocalSet(lA))
	default:
		g.shape["trap-overflow"]++
		body = c.Cat(c.I64Const(-0x8000000000000000), c.I64Const(-1), c.B(0x7f), c.LocalSet(lA))
	}
	return c.Cat(c.LocalGet(lN), c.I32Const(13), c.B(0x46), c.B(0x04, 0x40), body, c.B(0x0b))
}

func genProg(rng *c.Rng, id int) *Prog {
	g := &gen{rng: rng, shape: map[string]int{}}
	p := &Prog{ID: id, Min: 1, Limit: 8, Shape: g.shape}
	switch rng.Intn(4) {
	case 0: // no declared maximum: the runtime limit bounds growth
	case 1:
		p.HasMax, p.Max = true, 1+uint32(rng.Intn(3))
	case 2:
		p.HasMax, p.Max = true, 2+uint32(rng.Intn(5))
	default:
		p.HasMax, p.Max = true, 8+uint32(rng.Intn(100)) // above the runtime limit: clamped (F11)
	}
	var body []byte
	body = append(body, c.Cat(c.LocalGet(lN), c.B(0xad), g.konst(), c.B(0x7c), c.LocalSet(lA), g.konst(), c.LocalSet(lB),
		c.LocalGet(lN), c.I32Const(int32(rng.Intn(4096))*8), c.B(0x6a), c.LocalSet(lP))...)
	nst := 6 + rng.Intn(10)
	trapAt := rng.Intn(nst)
	for i := 0; i < nst; i++ {
		if i == trapAt && !g.trap {
			body = append(body, g.trapPath()...)
		}
		body = append(body, g.stmt(0)...)
	}
	body = append(body, c.Cat(c.LocalGet(lA), c.LocalGet(lB), c.B(0x85))...)
	p.Bin = assemble(p, g, body)
	p.Args = []uint64{0, 3, uint64(rng.Intn(64)), 13, 5, 13, uint64(rng.U64() & 0xffffffff)}
	return p
}

// fixedProg: the bare store / grow / store / load shape (how: 0 memory.grow, 1 via a callee, 2 via the host) on a memory with
// min 1 and a declared max above it, so that capacity-from-max reserves more than the initial size.
func fixedProg(rng *c.Rng, id, how int, max uint32, addr uint32) *Prog {
	g := &gen{rng: rng, shape: map[string]int{}, trap: true}
	g.shape[sgsNames[how]]++
	g.shape["fixed"]++
	p := &Prog{ID: id, Min: 1, HasMax: true, Max: max, Limit: 8, Shape: g.shape}
	body := c.Cat(c.I64Const(0), c.LocalSet(lB),
		sgs(addr, how, 1, c.Cat(c.LocalGet(lN), c.B(0xad), c.I64Const(42), c.B(0x7c)), c.Cat(c.LocalGet(lN), c.B(0xad), c.I64Const(99), c.B(0x7c))),
		c.LocalGet(lB))
	p.Bin = assemble(p, g, body)
	p.Args = []uint64{0, 1, 2, 3, 4, 5, 6, 7}
	return p
}

// assemble builds the module around the body of run.
func assemble(p *Prog, g *gen, body []byte) []byte {
	rng, id := g.rng, p.ID
	m := &c.Mod{}
	m.Types = [][]byte{c.FT(c.B(c.I64), c.B(c.I64, c.I64)), c.FT(c.B(c.I64, c.I64), c.B(c.I64)), c.FT(c.B(c.I32), c.B(c.I64)), c.FT(nil, nil), c.FT(c.B(c.I32), c.B(c.I32))}
	m.Imports = [][]byte{c.ImportFunc("env", "log", 0), c.ImportFunc("env", "hgrow", 4)}
	m.Funcs = [][]byte{c.U32(1), c.U32(2), c.U32(3), c.U32(4), c.U32(2)}
	var mx *uint32
	if p.HasMax {
		mx = &p.Max
	}
	m.Mems = [][]byte{c.MemLimits(p.Min, mx)}
	m.Globals = [][]byte{c.Cat(c.B(c.I64, 1), c.I64Const(int64(rng.U64())), c.B(0x0b))}
	m.Exports = [][]byte{c.Export("run", 0, fRun), c.Export("spin", 0, fSpin), c.Export("peek", 0, fPeek), c.Export("mem", 2, 0), c.Export("g0", 3, 0)}
	// helper(x, y) = ((x op1 y) op2 k) op3 x
	helper := c.Code(nil, c.LocalGet(0), c.LocalGet(1), c.B(arithOps[rng.Intn(len(arithOps))]), g.konst(), c.B(arithOps[rng.Intn(len(arithOps))]),
		c.LocalGet(0), c.B(arithOps[rng.Intn(len(arithOps))]))
	run := c.Code([]byte{c.I64, c.I64, c.I32, c.I32}, body)
	spin := c.Code(nil, c.B(0x03, 0x40, 0x0c, 0, 0x0b))
	grower := c.Code(nil, c.LocalGet(0), c.B(0x40, 0))
	peek := c.Code(nil, c.LocalGet(0), c.B(0x29), c.MemArg(3, 0))
	m.Codes = [][]byte{helper, run, spin, grower, peek}
	m.Datas = [][]byte{c.Cat(c.B(0), c.I32Const(16), c.B(0x0b), c.U32(8), c.B(1, 2, 3, 4, 5, 6, 7, byte(id))),
		c.Cat(c.B(1), c.U32(16), c.B(0x51, 0x52, 0x53, 0x54, 0x55, 0x56, 0x57, 0x58, 0x59, 0x5a, 0x5b, 0x5c, 0x5d, 0x5e, 0x5f, byte(id)))} // 1: passive
	m.DataCount = true
	// custom sections: a name section and an opaque one
	names := c.Cat(c.Name("name"),
		c.B(0), c.U32(uint32(len(c.Name(fmt.Sprintf("prog%d", id))))), c.Name(fmt.Sprintf("prog%d", id)),
		func() []byte {
			v := c.Vec(c.Cat(c.U32(fHelper), c.Name("helper")), c.Cat(c.U32(fRun), c.Name("run")), c.Cat(c.U32(fSpin), c.Name("spin")))
			return c.Cat(c.B(1), c.U32(uint32(len(v))), v)
		}())
	m.Custom = [][]byte{names, c.Cat(c.Name("verif.meta"), c.B(byte(id), 0xde, 0xad, 0xbe, 0xef))}
	return m.Bytes()
}

// ---------------------------------------------------------------- configuration lattice
type Cfg struct {
	Cache       string `json:"cache"` // none mem dircold dirwarm memshared-ab memshared-ba dirshared-ab dirshared-ba
	CapMax      bool   `json:"capmax"`
	Alloc       bool   `json:"alloc"`
	Moving      bool   `json:"moving"` // with Alloc: Reallocate returns a fresh buffer whenever the memory grows
	Chunked     bool   `json:"chunked"` // with Alloc: buffers come in chunks of two pages (spare capacity!); on a move the allocator copies the length it was last told
	Debug       bool   `json:"debug"`
	Custom      bool   `json:"custom"`
	Listener    bool   `json:"listener"`
	CloseOnDone bool   `json:"closeondone"`
	Decline     bool   `json:"decline"` // with Listener: the factory is installed but returns nil for every function
}

var cacheModes = []string{"none", "mem", "dircold", "dirwarm", "memshared-ab", "memshared-ba", "dirshared-ab", "dirshared-ba"}

func (cf Cfg) allocLevel() int {
	if !cf.Alloc {
		return 0
	}
	if cf.Moving {
		return 2
	}
	if cf.Chunked {
		return 3
	}
	return 1
}

func (cf Cfg) vec() [7]int {
	b := func(x bool) int {
		if x {
			return 1
		}
		return 0
	}
	ci := 0
	for i, m := range cacheModes {
		if m == cf.Cache {
			ci = i
		}
	}
	return [7]int{ci, b(cf.CapMax), cf.allocLevel(), b(cf.Debug), b(cf.Custom), b(cf.Listener), b(cf.CloseOnDone)}
}

func randCfg(rng *c.Rng) Cfg {
	al := rng.Intn(4)
	return Cfg{cacheModes[rng.Intn(len(cacheModes))], rng.Bool(), al > 0, al == 2, al == 3, rng.Bool(), rng.Bool(), rng.Bool(), rng.Bool(), rng.Intn(3) == 0}
}

// lattice returns rows covering every pair of factor values (greedy), padded with random rows.
func lattice(rng *c.Rng, rows int) []Cfg {
	type pair struct{ f1, v1, f2, v2 int }
	levels := [7]int{len(cacheModes), 2, 4, 2, 2, 2, 2}
	need := map[pair]bool{}
	for f1 := 0; f1 < 7; f1++ {
		for f2 := f1 + 1; f2 < 7; f2++ {
			for v1 := 0; v1 < levels[f1]; v1++ {
				for v2 := 0; v2 < levels[f2]; v2++ {
					need[pair{f1, v1, f2, v2}] = true
				}
			}
		}
	}
	gain := func(cf Cfg) int {
		v := cf.vec()
		n := 0
		for f1 := 0; f1 < 7; f1++ {
			for f2 := f1 + 1; f2 < 7; f2++ {
				if need[pair{f1, v[f1], f2, v[f2]}] {
					n++
				}
			}
		}
		return n
	}
	var out []Cfg
	for len(need) > 0 {
		best, bg := Cfg{}, -1
		for i := 0; i < 60; i++ {
			cf := randCfg(rng)
			if g := gain(cf); g > bg {
				best, bg = cf, g
			}
		}
		v := best.vec()
		for f1 := 0; f1 < 7; f1++ {
			for f2 := f1 + 1; f2 < 7; f2++ {
				delete(need, pair{f1, v[f1], f2, v[f2]})
			}
		}
		out = append(out, best)
	}
	for len(out) < rows {
		out = append(out, randCfg(rng))
	}
	return out
}

// other returns settings that differ from cf in a non-empty subset of the tuning flags.
func other(rng *c.Rng, cf Cfg) Cfg {
	o := cf
	for {
		o = cf
		if rng.Bool() {
			o.CapMax = !o.CapMax
		}
		if rng.Bool() {
			al := (o.allocLevel() + 1 + rng.Intn(3)) % 4
			o.Alloc, o.Moving, o.Chunked = al > 0, al == 2, al == 3
		}
		if rng.Bool() {
			o.Debug = !o.Debug
		}
		if rng.Bool() {
			o.Custom = !o.Custom
		}
		if rng.Bool() {
			o.Listener = !o.Listener
		}
		if rng.Bool() {
			o.CloseOnDone = !o.CloseOnDone
		}
		if o != cf {
			return o
		}
	}
}

// ---------------------------------------------------------------- execution
type sink struct {
	host                 []uint64
	before, after, abort int
}
type sinkKey struct{}

// recListener belongs to the execution whose factory created it (owner): events are counted THERE, so that listeners
// served from another runtime's compilation (a shared cache) show up as missing events. Listeners created for the
// limits/identity probes have no owner and count into the sink of the calling context.
type recListener struct{ owner *sink }

func (l recListener) to(ctx context.Context) *sink {
	if l.owner != nil {
		return l.owner
	}
	s, _ := ctx.Value(sinkKey{}).(*sink)
	return s
}
func (l recListener) Before(ctx context.Context, _ api.Module, _ api.FunctionDefinition, _ []uint64, _ experimental.StackIterator) {
	if s := l.to(ctx); s != nil {
		s.before++
	}
}
func (l recListener) After(ctx context.Context, _ api.Module, _ api.FunctionDefinition, _ []uint64) {
	if s := l.to(ctx); s != nil {
		s.after++
	}
}
func (l recListener) Abort(ctx context.Context, _ api.Module, _ api.FunctionDefinition, _ error) {
	if s := l.to(ctx); s != nil {
		s.abort++
	}
}

var factory = experimental.FunctionListenerFactoryFunc(func(api.FunctionDefinition) experimental.FunctionListener { return recListener{} })

func factoryFor(sk *sink) experimental.FunctionListenerFactory {
	return experimental.FunctionListenerFactoryFunc(func(api.FunctionDefinition) experimental.FunctionListener { return recListener{owner: sk} })
}

// decliningFactory is installed but listens to nothing (what a scoped logging factory does for most modules)
var decliningFactory = experimental.FunctionListenerFactoryFunc(func(api.FunctionDefinition) experimental.FunctionListener { return nil })

type sliceMem struct{ buf []byte }

func (s *sliceMem) Reallocate(size uint64) []byte {
	if size > uint64(cap(s.buf)) {
		return nil
	}
	s.buf = s.buf[:size]
	return s.buf
}
func (s *sliceMem) Free() {}

var allocator = experimental.MemoryAllocatorFunc(func(cap, max uint64) experimental.LinearMemory {
	return &sliceMem{buf: make([]byte, 0, max)}
})

// movingMem is a valid LinearMemory for non-shared memories: every Reallocate that grows hands out a fresh buffer
// holding a copy of the contents (the old buffer stays reachable so that a stale write cannot crash the process).
type movingMem struct {
	buf  []byte
	kept [][]byte
}

func (m *movingMem) Reallocate(size uint64) []byte {
	if size <= uint64(len(m.buf)) {
		m.buf = m.buf[:size]
		return m.buf
	}
	nb := make([]byte, size)
	copy(nb, m.buf)
	m.kept = append(m.kept, m.buf)
	m.buf = nb
	return nb
}
func (m *movingMem) Free() {}

var movingAllocator = experimental.MemoryAllocatorFunc(func(cap, max uint64) experimental.LinearMemory { return &movingMem{} })

// chunkMem hands out buffers whose capacity is a multiple of two pages, so the slice it returns usually has SPARE
// capacity. It keeps the length it was last asked for: newly exposed bytes are cleared, and when the buffer has to move
// exactly that length is copied (what the LinearMemory contract promises to preserve). A runtime that changes the size
// without telling the allocator loses data at the next move.
type chunkMem struct {
	buf  []byte
	n    uint64
	kept [][]byte
}

const chunkBytes = 2 * 65536

func (m *chunkMem) Reallocate(size uint64) []byte {
	if size <= uint64(cap(m.buf)) {
		full := m.buf[:cap(m.buf)]
		for i := m.n; i < size; i++ {
			full[i] = 0
		}
		m.n = size
		m.buf = full[:size]
		return m.buf
	}
	nb := make([]byte, size, (size+chunkBytes-1)/chunkBytes*chunkBytes)
	copy(nb, m.buf[:cap(m.buf)][:m.n])
	m.kept = append(m.kept, m.buf)
	m.buf, m.n = nb, size
	return nb
}
func (m *chunkMem) Free() {}

var chunkedAllocator = experimental.MemoryAllocatorFunc(func(cap, max uint64) experimental.LinearMemory { return &chunkMem{} })

type Trace struct {
	Results [][]any  `json:"results"`
	Host    []uint64 `json:"host"`
	Peeks   [][]any  `json:"peeks"`     // after every call: peek(a) for the store/grow/store addresses (a separate guest call)
	HostRd  [][]any  `json:"hostreads"` // after every call: api.Memory.ReadUint64Le at the same addresses, and the page count
	Pages   uint32   `json:"pages"`
	MemSum  string   `json:"memsum"`
	G0      uint64   `json:"g0"`
	MemMin  uint32   `json:"memmin"`
	MemMax  uint32   `json:"memmax"`
}

type Exec struct {
	T      string `json:"t"`
	Prog   int    `json:"prog"`
	Engine string `json:"engine"`
	Row    int    `json:"row"`
	Role   string `json:"role"` // which runtime of the row: "x" (the row's settings) or "y" (the other settings of a shared row) or "warmup"
	Cfg    Cfg    `json:"cfg"`
	Trace  *Trace `json:"trace,omitempty"`
	Lsn    [3]int `json:"lsn"`
	Spin   string `json:"spin,omitempty"`
	Err    string `json:"err,omitempty"`
}

func trapClass(err error) string {
	s := err.Error()
	if i := strings.IndexByte(s, '\n'); i >= 0 {
		s = s[:i]
	}
	if i := strings.Index(s, " (recovered by wazero)"); i >= 0 {
		s = s[:i]
	}
	return s
}

type rt struct {
	r   wazero.Runtime
	cfg Cfg
}

func newRT(ctx context.Context, p *Prog, engine string, cf Cfg, cache wazero.CompilationCache) *rt {
	var rc wazero.RuntimeConfig
	if engine == "compiler" {
		rc = wazero.NewRuntimeConfigCompiler()
	} else {
		rc = wazero.NewRuntimeConfigInterpreter()
	}
	rc = rc.WithMemoryLimitPages(p.Limit).WithMemoryCapacityFromMax(cf.CapMax).WithDebugInfoEnabled(cf.Debug).
		WithCustomSections(cf.Custom).WithCloseOnContextDone(cf.CloseOnDone)
	if cache != nil {
		rc = rc.WithCompilationCache(cache)
	}
	return &rt{wazero.NewRuntimeWithConfig(ctx, rc), cf}
}

func (x *rt) exec(ctx context.Context, p *Prog, e Exec) (out Exec) {
	out = e
	out.Cfg = x.cfg
	defer func() {
		if v := recover(); v != nil {
			out.Err = fmt.Sprint("PANIC ", v)
		}
	}()
	sk := &sink{}
	cf := x.cfg
	hctx := ctx
	fac := factoryFor(sk)
	if cf.Decline {
		fac = decliningFactory
	}
	if cf.Listener { // listeners are attached to the host functions as well
		hctx = experimental.WithFunctionListenerFactory(ctx, fac)
	}
	_, err := x.r.NewHostModuleBuilder("env").NewFunctionBuilder().
		WithGoFunction(api.GoFunc(func(_ context.Context, stack []uint64) {
			sk.host = append(sk.host, stack[0])
			x := stack[0]
			stack[0] = x*3 + uint64(len(sk.host))
			stack[1] = x ^ 0x5555555555555555
		}), []api.ValueType{api.ValueTypeI64}, []api.ValueType{api.ValueTypeI64, api.ValueTypeI64}).Export("log").
		NewFunctionBuilder().
		WithGoModuleFunction(api.GoModuleFunc(func(_ context.Context, m api.Module, stack []uint64) {
			prev, ok := m.Memory().Grow(uint32(stack[0]))
			if !ok {
				prev = 0xffffffff
			}
			stack[0] = uint64(prev)
		}), []api.ValueType{api.ValueTypeI32}, []api.ValueType{api.ValueTypeI32}).Export("hgrow").Instantiate(hctx)
	if err != nil {
		out.Err = "host: " + err.Error()
		return
	}
	cctx := ctx
	if cf.Listener {
		cctx = experimental.WithFunctionListenerFactory(ctx, fac)
	}
	compiled, err := x.r.CompileModule(cctx, p.Bin)
	if err != nil {
		out.Err = "compile: " + err.Error()
		return
	}
	ictx := cctx
	if cf.Alloc {
		if cf.Moving {
			ictx = experimental.WithMemoryAllocator(ictx, movingAllocator)
		} else if cf.Chunked {
			ictx = experimental.WithMemoryAllocator(ictx, chunkedAllocator)
		} else {
			ictx = experimental.WithMemoryAllocator(ictx, allocator)
		}
	}
	mod, err := x.r.InstantiateModule(ictx, compiled, wazero.NewModuleConfig().WithName(""))
	if err != nil {
		out.Err = "instantiate: " + err.Error()
		return
	}
	base, cancel := context.WithCancel(context.WithValue(ctx, sinkKey{}, sk))
	defer cancel() // close-on-context-done is armed with a live Done channel that never fires during the trace
	tr := &Trace{}
	run, peek := mod.ExportedFunction("run"), mod.ExportedFunction("peek")
	var keep [][]byte // views of earlier buffers stay reachable: a stale write then lands in live memory instead of freed memory
	for _, a := range p.Args {
		if v, ok := mod.Memory().Read(0, 8); ok {
			keep = append(keep, v)
		}
		res, err := run.Call(base, a)
		if err != nil {
			tr.Results = append(tr.Results, []any{"trap", trapClass(err)})
		} else {
			tr.Results = append(tr.Results, []any{"ok", res[0]})
		}
		var pk, hr []any
		for _, ad := range sgsAddrs {
			if r, err := peek.Call(base, uint64(ad)); err != nil {
				pk = append(pk, trapClass(err))
			} else {
				pk = append(pk, r[0])
			}
			v, ok := mod.Memory().ReadUint64Le(ad)
			if !ok {
				hr = append(hr, "fail")
			} else {
				hr = append(hr, v)
			}
		}
		pg, _ := mod.Memory().Grow(0)
		hr = append(hr, pg)
		tr.Peeks = append(tr.Peeks, pk)
		tr.HostRd = append(tr.HostRd, hr)
	}
	_ = keep
	tr.Host = sk.host
	mem := mod.Memory()
	tr.Pages, _ = mem.Grow(0)
	buf, _ := mem.Read(0, mem.Size())
	sum := sha256.Sum256(buf)
	tr.MemSum = hex.EncodeToString(sum[:8])
	tr.G0 = mod.ExportedGlobal("g0").Get()
	tr.MemMin = mem.Definition().Min()
	tr.MemMax, _ = mem.Definition().Max()
	out.Trace = tr
	out.Lsn = [3]int{sk.before, sk.after, sk.abort}
	if cf.CloseOnDone {
		// instrumentation probe: the code served to this runtime must honour its ensure-termination setting
		tctx, tcancel := context.WithTimeout(context.WithValue(ctx, sinkKey{}, &sink{}), 15*time.Millisecond)
		defer tcancel()
		done := make(chan error, 1)
		go func() {
			_, err := mod.ExportedFunction("spin").Call(tctx)
			done <- err
		}()
		select {
		case err := <-done:
			if err != nil {
				out.Spin = "stopped"
			} else {
				out.Spin = "returned"
			}
		case <-time.After(25 * time.Second): // generous: on a starved machine both timers may become due together
			out.Spin = "hung"
		}
	}
	return
}

var tmpRoot string
var dirSeq int
var dirMu sync.Mutex

func freshDir() string {
	dirMu.Lock()
	dirSeq++
	d := fmt.Sprintf("%s/d%d", tmpRoot, dirSeq)
	dirMu.Unlock()
	return d
}

func dirCache(d string) wazero.CompilationCache {
	cc, err := wazero.NewCompilationCacheWithDir(d)
	if err != nil {
		panic(err)
	}
	return cc
}

// runRow executes one lattice row for one program and engine; shared rows yield one Exec per runtime.
func runRow(ctx context.Context, p *Prog, engine string, row int, cf Cfg, oth Cfg) []Exec {
	e := Exec{T: "exec", Prog: p.ID, Engine: engine, Row: row}
	one := func(cache wazero.CompilationCache, c2 Cfg, role string) Exec {
		x := newRT(ctx, p, engine, c2, cache)
		defer x.r.Close(ctx)
		ee := e
		ee.Role = role
		return x.exec(ctx, p, ee)
	}
	switch cf.Cache {
	case "none":
		return []Exec{one(nil, cf, "x")}
	case "mem":
		cc := wazero.NewCompilationCache()
		defer cc.Close(ctx)
		return []Exec{one(cc, cf, "warmup"), one(cc, cf, "x")}
	case "dircold":
		cc := dirCache(freshDir())
		defer cc.Close(ctx)
		return []Exec{one(cc, cf, "x")}
	case "dirwarm":
		d := freshDir()
		cc := dirCache(d)
		w := one(cc, cf, "warmup")
		cc.Close(ctx)
		cc2 := dirCache(d)
		defer cc2.Close(ctx)
		return []Exec{w, one(cc2, cf, "x")}
	}
	// shared between two live runtimes with different settings, in both orders
	var c1, c2 wazero.CompilationCache
	if strings.HasPrefix(cf.Cache, "memshared") {
		c1 = wazero.NewCompilationCache()
		c2 = c1
		defer c1.Close(ctx)
	} else {
		d := freshDir()
		c1, c2 = dirCache(d), dirCache(d)
		defer c1.Close(ctx)
		defer c2.Close(ctx)
	}
	oth.Cache = cf.Cache
	x, y := newRT(ctx, p, engine, cf, c1), newRT(ctx, p, engine, oth, c2)
	defer x.r.Close(ctx)
	defer y.r.Close(ctx)
	ex, ey := e, e
	ex.Role, ey.Role = "x", "y"
	if strings.HasSuffix(cf.Cache, "-ab") {
		a := x.exec(ctx, p, ex)
		b := y.exec(ctx, p, ey)
		return []Exec{a, b}
	}
	b := y.exec(ctx, p, ey)
	a := x.exec(ctx, p, ex)
	return []Exec{b, a}
}

// ---------------------------------------------------------------- limits and module identity
type Limits struct {
	T        string `json:"t"`
	Min      uint32 `json:"min"`
	HasMax   bool   `json:"hasmax"`
	Max      uint32 `json:"max"`
	Limit    uint32 `json:"limit"`
	CapMax   bool   `json:"capmax"`
	Accepted bool   `json:"accepted"`
	RMin     uint32 `json:"rmin"`
	RCap     uint32 `json:"rcap"`
	RMax     uint32 `json:"rmax"`
	Err      string `json:"err,omitempty"`
}

func limitsOf(min uint32, hasMax bool, max, limit uint32, capMax bool) Limits {
	l := Limits{T: "limits", Min: min, HasMax: hasMax, Max: max, Limit: limit, CapMax: capMax}
	m := &c.Mod{}
	var mx *uint32
	if hasMax {
		mx = &max
	}
	m.Mems = [][]byte{c.MemLimits(min, mx)}
	mod, err := binaryformat.DecodeModule(m.Bytes(), api.CoreFeaturesV2, limit, capMax, false, false)
	if err != nil {
		l.Err = err.Error()
		return l
	}
	l.Accepted = true
	l.RMin, l.RCap, l.RMax = mod.MemorySection.Min, mod.MemorySection.Cap, mod.MemorySection.Max
	return l
}

type IDCase struct {
	T    string `json:"t"`
	Wasm []int  `json:"wasm"`
	Ls   []bool `json:"ls"`
	Term bool   `json:"term"`
	ID   string `json:"id"`
}

func idOf(w []byte, ls []bool, term bool) IDCase {
	var listeners []experimental.FunctionListener
	if ls != nil {
		listeners = make([]experimental.FunctionListener, len(ls))
		for i, b := range ls {
			if b {
				listeners[i] = recListener{}
			}
		}
	}
	m := &wasm.Module{}
	m.AssignModuleID(w, listeners, term)
	wi := make([]int, len(w))
	for i, b := range w {
		wi[i] = int(b)
	}
	if ls == nil {
		ls = []bool{}
	}
	return IDCase{T: "id", Wasm: wi, Ls: ls, Term: term, ID: hex.EncodeToString(m.ID[:])}
}

func main() {
	seed := flag.Uint64("seed", 1, "")
	nprog := flag.Int("n", 25, "programs")
	rows := flag.Int("rows", 24, "lattice rows per program (at least the pairwise cover)")
	flag.Parse()
	rng := c.NewRng(*seed)
	out := c.NewOut()
	defer out.Flush()
	ctx := context.Background()
	var err error
	if tmpRoot, err = os.MkdirTemp("", "verif_c12_"); err != nil {
		panic(err)
	}
	defer os.RemoveAll(tmpRoot)

	// memory limits with and without capacity-from-max
	for i := 0; i < 400; i++ {
		limits := []uint64{1, 2, 8, 10, 100, 65535, 65536, 65536}
		limit := uint32(rng.Pick(limits))
		mins := []uint64{0, 1, 2, 3, uint64(limit) - 1, uint64(limit), uint64(limit) + 1, 65535, 65536, 65537, rng.U64()}
		min := uint32(rng.Pick(mins))
		maxs := []uint64{uint64(min) - 1, uint64(min), uint64(min) + 1, uint64(min) + 5, uint64(limit) - 1, uint64(limit), uint64(limit) + 1, 100, 65535, 65536, 65537, 1<<32 - 1, rng.U64()}
		hasMax := rng.Intn(4) != 0
		max := uint32(0)
		if hasMax {
			max = uint32(rng.Pick(maxs))
		}
		out.Emit(limitsOf(min, hasMax, max, limit, false))
		out.Emit(limitsOf(min, hasMax, max, limit, true))
	}
	// module identity
	for i := 0; i < 40; i++ {
		w := make([]byte, 1+rng.Intn(12))
		for j := range w {
			w[j] = byte(rng.U64())
		}
		var ls []bool
		switch rng.Intn(5) {
		case 0:
			ls = nil
		case 1:
			ls = make([]bool, 1+rng.Intn(3))
		default:
			n := 1 + rng.Intn(6)
			if rng.Intn(6) == 0 {
				n = 250 + rng.Intn(20)
			}
			ls = make([]bool, n)
			for j := range ls {
				ls[j] = rng.Bool()
			}
		}
		for _, term := range []bool{false, true} {
			out.Emit(idOf(w, ls, term))
		}
	}

	lat := lattice(rng, *rows)
	var fixedRows [][2]Cfg
	ref := Cfg{Cache: "none"}
	type job struct {
		p      *Prog
		engine string
		row    int
		cf     Cfg
		oth    Cfg
	}
	var jobs []job
	// fixed rows: a cache shared in memory and on disk between two live runtimes that differ ONLY in capacity-from-max, in both
	// orders of compilation; and a moving allocator combined with capacity-from-max (generated code must not depend on either)
	for _, cm := range []string{"memshared-ab", "memshared-ba", "dirshared-ab", "dirshared-ba"} {
		for _, x := range []bool{true, false} {
			fixedRows = append(fixedRows, [2]Cfg{{Cache: cm, CapMax: x, Debug: true}, {Cache: cm, CapMax: !x, Debug: true}})
		}
	}
	for _, cm := range []string{"none", "mem", "dirwarm"} {
		for _, capmax := range []bool{true, false} {
			cf := Cfg{Cache: cm, CapMax: capmax, Alloc: true, Moving: true}
			fixedRows = append(fixedRows, [2]Cfg{cf, cf})
			ch := Cfg{Cache: cm, CapMax: capmax, Alloc: true, Chunked: true}
			fixedRows = append(fixedRows, [2]Cfg{ch, ch})
		}
	}
	out.Emit(map[string]any{"t": "lattice", "rows": lat, "fixed": fixedRows})
	var progs []*Prog
	nfix := 0
	for how := 0; how < 3; how++ {
		for _, v := range [][2]uint32{{4, 0}, {2, 4096}, {100, 65528}} {
			progs = append(progs, fixedProg(rng, nfix, how, v[0], v[1]))
			nfix++
		}
	}
	for i := 0; i < *nprog; i++ {
		progs = append(progs, genProg(rng, nfix+i))
	}
	for _, p := range progs {
		out.Emit(map[string]any{"t": "prog", "prog": p.ID, "size": len(p.Bin), "min": p.Min, "hasmax": p.HasMax, "max": p.Max, "limit": p.Limit, "shape": p.Shape, "args": p.Args})
		for _, eng := range []string{"interp", "compiler"} {
			jobs = append(jobs, job{p, eng, -1, ref, ref})
			for r, cf := range lat {
				jobs = append(jobs, job{p, eng, r, cf, other(rng, cf)})
			}
			for r, fr := range fixedRows {
				jobs = append(jobs, job{p, eng, len(lat) + r, fr[0], fr[1]})
			}
		}
	}
	// results are flushed as they complete, with a start marker, so that a fatal crash of the process
	// (e.g. a fault inside wrongly shared machine code) still tells which rows were running
	out.Flush()
	var mu sync.Mutex
	var wg sync.WaitGroup
	sem := make(chan struct{}, 8)
	for i := range jobs {
		wg.Add(1)
		sem <- struct{}{}
		go func(i int) {
			defer wg.Done()
			defer func() { <-sem }()
			j := jobs[i]
			mu.Lock()
			out.Emit(map[string]any{"t": "start", "job": i, "prog": j.p.ID, "engine": j.engine, "row": j.row, "cfg": j.cf, "other": j.oth})
			out.Flush()
			mu.Unlock()
			es := runRow(ctx, j.p, j.engine, j.row, j.cf, j.oth)
			mu.Lock()
			for _, e := range es {
				out.Emit(e)
			}
			out.Emit(map[string]any{"t": "end", "job": i})
			out.Flush()
			mu.Unlock()
		}(i)
	}
	wg.Wait()
}
