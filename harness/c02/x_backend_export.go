package backend

import (
	"context"

	"github.com/tetratelabs/wazero/internal/engine/wazevo/backend/regalloc"
	"github.com/tetratelabs/wazero/internal/engine/wazevo/ssa"
)

// C02 verification hook (compiled in through `go build -overlay` only).
// ZZVerifCompiler returns the REAL *compiler, prepared the way Lower() prepares it (a virtual register per SSA value,
// reference counts, current instruction group) but with reference counts chosen by the caller, so that
// ValueDefinition / MatchInstr / MatchInstrOneOf / VRegOf / AllocateVReg used by the machine are the real ones.
func ZZVerifCompiler(mach Machine, b ssa.Builder, vals []ssa.Value, refs []uint32, gid ssa.InstructionGroupID) Compiler {
	c := newCompiler(context.Background(), mach, b)
	maxID := 0
	for _, v := range vals {
		if int(v.ID()) > maxID {
			maxID = int(v.ID())
		}
	}
	c.ssaValuesInfo = make([]ssa.ValueInfo, maxID+1)
	c.ssaValueToVRegs = make([]regalloc.VReg, maxID+2)
	for i, v := range vals {
		c.ssaValuesInfo[v.ID()].RefCount = refs[i]
		c.ssaValueToVRegs[v.ID()] = c.AllocateVReg(v.Type())
	}
	c.currentGID = gid
	return c
}
