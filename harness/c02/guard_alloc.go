//go:build linux

// Guard-page allocator for the C02 guard stream: every linear memory lives in its own anonymous mapping, preceded
// and followed by PROT_NONE regions; the first byte after the CURRENT size is always inaccessible (wasm pages are
// multiples of the OS page), so a single host byte read or written outside [0, size) kills the process with
// SIGSEGV instead of silently touching unrelated host memory.
//
//   fixed  mode: the maximum is reserved once (PROT_NONE), [0,size) is made read-write, memory.grow extends the
//                accessible prefix in place (the memory never moves; required for shared memories).
//   moving mode: every Reallocate maps a fresh region of exactly size + guards at another address, copies, and
//                UNMAPS the old one: code that keeps using a stale base address after memory.grow faults.
package main

import (
	"fmt"
	"os"
	"sync"
	"syscall"
	"unsafe"

	"github.com/tetratelabs/wazero/experimental"
)

const guardBytes = 1 << 16 // one wasm page below and above

type guardAllocator struct {
	moving bool
	report func(base uintptr, size, max uint64, moving bool) // called after every (re)allocation
	mu     sync.Mutex
	live   int
}

type guardMem struct {
	al     *guardAllocator
	region []byte // whole mapping: guard | memory (max or size) | guard
	size   uint64
	max    uint64
}

func mmapNone(n uint64) []byte {
	b, err := syscall.Mmap(-1, 0, int(n), syscall.PROT_NONE, syscall.MAP_ANON|syscall.MAP_PRIVATE|syscall.MAP_NORESERVE)
	if err != nil {
		fmt.Fprintln(os.Stderr, "guard allocator: mmap:", err)
		os.Exit(4)
	}
	return b
}

func mustProtect(b []byte, prot int) {
	if len(b) == 0 {
		return
	}
	if err := syscall.Mprotect(b, prot); err != nil {
		fmt.Fprintln(os.Stderr, "guard allocator: mprotect:", err)
		os.Exit(4)
	}
}

func (a *guardAllocator) Allocate(cap, max uint64) experimental.LinearMemory {
	a.mu.Lock()
	a.live++
	a.mu.Unlock()
	m := &guardMem{al: a, max: max}
	if !a.moving {
		m.region = mmapNone(guardBytes + max + guardBytes)
	}
	return m
}

func (m *guardMem) base() uintptr {
	if m.region == nil {
		return 0
	}
	return uintptr(unsafe.Pointer(&m.region[0])) + guardBytes
}

func (m *guardMem) Reallocate(size uint64) []byte {
	if size > m.max {
		return nil
	}
	if m.al.moving {
		nr := mmapNone(guardBytes + size + guardBytes)
		mustProtect(nr[guardBytes:guardBytes+size], syscall.PROT_READ|syscall.PROT_WRITE)
		if m.region != nil {
			copy(nr[guardBytes:guardBytes+size], m.region[guardBytes:guardBytes+m.size])
			_ = syscall.Munmap(m.region)
		}
		m.region = nr
	} else if size > m.size {
		mustProtect(m.region[guardBytes+m.size:guardBytes+size], syscall.PROT_READ|syscall.PROT_WRITE)
	}
	m.size = size
	if m.al.report != nil {
		m.al.report(m.base(), m.size, m.max, m.al.moving)
	}
	// len == cap: not even Go code can re-slice beyond the current size
	return m.region[guardBytes : guardBytes+size : guardBytes+size]
}

func (m *guardMem) Free() {
	if m.region != nil {
		_ = syscall.Munmap(m.region)
		m.region = nil
	}
	m.al.mu.Lock()
	m.al.live--
	m.al.mu.Unlock()
}
