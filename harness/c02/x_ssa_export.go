package ssa

// C02 verification hook (compiled in through `go build -overlay` only).
// ZZSetGroupID sets the instruction group of i, which passDeadCodeEliminationOpt normally assigns.
func (i *Instruction) ZZSetGroupID(g InstructionGroupID) { i.gid = g }
