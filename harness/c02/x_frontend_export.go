package frontend

import (
	"sort"

	"github.com/tetratelabs/wazero/internal/engine/wazevo/ssa"
	"github.com/tetratelabs/wazero/internal/engine/wazevo/wazevoapi"
	"github.com/tetratelabs/wazero/internal/wasm"
)

// C02 verification hook (compiled in through `go build -overlay` only).
//
// ZZLowerTraced lowers the current function exactly as LowerToSSA does (the harness checks that the resulting SSA
// text is identical to the one LowerToSSA itself produces) but looks at the known-safe-bounds cache between the
// steps of lowerBody's loop: the REAL lowerCurrentOpcode (memOpSetup, reloadAfterCall, ...),
// finalizeKnownSafeBoundsAtTheEndOfBlock and initializeCurrentBlockKnownBounds run; nothing here decides anything.

type ZZFact struct {
	V uint32 `json:"v"`
	B uint64 `json:"b"`
	A int64  `json:"a"` // absolute address: SSA value id, -1 when invalid
}

type ZZStep struct {
	PC    int    `json:"pc"`
	Op    byte   `json:"op"`
	Blk   int    `json:"blk"`   // current block before the opcode
	After int    `json:"after"` // current block after it
	Kind  string `json:"kind"`  // "access" | "call" | "grow" | "" (no effect on the cache expected)
	// access: what memOpSetup is called with (read off the Wasm bytes and the value stack) ...
	V    uint32 `json:"v"`
	Ceil uint64 `json:"ceil"`
	// ... and what it did (read off the SSA it emitted)
	Checks int   `json:"checks"` // bounds checks inserted into the block by this opcode
	Addr   int64 `json:"addr"`   // SSA value used as the absolute address by the load/store
	Fresh  bool  `json:"fresh"`  // that value was not cached before the opcode
	Cache []ZZFact `json:"cache,omitempty"` // the cache after the opcode (only for access/call/grow)
	// block switch
	Switch bool     `json:"switch"`
	End    []ZZFact `json:"end,omitempty"`   // cache at the end of Blk (before finalize)
	Snap   []ZZFact `json:"snap,omitempty"`  // what finalize stored for Blk, in stored order
	Preds  []int    `json:"preds,omitempty"` // predecessors of After when it is initialised, in order
	Sealed bool     `json:"sealed"`
	Init   []ZZFact `json:"init,omitempty"` // cache after initializeCurrentBlockKnownBounds
}

type ZZIns struct {
	Op   string  `json:"op"`
	Ret  int64   `json:"ret"`
	Args []int64 `json:"args,omitempty"`
	K    uint64  `json:"k,omitempty"` // constant / offset / exit code / extend from<<8|to
	Bits int     `json:"bits,omitempty"`
}

type ZZBlock struct {
	ID     int     `json:"id"`
	Preds  []int   `json:"preds"`
	Params []int64 `json:"params"`
	Ins    []ZZIns `json:"ins"`
}

type ZZTrace struct {
	Steps  []ZZStep  `json:"steps"`
	Blocks []ZZBlock `json:"blocks"`
	Init0  []ZZFact  `json:"init0"` // the cache when lowering of the entry block starts
	OOB    uint64    `json:"oob"` // the exit code of a failed bounds check
	SSA    string    `json:"-"`
}

func zzAddr(v ssa.Value) int64 {
	if !v.Valid() {
		return -1
	}
	return int64(v.ID())
}

func (c *Compiler) zzCache() []ZZFact {
	out := []ZZFact{}
	for _, v := range c.knownSafeBoundsSet {
		k := c.knownSafeBounds[v]
		out = append(out, ZZFact{V: uint32(v), B: k.bound, A: zzAddr(k.absoluteAddr)})
	}
	sort.SliceStable(out, func(i, j int) bool { return out[i].V < out[j].V })
	return out
}

func zzView(vs []knownSafeBoundWithID) []ZZFact {
	out := []ZZFact{}
	for _, k := range vs {
		out = append(out, ZZFact{V: uint32(k.id), B: k.bound, A: zzAddr(k.absoluteAddr)})
	}
	return out
}

func zzCountChecks(blk ssa.BasicBlock) (n int) {
	for i := blk.Root(); i != nil; i = i.Next() {
		if i.Opcode() == ssa.OpcodeExitIfTrueWithCode {
			if _, _, code := i.ExitIfTrueWithCodeData(); code == wazevoapi.ExitCodeMemoryOutOfBounds {
				n++
			}
		}
	}
	return
}

func zzLeb(b []byte, pc int) (uint32, int) {
	var v uint32
	var s uint
	for {
		x := b[pc]
		pc++
		v |= uint32(x&0x7f) << s
		s += 7
		if x&0x80 == 0 {
			return v, pc
		}
	}
}

var zzSizes = map[byte]uint64{0x28: 4, 0x29: 8, 0x2a: 4, 0x2b: 8, 0x2c: 1, 0x2d: 1, 0x2e: 2, 0x2f: 2, 0x30: 1, 0x31: 1, 0x32: 2, 0x33: 2,
	0x34: 4, 0x35: 4, 0x36: 4, 0x37: 8, 0x38: 4, 0x39: 8, 0x3a: 1, 0x3b: 2, 0x3c: 1, 0x3d: 2, 0x3e: 4}

func (c *Compiler) ZZFormat() string { return c.ssaBuilder.Format() }

func (c *Compiler) ZZLowerTraced() *ZZTrace {
	tr := &ZZTrace{OOB: uint64(wazevoapi.ExitCodeMemoryOutOfBounds)}
	builder := c.ssaBuilder

	// ---- LowerToSSA ----
	entryBlock := builder.AllocateBasicBlock()
	builder.SetCurrentBlock(entryBlock)
	c.execCtxPtrValue = entryBlock.AddParam(builder, executionContextPtrTyp)
	c.moduleCtxPtrValue = entryBlock.AddParam(builder, moduleContextPtrTyp)
	builder.AnnotateValue(c.execCtxPtrValue, "exec_ctx")
	builder.AnnotateValue(c.moduleCtxPtrValue, "module_ctx")
	for i, typ := range c.wasmFunctionTyp.Params {
		st := WasmTypeToSSAType(typ)
		variable := builder.DeclareVariable(st)
		value := entryBlock.AddParam(builder, st)
		builder.DefineVariable(variable, value, entryBlock)
		c.setWasmLocalVariable(wasm.Index(i), variable)
	}
	c.declareWasmLocals()
	c.declareNecessaryVariables()

	// ---- lowerBody ----
	c.ssaBuilder.Seal(entryBlock)
	if c.needListener {
		c.callListenerBefore()
	}
	c.loweringState.ctrlPush(controlFrame{
		kind:           controlFrameKindFunction,
		blockType:      c.wasmFunctionTyp,
		followingBlock: c.ssaBuilder.ReturnBlock(),
	})
	tr.Init0 = c.zzCache()
	for c.loweringState.pc < len(c.wasmFunctionBody) {
		st := &c.loweringState
		s := ZZStep{PC: st.pc, Op: c.wasmFunctionBody[st.pc], Addr: -1}
		blkBeforeLowering := c.ssaBuilder.CurrentBlock()
		s.Blk = int(blkBeforeLowering.ID())
		var cachedBefore map[int64]bool
		checksBefore := 0
		if !st.unreachable {
			if size, ok := zzSizes[s.Op]; ok {
				s.Kind = "access"
				_, p := zzLeb(c.wasmFunctionBody, st.pc+1)
				off, _ := zzLeb(c.wasmFunctionBody, p)
				s.Ceil = uint64(off) + size
				base := st.values[len(st.values)-1]
				if s.Op >= 0x36 {
					base = st.values[len(st.values)-2]
				}
				s.V = uint32(base.ID())
				cachedBefore = map[int64]bool{}
				for _, f := range c.zzCache() {
					cachedBefore[f.A] = true
				}
				checksBefore = zzCountChecks(blkBeforeLowering)
			} else if s.Op == 0x10 || s.Op == 0x11 {
				s.Kind = "call"
			} else if s.Op == 0x40 {
				s.Kind = "grow"
			}
		}

		c.lowerCurrentOpcode()

		blkAfterLowering := c.ssaBuilder.CurrentBlock()
		s.After = int(blkAfterLowering.ID())
		if s.Kind == "access" {
			s.Checks = zzCountChecks(blkAfterLowering) - checksBefore
			if t := blkAfterLowering.Tail(); t != nil {
				if s.Op >= 0x36 {
					_, ptr, _, _ := t.StoreData()
					s.Addr = zzAddr(ptr)
				} else {
					ptr, _, _ := t.LoadData()
					s.Addr = zzAddr(ptr)
				}
			}
			s.Fresh = !cachedBefore[s.Addr]
		}
		if s.Kind != "" {
			s.Cache = c.zzCache()
		}
		if blkBeforeLowering != blkAfterLowering {
			s.Switch = true
			s.End = c.zzCache()
			c.finalizeKnownSafeBoundsAtTheEndOfBlock(blkBeforeLowering.ID())
			s.Snap = zzView(c.getKnownSafeBoundsAtTheEndOfBlocks(blkBeforeLowering.ID()).View())
			for i := 0; i < blkAfterLowering.Preds(); i++ {
				s.Preds = append(s.Preds, int(blkAfterLowering.Pred(i).ID()))
			}
			s.Sealed = blkAfterLowering.Sealed()
			c.initializeCurrentBlockKnownBounds()
			s.Init = c.zzCache()
		}
		tr.Steps = append(tr.Steps, s)
	}

	// ---- the SSA as emitted, block by block (for the oracle; no use of the cache) ----
	vid := func(v ssa.Value) int64 { return zzAddr(v) }
	for blk := builder.BlockIteratorBegin(); blk != nil; blk = builder.BlockIteratorNext() {
		zb := ZZBlock{ID: int(blk.ID()), Preds: []int{}, Params: []int64{}, Ins: []ZZIns{}}
		for i := 0; i < blk.Preds(); i++ {
			zb.Preds = append(zb.Preds, int(blk.Pred(i).ID()))
		}
		for i := 0; i < blk.Params(); i++ {
			zb.Params = append(zb.Params, vid(blk.Param(i)))
		}
		for i := blk.Root(); i != nil; i = i.Next() {
			zi := ZZIns{Op: i.Opcode().String(), Ret: -1}
			if r, _ := i.Returns(); r.Valid() {
				zi.Ret = vid(r)
			}
			switch i.Opcode() {
			case ssa.OpcodeIconst:
				zi.K = i.ConstantVal()
			case ssa.OpcodeIadd:
				x, y := i.Arg2()
				zi.Args = []int64{vid(x), vid(y)}
			case ssa.OpcodeUExtend, ssa.OpcodeSExtend:
				from, to, _ := i.ExtendData()
				zi.Args = []int64{vid(i.Arg())}
				zi.K = uint64(from)<<8 | uint64(to)
			case ssa.OpcodeIcmp:
				x, y, cond := i.IcmpData()
				zi.Args = []int64{vid(x), vid(y)}
				zi.K = uint64(cond)
			case ssa.OpcodeExitIfTrueWithCode:
				_, cv, code := i.ExitIfTrueWithCodeData()
				zi.Args = []int64{vid(cv)}
				zi.K = uint64(code)
			case ssa.OpcodeLoad, ssa.OpcodeUload8, ssa.OpcodeSload8, ssa.OpcodeUload16, ssa.OpcodeSload16, ssa.OpcodeUload32, ssa.OpcodeSload32:
				ptr, off, typ := i.LoadData()
				zi.Args = []int64{vid(ptr)}
				zi.K = uint64(off)
				zi.Bits = int(typ.Bits())
				switch i.Opcode() {
				case ssa.OpcodeUload8, ssa.OpcodeSload8:
					zi.Bits = 8
				case ssa.OpcodeUload16, ssa.OpcodeSload16:
					zi.Bits = 16
				case ssa.OpcodeUload32, ssa.OpcodeSload32:
					zi.Bits = 32
				}
			case ssa.OpcodeStore, ssa.OpcodeIstore8, ssa.OpcodeIstore16, ssa.OpcodeIstore32:
				_, ptr, off, bits := i.StoreData()
				zi.Args = []int64{vid(ptr)}
				zi.K = uint64(off)
				zi.Bits = int(bits)
			}
			zb.Ins = append(zb.Ins, zi)
		}
		tr.Blocks = append(tr.Blocks, zb)
	}
	tr.SSA = builder.Format()
	return tr
}
