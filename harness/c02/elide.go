// C02, direct tie of the known-safe-bounds cache: small generated functions (few base values re-used across
// blocks, loops, ifs with and without else, br / br_if / br_table out of nested constructs, calls, memory.grow)
// are lowered by the REAL frontend, stepped opcode by opcode by frontend.ZZLowerTraced (x_frontend_export.go),
// which reports what the real cache held at every block boundary and what memOpSetup emitted for every access;
// a second, untouched LowerToSSA run must print the same SSA. One JSON line per function.
package main

import (
	"encoding/hex"
	"fmt"

	"github.com/tetratelabs/wazero/api"
	"github.com/tetratelabs/wazero/internal/engine/wazevo/frontend"
	"github.com/tetratelabs/wazero/internal/engine/wazevo/ssa"
	"github.com/tetratelabs/wazero/internal/engine/wazevo/wazevoapi"
	"github.com/tetratelabs/wazero/internal/wasm"
	"github.com/tetratelabs/wazero/internal/wasm/binary"
	c "github.com/tetratelabs/wazero/internal/zz_verif/common"
)

type ElideCase struct {
	ID       int                `json:"id"`
	Mod      int                `json:"mod"`
	Fn       int                `json:"fn"`
	Err      string             `json:"err,omitempty"`
	SameSSA  bool               `json:"same_ssa"`
	Trace    *frontend.ZZTrace  `json:"trace"`
	Body     string             `json:"body"`
	Features map[string]int     `json:"features"`
}

type egen struct {
	r    *c.Rng
	m    *c.ModSpec
	feat map[string]int
}

var eoffs = []uint64{0, 0, 0, 4, 4, 8, 8, 12, 16, 16, 24, 32, 0xfff0, 0x7fffffff, 0x80000000, 0xffffffff}

// locals: 0,1 = i32 params (bases), 2 = i32 param (conditions), 3 = i64 param (stored value), 4,5 = i32 locals (bases)
var ebases = []int{0, 0, 0, 0, 1, 4, 4, 4, 5}

func (g *egen) access() []c.Ins {
	var base []c.Ins
	switch g.r.Intn(10) {
	case 0:
		base = []c.Ins{c.ILocalGet(ebases[g.r.Intn(len(ebases))]), c.IConst(c.I32, g.r.Pick([]uint64{4, 8})), c.IBin(c.I32, 0)}
	default:
		base = []c.Ins{c.ILocalGet(ebases[g.r.Intn(len(ebases))])}
	}
	return g.accessOf(base, uint32(g.r.Pick(eoffs)))
}

// pattern: a shape aimed at one rule of the cache, on one base local b with ceilings small < mid < big
func (g *egen) pattern(d, labels int) []c.Ins {
	b := []c.Ins{c.ILocalGet(ebases[g.r.Intn(len(ebases))])}
	small, mid, big := uint32(g.r.Intn(3)*4), uint32(16+g.r.Intn(3)*4), uint32(40+g.r.Intn(3)*8)
	acc := func(off uint32) []c.Ins { return g.accessOf(b, off) }
	cat := func(xs ...[]c.Ins) []c.Ins {
		var o []c.Ins
		for _, x := range xs {
			o = append(o, x...)
		}
		return o
	}
	between := func() []c.Ins {
		switch g.r.Intn(5) {
		case 0:
			g.feat["call"]++
			return []c.Ins{c.ICall(0)}
		case 1:
			g.feat["grow"]++
			return []c.Ins{c.IConst(c.I32, 1), c.IMemGrow, c.IDrop}
		}
		return nil
	}
	switch g.r.Intn(6) {
	case 0: // two arms with different ceilings, then a ceiling in between: only the minimum survives the join
		g.feat["pattern:join-min"]++
		x, y := big, small
		if g.r.Bool() {
			x, y = small, big
		}
		return cat([]c.Ins{c.ILocalGet(2), g.m.IIf(nil, nil, cat(acc(x), between()), cat(acc(y), between()))}, acc(mid), acc(small))
	case 1: // early exit from a block before the larger check
		g.feat["pattern:early-exit"]++
		return cat([]c.Ins{g.m.IBlock(nil, nil, cat(acc(small), []c.Ins{c.ILocalGet(2), c.IBrIf(0)}, between(), acc(big)))}, acc(mid), acc(small))
	case 2: // a fact established before a loop is used inside it and after it; one established inside is not known at its head
		g.feat["pattern:loop"]++
		return cat(acc(mid), []c.Ins{g.m.ILoop(nil, nil, cat(acc(small), between(), acc(big), []c.Ins{c.ILocalGet(2), c.IBrIf(0)}))}, acc(big), acc(mid))
	case 3: // the memory may move: the bound stays, the absolute address must be re-derived
		g.feat["pattern:call-between"]++
		return cat(acc(big), []c.Ins{c.ICall(0)}, acc(mid), acc(small), []c.Ins{c.IConst(c.I32, 0), c.IMemGrow, c.IDrop}, acc(mid))
	case 4: // one arm only checks: nothing may be known after the join
		g.feat["pattern:one-arm"]++
		return cat([]c.Ins{c.ILocalGet(2), g.m.IIf(nil, nil, acc(big), between())}, acc(small))
	default: // same ceiling again and one byte more (<= versus <)
		g.feat["pattern:boundary"]++
		return cat(g.accessOf(b, 8), between(), g.accessOf(b, 8), g.accessOf(b, 9), g.accessOf(b, 9))
	}
}

func (g *egen) accessOf(base []c.Ins, off uint32) []c.Ins {
	g.feat["access"]++
	if g.r.Intn(3) == 0 {
		n := []int{1, 2, 4, 8}[g.r.Intn(4)]
		return append(append(base, c.ILocalGet(3)), c.IStore(c.I64, n, off))
	}
	t := []byte{c.I32, c.I64}[g.r.Intn(2)]
	ns := []int{1, 2, 4}
	if t == c.I64 {
		ns = []int{1, 2, 4, 8}
	}
	return append(base, c.ILoad(t, ns[g.r.Intn(len(ns))], g.r.Bool(), off), c.IDrop)
}

// stmts returns a stack-neutral sequence; labels = number of enclosing labels (the function's own included)
func (g *egen) stmts(d, n, labels int) []c.Ins {
	var out []c.Ins
	for i := 0; i < n; i++ {
		s, ends := g.stmt(d, labels)
		out = append(out, s...)
		if ends {
			break
		}
	}
	return out
}

func (g *egen) stmt(d, labels int) ([]c.Ins, bool) {
	k := g.r.Intn(27)
	if k >= 24 {
		if d == 0 {
			return g.access(), false
		}
		return g.pattern(d, labels), false
	}
	switch {
	case k < 9:
		return g.access(), false
	case k < 11:
		g.feat["call"]++
		return []c.Ins{c.ICall(0)}, false
	case k < 12:
		g.feat["grow"]++
		return []c.Ins{c.IConst(c.I32, uint64(g.r.Intn(2))), c.IMemGrow, c.IDrop}, false
	case k < 14:
		g.feat["set"]++
		y := []int{0, 1, 4, 5}[g.r.Intn(4)]
		switch g.r.Intn(3) {
		case 0:
			return []c.Ins{c.IConst(c.I32, g.r.Pick([]uint64{0, 16, 65528, 0x80000000, 0xfffffff8})), c.ILocalSet(y)}, false
		case 1:
			return []c.Ins{c.ILocalGet(ebases[g.r.Intn(len(ebases))]), c.IConst(c.I32, 8), c.IBin(c.I32, 0), c.ILocalSet(y)}, false
		default:
			return []c.Ins{c.ILocalGet(ebases[g.r.Intn(len(ebases))]), c.ILocalSet(y)}, false
		}
	case k < 16 && d > 0:
		g.feat["block"]++
		return []c.Ins{g.m.IBlock(nil, nil, g.stmts(d-1, 1+g.r.Intn(4), labels+1))}, false
	case k < 18 && d > 0:
		g.feat["loop"]++
		body := g.stmts(d-1, 1+g.r.Intn(4), labels+1)
		if g.r.Intn(3) > 0 {
			body = append(body, c.ILocalGet(2), c.IBrIf(0))
		}
		return []c.Ins{g.m.ILoop(nil, nil, body)}, false
	case k < 20 && d > 0:
		th := g.stmts(d-1, 1+g.r.Intn(3), labels+1)
		if g.r.Bool() {
			g.feat["if-else"]++
			return []c.Ins{c.ILocalGet(2), g.m.IIf(nil, nil, th, g.stmts(d-1, 1+g.r.Intn(3), labels+1))}, false
		}
		g.feat["if"]++
		// an if without else: encoded without the else opcode
		return []c.Ins{c.ILocalGet(2), {Bin: c.Cat(c.B(0x04, 0x40), seq(th), c.B(0x0b))}}, false
	case k < 22:
		g.feat["br_if"]++
		return []c.Ins{c.ILocalGet(2), c.IBrIf(g.r.Intn(labels))}, false
	case k < 23:
		g.feat["br"]++
		if g.r.Intn(4) == 0 {
			return []c.Ins{c.IReturn}, true
		}
		return []c.Ins{c.IBr(g.r.Intn(labels))}, true
	default:
		g.feat["br_table"]++
		var ls []int
		for i := 1 + g.r.Intn(3); i > 0; i-- {
			ls = append(ls, g.r.Intn(labels))
		}
		return []c.Ins{c.ILocalGet(2), c.IBrTable(ls, g.r.Intn(labels))}, true
	}
}

func seq(is []c.Ins) []byte {
	var o []byte
	for _, i := range is {
		o = append(o, i.Bin...)
	}
	return o
}

func lowerTraced(m *wasm.Module, fn int) (tr *frontend.ZZTrace, same bool, err string) {
	defer func() {
		if e := recover(); e != nil {
			err = fmt.Sprint("PANIC: ", e)
		}
	}()
	typeIndex := m.FunctionSection[fn]
	code := &m.CodeSection[fn]
	mk := func() *frontend.Compiler {
		b := ssa.NewBuilder()
		offset := wazevoapi.NewModuleContextOffsetData(m, false)
		fc := frontend.NewFrontendCompiler(m, b, &offset, false, false, false)
		fc.Init(wasm.Index(fn), typeIndex, &m.TypeSection[typeIndex], code.LocalTypes, code.Body, false, 0)
		return fc
	}
	fc := mk()
	tr = fc.ZZLowerTraced()
	ref := mk()
	ref.LowerToSSA()
	same = ref.ZZFormat() == tr.SSA
	return
}

func mainElide(seed uint64, n int) {
	rng := c.NewRng(seed ^ 0xe11de)
	out := c.NewOut()
	defer out.Flush()
	id := 0
	for mi := 0; id < n; mi++ {
		m := &c.ModSpec{HasMem: true, MemMin: 1, MemMax: 4}
		m.Hosts = []c.HostSpec{{H: 2, Sig: c.Sig{}}}
		var feats []map[string]int
		for fi := 0; fi < 40; fi++ {
			g := &egen{r: rng, m: m, feat: map[string]int{}}
			f := &c.FuncSpec{Sig: c.Sig{P: []byte{c.I32, c.I32, c.I32, c.I64}}, Locals: []byte{c.I32, c.I32}}
			f.Body = g.stmts(3, 3+rng.Intn(8), 1)
			m.Funcs = append(m.Funcs, f)
			feats = append(feats, g.feat)
		}
		bin := m.Encode()
		out.Emit(map[string]any{"module": mi, "wasm": hex.EncodeToString(bin)})
		wm, err := binary.DecodeModule(bin, api.CoreFeaturesV2, 65536, false, false, false)
		if err == nil {
			err = wm.Validate(api.CoreFeaturesV2)
		}
		if err != nil {
			out.Emit(ElideCase{ID: id, Mod: mi, Err: "generator produced an invalid module: " + err.Error()})
			return
		}
		for fi := range m.Funcs {
			cs := ElideCase{ID: id, Mod: mi, Fn: fi, Features: feats[fi], Body: hex.EncodeToString(seq(m.Funcs[fi].Body))}
			cs.Trace, cs.SameSSA, cs.Err = lowerTraced(wm, fi)
			out.Emit(cs)
			id++
			if id >= n {
				break
			}
		}
	}
}
