// C02, direct tie of the operand-encoding model (Engine/X86Enc.v): generated (rex, prefixes, opcode, reg, amode)
// tuples are handed to the REAL encodeEncMem / encodeRegMem / encodeEncEnc / encodeRegReg (amd64) writing into the
// REAL backend compiler's buffer; instruction lists (loads, stores, rip-relative loads, labels) are handed to the REAL
// (*machine).Encode. The bytes are printed, one JSON line per case. Nothing here evaluates anything: checks/c02_enc.py
// and Engine/X86Enc.v do.
package main

import (
	"encoding/hex"
	"os"

	"github.com/tetratelabs/wazero/internal/engine/wazevo/backend/isa/amd64"
	c "github.com/tetratelabs/wazero/internal/zz_verif/common"
)

type EncCase struct {
	T     string         `json:"t"` // "enc"
	ID    int            `json:"id"`
	Group string         `json:"group"`
	In    amd64.ZZEncIn  `json:"in"`
	Out   amd64.ZZEncOut `json:"out"`
	Bytes string         `json:"bytes"`
}

type SeqCase struct {
	T      string            `json:"t"` // "seq"
	ID     int               `json:"id"`
	Items  []amd64.ZZSeqItem `json:"items"`
	Code   string            `json:"code"`
	Labels []int64           `json:"labels"` // binaryOffset the machine recorded for each label
	Panic  string            `json:"panic,omitempty"`
}

var (
	// displacements at the 8-bit and 32-bit boundaries
	dispPool = []uint64{0, 1, 0xffffffff, 127, 128, 0xffffff80, 0xffffff7f, 255, 256, 0xffffff00, 0xfffffeff, 0x7fffffff, 0x80000000,
		0x80000001, 0x7f, 0x80, 0x100, 0x8000, 0xffff8000, 0x10, 0xfffffff0, 0x7fffff80, 0x80000080, 0x00ffffff, 0xff000000, 2, 0xfffffffe}
	// (opcodes, opcodeNum) the instruction encoders pass: one-byte, 0F-escaped, 0F 38 / 0F 3A
	opPool = [][2]uint32{{0x8b, 1}, {0x89, 1}, {0x88, 1}, {0x8d, 1}, {0xf7, 1}, {0x63, 1}, {0xff, 1}, {0xc7, 1}, {0x03, 1}, {0x3b, 1}, {0x87, 1},
		{0x0fb6, 2}, {0x0fb7, 2}, {0x0fbe, 2}, {0x0fbf, 2}, {0x0f10, 2}, {0x0f11, 2}, {0x0f6f, 2}, {0x0f7f, 2}, {0x0f28, 2}, {0x0fef, 2}, {0x0faf, 2},
		{0x0fb1, 2}, {0x0fc1, 2}, {0x0f58, 2}, {0x0f2e, 2},
		{0x0f3800, 3}, {0x0f3817, 3}, {0x0f3840, 3}, {0x0f3a0f, 3}, {0x0f3a22, 3}, {0x0f3a08, 3}, {0x0f3815, 3}}
)

func pickDisp(r *c.Rng, class int) uint32 {
	switch class {
	case 0:
		return 0
	case 1: // fits 8 bits, not zero
		for {
			v := uint32(int32(int8(r.U64())))
			if v != 0 {
				return v
			}
		}
	case 2: // does not fit 8 bits
		for {
			v := uint32(r.U64())
			if r.Intn(3) == 0 {
				v = uint32(int32(int16(v))) // small magnitudes just outside the 8-bit range are the interesting ones
			}
			if int32(v) > 127 || int32(v) < -128 {
				return v
			}
		}
	}
	return uint32(r.Pick(dispPool))
}

func pickOp(r *c.Rng) (uint32, uint32) {
	switch r.Intn(8) {
	case 0: // a random one-byte opcode that is one (not a prefix, not a REX, not an escape, not VEX/EVEX)
		for {
			b := uint32(r.Intn(256))
			switch {
			case b == 0x66, b == 0x67, b == 0xf0, b == 0xf2, b == 0xf3, b == 0x26, b == 0x2e, b == 0x36, b == 0x3e, b == 0x64, b == 0x65,
				b >= 0x40 && b <= 0x4f, b == 0x0f, b == 0xc4, b == 0xc5, b == 0x62:
				continue
			}
			return b, 1
		}
	case 1: // a random two-byte opcode
		for {
			b := uint32(r.Intn(256))
			if b != 0x38 && b != 0x3a {
				return 0x0f00 | b, 2
			}
		}
	case 2:
		return 0x0f3800 | uint32(r.Intn(256)), 3
	case 3:
		return 0x0f3a00 | uint32(r.Intn(256)), 3
	}
	p := opPool[r.Intn(len(opPool))]
	return p[0], p[1]
}

func mainEnc(seed uint64, n int, nseq int) {
	rng := c.NewRng(seed ^ 0xe9c0de)
	out := c.NewOut()
	defer out.Flush()
	z := amd64.ZZNewEnc()
	id := 0
	emit := func(group string, in amd64.ZZEncIn) {
		o := z.Encode(in)
		out.Emit(EncCase{T: "enc", ID: id, Group: group, In: in, Out: o, Bytes: hex.EncodeToString(o.Bytes)})
		id++
	}
	dress := func(in amd64.ZZEncIn) amd64.ZZEncIn { // random rex / prefix / opcode / reg around an operand
		in.Rex = byte(rng.Intn(4))
		in.Prefix = byte(rng.Intn(6))
		in.Opcodes, in.OpNum = pickOp(rng)
		in.R = byte(rng.Intn(16))
		in.Via = rng.Bool()
		return in
	}
	// (1) base + index<<shift: every register pair (rsp as index included: the encoder must refuse it) x every shift,
	//     with a displacement of each class (zero, disp8, disp32) in turn and one from the boundary pool
	k := 0
	for base := 0; base < 16; base++ {
		for index := 0; index < 16; index++ {
			for shift := 0; shift < 4; shift++ {
				in := amd64.ZZEncIn{Kind: 3, Base: byte(base), Index: byte(index), Shift: byte(shift)}
				in.Imm = pickDisp(rng, k%3)
				emit("regreg-enum", dress(in))
				in.Imm = uint32(dispPool[k%len(dispPool)])
				emit("regreg-enum", dress(in))
				k++
			}
		}
	}
	// (2) base + displacement: every base register x every boundary displacement; rbp-relative
	for base := 0; base < 16; base++ {
		for _, d := range dispPool {
			emit("immreg-enum", dress(amd64.ZZEncIn{Kind: 1, Base: byte(base), Imm: uint32(d)}))
		}
	}
	for _, d := range dispPool {
		emit("immrbp-enum", dress(amd64.ZZEncIn{Kind: 2, Imm: uint32(d)}))
	}
	// (3) the REX prefix: every rexInfo x reg x base (no displacement), every rexInfo x reg for rip-relative,
	//     every reg x rm for the register-register form
	for rex := 0; rex < 4; rex++ {
		for r := 0; r < 16; r++ {
			for base := 0; base < 16; base++ {
				in := amd64.ZZEncIn{Kind: 1, Base: byte(base), Rex: byte(rex), R: byte(r), Opcodes: 0x8b, OpNum: 1, Via: rng.Bool()}
				emit("rex-enum", in)
			}
			in := amd64.ZZEncIn{Kind: 4, Imm: uint32(rng.Intn(100)), Rex: byte(rex), R: byte(r), Via: rng.Bool(), Prefix: byte(rng.Intn(6))}
			in.Opcodes, in.OpNum = pickOp(rng)
			emit("riprel-enum", in)
		}
	}
	for r := 0; r < 16; r++ {
		for rm := 0; rm < 16; rm++ {
			in := dress(amd64.ZZEncIn{Kind: 0, RM: byte(rm)})
			in.R = byte(r)
			emit("rr-enum", in)
		}
	}
	// an invalid legacy prefix value: the encoder must refuse it
	emit("bad-prefix", amd64.ZZEncIn{Kind: 1, Base: 3, Prefix: 6, Opcodes: 0x8b, OpNum: 1})
	// (4) random tuples
	for i := 0; i < n; i++ {
		in := amd64.ZZEncIn{Base: byte(rng.Intn(16)), Index: byte(rng.Intn(16)), Shift: byte(rng.Intn(4)), RM: byte(rng.Intn(16))}
		switch kk := rng.Intn(16); {
		case kk < 8:
			in.Kind = 3
		case kk < 12:
			in.Kind = 1
		case kk < 13:
			in.Kind = 2
		case kk < 14:
			in.Kind = 4
		default:
			in.Kind = 0
		}
		in.Imm = pickDisp(rng, rng.Intn(4))
		if in.Kind == 4 {
			in.Imm = uint32(rng.Intn(1000))
		}
		emit("random", dress(in))
	}
	// (5) instruction lists through the real Encode: label fix-ups and the instruction encoders' own use of encodeRegMem
	for s := 0; s < nseq; s++ {
		nl := 1 + rng.Intn(3)
		ni := 4 + rng.Intn(24)
		var items []amd64.ZZSeqItem
		for i := 0; i < ni; i++ {
			am := amd64.ZZEncIn{Base: byte(rng.Intn(16)), Index: byte(rng.Intn(16)), Shift: byte(rng.Intn(4)), Imm: pickDisp(rng, rng.Intn(4))}
			am.Kind = []int{1, 1, 2, 3, 3, 3}[rng.Intn(6)]
			for am.Kind == 3 && am.Index == 4 {
				am.Index = byte(rng.Intn(16))
			}
			it := amd64.ZZSeqItem{Am: am, Reg: byte(rng.Intn(16))}
			switch rng.Intn(6) {
			case 0, 1:
				it.Op = "load64"
			case 2, 3:
				it.Op, it.Size = "store", []byte{1, 2, 4, 8}[rng.Intn(4)]
			case 4:
				it.Op = "movdqu"
			default:
				it.Op, it.Label = "movdqu", rng.Intn(nl)
				it.Am = amd64.ZZEncIn{Kind: 4}
			}
			items = append(items, it)
		}
		if os.Getenv("C02_ENC_LEA") != "" { // experiment: a lea of an ordinary memory operand (never generated by default)
			items = append(items, amd64.ZZSeqItem{Op: "lea", Am: amd64.ZZEncIn{Kind: 1, Base: 3, Imm: 8}, Reg: 0})
		}
		for l := 0; l < nl; l++ { // every label is placed exactly once, anywhere (before or after its uses)
			at := rng.Intn(len(items) + 1)
			items = append(items[:at], append([]amd64.ZZSeqItem{{Op: "label", Label: l}}, items[at:]...)...)
		}
		code, labels, pmsg := amd64.ZZEncodeSeq(items, nl)
		out.Emit(SeqCase{T: "seq", ID: s, Items: items, Code: hex.EncodeToString(code), Labels: labels, Panic: pmsg})
	}
}
