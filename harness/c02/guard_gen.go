// Generator of ACCESS programs for the C02 guard stream. Every function performs (optionally a first load on the
// same base value, optionally a memory.grow / a call that grows, then) ONE access of some instruction family:
// plain loads of every width and extension feeding a CONSUMER directly (single use, nothing in between: the shape a
// back end folds into the consumer as a memory operand), plain stores, stores of loaded values, the SIMD loads and
// stores (v128, extending, splat, zero, lane), the atomics of the threads proposal and the bulk operations.
// Every consumer also exists as a TWIN function that takes the loaded value as a parameter: the expected result of
// `load -> consumer` is `twin(reference value of the addressed bytes)` on the same engine, so the reference needs
// no semantics for the consumers. By construction valid; every random choice comes from the one Rng.
package main

import (
	c "github.com/tetratelabs/wazero/internal/zz_verif/common"
)

// Src: where an i32 operand (address, length) comes from.
type Src struct {
	K string `json:"k"` // a | b | x (low 32 bits of x) | const | a+c
	C uint32 `json:"c,omitempty"`
}

// MemOp describes one memory instruction of a function.
type MemOp struct {
	Fam   string `json:"fam"`
	Name  string `json:"name"`
	N     int    `json:"n"`             // bytes accessed
	Off   uint32 `json:"off"`           // static offset
	Base  Src    `json:"base"`          // address operand
	Shape []any  `json:"shape"`         // how the bytes read become the value
	Hole  string `json:"hole,omitempty"` // type of the value produced (i32 i64 f32 f64 v128)
	Cons  string `json:"cons,omitempty"` // consumer (loads only)
	Group string `json:"group,omitempty"`
	Lane  int    `json:"lane,omitempty"`
	Rmw   string `json:"rmw,omitempty"`
	D     *Src   `json:"d,omitempty"` // bulk: destination / load_store: destination address
	S     *Src   `json:"s,omitempty"`
	L     *Src   `json:"l,omitempty"`
	Seg   int    `json:"seg,omitempty"`
	DOff  uint32 `json:"doff,omitempty"` // load_store: static offset of the store
	VC    *uint64 `json:"vc,omitempty"`  // store: the value is this constant (bits), not x
	op    []byte
	cons  *consumer
}

type Func struct {
	Pre     *MemOp `json:"pre,omitempty"`
	Between string `json:"between,omitempty"` // grow | callgrow | callnop
	Delta   uint32 `json:"delta,omitempty"`
	Main    MemOp  `json:"main"`
	Res     tlist  `json:"res"`  // result types of the main function
	TwinRes tlist  `json:"tres"` // result types of the twin (consumer results only)
}

// tlist: value types, written to JSON as an array of numbers
type tlist []byte

func (t tlist) MarshalJSON() ([]byte, error) {
	o := []byte{'['}
	for i, b := range t {
		if i > 0 {
			o = append(o, ',')
		}
		o = append(o, []byte(itoa(int(b)))...)
	}
	return append(o, ']'), nil
}

type Call struct {
	F    int    `json:"f"`
	A    uint32 `json:"a"`
	B    uint32 `json:"b"`
	X    uint64 `json:"x"`
	Y    uint64 `json:"y"`
	XMem bool   `json:"xmem,omitempty"` // x is replaced by the value currently at the main access (cmpxchg / wait hits)
	Pos  string `json:"pos"`            // intended position of the main access
}

type Prog struct {
	ID      int    `json:"id"`
	Kind    string `json:"kind"` // sweep | random
	Min     uint32 `json:"min"`
	Max     uint32 `json:"max"`
	Shared  bool   `json:"shared"`
	Moving  bool   `json:"moving"`
	Threads bool   `json:"threads"`
	Funcs   []Func `json:"funcs"`
	Seg     []byte `json:"-"`
	Calls   []Call `json:"calls"`
	Wasm    []byte `json:"-"`
}

// ---- code fragments ----
var (
	x32  = []byte{0x20, 2, 0xa7}
	y32  = []byte{0x20, 3, 0xa7}
	x64  = []byte{0x20, 2}
	y64  = []byte{0x20, 3}
	xf32 = []byte{0x20, 2, 0xa7, 0xbe}
	xf64 = []byte{0x20, 2, 0xbf}
	xv   = []byte{0x20, 2, 0xfd, 18, 0x20, 3, 0xfd, 30, 1}
)

const (
	fnID32 = 0 // (i32)->(i32)  p*3+1
	fnSub  = 1 // (i32,i32)->(i32)  p0-p1
	fnGrow = 2 // (i32)->(i32)  memory.grow
	fnNop  = 3
	fnID64 = 4 // (i64)->(i64)  p^0x55
	nHelp  = 5
	locV   = 4 // v128 scratch
	locPre = 5 // i64: value of the first load
	locGr  = 6 // i32: result of memory.grow
)

func simd(op uint32, imm ...byte) []byte { return c.Cat([]byte{0xfd}, c.U32(op), imm) }

type consumer struct {
	name, group, hole string
	pre, post         []byte
	res               []byte
}

func operandOf(hole string) []byte {
	switch hole {
	case "i32":
		return x32
	case "i64":
		return x64
	case "f32":
		return xf32
	case "f64":
		return xf64
	}
	return xv
}

func valType(hole string) byte {
	switch hole {
	case "i32":
		return c.I32
	case "i64":
		return c.I64
	case "f32":
		return c.F32
	case "f64":
		return c.F64
	}
	return c.V128
}

var consumers = buildConsumers()

func buildConsumers() map[string][]*consumer {
	m := map[string][]*consumer{}
	add := func(cs *consumer) { m[cs.hole] = append(m[cs.hole], cs) }
	bin := func(hole, group, name string, op []byte, res byte) {
		o := operandOf(hole)
		add(&consumer{name: name + "(x,H)", group: group, hole: hole, pre: o, post: op, res: []byte{res}})
		add(&consumer{name: name + "(H,x)", group: group, hole: hole, post: c.Cat(o, op), res: []byte{res}})
	}
	un := func(hole, group, name string, op []byte, res byte) {
		add(&consumer{name: name, group: group, hole: hole, post: op, res: []byte{res}})
	}
	for _, t := range []struct {
		hole       string
		vt         byte
		alu, cmp   byte
		unary      byte
		constInstr []byte
	}{{"i32", c.I32, 0x6a, 0x46, 0x67, c.I32Const(0x1234567)}, {"i64", c.I64, 0x7c, 0x51, 0x79, c.I64Const(0x123456789)}} {
		names := []string{"add", "sub", "mul", "div_s", "div_u", "rem_s", "rem_u", "and", "or", "xor", "shl", "shr_s", "shr_u", "rotl", "rotr"}
		for i, n := range names {
			g := "alu"
			if i >= 3 && i <= 6 {
				g = "div"
			}
			if i >= 10 {
				g = "shift"
			}
			bin(t.hole, g, t.hole+"."+n, []byte{t.alu + byte(i)}, t.vt)
		}
		for _, i := range []int{0, 7, 9} { // with an immediate on the other side
			add(&consumer{name: t.hole + "." + names[i] + "(H,const)", group: "alu", hole: t.hole, post: c.Cat(t.constInstr, []byte{t.alu + byte(i)}), res: []byte{t.vt}})
		}
		for i, n := range []string{"eq", "ne", "lt_s", "lt_u", "gt_s", "gt_u", "le_s", "le_u", "ge_s", "ge_u"} {
			bin(t.hole, "cmp", t.hole+"."+n, []byte{t.cmp + byte(i)}, c.I32)
		}
		add(&consumer{name: t.hole + ".eq(H,const)", group: "cmp", hole: t.hole, post: c.Cat(t.constInstr, []byte{t.cmp}), res: []byte{c.I32}})
		un(t.hole, "cmp", t.hole+".eqz", []byte{t.cmp - 1}, c.I32)
		for i, n := range []string{"clz", "ctz", "popcnt"} {
			un(t.hole, "unary", t.hole+"."+n, []byte{t.unary + byte(i)}, t.vt)
		}
	}
	un("i32", "unary", "i32.extend8_s", []byte{0xc0}, c.I32)
	un("i32", "unary", "i32.extend16_s", []byte{0xc1}, c.I32)
	un("i64", "unary", "i64.extend8_s", []byte{0xc2}, c.I64)
	un("i64", "unary", "i64.extend16_s", []byte{0xc3}, c.I64)
	un("i64", "unary", "i64.extend32_s", []byte{0xc4}, c.I64)
	// conversions
	un("i32", "conv", "i64.extend_i32_s", []byte{0xac}, c.I64)
	un("i32", "conv", "i64.extend_i32_u", []byte{0xad}, c.I64)
	un("i32", "conv", "f32.convert_i32_s", []byte{0xb2}, c.F32)
	un("i32", "conv", "f32.convert_i32_u", []byte{0xb3}, c.F32)
	un("i32", "conv", "f64.convert_i32_s", []byte{0xb7}, c.F64)
	un("i32", "conv", "f64.convert_i32_u", []byte{0xb8}, c.F64)
	un("i32", "conv", "f32.reinterpret_i32", []byte{0xbe}, c.F32)
	un("i64", "conv", "i32.wrap_i64", []byte{0xa7}, c.I32)
	un("i64", "conv", "f32.convert_i64_s", []byte{0xb4}, c.F32)
	un("i64", "conv", "f32.convert_i64_u", []byte{0xb5}, c.F32)
	un("i64", "conv", "f64.convert_i64_s", []byte{0xb9}, c.F64)
	un("i64", "conv", "f64.convert_i64_u", []byte{0xba}, c.F64)
	un("i64", "conv", "f64.reinterpret_i64", []byte{0xbf}, c.F64)
	un("f32", "conv", "i32.reinterpret_f32", []byte{0xbc}, c.I32)
	un("f32", "conv", "f64.promote_f32", []byte{0xbb}, c.F64)
	un("f32", "conv", "i32.trunc_sat_f32_s", []byte{0xfc, 0}, c.I32)
	un("f32", "conv", "i32.trunc_sat_f32_u", []byte{0xfc, 1}, c.I32)
	un("f32", "conv", "i64.trunc_sat_f32_s", []byte{0xfc, 4}, c.I64)
	un("f32", "conv", "i64.trunc_sat_f32_u", []byte{0xfc, 5}, c.I64)
	un("f64", "conv", "i64.reinterpret_f64", []byte{0xbd}, c.I64)
	un("f64", "conv", "f32.demote_f64", []byte{0xb6}, c.F32)
	un("f64", "conv", "i32.trunc_sat_f64_s", []byte{0xfc, 2}, c.I32)
	un("f64", "conv", "i32.trunc_sat_f64_u", []byte{0xfc, 3}, c.I32)
	un("f64", "conv", "i64.trunc_sat_f64_s", []byte{0xfc, 6}, c.I64)
	un("f64", "conv", "i64.trunc_sat_f64_u", []byte{0xfc, 7}, c.I64)
	// float operators
	for _, t := range []struct {
		hole   string
		vt     byte
		un0    byte
		cmp0   byte
		splat  uint32
		repl   uint32
		lanes  int
	}{{"f32", c.F32, 0x8b, 0x5b, 19, 32, 4}, {"f64", c.F64, 0x99, 0x61, 20, 34, 2}} {
		for i, n := range []string{"abs", "neg", "ceil", "floor", "trunc", "nearest", "sqrt"} {
			un(t.hole, "float", t.hole+"."+n, []byte{t.un0 + byte(i)}, t.vt)
		}
		for i, n := range []string{"add", "sub", "mul", "div", "min", "max", "copysign"} {
			bin(t.hole, "float", t.hole+"."+n, []byte{t.un0 + 7 + byte(i)}, t.vt)
		}
		for i, n := range []string{"eq", "ne", "lt", "gt", "le", "ge"} {
			bin(t.hole, "fcmp", t.hole+"."+n, []byte{t.cmp0 + byte(i)}, c.I32)
		}
		un(t.hole, "splat", t.hole+"x.splat", simd(t.splat), c.V128)
		for l := 0; l < t.lanes; l += t.lanes - 1 {
			add(&consumer{name: t.hole + "x.replace_lane", group: "replace_lane", hole: t.hole, pre: xv, post: simd(t.repl, byte(l)), res: []byte{c.V128}})
		}
	}
	// i32 / i64 into vectors
	for _, s := range []struct {
		n     string
		splat uint32
		repl  uint32
		lanes int
	}{{"i8x16", 15, 23, 16}, {"i16x8", 16, 26, 8}, {"i32x4", 17, 28, 4}} {
		un("i32", "splat", s.n+".splat", simd(s.splat), c.V128)
		for _, l := range []int{0, s.lanes - 1} {
			add(&consumer{name: s.n + ".replace_lane", group: "replace_lane", hole: "i32", pre: xv, post: simd(s.repl, byte(l)), res: []byte{c.V128}})
		}
	}
	un("i64", "splat", "i64x2.splat", simd(18), c.V128)
	for _, l := range []int{0, 1} {
		add(&consumer{name: "i64x2.replace_lane", group: "replace_lane", hole: "i64", pre: xv, post: simd(30, byte(l)), res: []byte{c.V128}})
	}
	// vector shifts: the amount is the loaded i32
	for _, s := range []struct {
		n  string
		op uint32
	}{{"i8x16", 107}, {"i16x8", 139}, {"i32x4", 171}, {"i64x2", 203}} {
		for i, n := range []string{"shl", "shr_s", "shr_u"} {
			add(&consumer{name: s.n + "." + n + "(v,H)", group: "simd-shift", hole: "i32", pre: xv, post: simd(s.op + uint32(i)), res: []byte{c.V128}})
		}
	}
	// select, control flow, calls, globals
	add(&consumer{name: "select(x,y,H)", group: "select", hole: "i32", pre: c.Cat(x64, y64), post: []byte{0x1b}, res: []byte{c.I64}})
	add(&consumer{name: "select(H,x,y!=0)", group: "select", hole: "i32", post: c.Cat(x32, y32, []byte{0x1b}), res: []byte{c.I32}})
	add(&consumer{name: "select(x,H,y!=0)", group: "select", hole: "i32", pre: x32, post: c.Cat(y32, []byte{0x1b}), res: []byte{c.I32}})
	add(&consumer{name: "select(H,x,y!=0)", group: "select", hole: "i64", post: c.Cat(x64, y32, []byte{0x1b}), res: []byte{c.I64}})
	add(&consumer{name: "select(H,x,y!=0)", group: "select", hole: "f32", post: c.Cat(xf32, y32, []byte{0x1b}), res: []byte{c.F32}})
	add(&consumer{name: "select(x,H,y!=0)", group: "select", hole: "f64", pre: xf64, post: c.Cat(y32, []byte{0x1b}), res: []byte{c.F64}})
	add(&consumer{name: "if(H)", group: "control", hole: "i32", post: c.Cat([]byte{0x04, c.I64}, x64, []byte{0x05}, y64, []byte{0x0b}), res: []byte{c.I64}})
	add(&consumer{name: "br_if(H)", group: "control", hole: "i32", pre: c.Cat([]byte{0x02, c.I64}, x64), post: c.Cat([]byte{0x0d, 0, 0x1a}, y64, []byte{0x0b}), res: []byte{c.I64}})
	add(&consumer{name: "br_if(eqz H)", group: "control", hole: "i32", pre: c.Cat([]byte{0x02, c.I64}, x64), post: c.Cat([]byte{0x45, 0x0d, 0, 0x1a}, y64, []byte{0x0b}), res: []byte{c.I64}})
	add(&consumer{name: "br_if(eqz(x&H))", group: "control", hole: "i32", pre: c.Cat([]byte{0x02, c.I64}, x64, x32), post: c.Cat([]byte{0x71, 0x45, 0x0d, 0, 0x1a}, y64, []byte{0x0b}), res: []byte{c.I64}})
	add(&consumer{name: "br_if(x&H)", group: "control", hole: "i32", pre: c.Cat([]byte{0x02, c.I64}, x64, x32), post: c.Cat([]byte{0x71, 0x0d, 0, 0x1a}, y64, []byte{0x0b}), res: []byte{c.I64}})
	add(&consumer{name: "br_if(H<x)", group: "control", hole: "i32", pre: c.Cat([]byte{0x02, c.I64}, x64), post: c.Cat(x32, []byte{0x49, 0x0d, 0, 0x1a}, y64, []byte{0x0b}), res: []byte{c.I64}})
	add(&consumer{name: "br_if(eqz(x&H))", group: "control", hole: "i64", pre: c.Cat([]byte{0x02, c.I64}, x64, x64), post: c.Cat([]byte{0x83, 0x50, 0x0d, 0, 0x1a}, y64, []byte{0x0b}), res: []byte{c.I64}})
	add(&consumer{name: "br_if(H==x)", group: "control", hole: "i64", pre: c.Cat([]byte{0x02, c.I64}, y64), post: c.Cat(x64, []byte{0x51, 0x0d, 0, 0x1a}, x64, []byte{0x0b}), res: []byte{c.I64}})
	add(&consumer{name: "br_if(H<x)", group: "control", hole: "f64", pre: c.Cat([]byte{0x02, c.I64}, y64), post: c.Cat(xf64, []byte{0x63, 0x0d, 0, 0x1a}, x64, []byte{0x0b}), res: []byte{c.I64}})
	add(&consumer{name: "br_table(H)", group: "control", hole: "i32",
		pre:  []byte{0x02, c.I64, 0x02, 0x40, 0x02, 0x40},
		post: c.Cat([]byte{0x0e, 2, 0, 1, 0, 0x0b}, x64, []byte{0x0c, 1, 0x0b}, y64, []byte{0x0b}), res: []byte{c.I64}})
	add(&consumer{name: "call(H)", group: "call", hole: "i32", post: []byte{0x10, fnID32}, res: []byte{c.I32}})
	add(&consumer{name: "call(x,H)", group: "call", hole: "i32", pre: x32, post: []byte{0x10, fnSub}, res: []byte{c.I32}})
	add(&consumer{name: "call(H,x)", group: "call", hole: "i32", post: c.Cat(x32, []byte{0x10, fnSub}), res: []byte{c.I32}})
	add(&consumer{name: "call(H)", group: "call", hole: "i64", post: []byte{0x10, fnID64}, res: []byte{c.I64}})
	add(&consumer{name: "global.set(H)", group: "global", hole: "i32", post: []byte{0x24, 0, 0x23, 0}, res: []byte{c.I32}})
	add(&consumer{name: "global.set(H)", group: "global", hole: "i64", post: []byte{0x24, 1, 0x23, 1}, res: []byte{c.I64}})
	add(&consumer{name: "tee;add(H,H)", group: "multiuse", hole: "i32", post: []byte{0x22, 7, 0x20, 7, 0x6a}, res: []byte{c.I32}})
	for _, h := range []string{"i32", "i64", "f32", "f64", "v128"} {
		add(&consumer{name: "return", group: "return", hole: h, res: []byte{valType(h)}})
	}
	// consumers of a loaded v128
	vb := func(name string, op uint32) {
		add(&consumer{name: name + "(v,H)", group: "v128-binary", hole: "v128", pre: xv, post: simd(op), res: []byte{c.V128}})
		add(&consumer{name: name + "(H,v)", group: "v128-binary", hole: "v128", post: c.Cat(xv, simd(op)), res: []byte{c.V128}})
	}
	for _, o := range []struct {
		n  string
		op uint32
	}{{"v128.and", 78}, {"v128.andnot", 79}, {"v128.or", 80}, {"v128.xor", 81}, {"i8x16.swizzle", 14}, {"i8x16.eq", 35}, {"i32x4.eq", 55}, {"i32x4.lt_s", 57},
		{"i8x16.add", 110}, {"i8x16.sub", 113}, {"i8x16.min_u", 119}, {"i8x16.max_s", 120}, {"i8x16.avgr_u", 123}, {"i8x16.narrow_i16x8_s", 101}, {"i8x16.narrow_i16x8_u", 102},
		{"i16x8.q15mulr_sat_s", 130}, {"i16x8.add", 142}, {"i16x8.mul", 149}, {"i16x8.extmul_low_i8x16_s", 156}, {"i32x4.add", 174}, {"i32x4.mul", 181},
		{"i32x4.dot_i16x8_s", 186}, {"i64x2.add", 206}, {"i64x2.mul", 213}, {"i64x2.eq", 214}, {"f32x4.eq", 65}, {"f32x4.lt", 67}, {"f64x2.eq", 71}, {"f64x2.le", 75}} {
		vb(o.n, o.op)
	}
	vu := func(name string, op uint32, res byte, imm ...byte) {
		add(&consumer{name: name, group: "v128-unary", hole: "v128", post: simd(op, imm...), res: []byte{res}})
	}
	vu("v128.not", 77, c.V128)
	vu("v128.any_true", 83, c.I32)
	vu("i8x16.abs", 96, c.V128)
	vu("i8x16.neg", 97, c.V128)
	vu("i8x16.popcnt", 98, c.V128)
	vu("i8x16.all_true", 99, c.I32)
	vu("i8x16.bitmask", 100, c.I32)
	vu("i16x8.extend_low_i8x16_s", 135, c.V128)
	vu("i16x8.extend_high_i8x16_u", 138, c.V128)
	vu("i32x4.extend_low_i16x8_u", 169, c.V128)
	vu("i64x2.extend_low_i32x4_s", 199, c.V128)
	vu("i32x4.abs", 160, c.V128)
	vu("i64x2.neg", 193, c.V128)
	vu("i64x2.all_true", 195, c.I32)
	vu("f32x4.abs", 224, c.V128)
	vu("f64x2.neg", 237, c.V128)
	vu("f32x4.convert_i32x4_s", 250, c.V128)
	vu("f32x4.convert_i32x4_u", 251, c.V128)
	vu("f64x2.convert_low_i32x4_s", 254, c.V128)
	vu("i32x4.trunc_sat_f32x4_s", 248, c.V128)
	vu("i8x16.extract_lane_s", 21, c.I32, 15)
	vu("i16x8.extract_lane_u", 25, c.I32, 7)
	vu("i32x4.extract_lane", 27, c.I32, 3)
	vu("i64x2.extract_lane", 29, c.I64, 1)
	vu("f32x4.extract_lane", 31, c.F32, 2)
	vu("f64x2.extract_lane", 33, c.F64, 1)
	add(&consumer{name: "i8x16.shuffle(H,v)", group: "v128-binary", hole: "v128", post: c.Cat(xv, simd(13, 0, 17, 2, 19, 4, 21, 6, 23, 8, 25, 10, 27, 12, 29, 14, 31)), res: []byte{c.V128}})
	add(&consumer{name: "v128.bitselect(v,H,v)", group: "v128-binary", hole: "v128", pre: xv, post: c.Cat(xv, simd(82)), res: []byte{c.V128}})
	add(&consumer{name: "i32x4.shl(H,x)", group: "v128-binary", hole: "v128", post: c.Cat(x32, simd(171)), res: []byte{c.V128}})
	return m
}

// ---- load / store instruction tables ----
type ldop struct {
	name  string
	op    []byte
	n     int
	hole  string
	shape []any
	plain bool // the full-width load of its type (the one back ends fold)
}

var plainLoads = []ldop{
	{"i32.load", []byte{0x28}, 4, "i32", []any{"raw"}, true},
	{"i64.load", []byte{0x29}, 8, "i64", []any{"raw"}, true},
	{"f32.load", []byte{0x2a}, 4, "f32", []any{"raw"}, true},
	{"f64.load", []byte{0x2b}, 8, "f64", []any{"raw"}, true},
	{"i32.load8_s", []byte{0x2c}, 1, "i32", []any{"sext", 4}, false},
	{"i32.load8_u", []byte{0x2d}, 1, "i32", []any{"zext", 4}, false},
	{"i32.load16_s", []byte{0x2e}, 2, "i32", []any{"sext", 4}, false},
	{"i32.load16_u", []byte{0x2f}, 2, "i32", []any{"zext", 4}, false},
	{"i64.load8_s", []byte{0x30}, 1, "i64", []any{"sext", 8}, false},
	{"i64.load8_u", []byte{0x31}, 1, "i64", []any{"zext", 8}, false},
	{"i64.load16_s", []byte{0x32}, 2, "i64", []any{"sext", 8}, false},
	{"i64.load16_u", []byte{0x33}, 2, "i64", []any{"zext", 8}, false},
	{"i64.load32_s", []byte{0x34}, 4, "i64", []any{"sext", 8}, false},
	{"i64.load32_u", []byte{0x35}, 4, "i64", []any{"zext", 8}, false},
}

var vecLoads = []ldop{
	{"v128.load", simd(0), 16, "v128", []any{"raw"}, true},
	{"v128.load8x8_s", simd(1), 8, "v128", []any{"lanes", 1, true}, false},
	{"v128.load8x8_u", simd(2), 8, "v128", []any{"lanes", 1, false}, false},
	{"v128.load16x4_s", simd(3), 8, "v128", []any{"lanes", 2, true}, false},
	{"v128.load16x4_u", simd(4), 8, "v128", []any{"lanes", 2, false}, false},
	{"v128.load32x2_s", simd(5), 8, "v128", []any{"lanes", 4, true}, false},
	{"v128.load32x2_u", simd(6), 8, "v128", []any{"lanes", 4, false}, false},
	{"v128.load8_splat", simd(7), 1, "v128", []any{"splat"}, false},
	{"v128.load16_splat", simd(8), 2, "v128", []any{"splat"}, false},
	{"v128.load32_splat", simd(9), 4, "v128", []any{"splat"}, false},
	{"v128.load64_splat", simd(10), 8, "v128", []any{"splat"}, false},
	{"v128.load32_zero", simd(92), 4, "v128", []any{"zero"}, false},
	{"v128.load64_zero", simd(93), 8, "v128", []any{"zero"}, false},
}

type stop struct {
	name string
	op   []byte
	n    int
	typ  string
}

var plainStores = []stop{
	{"i32.store", []byte{0x36}, 4, "i32"}, {"i64.store", []byte{0x37}, 8, "i64"}, {"f32.store", []byte{0x38}, 4, "f32"}, {"f64.store", []byte{0x39}, 8, "f64"},
	{"i32.store8", []byte{0x3a}, 1, "i32"}, {"i32.store16", []byte{0x3b}, 2, "i32"}, {"i64.store8", []byte{0x3c}, 1, "i64"}, {"i64.store16", []byte{0x3d}, 2, "i64"},
	{"i64.store32", []byte{0x3e}, 4, "i64"},
}

type atop struct {
	name string
	sub  byte
	n    int
	typ  string
}

func atomicTable(base byte, prefix, suffix string) []atop {
	// order of the threads proposal: i32, i64, i32.8, i32.16, i64.8, i64.16, i64.32
	mk := func(t string, w string) string {
		if prefix == "load" || prefix == "store" {
			s := t + ".atomic." + prefix + w
			if w != "" && prefix == "load" {
				s += "_u"
			}
			return s
		}
		s := t + ".atomic.rmw" + w + "." + prefix
		if w != "" {
			s += "_u"
		}
		return s
	}
	return []atop{{mk("i32", ""), base, 4, "i32"}, {mk("i64", ""), base + 1, 8, "i64"}, {mk("i32", "8"), base + 2, 1, "i32"}, {mk("i32", "16"), base + 3, 2, "i32"},
		{mk("i64", "8"), base + 4, 1, "i64"}, {mk("i64", "16"), base + 5, 2, "i64"}, {mk("i64", "32"), base + 6, 4, "i64"}}
}

var (
	atomLoads  = atomicTable(0x10, "load", "")
	atomStores = atomicTable(0x17, "store", "")
	rmwNames   = []string{"add", "sub", "and", "or", "xor", "xchg"}
)

func log2(n int) uint32 {
	k := uint32(0)
	for 1<<k < n {
		k++
	}
	return k
}

// ---- generation ----
type ggen struct {
	r       *c.Rng
	threads bool
}

func (g *ggen) off() uint32 {
	switch g.r.Intn(20) {
	case 0, 1, 2, 3, 4, 5:
		return 0
	case 6, 7, 8, 9, 10, 11:
		return uint32(g.r.Intn(64))
	case 12, 13:
		return uint32(g.r.Pick([]uint64{1, 2, 3, 4, 7, 8, 15, 16, 255, 256, 4095, 4096}))
	case 14:
		return uint32(g.r.Pick([]uint64{65535, 65536, 65537, 131072}))
	case 15:
		return uint32(g.r.Pick([]uint64{0x7fffffff, 0x7ffffff8, 0x80000000, 0x80000008, 0xfffffff0, 0xfffffffc, 0xffffffff}))
	case 16:
		return 0x80000000 + uint32(g.r.Intn(1<<20))
	}
	return uint32(g.r.Intn(1024))
}

func (g *ggen) baseSrc(constOK bool, p *Prog, n int, off uint32) Src {
	switch k := g.r.Intn(10); {
	case k < 6:
		return Src{K: "a"}
	case k < 8:
		return Src{K: "a+c", C: uint32(g.r.Pick([]uint64{1, 4, 8, 16, 0xfffffff8, 0xfffffffc, 0x80000000, uint64(g.r.Intn(256))}))}
	case k < 9 && constOK:
		// a constant address aimed at the end of the initial memory
		size := uint64(p.Min) << 16
		t := g.target(size, n, true)
		if t >= uint64(off) && t-uint64(off) < 1<<32 {
			return Src{K: "const", C: uint32(t - uint64(off))}
		}
		return Src{K: "const", C: uint32(size) - uint32(n)}
	}
	return Src{K: "b"}
}

// target picks an intended effective address for an access of n bytes on a memory of `size` bytes.
func (g *ggen) target(size uint64, n int, nearOnly bool) uint64 {
	w := uint64(n)
	sub := func(a, b uint64) uint64 {
		if a < b {
			return 0
		}
		return a - b
	}
	k := g.r.Intn(100)
	switch {
	case k < 35:
		return sub(size, w+16) + uint64(g.r.Intn(33+n))
	case k < 58:
		return sub(size, w) // the last in-bounds position
	case k < 72:
		return sub(size, w) + 1 // the first out-of-bounds position
	case k < 77:
		return size
	case k < 83:
		return uint64(g.r.Intn(17))
	case k < 90 || nearOnly:
		pg := uint64(1+g.r.Intn(int(size>>16)+1)) << 16
		return sub(pg, w+2) + uint64(g.r.Intn(5))
	case k < 95:
		return 1<<32 + uint64(g.r.Intn(64)) // reachable only through base + offset >= 2^32: must trap, never wrap
	}
	return 1<<31 + uint64(g.r.Intn(1<<31))
}

func (g *ggen) pickConsumer(hole string) *consumer {
	all := consumers[hole]
	groups := []string{}
	seen := map[string]bool{}
	for _, cs := range all {
		if !seen[cs.group] {
			seen[cs.group] = true
			groups = append(groups, cs.group)
		}
	}
	gr := groups[g.r.Intn(len(groups))]
	var in []*consumer
	for _, cs := range all {
		if cs.group == gr {
			in = append(in, cs)
		}
	}
	return in[g.r.Intn(len(in))]
}

func (g *ggen) loadOp(p *Prog, ld ldop, cs *consumer) MemOp {
	off := g.off()
	m := MemOp{Fam: "load", Name: ld.name, N: ld.n, Off: off, Shape: ld.shape, Hole: ld.hole, op: ld.op}
	if ld.hole == "v128" {
		m.Fam = "vload"
	}
	m.Base = g.baseSrc(true, p, ld.n, off)
	if cs != nil {
		m.Cons, m.Group, m.cons = cs.name, cs.group, cs
	}
	return m
}

func srcP(s Src) *Src { return &s }

func (g *ggen) mainOp(p *Prog) MemOp {
	k := g.r.Intn(100)
	switch {
	case k < 40: // a load feeding a consumer directly
		var ld ldop
		if g.r.Intn(10) < 6 {
			ld = plainLoads[g.r.Intn(4)]
		} else {
			ld = plainLoads[g.r.Intn(len(plainLoads))]
		}
		return g.loadOp(p, ld, g.pickConsumer(ld.hole))
	case k < 52: // vector loads, alone or feeding a vector consumer
		ld := vecLoads[g.r.Intn(len(vecLoads))]
		if g.r.Intn(3) == 0 {
			ld = vecLoads[0]
		}
		return g.loadOp(p, ld, g.pickConsumer("v128"))
	case k < 60: // plain stores
		st := plainStores[g.r.Intn(len(plainStores))]
		off := g.off()
		m := MemOp{Fam: "store", Name: st.name, N: st.n, Off: off, Base: g.baseSrc(true, p, st.n, off), Hole: st.typ, op: st.op}
		if g.r.Intn(4) == 0 { // the value is an immediate (a back end may fold it into the store)
			v := g.val()
			if st.typ == "i32" || st.typ == "f32" {
				v &= 0xffffffff
			}
			m.VC = &v
		}
		return m
	case k < 63: // v128.store
		off := g.off()
		return MemOp{Fam: "vstore", Name: "v128.store", N: 16, Off: off, Base: g.baseSrc(true, p, 16, off), Hole: "v128", op: simd(11)}
	case k < 68: // store of a loaded value: load at base, store at d
		i := g.r.Intn(4)
		ld := plainLoads[i]
		off := g.off()
		m := MemOp{Fam: "load_store", Name: ld.name + ";" + plainStores[i].name, N: ld.n, Off: off, Base: g.baseSrc(false, p, ld.n, off), Hole: ld.hole, op: ld.op}
		m.D = srcP(Src{K: "b"})
		m.DOff = uint32(g.r.Intn(32))
		if i < 2 && g.r.Bool() { // load; op x; store — in place (the x86 `op [mem], reg` shape) or elsewhere
			m.Rmw = []string{"add", "sub", "and", "or", "xor"}[g.r.Intn(5)]
			m.Name = ld.name + ";" + ld.hole + "." + m.Rmw + ";" + plainStores[i].name
			if g.r.Bool() {
				m.D, m.DOff = srcP(m.Base), m.Off
			}
		}
		return m
	case k < 74: // lane loads and stores
		w := g.r.Intn(4)
		n := 1 << w
		lane := g.r.Intn(16 / n)
		off := g.off()
		if g.r.Bool() {
			return MemOp{Fam: "load_lane", Name: []string{"v128.load8_lane", "v128.load16_lane", "v128.load32_lane", "v128.load64_lane"}[w], N: n, Off: off,
				Base: g.baseSrc(true, p, n, off), Shape: []any{"lane", lane}, Hole: "v128", Lane: lane, op: simd(84 + uint32(w))}
		}
		return MemOp{Fam: "store_lane", Name: []string{"v128.store8_lane", "v128.store16_lane", "v128.store32_lane", "v128.store64_lane"}[w], N: n, Off: off,
			Base: g.baseSrc(true, p, n, off), Hole: "v128", Lane: lane, op: simd(88 + uint32(w))}
	case k < 87 && g.threads: // atomics
		off := g.off()
		if g.r.Intn(4) > 0 {
			off = uint32(g.r.Intn(16)) * 8
		}
		switch g.r.Intn(12) {
		case 0, 1:
			a := atomLoads[g.r.Intn(7)]
			return MemOp{Fam: "atomic_load", Name: a.name, N: a.n, Off: off, Base: g.baseSrc(true, p, a.n, off), Shape: []any{"zext", map[string]int{"i32": 4, "i64": 8}[a.typ]}, Hole: a.typ, op: []byte{0xfe, a.sub}}
		case 2, 3:
			a := atomStores[g.r.Intn(7)]
			return MemOp{Fam: "atomic_store", Name: a.name, N: a.n, Off: off, Base: g.baseSrc(true, p, a.n, off), Hole: a.typ, op: []byte{0xfe, a.sub}}
		case 4, 5, 6, 7, 8:
			ri := g.r.Intn(6)
			a := atomicTable(0x1e+byte(7*ri), rmwNames[ri], "")[g.r.Intn(7)]
			return MemOp{Fam: "rmw", Name: a.name, N: a.n, Off: off, Base: g.baseSrc(true, p, a.n, off), Shape: []any{"zext", map[string]int{"i32": 4, "i64": 8}[a.typ]}, Hole: a.typ, Rmw: rmwNames[ri], op: []byte{0xfe, a.sub}}
		case 9, 10:
			a := atomicTable(0x48, "cmpxchg", "")[g.r.Intn(7)]
			return MemOp{Fam: "cmpxchg", Name: a.name, N: a.n, Off: off, Base: g.baseSrc(true, p, a.n, off), Shape: []any{"zext", map[string]int{"i32": 4, "i64": 8}[a.typ]}, Hole: a.typ, op: []byte{0xfe, a.sub}}
		default:
			if (p.Shared || g.r.Intn(3) == 0) && g.r.Bool() { // on a memory that is not shared a wait traps (after the bounds and alignment checks)
				if g.r.Bool() {
					return MemOp{Fam: "wait", Name: "memory.atomic.wait32", N: 4, Off: off, Base: g.baseSrc(true, p, 4, off), Shape: []any{"wait"}, Hole: "i32", op: []byte{0xfe, 0x01}}
				}
				return MemOp{Fam: "wait", Name: "memory.atomic.wait64", N: 8, Off: off, Base: g.baseSrc(true, p, 8, off), Shape: []any{"wait"}, Hole: "i64", op: []byte{0xfe, 0x02}}
			}
			return MemOp{Fam: "notify", Name: "memory.atomic.notify", N: 4, Off: off, Base: g.baseSrc(true, p, 4, off), Shape: []any{"const", "00000000"}, Hole: "i32", op: []byte{0xfe, 0x00}}
		}
	}
	// bulk memory
	lsrc := Src{K: "x"}
	if g.r.Intn(3) == 0 {
		lsrc = Src{K: "const", C: uint32(g.r.Pick([]uint64{0, 1, 2, 3, 4, 7, 8, 15, 16, 17, 31, 32, 33, 64, 100, 255, 256}))}
	}
	switch g.r.Intn(3) {
	case 0:
		return MemOp{Fam: "fill", Name: "memory.fill", D: srcP(Src{K: "a"}), L: &lsrc, op: []byte{0xfc, 0x0b, 0}}
	case 1:
		return MemOp{Fam: "copy", Name: "memory.copy", D: srcP(Src{K: "a"}), S: srcP(Src{K: "b"}), L: &lsrc, op: []byte{0xfc, 0x0a, 0, 0}}
	}
	seg := g.r.Intn(2)
	return MemOp{Fam: "init", Name: "memory.init", D: srcP(Src{K: "a"}), S: srcP(Src{K: "b"}), L: &lsrc, Seg: seg, op: []byte{0xfc, 0x08, byte(seg), 0}}
}

func (g *ggen) finishFunc(p *Prog, f *Func, bare bool) {
	m := &f.Main
	// an earlier access on the same base value (known-safe-bound elision), a grow or a call in between
	if !bare && m.Base.K == "a" && (m.Fam != "fill" && m.Fam != "copy" && m.Fam != "init") && g.r.Intn(3) == 0 {
		ld := plainLoads[4+g.r.Intn(10)]
		if g.r.Bool() {
			ld = plainLoads[1]
		}
		if ld.hole != "i64" {
			ld = plainLoads[9]
		}
		po := m.Off
		switch g.r.Intn(4) {
		case 0: // the same offset: same or larger ceiling
		case 1:
			if po >= 8 {
				po -= uint32(g.r.Intn(9))
			}
		case 2:
			if po < 0xfffffff0 {
				po += uint32(g.r.Intn(9))
			}
		default:
			po = g.off()
		}
		f.Pre = &MemOp{Fam: "load", Name: ld.name, N: ld.n, Off: po, Base: Src{K: "a"}, Shape: ld.shape, Hole: "i64", op: ld.op}
	}
	bt := 7
	if !bare {
		bt = g.r.Intn(8)
	}
	switch bt {
	case 0:
		f.Between, f.Delta = "grow", uint32(g.r.Intn(3))
	case 1:
		f.Between, f.Delta = "callgrow", uint32(g.r.Intn(2)+g.r.Intn(2))
	case 2:
		f.Between = "callnop"
	}
	if f.Pre != nil {
		f.Res = append(f.Res, c.I64)
	}
	if f.Between == "grow" || f.Between == "callgrow" {
		f.Res = append(f.Res, c.I32)
	}
	mr := mainResults(m)
	for _, t := range mr {
		if t == c.V128 {
			f.Res = append(f.Res, c.I64, c.I64)
		} else {
			f.Res = append(f.Res, t)
		}
	}
	if m.cons != nil {
		for _, t := range m.cons.res {
			if t == c.V128 {
				f.TwinRes = append(f.TwinRes, c.I64, c.I64)
			} else {
				f.TwinRes = append(f.TwinRes, t)
			}
		}
	}
}

// mainResults: the value types the main access leaves on the stack (before a v128 is split into two i64).
func mainResults(m *MemOp) []byte {
	switch m.Fam {
	case "load", "vload":
		if m.cons != nil {
			return m.cons.res
		}
		return []byte{valType(m.Hole)}
	case "load_lane":
		return []byte{c.V128}
	case "atomic_load", "rmw", "cmpxchg":
		return []byte{valType(m.Hole)}
	case "notify", "wait":
		return []byte{c.I32}
	}
	return nil
}

func srcCode(s Src) []byte {
	switch s.K {
	case "a":
		return []byte{0x20, 0}
	case "b":
		return []byte{0x20, 1}
	case "x":
		return x32
	case "const":
		return c.I32Const(int32(s.C))
	case "a+c":
		return c.Cat([]byte{0x20, 0}, c.I32Const(int32(s.C)), []byte{0x6a})
	}
	panic("src " + s.K)
}

func memarg(m *MemOp, atomic bool) []byte {
	al := log2(m.N)
	if !atomic && al > 0 {
		al = uint32(int(m.Off+uint32(m.N)) % (int(al) + 1)) // any alignment hint up to the natural one
	}
	return c.MemArg(al, m.Off)
}

var splitV = c.Cat([]byte{0x22, locV}, simd(29, 0), []byte{0x20, locV}, simd(29, 1))

func split(code []byte, res []byte) []byte {
	if len(res) == 1 && res[0] == c.V128 {
		return c.Cat(code, splitV)
	}
	return code
}

func valueOf(typ string) []byte { return operandOf(typ) }

// opCode: the instructions of one access; hole != nil replaces `address; load` by the given code (the twin).
func opCode(m *MemOp, hole []byte) []byte {
	var addr []byte
	if m.Base.K != "" {
		addr = srcCode(m.Base)
	}
	switch m.Fam {
	case "load", "vload":
		ld := c.Cat(addr, m.op, memarg(m, false))
		if hole != nil {
			ld = hole
		}
		if m.cons == nil {
			return split(ld, []byte{valType(m.Hole)})
		}
		return split(c.Cat(m.cons.pre, ld, m.cons.post), m.cons.res)
	case "store":
		v := valueOf(m.Hole)
		if m.VC != nil {
			switch m.Hole {
			case "i32":
				v = c.I32Const(int32(uint32(*m.VC)))
			case "i64":
				v = c.I64Const(int64(*m.VC))
			case "f32":
				v = []byte{0x43, byte(*m.VC), byte(*m.VC >> 8), byte(*m.VC >> 16), byte(*m.VC >> 24)}
			default:
				v = []byte{0x44, byte(*m.VC), byte(*m.VC >> 8), byte(*m.VC >> 16), byte(*m.VC >> 24), byte(*m.VC >> 32), byte(*m.VC >> 40), byte(*m.VC >> 48), byte(*m.VC >> 56)}
			}
		}
		return c.Cat(addr, v, m.op, memarg(m, false))
	case "vstore":
		return c.Cat(addr, xv, m.op, memarg(m, false))
	case "load_store":
		st := map[string]byte{"i32": 0x36, "i64": 0x37, "f32": 0x38, "f64": 0x39}[m.Hole]
		var alu []byte
		if m.Rmw != "" {
			o := map[string]byte{"add": 0, "sub": 1, "and": 7, "or": 8, "xor": 9}[m.Rmw]
			if m.Hole == "i32" {
				alu = c.Cat(x32, []byte{0x6a + o})
			} else {
				alu = c.Cat(x64, []byte{0x7c + o})
			}
		}
		return c.Cat(srcCode(*m.D), addr, m.op, memarg(m, false), alu, []byte{st}, c.MemArg(0, m.DOff))
	case "load_lane":
		return split(c.Cat(addr, xv, m.op, memarg(m, false), []byte{byte(m.Lane)}), []byte{c.V128})
	case "store_lane":
		return c.Cat(addr, xv, m.op, memarg(m, false), []byte{byte(m.Lane)})
	case "atomic_load":
		return c.Cat(addr, m.op, memarg(m, true))
	case "atomic_store", "rmw":
		return c.Cat(addr, valueOf(m.Hole), m.op, memarg(m, true))
	case "cmpxchg":
		y := y32
		if m.Hole == "i64" {
			y = y64
		}
		return c.Cat(addr, valueOf(m.Hole), y, m.op, memarg(m, true))
	case "notify":
		return c.Cat(addr, c.I32Const(1), m.op, memarg(m, true))
	case "wait":
		return c.Cat(addr, valueOf(m.Hole), c.I64Const(0), m.op, memarg(m, true))
	case "fill":
		return c.Cat(srcCode(*m.D), y32, srcCode(*m.L), m.op)
	case "copy", "init":
		return c.Cat(srcCode(*m.D), srcCode(*m.S), srcCode(*m.L), m.op)
	}
	panic("fam " + m.Fam)
}

func holeCode(hole string) []byte {
	switch hole {
	case "i32":
		return []byte{0x20, 0, 0xa7}
	case "i64":
		return []byte{0x20, 0}
	case "f32":
		return []byte{0x20, 0, 0xa7, 0xbe}
	case "f64":
		return []byte{0x20, 0, 0xbf}
	}
	return []byte{0x20, 0, 0xfd, 18, 0x20, 1, 0xfd, 30, 1}
}

var scratchLocals = []byte{c.V128, c.I64, c.I32, c.I32}

func (p *Prog) encode() {
	var mod c.Mod
	types := map[string]uint32{}
	typeOf := func(ps, rs []byte) uint32 {
		k := string(ps) + ">" + string(rs)
		if i, ok := types[k]; ok {
			return i
		}
		i := uint32(len(mod.Types))
		types[k] = i
		mod.Types = append(mod.Types, c.FT(ps, rs))
		return i
	}
	addFunc := func(ps, rs, locals []byte, body []byte, export string) {
		mod.Funcs = append(mod.Funcs, c.U32(typeOf(ps, rs)))
		mod.Codes = append(mod.Codes, c.Code(locals, body))
		if export != "" {
			mod.Exports = append(mod.Exports, c.Export(export, 0, uint32(len(mod.Funcs)-1)))
		}
	}
	addFunc([]byte{c.I32}, []byte{c.I32}, nil, c.Cat([]byte{0x20, 0}, c.I32Const(3), []byte{0x6c}, c.I32Const(1), []byte{0x6a}), "")
	addFunc([]byte{c.I32, c.I32}, []byte{c.I32}, nil, []byte{0x20, 0, 0x20, 1, 0x6b}, "")
	addFunc([]byte{c.I32}, []byte{c.I32}, nil, []byte{0x20, 0, 0x40, 0}, "")
	addFunc(nil, nil, nil, []byte{0x01}, "")
	addFunc([]byte{c.I64}, []byte{c.I64}, nil, c.Cat([]byte{0x20, 0}, c.I64Const(0x55), []byte{0x85}), "")
	params := []byte{c.I32, c.I32, c.I64, c.I64}
	tparams := []byte{c.I64, c.I64, c.I64, c.I64}
	for k := range p.Funcs {
		f := &p.Funcs[k]
		var body []byte
		if f.Pre != nil {
			body = c.Cat(body, srcCode(f.Pre.Base), f.Pre.op, memarg(f.Pre, false), []byte{0x21, locPre})
		}
		switch f.Between {
		case "grow":
			body = c.Cat(body, c.I32Const(int32(f.Delta)), []byte{0x40, 0, 0x21, locGr})
		case "callgrow":
			body = c.Cat(body, c.I32Const(int32(f.Delta)), []byte{0x10, fnGrow, 0x21, locGr})
		case "callnop":
			body = c.Cat(body, []byte{0x10, fnNop})
		}
		if f.Pre != nil {
			body = c.Cat(body, []byte{0x20, locPre})
		}
		if f.Between == "grow" || f.Between == "callgrow" {
			body = c.Cat(body, []byte{0x20, locGr})
		}
		body = c.Cat(body, opCode(&f.Main, nil))
		addFunc(params, f.Res, scratchLocals, body, "m"+itoa(k))
		if f.Main.cons != nil {
			addFunc(tparams, f.TwinRes, scratchLocals, opCode(&f.Main, holeCode(f.Main.Hole)), "t"+itoa(k))
		} else {
			addFunc(nil, nil, nil, []byte{0x01}, "")
		}
	}
	mx := p.Max
	lim := c.MemLimits(p.Min, &mx)
	if p.Shared {
		lim[0] = 3
	}
	mod.Mems = [][]byte{lim}
	mod.Exports = append(mod.Exports, c.Export("memory", 2, 0))
	mod.Globals = [][]byte{c.Cat([]byte{c.I32, 1}, c.I32Const(0), []byte{0x0b}), c.Cat([]byte{c.I64, 1}, c.I64Const(0), []byte{0x0b})}
	mod.DataCount = true
	mod.Datas = [][]byte{c.Cat([]byte{1}, c.U32(uint32(len(p.Seg))), p.Seg), c.Cat([]byte{1}, c.U32(0))}
	p.Wasm = mod.Bytes()
}

func itoa(k int) string {
	if k == 0 {
		return "0"
	}
	s := ""
	for k > 0 {
		s = string(rune('0'+k%10)) + s
		k /= 10
	}
	return s
}

// srcVal: the value of an operand for given arguments (the same arithmetic as srcCode).
func srcVal(s Src, cl *Call) uint32 {
	switch s.K {
	case "a":
		return cl.A
	case "b":
		return cl.B
	case "x":
		return uint32(cl.X)
	case "const":
		return s.C
	}
	return cl.A + s.C
}

// aim sets the argument behind src so that src's value + off == target when that is possible.
func aim(s Src, off uint32, target uint64, cl *Call) {
	if target < uint64(off) || target-uint64(off) >= 1<<32 {
		return
	}
	v := uint32(target - uint64(off))
	switch s.K {
	case "a":
		cl.A = v
	case "b":
		cl.B = v
	case "x":
		cl.X = cl.X&^0xffffffff | uint64(v)
	case "a+c":
		cl.A = v - s.C
	}
}

var specials64 = []uint64{0, 1, 2, 7, 8, 31, 32, 63, 64, 0xff, 0x100, 0x7fffffff, 0x80000000, 0xffffffff, 0x100000000, 0x7fffffffffffffff, 0x8000000000000000, 0xffffffffffffffff,
	0x3ff0000000000000, 0x7ff8000000000000, 0x3f800000, 0x7fc00000, 0x0102030405060708}

func (g *ggen) val() uint64 {
	if g.r.Intn(3) == 0 {
		return g.r.Pick(specials64)
	}
	return g.r.U64()
}

func (g *ggen) callsFor(p *Prog, k int, n int) {
	f := &p.Funcs[k]
	m := &f.Main
	for i := 0; i < n; i++ {
		// the harness aims a/b relative to the CURRENT size at run time (aimCall)
		cl := Call{F: k, A: uint32(g.r.U64()), B: uint32(g.r.U64()), X: g.val(), Y: g.val(), Pos: "random"}
		if m.Fam == "cmpxchg" || m.Fam == "wait" {
			cl.XMem = g.r.Bool()
		}
		p.Calls = append(p.Calls, cl)
	}
}

// aimCall chooses the arguments of a call relative to the size the memory has WHEN THE CALL IS MADE (earlier calls
// may have grown it). Deterministic: the Rng is seeded from the program and the call index.
func aimCall(p *Prog, cl *Call, idx int, curSize uint64, seed uint64) {
	g := &ggen{r: c.NewRng(seed ^ uint64(p.ID)*0x9e3779b97f4a7c15 ^ uint64(idx)*0xc2b2ae3d27d4eb4f)}
	f := &p.Funcs[cl.F]
	m := &f.Main
	size := curSize
	if (f.Between == "grow" || f.Between == "callgrow") && curSize>>16+uint64(f.Delta) <= uint64(p.Max) && g.r.Intn(3) > 0 {
		size = curSize + uint64(f.Delta)<<16 // aim at the new end (else: at the old end, now inside)
	}
	switch m.Fam {
	case "fill", "copy", "init":
		var n uint64
		if m.L.K == "const" {
			n = uint64(m.L.C)
		} else {
			n = g.r.Pick([]uint64{0, 1, 2, 3, 4, 7, 8, 15, 16, 17, 31, 32, 33, 64, 100, 255, 256, 257})
			if g.r.Intn(40) == 0 {
				n = g.r.Pick([]uint64{65536, size, size + 1, 0xffffffff, 0x80000000})
			}
			cl.X = cl.X&^0xffffffff | n
		}
		if n > 1<<20 {
			n = 0 // the address choice below does not matter: the length alone is out of bounds
		}
		d := g.target(size, int(n), false)
		aim(*m.D, 0, d, cl)
		d = uint64(srcVal(*m.D, cl))
		if m.Fam == "copy" {
			var s uint64
			switch g.r.Intn(6) {
			case 0: // overlapping, source below
				s = d - min64(d, uint64(g.r.Intn(int(n)+1)))
			case 1: // overlapping, source above
				s = d + uint64(g.r.Intn(int(n)+1))
			case 2:
				s = g.target(size, int(n), false)
			default:
				s = d - min64(d, uint64(g.r.Intn(600)))
				if g.r.Bool() {
					s = d + uint64(g.r.Intn(40))
				}
			}
			if s > 0xffffffff {
				s = 0xffffffff
			}
			aim(*m.S, 0, s, cl)
		}
		if m.Fam == "init" {
			segLen := uint64(len(p.Seg))
			if m.Seg == 1 {
				segLen = 0
			}
			s := uint64(g.r.Intn(int(segLen) + 3))
			if g.r.Intn(3) == 0 && n <= segLen {
				s = segLen - n + uint64(g.r.Intn(2))
			}
			aim(*m.S, 0, s, cl)
		}
		cl.Pos = "bulk"
		return
	}
	t := g.target(size, m.N, false)
	switch cl.Pos {
	case "last":
		t = size - uint64(m.N)
	case "first-oob":
		t = size - uint64(m.N) + 1
	case "near":
		t = size - uint64(m.N) - 1 - uint64(g.r.Intn(12))
	}
	atomicFam := m.Fam == "atomic_load" || m.Fam == "atomic_store" || m.Fam == "rmw" || m.Fam == "cmpxchg" || m.Fam == "notify" || m.Fam == "wait"
	if atomicFam {
		switch g.r.Intn(3) {
		case 0: // aligned
			t &^= uint64(m.N - 1)
		case 1: // every misalignment class, in bounds (the alignment check alone must trap)
			if m.N > 1 && size >= 64 {
				t = (size - 8 - uint64(g.r.Intn(6))*8) + uint64(1<<uint(g.r.Intn(int(log2(m.N)))))
				if g.r.Bool() {
					t = (size - 16) + uint64(1+g.r.Intn(m.N-1))
				}
			}
		}
	}
	if t >= 1<<32 && t < 1<<32+64 && m.Off == 0 {
		t = size - uint64(m.N) // unreachable without an offset
	}
	aim(m.Base, m.Off, t, cl)
	if m.Fam == "load_store" {
		dt := g.target(size, m.N, false)
		if g.r.Bool() { // somewhere else, not too far from the load (one window covers both)
			dt = uint64(g.r.Intn(8000))
			if t > 4000 && t < size+4000 {
				dt += t - 4000
			}
		}
		aim(*m.D, m.DOff, dt, cl)
	}
}

func min64(a, b uint64) uint64 {
	if a < b {
		return a
	}
	return b
}

func (g *ggen) newProg(id int, kind string) *Prog {
	p := &Prog{ID: id, Kind: kind, Threads: g.threads}
	p.Min = uint32(1 + g.r.Intn(4))
	p.Max = p.Min + uint32(g.r.Intn(5))
	if g.threads && g.r.Intn(6) == 0 {
		p.Shared = true
	}
	p.Moving = !p.Shared && g.r.Intn(3) == 0
	p.Seg = make([]byte, 17+g.r.Intn(48))
	for i := range p.Seg {
		p.Seg[i] = byte(0xa0 + i)
	}
	return p
}

// genProgs: the systematic sweep (every full-width load x every consumer of its type, aimed at the last in-bounds and
// the first out-of-bounds position) followed by nRandom random programs.
func genProgs(seed uint64, nRandom int, threads bool) []*Prog {
	g := &ggen{r: c.NewRng(seed), threads: threads}
	var progs []*Prog
	var cur *Prog
	flush := func() {
		if cur != nil && len(cur.Funcs) > 0 {
			cur.encode()
			progs = append(progs, cur)
		}
		cur = nil
	}
	sweepLoads := append(append([]ldop{}, plainLoads[:4]...), vecLoads[0])
	for _, ld := range sweepLoads {
		for _, cs := range consumers[ld.hole] {
			if cur == nil {
				cur = g.newProg(len(progs), "sweep")
			}
			m := g.loadOp(cur, ld, cs)
			m.Off = uint32(g.r.Intn(40))
			m.Base = Src{K: "a"}
			f := Func{Main: m}
			g.finishFunc(cur, &f, true)
			cur.Funcs = append(cur.Funcs, f)
			k := len(cur.Funcs) - 1
			for _, pos := range []string{"last", "first-oob", "near"} {
				cur.Calls = append(cur.Calls, Call{F: k, X: g.val(), Y: g.val(), Pos: pos})
			}
			if len(cur.Funcs) >= 12 {
				flush()
			}
		}
	}
	flush()
	// second sweep: EVERY distinct memory instruction the generator knows (all widths and extensions, vector loads incl.
	// splat / zero / extending / lane accesses, stores, atomics), once, with the base in a parameter, aimed at the last
	// in-bounds, the first out-of-bounds and a near position - so that a wrong width in one instruction's bounds check
	// does not depend on the random programs hitting it at the boundary
	{
		g2 := &ggen{r: c.NewRng(seed ^ 0x5eed5eed), threads: threads}
		seen := map[string]bool{}
		for tries := 0; tries < 3000; tries++ {
			if cur == nil {
				cur = g2.newProg(len(progs), "sweep")
			}
			m := g2.mainOp(cur)
			if seen[m.Name] || m.Fam == "fill" || m.Fam == "copy" || m.Fam == "init" || m.Fam == "load_store" {
				continue
			}
			seen[m.Name] = true
			m.Off = uint32(g2.r.Intn(40))
			m.Base = Src{K: "a"}
			f := Func{Main: m}
			g2.finishFunc(cur, &f, true)
			cur.Funcs = append(cur.Funcs, f)
			k := len(cur.Funcs) - 1
			for _, pos := range []string{"last", "first-oob", "near"} {
				cur.Calls = append(cur.Calls, Call{F: k, X: g2.val(), Y: g2.val(), Pos: pos})
			}
			if len(cur.Funcs) >= 12 {
				flush()
			}
		}
		flush()
	}
	for i := 0; i < nRandom; i++ {
		p := g.newProg(len(progs), "random")
		nf := 6 + g.r.Intn(5)
		for k := 0; k < nf; k++ {
			f := Func{Main: g.mainOp(p)}
			g.finishFunc(p, &f, false)
			p.Funcs = append(p.Funcs, f)
		}
		for k := 0; k < nf; k++ {
			g.callsFor(p, k, 3+g.r.Intn(4))
		}
		// shuffle the calls: growth happens at different moments relative to the other functions
		for j := len(p.Calls) - 1; j > 0; j-- {
			o := g.r.Intn(j + 1)
			p.Calls[j], p.Calls[o] = p.Calls[o], p.Calls[j]
		}
		p.encode()
		progs = append(progs, p)
	}
	return progs
}
