// C02, direct tie of the address-mode model: SSA expression trees built with the real ssa.Builder are handed to the
// REAL (*machine).lowerToAddressMode (amd64) running against the REAL backend compiler object (ValueDefinition,
// MatchInstrOneOf, VRegOf, AllocateVReg); the addressing mode it returns and the instructions it inserted are read
// back and printed, one JSON line per case. Nothing here evaluates anything: checks/c02.py and Engine/Amode.v do.
package main

import (
	"github.com/tetratelabs/wazero/internal/engine/wazevo/backend"
	"github.com/tetratelabs/wazero/internal/engine/wazevo/backend/isa/amd64"
	"github.com/tetratelabs/wazero/internal/engine/wazevo/ssa"
	c "github.com/tetratelabs/wazero/internal/zz_verif/common"
)

// Tree mirrors Engine/Amode.v's e64 (K = constructor name).
type Tree struct {
	K    string `json:"k"`           // V64 K64 UX SX XNU XNS SXW SHL SHV ADD
	R    int    `json:"r,omitempty"` // V64 / SXW: leaf index; UX/SX/XN: 32-bit leaf index when !IsC
	C    uint64 `json:"c"`           // K64: constant; UX/SX/XN with IsC: the 32-bit constant; SHL: the amount
	IsC  bool   `json:"isc,omitempty"`
	From int    `json:"from,omitempty"` // XN, SXW
	M    bool   `json:"m"`              // MatchInstrOneOf would succeed (single use, same instruction group)
	How  string `json:"how,omitempty"`  // how M=false is realised: "ref2" | "gid"
	A    *Tree  `json:"a,omitempty"`
	B    *Tree  `json:"b,omitempty"`
	K32  bool   `json:"k32,omitempty"` // SHL: the amount is an Iconst32 rather than an Iconst64
}

type RSrc struct {
	VReg  uint32  `json:"vreg"`
	Leaf  int     `json:"leaf"`            // >= 0: a leaf (block parameter); -1: see Path / Const
	Path  []int   `json:"path"`            // position of the defining subtree of E: 0 = A (or the only operand), 1 = B
	Const *uint64 `json:"const,omitempty"` // an Iconst that is not a node of E (32-bit input of an extend, shift amount)
	Low   bool    `json:"lowered"`
}

type AmodeCase struct {
	ID     int           `json:"id"`
	Enum   bool          `json:"enum"`
	E      *Tree         `json:"e"`
	Off    uint32        `json:"off"`
	Vals   [][]uint64    `json:"vals"` // valuations of the 8 leaves (0..3: 64-bit, 4..7: 32-bit registers as 64-bit contents)
	Panic  string        `json:"panic,omitempty"`
	Am     amd64.ZZAmode `json:"am"`
	Ins    []amd64.ZZInstr `json:"ins"`
	RMap   []RSrc        `json:"rmap"`
}

type abuilder struct {
	b     ssa.Builder
	leaf  [8]ssa.Value
	vals  []ssa.Value
	refs  []uint32
	srcs  []RSrc // parallel to vals
	instr []*ssa.Instruction
}

func (ab *abuilder) reg(v ssa.Value, ref uint32, leaf int, path []int, in *ssa.Instruction) {
	ab.vals = append(ab.vals, v)
	ab.refs = append(ab.refs, ref)
	ab.srcs = append(ab.srcs, RSrc{Leaf: leaf, Path: append([]int{}, path...)})
	ab.instr = append(ab.instr, in)
}

func (ab *abuilder) regConst(k *ssa.Instruction) {
	ab.reg(k.Return(), 1, -1, nil, k)
	cv := k.ConstantVal()
	ab.srcs[len(ab.srcs)-1].Const = &cv
}

func (ab *abuilder) mark(in *ssa.Instruction, t *Tree) uint32 {
	if t.M {
		return 1
	}
	if t.How == "gid" {
		in.ZZSetGroupID(7)
		return 1
	}
	return 2
}

func (ab *abuilder) ins() *ssa.Instruction { return ab.b.AllocateInstruction() }

func (ab *abuilder) build(t *Tree, path []int) ssa.Value {
	b := ab.b
	sub := func(k int) []int { return append(append([]int{}, path...), k) }
	in32 := func() ssa.Value {
		if t.IsC {
			k := ab.ins().AsIconst32(uint32(t.C)).Insert(b)
			ab.regConst(k)
			return k.Return()
		}
		return ab.leaf[t.R]
	}
	var in *ssa.Instruction
	switch t.K {
	case "V64":
		return ab.leaf[t.R]
	case "K64":
		in = ab.ins().AsIconst64(t.C).Insert(b)
	case "UX":
		in = ab.ins().AsUExtend(in32(), 32, 64).Insert(b)
	case "SX":
		in = ab.ins().AsSExtend(in32(), 32, 64).Insert(b)
	case "XNU":
		in = ab.ins().AsUExtend(in32(), byte(t.From), 64).Insert(b)
	case "XNS":
		in = ab.ins().AsSExtend(in32(), byte(t.From), 64).Insert(b)
	case "SXW":
		in = ab.ins().AsSExtend(ab.leaf[t.R], byte(t.From), 64).Insert(b)
	case "SHL":
		x := ab.build(t.A, sub(0))
		var k *ssa.Instruction
		if t.K32 {
			k = ab.ins().AsIconst32(uint32(t.C)).Insert(b)
		} else {
			k = ab.ins().AsIconst64(t.C).Insert(b)
		}
		ab.regConst(k)
		in = ab.ins().AsIshl(x, k.Return()).Insert(b)
	case "SHV":
		x := ab.build(t.A, sub(0))
		y := ab.build(t.B, sub(1))
		in = ab.ins().AsIshl(x, y).Insert(b)
	case "ADD":
		x := ab.build(t.A, sub(0))
		y := ab.build(t.B, sub(1))
		in = ab.ins().AsIadd(x, y).Insert(b)
	default:
		panic("tree kind " + t.K)
	}
	ab.reg(in.Return(), ab.mark(in, t), -1, path, in)
	return in.Return()
}

var (
	c32pool = []uint64{0, 1, 8, 123, 0x7fffffff, 0x80000000, 0x80000001, 0xfffffff8, 0xffffffff}
	c64pool = []uint64{0, 1, 8, 0x7fffffff, 0x80000000, 0xffffffff, 0x100000000, 1 << 40, 1<<63 - 1, 1 << 63, 0xfffffffffffffff8,
		0xffffffffffffffff, 0xffffffff80000000, 0xffffffff7fffffff, 0xffffffff00000000}
	offpool = []uint64{0, 0, 1, 8, 16, 1 << 30, 0x7ffffff8, 0x7fffffff, 0x80000000, 0x80000001, 0xfffffff0, 0xffffffff}
	shpool  = []uint64{0, 1, 2, 3, 1, 2, 3, 4, 5, 31, 32, 63, 64, 65, 1<<32 + 1}
	v64pool = []uint64{0, 1, 1 << 40, 0xc000100000, 0x7fffffff, 0x80000000, 0xffffffff, 1 << 63, 0xffffffffffffffff, 0xfffffffffffff000}
	v32pool = []uint64{0, 1, 8, 0x7fffffff, 0x80000000, 0xfffffff8, 0xffffffff, 65535, 65536}
)

func flag2(r *c.Rng, t *Tree) {
	t.M = r.Intn(3) > 0
	if !t.M {
		t.How = []string{"ref2", "ref2", "gid"}[r.Intn(3)]
	}
}

func genAddend(r *c.Rng, depth int) *Tree {
	t := &Tree{}
	pick32 := func() {
		if r.Bool() {
			t.IsC, t.C = true, pickOr(r, c32pool, uint64(uint32(r.U64())))
		} else {
			t.R = 4 + r.Intn(4)
		}
	}
	switch k := r.Intn(20); {
	case k < 4:
		t.K, t.R = "V64", r.Intn(4)
		return t
	case k < 7:
		t.K, t.C = "K64", pickOr(r, c64pool, r.U64())
	case k < 11:
		t.K = "UX"
		pick32()
	case k < 13:
		t.K = "SX"
		pick32()
	case k < 14:
		t.K = []string{"XNU", "XNS"}[r.Intn(2)]
		t.From = []int{8, 16}[r.Intn(2)]
		pick32()
	case k < 15:
		t.K, t.R, t.From = "SXW", r.Intn(4), []int{8, 16, 32}[r.Intn(3)]
	case k < 18:
		t.K, t.C, t.K32 = "SHL", r.Pick(shpool), r.Intn(4) == 0
		if t.K32 {
			t.C = uint64(uint32(t.C))
		}
		if depth > 0 && r.Intn(3) == 0 {
			t.A = genAddend(r, depth-1)
		} else {
			t.A = &Tree{K: "V64", R: r.Intn(4)}
		}
	case k < 19 && depth > 0:
		t.K = "SHV"
		t.A = &Tree{K: "V64", R: r.Intn(4)}
		for t.B = genAddend(r, 0); t.B.K == "K64"; t.B = genAddend(r, 0) { // the amount of an SHV is not a constant instruction
		}
	default:
		if depth == 0 {
			t.K, t.R = "V64", r.Intn(4)
			return t
		}
		t.K = "ADD"
		t.A, t.B = genAddend(r, depth-1), genAddend(r, depth-1)
	}
	flag2(r, t)
	return t
}

func pickOr(r *c.Rng, pool []uint64, other uint64) uint64 {
	if r.Intn(4) == 0 {
		return other
	}
	return r.Pick(pool)
}

func valuation(r *c.Rng, clean bool) []uint64 {
	v := make([]uint64, 8)
	for i := 0; i < 4; i++ {
		v[i] = pickOr(r, v64pool, r.U64())
	}
	for i := 4; i < 8; i++ {
		v[i] = pickOr(r, v32pool, uint64(uint32(r.U64())))
		if !clean && r.Intn(3) == 0 {
			v[i] |= r.U64() << 32 // a 32-bit value whose register carries garbage above bit 31
		}
	}
	return v
}

func runAmodeCase(id int, e *Tree, off uint32, r *c.Rng, enum bool) AmodeCase {
	b := ssa.NewBuilder()
	blk := b.AllocateBasicBlock()
	b.SetCurrentBlock(blk)
	ab := &abuilder{b: b}
	for i := 0; i < 8; i++ {
		ty := ssa.TypeI64
		if i >= 4 {
			ty = ssa.TypeI32
		}
		ab.leaf[i] = blk.AddParam(b, ty)
		ab.reg(ab.leaf[i], 3, i, nil, nil)
	}
	ptr := ab.build(e, nil)
	z := amd64.ZZNewMach()
	cmp := backend.ZZVerifCompiler(z.Machine(), b, ab.vals, ab.refs, 0)
	cs := AmodeCase{ID: id, Enum: enum, E: e, Off: off}
	cs.Am, cs.Ins, cs.Panic = z.LowerToAddressMode(ptr, off)
	for i, v := range ab.vals {
		s := ab.srcs[i]
		s.VReg = uint32(cmp.VRegOf(v).ID())
		s.Low = ab.instr[i] != nil && ab.instr[i].Lowered()
		cs.RMap = append(cs.RMap, s)
	}
	cs.Vals = [][]uint64{valuation(r, true), valuation(r, true), valuation(r, false)}
	return cs
}

func mainAmode(seed uint64, n int) {
	rng := c.NewRng(seed ^ 0xa0de)
	out := c.NewOut()
	defer out.Flush()
	id := 0
	emit := func(e *Tree, off uint32, enum bool) {
		out.Emit(runAmodeCase(id, e, off, rng, enum))
		id++
	}
	// (1) the frontend's image, enumerated: memBase + zero-extended 32-bit address (a register or a constant,
	//     single- or multi-use, either operand order), every interesting static offset; plus the lone addends
	var bases []*Tree
	for _, m := range []bool{true, false} {
		bases = append(bases, &Tree{K: "UX", R: 4, M: m, How: "ref2"})
		for _, k := range c32pool {
			bases = append(bases, &Tree{K: "UX", IsC: true, C: k, M: m, How: "ref2"})
		}
	}
	for _, bs := range bases {
		for _, m := range []bool{true, false} {
			for _, off := range offpool[1:] {
				emit(&Tree{K: "ADD", A: &Tree{K: "V64", R: 0}, B: bs, M: m, How: "ref2"}, uint32(off), true)
				if off == 0 || off == 0x7fffffff || off == 0x80000000 {
					emit(&Tree{K: "ADD", A: bs, B: &Tree{K: "V64", R: 0}, M: m, How: "ref2"}, uint32(off), true)
				}
			}
		}
		emit(bs, uint32(rng.Pick(offpool)), true)
	}
	// table-style addresses: base + (zero-extended index << k), k = 0..4
	for k := uint64(0); k <= 4; k++ {
		for _, m := range []bool{true, false} {
			sh := &Tree{K: "SHL", C: k, M: m, How: "ref2", A: &Tree{K: "UX", R: 5, M: false, How: "ref2"}}
			emit(&Tree{K: "ADD", A: &Tree{K: "V64", R: 1}, B: sh, M: true}, uint32(rng.Pick(offpool)), true)
			emit(&Tree{K: "ADD", A: sh, B: &Tree{K: "SHL", C: 3 - k%4, M: true, A: &Tree{K: "V64", R: 2}}, M: true}, uint32(rng.Pick(offpool)), true)
			emit(sh, uint32(rng.Pick(offpool)), true)
		}
	}
	// two shifts of ONE register: the first is shifted in place, the second reads the shifted register (latent defect
	// of lowerAddendsToAmode found by this stream; modelled by Amode.v's `alias`, outside the class of the theorem)
	for k := uint64(1); k <= 3; k++ {
		emit(&Tree{K: "ADD", M: true, A: &Tree{K: "SHL", C: k, M: true, A: &Tree{K: "V64", R: 3}}, B: &Tree{K: "SHL", C: 4 - k, M: true, A: &Tree{K: "V64", R: 3}}},
			uint32(rng.Pick(offpool)), false)
	}
	// (2) random trees over the whole of e64
	for i := 0; i < n; i++ {
		var e *Tree
		if rng.Intn(4) > 0 {
			e = &Tree{K: "ADD", A: genAddend(rng, 2), B: genAddend(rng, 2)}
			flag2(rng, e)
		} else {
			e = genAddend(rng, 2)
		}
		emit(e, uint32(pickOr(rng, offpool, uint64(uint32(rng.U64())))), false)
	}
}
