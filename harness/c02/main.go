// C02 correspondence harness: functions that place loads and stores of every width around earlier checks of the
// same base, calls, memory.grow, block joins and loops, with bases from parameters, derived values and constants
// (incl. >= 2^31) and static offsets over the whole 32-bit range, on memories of 1 page up to just under 4 GiB,
// on both engines; observations are compared with the reference semantics inside Coq.
package main

import (
	"context"
	"encoding/hex"
	"flag"
	"fmt"
	"sync"

	"github.com/tetratelabs/wazero"
	c "github.com/tetratelabs/wazero/internal/zz_verif/common"
)

type EngObs struct {
	Obs     []c.CallObs `json:"obs"`
	HLog    [][]uint64  `json:"hlog"`
	Globals []uint64    `json:"globals"`
	Mem     [][2]uint32 `json:"mem"`
	Pages   uint32      `json:"pages"`
	Err     string      `json:"err,omitempty"`
}

type Case struct {
	ID      int               `json:"id"`
	Store   string            `json:"store"`
	HRes    [][]int           `json:"hres"`
	Calls   [][]uint64        `json:"calls"`
	Pages   uint32            `json:"pages"`
	Engines map[string]EngObs `json:"engines"`
	Wasm    string            `json:"wasm"`
}

func runOn(engine string, m *c.ModSpec, bin []byte, calls [][]uint64) (eo EngObs) {
	defer func() {
		if e := recover(); e != nil {
			eo.Err = fmt.Sprint("PANIC: ", e)
		}
	}()
	ctx := context.Background()
	var rc wazero.RuntimeConfig
	if engine == "compiler" {
		rc = wazero.NewRuntimeConfigCompiler()
	} else {
		rc = wazero.NewRuntimeConfigInterpreter()
	}
	r := wazero.NewRuntimeWithConfig(ctx, rc)
	defer r.Close(ctx)
	log := &c.HostLog{}
	if err := c.InstantiateEnv(ctx, r, m, log); err != nil {
		eo.Err = "env: " + err.Error()
		return
	}
	mod, err := r.InstantiateWithConfig(ctx, bin, wazero.NewModuleConfig().WithName("m"))
	if err != nil {
		eo.Err = "instantiate: " + err.Error()
		return
	}
	for _, cl := range calls {
		fi := int(cl[0])
		res, err := mod.ExportedFunction(fmt.Sprintf("f%d", fi)).Call(ctx, cl[1:]...)
		if err != nil {
			eo.Obs = append(eo.Obs, c.CallObs{Trap: c.TrapClass(err)})
		} else {
			eo.Obs = append(eo.Obs, c.CallObs{Res: c.MaskRes(res, m.FuncSig(fi).R)})
		}
	}
	eo.HLog = log.Events
	eo.Mem = c.NonZero(mod.Memory(), 4096) // first 64 MiB only; the rest is observed through the loads of the programs
	eo.Pages, _ = mod.Memory().Grow(0)
	return
}

func main() {
	seed := flag.Uint64("seed", 1, "")
	n := flag.Int("n", 100, "")
	big := flag.Int("big", 6, "number of programs on memories above 2 GiB")
	mode := flag.String("mode", "e2e", "e2e: programs on both engines | amode: lowerToAddressMode called directly | elide: the frontend's known-safe-bounds cache observed while it lowers generated functions | enc: the amd64 operand encoder called directly")
	threads := flag.Bool("threads", true, "guard stream: enable the threads proposal (atomics)")
	from := flag.Int("from", 0, "guard child: first program")
	to := flag.Int("to", 0, "guard child: one past the last program")
	par := flag.Int("par", 6, "guard stream: children in parallel")
	nseq := flag.Int("nseq", 60, "enc stream: instruction lists through the real Encode")
	watchdog := flag.Int("watchdog", 30, "guard stream: seconds without output before a child is killed")
	flag.Parse()
	switch *mode {
	case "guard": // access programs on guard-page memories, in child processes (guard_*.go)
		guardParent(*seed, *n, *threads, *par, *watchdog)
		return
	case "guardchild":
		guardChild(*seed, *n, *threads, *from, *to)
		return
	case "amode":
		mainAmode(*seed, *n)
		return
	case "elide":
		mainElide(*seed, *n)
		return
	case "top4g": // accesses at the top of a 4 GiB memory, interpreter (top4g.go)
		mainTop4g(*seed)
		return
	case "enc": // operand encoding: the real encodeEncMem / encodeEncEnc / Encode (enc.go)
		mainEnc(*seed, *n, *nseq)
		return
	}
	rng := c.NewRng(*seed)
	out := c.NewOut()
	defer out.Flush()
	var cases []Case
	var mods []*c.ModSpec
	var bins [][]byte
	var huge []bool
	for i := 0; i < *n; i++ {
		m := &c.ModSpec{}
		m.Hosts = []c.HostSpec{{H: 0, Sig: c.Sig{P: []byte{c.I32}, R: []byte{c.I32}}}, {H: 1, Sig: c.Sig{P: []byte{c.I64, c.I32}, R: []byte{c.I64}}}, {H: 2, Sig: c.Sig{}}, {H: 3, Sig: c.Sig{P: []byte{c.I32, c.I64}, R: []byte{c.I64, c.I32}}}}
		m.HasMem = true
		isBig := i < *big
		switch {
		case isBig && i%2 == 0:
			m.MemMin = 32769 // just above 2 GiB
		case isBig:
			m.MemMin = 65535 // just under 4 GiB
		default:
			m.MemMin = uint32(1 + rng.Intn(3))
		}
		m.MemMax = m.MemMin + uint32(rng.Intn(3))
		if m.MemMax > 65535 {
			m.MemMax = 65535
		}
		memLen := uint64(m.MemMin) << 16
		bases := []uint64{0, 1, 7, 8, memLen - 16, memLen - 9, memLen - 8, memLen - 7, memLen - 4, memLen - 2, memLen - 1, memLen, memLen + 1, memLen + 65536,
			0x7fffffff, 0x80000000, 0x80000001, 0xfffffff8, 0xffffffff, 65535, 65536}
		offs := []uint64{0, 0, 0, 0, 0, 0, 1, 2, 4, 8, 8, 15, 16, 16, 255, 0, 0, 4, 8, 65535, 65536, 0x7ffffff8, 0x7fffffff, 0x80000000, 0x80000008, 0xfffffff0, 0xfffffff8, 0xffffffff,
			memLen - 8, memLen - 1, memLen}
		inb := func() uint64 { // a base comfortably inside the memory, near its start or its end
			if rng.Bool() {
				return uint64(rng.Intn(4096))
			}
			return memLen - 4096 + uint64(rng.Intn(4060))
		}
		for k := 0; k < 30; k++ {
			bases = append(bases, inb())
		}
		nf := 2 + rng.Intn(3)
		for fi := 0; fi < nf; fi++ {
			// f(b i32, v i64) -> i64 ; locals: acc i64 (2), t i32 (3), cnt i32 (4)
			f := &c.FuncSpec{Sig: c.Sig{P: []byte{c.I32, c.I64}, R: []byte{c.I64}}, Locals: []byte{c.I64, c.I32, c.I32}}
			tame := rng.Intn(10) < 7 // most functions use small static offsets so that whole bodies run in bounds for good bases
			baseExpr := func() []c.Ins {
				switch rng.Intn(8) {
				case 0, 1, 2:
					return []c.Ins{c.ILocalGet(0)} // the same SSA value again and again: bounds-check elision kicks in
				case 3:
					if tame {
						return []c.Ins{c.ILocalGet(0), c.IConst(c.I32, rng.Pick([]uint64{1, 4, 8})), c.IBin(c.I32, 0)}
					}
					return []c.Ins{c.ILocalGet(0), c.IConst(c.I32, rng.Pick([]uint64{1, 4, 8, 0xfffffff8, 0x80000000})), c.IBin(c.I32, 0)}
				case 4:
					if tame {
						return []c.Ins{c.IConst(c.I32, uint64(uint32(inb())))}
					}
					return []c.Ins{c.IConst(c.I32, uint64(uint32(rng.Pick(bases))))} // constant base (often >= 2^31 on big memories): folded into the address mode
				default:
					return []c.Ins{c.ILocalGet(3)}
				}
			}
			access := func() []c.Ins {
				t := []byte{c.I32, c.I64}[rng.Intn(2)]
				ns := []int{1, 2, 4}
				if t == c.I64 {
					ns = []int{1, 2, 4, 8}
				}
				nb := ns[rng.Intn(len(ns))]
				off := uint32(rng.Pick(offs))
				if tame {
					off = uint32(rng.Pick([]uint64{0, 0, 1, 2, 4, 8, 16, 24, 255}))
				}
				if rng.Intn(3) == 0 { // store
					var v []c.Ins
					if t == c.I64 {
						v = []c.Ins{c.ILocalGet(1)}
					} else {
						v = []c.Ins{c.ILocalGet(1), c.IWrap}
					}
					return append(append(baseExpr(), v...), c.IStore(t, nb, off))
				}
				o := append(baseExpr(), c.ILoad(t, nb, rng.Bool(), off))
				if t == c.I32 {
					o = append(o, c.IExtU)
				}
				return append(o, c.ILocalGet(2), c.IBin(c.I64, 9), c.ILocalSet(2)) // acc ^= loaded
			}
			var between func(d int) []c.Ins
			between = func(d int) []c.Ins {
				switch rng.Intn(9) {
				case 0, 6:
					return []c.Ins{c.ICall(2)} // a call: the memory may have moved
				case 1:
					return []c.Ins{c.IConst(c.I32, uint64(rng.Intn(2))), c.IMemGrow, c.IDrop}
				case 2:
					if rng.Bool() { // a constant held in a local: the same constant SSA value is re-used after calls (address re-derived)
						return []c.Ins{c.IConst(c.I32, uint64(uint32(inb()))), c.ILocalSet(3)}
					}
					return []c.Ins{c.ILocalGet(0), c.IConst(c.I32, 8), c.IBin(c.I32, 0), c.ILocalSet(3)}
				case 3:
					if d > 0 {
						return []c.Ins{c.ILocalGet(1), c.IWrap, m.IIf(nil, nil, append(access(), between(d-1)...), access())}
					}
				case 4:
					if d > 0 {
						body := append(access(), c.ILocalGet(4), c.IConst(c.I32, 1), c.IBin(c.I32, 0), c.ILocalTee(4), c.IConst(c.I32, 2), c.IRel(c.I32, 3), c.IBrIf(0))
						return []c.Ins{c.IConst(c.I32, 0), c.ILocalSet(4), m.ILoop(nil, nil, body)}
					}
				case 5:
					return []c.Ins{m.IBlock(nil, nil, append(access(), c.ILocalGet(1), c.IWrap, c.IBrIf(0)))}
				}
				return nil
			}
			var body []c.Ins
			switch rng.Intn(3) {
			case 0:
				body = append(body, c.IConst(c.I32, uint64(uint32(inb()))), c.ILocalSet(3))
			case 1:
				body = append(body, c.ILocalGet(0), c.ILocalSet(3))
			default:
				// the base is the direct result of i32.wrap_i64 on the i64 parameter: its register may carry guest-chosen
				// upper bits, which no addressing mode may ever see
				body = append(body, c.ILocalGet(1), c.IWrap, c.ILocalSet(3))
			}
			for k := 2 + rng.Intn(4); k > 0; k-- {
				body = append(body, access()...)
				body = append(body, between(2)...)
			}
			body = append(body, c.ILocalGet(2))
			f.Body = body
			m.Funcs = append(m.Funcs, f)
		}
		// a fixed shape in every module: a constant base held in a local is checked once, then re-used after a call
		// (the bounds check is elided and the absolute address re-derived from the constant: address-mode folding)
		{
			cb := uint64(uint32(inb()))
			f := &c.FuncSpec{Sig: c.Sig{P: []byte{c.I32, c.I64}, R: []byte{c.I64}}, Locals: []byte{c.I64, c.I32, c.I32}}
			f.Body = []c.Ins{
				c.IConst(c.I32, cb), c.ILocalSet(3),
				c.ILocalGet(3), c.ILocalGet(1), c.IStore(c.I64, 8, 8),
				c.ICall(2),
				c.ILocalGet(3), c.ILoad(c.I64, 8, false, 8), c.ILocalSet(2),
				c.ICall(2),
				c.ILocalGet(3), c.ILoad(c.I64, 4, false, 4), c.ILocalGet(2), c.IBin(c.I64, 9), c.ILocalSet(2),
				c.ILocalGet(3), c.ILocalGet(1), c.IStore(c.I64, 1, 0),
				c.ICall(2),
				c.ILocalGet(3), c.ILoad(c.I64, 1, true, 0), c.ILocalGet(2), c.IBin(c.I64, 0),
			}
			m.Funcs = append(m.Funcs, f)
			nf++
		}
		{
			f := &c.FuncSpec{Sig: c.Sig{P: []byte{c.I32, c.I64}, R: []byte{c.I64}}, Locals: []byte{c.I64, c.I32, c.I32}}
			f.Body = []c.Ins{
				c.ILocalGet(1), c.IWrap, c.ILocalSet(3),
				c.ILocalGet(3), c.ILoad(c.I64, 8, false, 8), c.ILocalSet(2), // checked access
				c.ILocalGet(0), m.IIf(nil, nil, []c.Ins{c.ILocalGet(2), c.IConst(c.I64, 1), c.IBin(c.I64, 0), c.ILocalSet(2)}, []c.Ins{c.INop}), // join
				c.ILocalGet(3), c.ILoad(c.I64, 4, false, 4), c.ILocalGet(2), c.IBin(c.I64, 9), c.ILocalSet(2), // elided, address re-derived
				m.IBlock(nil, nil, []c.Ins{c.ILocalGet(0), c.IBrIf(0), c.INop}),
				c.ILocalGet(3), c.ILocalGet(1), c.IStore(c.I64, 2, 0),
				c.ICall(2),
				c.ILocalGet(3), c.ILoad(c.I64, 1, false, 1), c.ILocalGet(2), c.IBin(c.I64, 0),
			}
			m.Funcs = append(m.Funcs, f)
			nf++
		}
		bin := m.Encode()
		var calls [][]uint64
		calls = append(calls, []uint64{uint64(len(m.Hosts) + nf - 2), 0, 0x1122334455667788})
		for _, hi := range []uint64{1, 0x7fffffff, 0xffffffff} {
			calls = append(calls, []uint64{uint64(len(m.Hosts) + nf - 1), uint64(rng.Intn(2)), hi<<32 | uint64(uint32(inb()))})
		}
		for k := 4 + rng.Intn(6); k > 0; k-- {
			fi := len(m.Hosts) + rng.Intn(nf)
			bs := uint64(uint32(rng.Pick(bases)))
			if rng.Intn(3) > 0 {
				bs = uint64(uint32(inb())) &^ 0 
			}
			v := rng.Pick([]uint64{0, 1, 0x0102030405060708, rng.U64()})
			if rng.Bool() {
				v = rng.U64()<<32 | uint64(uint32(inb()))
			}
			calls = append(calls, []uint64{uint64(fi), bs, v})
		}
		hres := [][]int{{32}, {64}, {}, {64, 32}}
		cases = append(cases, Case{ID: i, Store: m.CoqStore(), HRes: hres, Calls: calls, Pages: m.MemMin, Wasm: hex.EncodeToString(bin), Engines: map[string]EngObs{}})
		mods, bins, huge = append(mods, m), append(bins, bin), append(huge, isBig)
	}
	var mu sync.Mutex
	for _, phase := range []bool{false, true} {
		width := 10
		if phase {
			width = 2
		}
		var wg sync.WaitGroup
		sem := make(chan struct{}, width)
		for i := range cases {
			if huge[i] != phase {
				continue
			}
			for _, eng := range []string{"interp", "compiler"} {
				wg.Add(1)
				sem <- struct{}{}
				go func(i int, eng string) {
					defer wg.Done()
					defer func() { <-sem }()
					eo := runOn(eng, mods[i], bins[i], cases[i].Calls)
					mu.Lock()
					cases[i].Engines[eng] = eo
					mu.Unlock()
				}(i, eng)
			}
		}
		wg.Wait()
	}
	for i := range cases {
		out.Emit(cases[i])
	}
}
