package amd64

import (
	"context"
	"fmt"

	"github.com/tetratelabs/wazero/internal/engine/wazevo/backend"
	"github.com/tetratelabs/wazero/internal/engine/wazevo/backend/regalloc"
	"github.com/tetratelabs/wazero/internal/engine/wazevo/ssa"
)

// C02 verification hook (compiled in through `go build -overlay` only): calls the REAL encodeRegMem / encodeEncMem /
// encodeRegReg / encodeEncEnc, and the REAL (*machine).Encode on instruction lists, against the REAL backend compiler
// (EmitByte / Emit4Bytes / BufPtr), and hands back the bytes. Nothing is evaluated here.

// ZZEncIn is one call. Registers are x86 register numbers 0..15; the RealReg handed to the amode constructors is rax+n.
type ZZEncIn struct {
	Rex     byte   `json:"rex"`    // rexInfo bits (1 = W, 2 = always)
	Prefix  byte   `json:"prefix"` // legacyPrefixes
	Opcodes uint32 `json:"opcodes"`
	OpNum   uint32 `json:"opnum"`
	R       byte   `json:"r"`    // reg field: register encoding 0..15 (or a sub-opcode 0..7)
	Kind    int    `json:"kind"` // 0: register-register; 1 amodeImmReg, 2 amodeImmRBP, 3 amodeRegRegShift, 4 amodeRipRel
	Imm     uint32 `json:"imm"`  // imm32; the label for kind 4
	Base    byte   `json:"base"`
	Index   byte   `json:"index"`
	Shift   byte   `json:"shift"`
	RM      byte   `json:"rm"`  // kind 0
	Via     bool   `json:"via"` // true: through encodeRegMem / encodeRegReg (regEnc-typed wrappers)
}

type ZZEncOut struct {
	Bytes      []byte `json:"-"`
	Panic      string `json:"panic,omitempty"`
	NeedsLabel bool   `json:"needs_label,omitempty"`
	Kind       int    `json:"akind"`           // what amode.kind() says
	AShift     byte   `json:"ashift"`          // what amode.shift() says
	BaseName   string `json:"bname,omitempty"` // regNames of the RealRegs that went in, and the encodings regEncodings gives them
	IndexName  string `json:"iname,omitempty"`
	BaseEnc    byte   `json:"benc"`
	IndexEnc   byte   `json:"ienc"`
}

type ZZEnc struct {
	m *machine
	c backend.Compiler
}

func ZZNewEnc() *ZZEnc {
	m := NewBackend().(*machine)
	c := backend.NewCompiler(context.Background(), m, ssa.NewBuilder())
	return &ZZEnc{m: m, c: c}
}

func zzIntReg(n byte) regalloc.VReg {
	return regalloc.FromRealReg(rax+regalloc.RealReg(n), regalloc.RegTypeInt)
}

func zzXmmReg(n byte) regalloc.VReg {
	return regalloc.FromRealReg(xmm0+regalloc.RealReg(n), regalloc.RegTypeFloat)
}

func (z *ZZEnc) amode(in *ZZEncIn, out *ZZEncOut) *amode {
	var a *amode
	switch in.Kind {
	case 1:
		a = z.m.newAmodeImmReg(in.Imm, zzIntReg(in.Base))
	case 2:
		a = z.m.newAmodeImmRBPReg(in.Imm)
	case 3:
		a = z.m.newAmodeRegRegShift(in.Imm, zzIntReg(in.Base), zzIntReg(in.Index), in.Shift)
	case 4:
		a = z.m.newAmodeRipRel(label(in.Imm))
	default:
		panic("harness: amode kind")
	}
	if out != nil {
		out.Kind, out.AShift = int(a.kind()), a.shift()
		if in.Kind != 4 {
			out.BaseName, out.BaseEnc = regNames[a.base.RealReg()], byte(regEncodings[a.base.RealReg()])
		}
		if in.Kind == 3 {
			out.IndexName, out.IndexEnc = regNames[a.index.RealReg()], byte(regEncodings[a.index.RealReg()])
		}
	}
	return a
}

func (z *ZZEnc) Encode(in ZZEncIn) (out ZZEncOut) {
	buf := z.c.BufPtr()
	*buf = (*buf)[:0]
	defer func() {
		if r := recover(); r != nil {
			out.Panic = fmt.Sprint(r)
			if out.Panic == "" {
				out.Panic = "panic"
			}
		}
		out.Bytes = append([]byte{}, (*buf)...)
	}()
	if in.Kind == 0 {
		if in.Via {
			encodeRegReg(z.c, legacyPrefixes(in.Prefix), in.Opcodes, in.OpNum, regEnc(in.R), regEnc(in.RM), rexInfo(in.Rex))
		} else {
			encodeEncEnc(z.c, legacyPrefixes(in.Prefix), in.Opcodes, in.OpNum, in.R, in.RM, rexInfo(in.Rex))
		}
		return
	}
	a := z.amode(&in, &out)
	if in.Via {
		out.NeedsLabel = encodeRegMem(z.c, legacyPrefixes(in.Prefix), in.Opcodes, in.OpNum, regEnc(in.R), a, rexInfo(in.Rex))
	} else {
		out.NeedsLabel = encodeEncMem(z.c, legacyPrefixes(in.Prefix), in.Opcodes, in.OpNum, in.R, a, rexInfo(in.Rex))
	}
	z.m.amodePool.Reset()
	return
}

// ZZSeqItem is one instruction of a list handed to the real Encode: Op = "load64" (mov64MR), "store" (movRM, Size),
// "movdqu" (xmmUnaryRmR movdqu xmm <- mem; Am.Kind = 4 makes it rip-relative to label Label), "label" (nop0 carrying
// label Label).
type ZZSeqItem struct {
	Op    string  `json:"op"`
	Am    ZZEncIn `json:"am"`
	Reg   byte    `json:"reg"`
	Size  byte    `json:"size,omitempty"`
	Label int     `json:"label"`
}

// EncodeSeq builds the instructions with the real constructors, links them into one block and runs the real
// (*machine).Encode, which encodes every instruction and then resolves the labels. Returns the buffer and the
// binaryOffset the machine recorded for every label.
func ZZEncodeSeq(items []ZZSeqItem, nlabels int) (code []byte, labelOffsets []int64, pmsg string) {
	defer func() {
		if r := recover(); r != nil {
			pmsg = fmt.Sprint(r)
			if pmsg == "" {
				pmsg = "panic"
			}
		}
	}()
	z := ZZNewEnc()
	m := z.m
	labels := make([]label, nlabels)
	for i := range labels {
		labels[i], _ = m.allocateLabel()
	}
	var first, last *instruction
	for k := range items {
		it := &items[k]
		i := m.allocateInstr()
		switch it.Op {
		case "load64":
			i.asMov64MR(newOperandMem(z.amode(&it.Am, nil)), zzIntReg(it.Reg))
		case "store":
			i.asMovRM(zzIntReg(it.Reg), newOperandMem(z.amode(&it.Am, nil)), it.Size)
		case "movdqu":
			am := it.Am
			if am.Kind == 4 {
				am.Imm = uint32(labels[it.Label])
			}
			i.asXmmUnaryRmR(sseOpcodeMovdqu, newOperandMem(z.amode(&am, nil)), zzXmmReg(it.Reg))
		case "lea": // lea with a (non-label) memory operand: no lowering builds it; accepted here for experiments only
			i.asLEA(newOperandMem(z.amode(&it.Am, nil)), zzIntReg(it.Reg))
		case "label":
			i.asNop0WithLabel(labels[it.Label])
		default:
			panic("harness: op " + it.Op)
		}
		if first == nil {
			first = i
		} else {
			linkInstr(last, i)
		}
		last = i
	}
	if first == nil {
		return
	}
	_, pos := m.allocateLabel()
	pos.begin, pos.end = first, last
	m.orderedSSABlockLabelPos = append(m.orderedSSABlockLabelPos[:0], pos)
	if err := m.Encode(context.Background()); err != nil {
		pmsg = "error: " + err.Error()
		return
	}
	code = append([]byte{}, z.c.Buf()...)
	for _, l := range labels {
		labelOffsets = append(labelOffsets, m.labelPositionPool.Get(int(l)).binaryOffset)
	}
	return
}
