//go:build linux

// C02 guard stream, execution: the generated access programs run in CHILD processes on memories that are followed
// (and preceded) by inaccessible pages (guard_alloc.go). Before every call the child prints a marker; a child that
// dies (SIGSEGV inside generated code is fatal for the process) is attributed to the exact program, engine and call,
// the fault address is reported relative to the memory, and the program is re-run alone to confirm.
// Per call the child records: the arguments, trap class or results, EVERY byte of the memory that changed, the size
// afterwards, the bytes around the addressed locations before the call (the model's window), and — for a load
// feeding a consumer — the reference value of the addressed bytes and the result of the consumer's twin on it.
package main

import (
	"bufio"
	"context"
	"encoding/binary"
	"encoding/hex"
	"encoding/json"
	"errors"
	"fmt"
	"os"
	"os/exec"
	"regexp"
	"strconv"
	"strings"
	"sync"
	"time"

	"github.com/tetratelabs/wazero"
	"github.com/tetratelabs/wazero/api"
	"github.com/tetratelabs/wazero/experimental"
	"github.com/tetratelabs/wazero/internal/wasmruntime"
)

type TwinObs struct {
	Trap string   `json:"trap,omitempty"`
	Res  []uint64 `json:"res,omitempty"`
}

type CallRec struct {
	Idx   int        `json:"i"`
	F     int        `json:"f"`
	A     uint32     `json:"a"`
	B     uint32     `json:"b"`
	X     uint64     `json:"x"`
	Y     uint64     `json:"y"`
	Pos   string     `json:"pos"`
	Size0 uint64     `json:"size0"` // bytes before the call
	Size1 uint64     `json:"size1"` // bytes after the call
	Trap  string     `json:"trap,omitempty"`
	Res   []uint64   `json:"res,omitempty"`
	Hole  []uint64   `json:"hole,omitempty"` // reference value handed to the twin (lo, hi)
	Twin  *TwinObs   `json:"twin,omitempty"`
	Diff  [][2]any   `json:"diff,omitempty"` // runs of changed bytes: [start, hex of the new bytes]
	WinLo uint64     `json:"wlo"`
	Win   string     `json:"win"`           // hex of the bytes [wlo, wlo+len) before the call (zeros beyond size0)
	DiffTrunc bool   `json:"difftrunc,omitempty"` // more than 400000 bytes changed: the list is incomplete
	Big   bool       `json:"big,omitempty"` // the addressed ranges span too much for one window
	Segs  [][2]any   `json:"segs,omitempty"` // then: the bytes around every addressed range separately
}

type ProgObs struct {
	Ev     string    `json:"ev"`
	ID     int       `json:"id"`
	Engine string    `json:"engine"`
	Err    string    `json:"err,omitempty"`
	Calls  []CallRec `json:"calls"`
}

func guardTrap(err error) string {
	switch {
	case err == nil:
		return ""
	case errors.Is(err, wasmruntime.ErrRuntimeOutOfBoundsMemoryAccess):
		return "oob"
	case errors.Is(err, wasmruntime.ErrRuntimeUnalignedAtomic):
		return "unaligned"
	case errors.Is(err, wasmruntime.ErrRuntimeIntegerDivideByZero), errors.Is(err, wasmruntime.ErrRuntimeIntegerOverflow):
		return "div"
	case errors.Is(err, wasmruntime.ErrRuntimeInvalidConversionToInteger):
		return "conv"
	case errors.Is(err, wasmruntime.ErrRuntimeExpectedSharedMemory):
		return "shared"
	}
	msg := err.Error()
	if i := strings.Index(msg, "\n"); i > 0 {
		msg = msg[:i]
	}
	return "other:" + msg
}

func pattern(id int, n uint64) []byte {
	b := make([]byte, n)
	s := uint64(id)*0x9e3779b97f4a7c15 + 12345
	for i := range b {
		s = s*6364136223846793005 + 1442695040888963407
		b[i] = byte(s >> 56)
	}
	// shift amounts, small integers and ordinary floats occur among the values at the very end
	return b
}

// byteAt: the memory as the reference sees it before the call: the shadow, zeros beyond (pages a grow adds)
func bytesAt(shadow []byte, ea, n uint64) []byte {
	o := make([]byte, n)
	for i := uint64(0); i < n; i++ {
		if ea+i < uint64(len(shadow)) {
			o[i] = shadow[ea+i]
		}
	}
	return o
}

func shapeBytes(shape []any, bs []byte) []byte {
	kind := shape[0].(string)
	ext := func(bs []byte, w int, sx bool) []byte {
		o := append([]byte{}, bs...)
		f := byte(0)
		if sx && bs[len(bs)-1]&0x80 != 0 {
			f = 0xff
		}
		for len(o) < w {
			o = append(o, f)
		}
		return o
	}
	switch kind {
	case "raw":
		return bs
	case "zext":
		return ext(bs, shape[1].(int), false)
	case "sext":
		return ext(bs, shape[1].(int), true)
	case "lanes":
		cw := shape[1].(int)
		var o []byte
		for i := 0; i < len(bs); i += cw {
			o = append(o, ext(bs[i:i+cw], 2*cw, shape[2].(bool))...)
		}
		return o
	case "splat":
		var o []byte
		for len(o) < 16 {
			o = append(o, bs...)
		}
		return o
	case "zero":
		return ext(bs, 16, false)
	}
	panic("shape " + kind)
}

type rng2 struct{ ea, n uint64 }

// refCall: the Go-side reference, only as far as the harness itself needs it: does the call trap before the main
// access produces its value, which ranges are addressed, and the bytes the main load reads.
func refCall(p *Prog, f *Func, cl *Call, shadow []byte) (traps bool, ranges []rng2, mainEA uint64, sizeAtMain uint64) {
	size := uint64(len(shadow))
	if f.Pre != nil {
		ea := uint64(srcVal(f.Pre.Base, cl)) + uint64(f.Pre.Off)
		ranges = append(ranges, rng2{ea, uint64(f.Pre.N)})
		if ea+uint64(f.Pre.N) > size {
			traps = true
		}
	}
	if (f.Between == "grow" || f.Between == "callgrow") && !traps && size>>16+uint64(f.Delta) <= uint64(p.Max) {
		size += uint64(f.Delta) << 16
	}
	m := &f.Main
	sizeAtMain = size
	switch m.Fam {
	case "fill", "copy", "init":
		n := uint64(srcVal(*m.L, cl))
		d := uint64(srcVal(*m.D, cl))
		ranges = append(ranges, rng2{d, n})
		if m.Fam == "copy" {
			ranges = append(ranges, rng2{uint64(srcVal(*m.S, cl)), n})
		}
		mainEA = d
		return
	}
	ea := uint64(srcVal(m.Base, cl)) + uint64(m.Off)
	mainEA = ea
	ranges = append(ranges, rng2{ea, uint64(m.N)})
	if ea+uint64(m.N) > size {
		traps = true
	}
	if m.Fam == "load_store" {
		ranges = append(ranges, rng2{uint64(srcVal(*m.D, cl)) + uint64(m.DOff), uint64(m.N)})
	}
	return
}

func runGuardProg(p *Prog, engine string, seed uint64, say func(string)) (po ProgObs) {
	po = ProgObs{Ev: "obs", ID: p.ID, Engine: engine}
	defer func() {
		if e := recover(); e != nil {
			po.Err = fmt.Sprint("PANIC: ", e)
		}
	}()
	al := &guardAllocator{moving: p.Moving}
	al.report = func(base uintptr, size, max uint64, moving bool) {
		say(fmt.Sprintf("#mem %#x %d %d %v", base, size, max, moving))
	}
	ctx := experimental.WithMemoryAllocator(context.Background(), al)
	var rc wazero.RuntimeConfig
	if engine == "compiler" {
		rc = wazero.NewRuntimeConfigCompiler()
	} else {
		rc = wazero.NewRuntimeConfigInterpreter()
	}
	feat := api.CoreFeaturesV2
	if p.Threads {
		feat |= experimental.CoreFeaturesThreads
	}
	r := wazero.NewRuntimeWithConfig(ctx, rc.WithCoreFeatures(feat))
	defer r.Close(ctx)
	mod, err := r.InstantiateWithConfig(ctx, p.Wasm, wazero.NewModuleConfig().WithName("g"))
	if err != nil {
		po.Err = "instantiate: " + err.Error()
		return
	}
	mem := mod.Memory()
	shadow := pattern(p.ID, uint64(mem.Size()))
	if !mem.Write(0, shadow) {
		po.Err = "cannot initialise the memory"
		return
	}
	maxBytes := uint64(p.Max) << 16
	for idx := range p.Calls {
		cl := p.Calls[idx]
		f := &p.Funcs[cl.F]
		aimCall(p, &cl, idx, uint64(len(shadow)), seed)
		traps, ranges, mainEA, sizeAtMain := refCall(p, f, &cl, shadow)
		m := &f.Main
		if cl.XMem && mainEA+uint64(m.N) <= sizeAtMain {
			bs := append(bytesAt(shadow, mainEA, uint64(m.N)), make([]byte, 8)...)
			cl.X = binary.LittleEndian.Uint64(bs)
		}
		rec := CallRec{Idx: idx, F: cl.F, A: cl.A, B: cl.B, X: cl.X, Y: cl.Y, Pos: cl.Pos, Size0: uint64(len(shadow))}
		// window: hull of the addressed ranges, 16 bytes around each
		lo, hi := ^uint64(0), uint64(0)
		for _, rg := range ranges {
			if rg.ea > maxBytes+16 {
				continue
			}
			l := uint64(0)
			if rg.ea > 16 {
				l = rg.ea - 16
			}
			h := rg.ea + rg.n + 16
			if h > maxBytes || h < rg.ea {
				h = maxBytes
			}
			if l < lo {
				lo = l
			}
			if h > hi {
				hi = h
			}
		}
		if lo >= hi {
			lo, hi = 0, 0
		}
		if hi-lo > 16384 {
			rec.Big = true
			lo, hi = 0, 0
			for _, rg := range ranges {
				if rg.ea > maxBytes+16 || rg.n > 70000 {
					continue
				}
				l := uint64(0)
				if rg.ea > 16 {
					l = rg.ea - 16
				}
				h := rg.ea + rg.n + 16
				if h > maxBytes {
					h = maxBytes
				}
				if l < h {
					rec.Segs = append(rec.Segs, [2]any{l, hex.EncodeToString(bytesAt(shadow, l, h-l))})
				}
			}
		}
		rec.WinLo, rec.Win = lo, hex.EncodeToString(bytesAt(shadow, lo, hi-lo))
		if m.Fam == "cmpxchg" && !cl.XMem && m.N < 8 {
			cl.X &= 1<<(8*uint(m.N)) - 1 // the expected operand of a narrow cmpxchg: already wrapped
			rec.X = cl.X
		}
		say(fmt.Sprintf("#call %d %d %d %d %d %d", idx, cl.F, cl.A, cl.B, cl.X, cl.Y))
		if m.cons != nil && !traps {
			hb := append(shapeBytes(m.Shape, bytesAt(shadow, mainEA, uint64(m.N))), make([]byte, 16)...)
			hl, hh := binary.LittleEndian.Uint64(hb[0:8]), binary.LittleEndian.Uint64(hb[8:16])
			if m.Hole == "i32" || m.Hole == "f32" {
				hl &= 0xffffffff
				hh = 0
			} else if m.Hole != "v128" {
				hh = 0
			}
			rec.Hole = []uint64{hl, hh}
			tw := &TwinObs{}
			res, err := mod.ExportedFunction("t"+itoa(cl.F)).Call(ctx, hl, hh, cl.X, cl.Y)
			if err != nil {
				tw.Trap = guardTrap(err)
			} else {
				tw.Res = append([]uint64{}, res...)
			}
			rec.Twin = tw
		}
		res, err := mod.ExportedFunction("m"+itoa(cl.F)).Call(ctx, uint64(cl.A), uint64(cl.B), cl.X, cl.Y)
		if err != nil {
			rec.Trap = guardTrap(err)
		} else {
			rec.Res = append([]uint64{}, res...)
		}
		say("#done")
		// every byte that changed
		size1 := uint64(mem.Size())
		rec.Size1 = size1
		for uint64(len(shadow)) < size1 {
			shadow = append(shadow, make([]byte, 65536)...)
		}
		after, ok := mem.Read(0, uint32(size1))
		if !ok && size1 > 0 {
			po.Err = "cannot read the memory"
			return
		}
		diffBytes := uint64(0)
		for i := uint64(0); i < size1; {
			if after[i] == shadow[i] {
				i++
				continue
			}
			j := i
			for j < size1 && after[j] != shadow[j] {
				j++
			}
			if diffBytes+(j-i) <= 400000 {
				rec.Diff = append(rec.Diff, [2]any{i, hex.EncodeToString(after[i:j])})
				diffBytes += j - i
			} else {
				rec.DiffTrunc = true
			}
			copy(shadow[i:j], after[i:j])
			i = j
		}
		po.Calls = append(po.Calls, rec)
	}
	mod.Close(ctx)
	return
}

// ---- child ----
func guardChild(seed uint64, n int, threads bool, from, to int) {
	progs := genProgs(seed, n, threads)
	w := bufio.NewWriterSize(os.Stdout, 1<<16)
	say := func(s string) { w.WriteString(s); w.WriteByte('\n'); w.Flush() }
	for _, p := range progs {
		if p.ID < from || p.ID >= to {
			continue
		}
		for _, eng := range []string{"interp", "compiler"} {
			say(fmt.Sprintf("#start %d %s", p.ID, eng))
			po := runGuardProg(p, eng, seed, say)
			b, _ := json.Marshal(po)
			say(string(b))
		}
	}
}

// ---- parent ----
type guardDeath struct {
	Ev        string `json:"ev"`
	ID        int    `json:"id"`
	Engine    string `json:"engine"`
	Call      int    `json:"call"`
	Args      string `json:"args,omitempty"` // f a b x y of the call being executed
	InCall    bool   `json:"incall"` // between the #call marker and the end of the call
	How       string `json:"how"`
	Signal    string `json:"signal,omitempty"`
	FaultAddr string `json:"fault_addr,omitempty"`
	MemBase   string `json:"mem_base,omitempty"`
	MemSize   uint64 `json:"mem_size"`
	Rel       string `json:"rel,omitempty"` // fault address relative to the memory
	Confirmed *bool  `json:"confirmed,omitempty"`
	ReCall    int    `json:"recall,omitempty"`
	Stderr    string `json:"stderr"`
}

var (
	reAddr = regexp.MustCompile(`addr=(0x[0-9a-f]+)`)
	reSig  = regexp.MustCompile(`signal (SIG[A-Z]+)`)
)

type headBuf struct {
	mu sync.Mutex
	b  []byte
}

func (t *headBuf) Write(p []byte) (int, error) {
	t.mu.Lock()
	if len(t.b) < 6000 {
		k := 6000 - len(t.b)
		if k > len(p) {
			k = len(p)
		}
		t.b = append(t.b, p[:k]...)
	}
	t.mu.Unlock()
	return len(p), nil
}

// superviseGuard runs one child over [lo,hi); returns the death (nil when the child finished) and the id to resume at.
func superviseGuard(seed uint64, n int, threads bool, lo, hi int, watchdog int, emit func(string)) (*guardDeath, int) {
	self, _ := os.Executable()
	cmd := exec.Command(self, "-mode", "guardchild", "-seed", fmt.Sprint(seed), "-n", fmt.Sprint(n), "-threads="+fmt.Sprint(threads),
		"-from", fmt.Sprint(lo), "-to", fmt.Sprint(hi))
	cmd.Env = append(os.Environ(), "GOTRACEBACK=single", "GOMAXPROCS=2")
	pipe, _ := cmd.StdoutPipe()
	var errBuf headBuf
	cmd.Stderr = &errBuf
	if err := cmd.Start(); err != nil {
		panic(err)
	}
	lines := make(chan string, 256)
	go func() {
		sc := bufio.NewScanner(pipe)
		sc.Buffer(make([]byte, 1<<20), 256<<20)
		for sc.Scan() {
			lines <- sc.Text()
		}
		close(lines)
	}()
	cur, eng, call, inCall, done := -1, "", -1, false, -1
	doneEng := ""
	memBase, memSize := "", uint64(0)
	args := ""
	killed := false
loop:
	for {
		select {
		case ln, ok := <-lines:
			if !ok {
				break loop
			}
			switch {
			case strings.HasPrefix(ln, "#start "):
				fmt.Sscanf(ln, "#start %d %s", &cur, &eng)
				call, inCall = -1, false
			case strings.HasPrefix(ln, "#mem "):
				fs := strings.Fields(ln)
				memBase = fs[1]
				memSize, _ = strconv.ParseUint(fs[2], 10, 64)
			case strings.HasPrefix(ln, "#call "):
				fmt.Sscanf(ln, "#call %d", &call)
				args = strings.TrimSpace(ln[len("#call "):])
				inCall = true
			case ln == "#done":
				inCall = false
			case strings.HasPrefix(ln, "{"):
				done, doneEng = cur, eng
				emit(ln)
			}
		case <-time.After(time.Duration(watchdog) * time.Second):
			killed = true
			cmd.Process.Kill()
		}
	}
	err := cmd.Wait()
	if err == nil && !killed {
		return nil, hi
	}
	d := &guardDeath{Ev: "died", ID: cur, Engine: eng, Call: call, InCall: inCall, Args: args, MemBase: memBase, MemSize: memSize, Stderr: string(errBuf.b)}
	if done == cur && doneEng == eng {
		d.ID, d.Engine, d.Call, d.InCall = cur, "between-programs", -1, false
	}
	d.How = "exit"
	if err != nil {
		d.How = err.Error()
	}
	if killed {
		d.How = fmt.Sprintf("hang: no output for %ds, killed", watchdog)
	}
	if m := reSig.FindStringSubmatch(d.Stderr); m != nil {
		d.Signal = m[1]
	}
	if m := reAddr.FindStringSubmatch(d.Stderr); m != nil {
		d.FaultAddr = m[1]
		fa, e1 := strconv.ParseUint(m[1], 0, 64)
		mb, e2 := strconv.ParseUint(memBase, 0, 64)
		if e1 == nil && e2 == nil {
			switch {
			case fa >= mb+memSize:
				d.Rel = fmt.Sprintf("size+%#x", fa-mb-memSize)
			case fa >= mb:
				d.Rel = fmt.Sprintf("base+%#x (inside the memory)", fa-mb)
			default:
				d.Rel = fmt.Sprintf("base-%#x", mb-fa)
			}
		}
	}
	next := cur + 1
	if cur < lo {
		next = lo + 1 // died before announcing a program: skip one to guarantee progress
		d.ID = lo
	}
	return d, next
}

func guardParent(seed uint64, n int, threads bool, par int, watchdog int) {
	progs := genProgs(seed, n, threads)
	var mu sync.Mutex
	stdout := bufio.NewWriterSize(os.Stdout, 1<<20)
	emit := func(line string) {
		mu.Lock()
		stdout.WriteString(line)
		stdout.WriteByte('\n')
		mu.Unlock()
	}
	for _, p := range progs {
		b, _ := json.Marshal(map[string]any{"ev": "desc", "id": p.ID, "kind": p.Kind, "min": p.Min, "max": p.Max, "shared": p.Shared, "moving": p.Moving,
			"threads": p.Threads, "funcs": p.Funcs, "ncalls": len(p.Calls), "seg": hex.EncodeToString(p.Seg), "wasm": hex.EncodeToString(p.Wasm)})
		emit(string(b))
	}
	total := len(progs)
	if par < 1 {
		par = 1
	}
	chunk := (total + par - 1) / par
	var wg sync.WaitGroup
	for ci := 0; ci < par; ci++ {
		lo, hi := ci*chunk, (ci+1)*chunk
		if hi > total {
			hi = total
		}
		if lo >= hi {
			continue
		}
		wg.Add(1)
		go func(lo, hi int) {
			defer wg.Done()
			deaths := 0
			for lo < hi && deaths < 12 {
				d, next := superviseGuard(seed, n, threads, lo, hi, watchdog, emit)
				if d == nil {
					return
				}
				deaths++
				// re-run the one program alone: is the death reproducible, and at which call?
				if d.ID >= 0 {
					d2, _ := superviseGuard(seed, n, threads, d.ID, d.ID+1, watchdog, func(string) {})
					ok := d2 != nil
					d.Confirmed = &ok
					if d2 != nil {
						d.ReCall = d2.Call
						if d.Signal == "" && d2.Signal != "" { // the batch child's stderr was lost: take the re-run's
							d.Signal, d.FaultAddr, d.Rel, d.MemBase, d.MemSize, d.Stderr = d2.Signal, d2.FaultAddr, d2.Rel, d2.MemBase, d2.MemSize, d2.Stderr
						}
					}
				}
				b, _ := json.Marshal(d)
				emit(string(b))
				lo = next
			}
		}(lo, hi)
	}
	wg.Wait()
	stdout.Flush()
}
