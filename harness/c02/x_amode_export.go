package amd64

import (
	"fmt"

	"github.com/tetratelabs/wazero/internal/engine/wazevo/backend"
	"github.com/tetratelabs/wazero/internal/engine/wazevo/ssa"
)

// C02 verification hook (compiled in through `go build -overlay` only): calls the real lowerToAddressMode and
// reads back the addressing mode it built and the instructions it inserted.

type ZZAmode struct {
	Kind        int // 1 = imm32(base), 3 = imm32(base,index,1<<shift)
	Imm32       uint32
	Base, Index uint32 // virtual register ids
	Shift       byte
}

type ZZInstr struct {
	Kind string // "imm" (dst := Val; B64 = 64-bit move), "zero" (dst := 0), "shl" (dst <<= Val), otherwise the printed instruction
	Dst  uint32
	Val  uint64
	B64  bool
}

type ZZMach struct{ m *machine }

func ZZNewMach() *ZZMach                   { return &ZZMach{NewBackend().(*machine)} }
func (z *ZZMach) Machine() backend.Machine { return z.m }

func (z *ZZMach) LowerToAddressMode(ptr ssa.Value, off uint32) (am ZZAmode, ins []ZZInstr, pmsg string) {
	defer func() {
		if r := recover(); r != nil {
			pmsg = fmt.Sprint(r)
			if pmsg == "" {
				pmsg = "panic"
			}
		}
	}()
	z.m.pendingInstructions = z.m.pendingInstructions[:0]
	a := z.m.lowerToAddressMode(ptr, off)
	am = ZZAmode{Kind: int(a.kind()), Imm32: a.imm32, Base: uint32(a.base.ID()), Shift: a.shift()}
	if a.kind() == amodeRegRegShift {
		am.Index = uint32(a.index.ID())
	}
	for _, i := range z.m.pendingInstructions {
		switch {
		case i.kind == imm:
			ins = append(ins, ZZInstr{Kind: "imm", Dst: uint32(i.op2.reg().ID()), Val: i.u1, B64: i.b1})
		case i.kind == zeros:
			ins = append(ins, ZZInstr{Kind: "zero", Dst: uint32(i.op2.reg().ID())})
		case i.kind == shiftR && shiftROp(i.u1) == shiftROpShiftLeft && i.op1.kind == operandKindImm32 && i.b1:
			ins = append(ins, ZZInstr{Kind: "shl", Dst: uint32(i.op2.reg().ID()), Val: uint64(i.op1.imm32()), B64: true})
		default:
			ins = append(ins, ZZInstr{Kind: "other: " + i.String()})
		}
	}
	return
}
