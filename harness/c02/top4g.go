package main

// -mode top4g: accesses at the very top of a 65536-page (4 GiB) memory on the INTERPRETER (the compiler cannot use a
// memory of exactly 4 GiB: open finding F12), every load/store width incl. v128 and the widening/splat/zero loads,
// effective addresses 2^32-40 .. 2^32-1 and static offsets that make base+offset exceed 32 bits. The last 64 bytes
// hold a known pattern written through the host API; everything else is zero. One JSON line per call.

import (
	"context"
	"fmt"

	"github.com/tetratelabs/wazero"
	"github.com/tetratelabs/wazero/api"
	c "github.com/tetratelabs/wazero/internal/zz_verif/common"
)

type topOp struct {
	Name  string
	Code  []byte // opcode bytes (without memarg)
	Width int    // bytes touched
	Store bool
	Res   byte // result type of a load (I32/I64/V128), operand type of a store
}

func simdOp(op uint32) []byte { return c.Cat(c.B(0xfd), c.U32(op)) }

var topOps = []topOp{
	{"i32.load", c.B(0x28), 4, false, c.I32}, {"i64.load", c.B(0x29), 8, false, c.I64},
	{"i32.load8_u", c.B(0x2d), 1, false, c.I32}, {"i32.load16_s", c.B(0x2e), 2, false, c.I32},
	{"i64.load32_u", c.B(0x35), 4, false, c.I64}, {"i64.load16_u", c.B(0x33), 2, false, c.I64},
	{"v128.load", simdOp(0), 16, false, c.V128}, {"v128.load8x8_u", simdOp(2), 8, false, c.V128},
	{"v128.load32x2_s", simdOp(5), 8, false, c.V128}, {"v128.load8_splat", simdOp(7), 1, false, c.V128},
	{"v128.load64_splat", simdOp(10), 8, false, c.V128}, {"v128.load32_zero", simdOp(92), 4, false, c.V128},
	{"v128.load64_zero", simdOp(93), 8, false, c.V128},
	{"i32.store", c.B(0x36), 4, true, c.I32}, {"i64.store", c.B(0x37), 8, true, c.I64},
	{"i32.store8", c.B(0x3a), 1, true, c.I32}, {"i64.store32", c.B(0x3e), 4, true, c.I64},
	{"v128.store", simdOp(11), 16, true, c.V128},
}

var topOffsets = []uint32{0, 1, 8, 16, 0x7fffffff, 0x80000000, 0xfffffff0, 0xffffffff}

type TopCase struct {
	K      string   `json:"k"`
	Op     string   `json:"op"`
	Width  int      `json:"width"`
	Store  bool     `json:"store"`
	Base   uint64   `json:"base"`
	Off    uint64   `json:"off"`
	Trap   string   `json:"trap,omitempty"`
	Res    []uint64 `json:"res,omitempty"`
	Tail   string   `json:"tail"` // the last 64 bytes after the call (hex)
	Engine string   `json:"engine"`
}

func mainTop4g(seed uint64) {
	out := c.NewOut()
	defer out.Flush()
	rng := c.NewRng(seed)
	ctx := context.Background()
	// one function per (op, offset): loads (param i32) -> result; stores (param i32) with a fixed operand pattern
	m := &c.Mod{}
	m.Types = [][]byte{c.FT(c.B(c.I32), c.B(c.I32)), c.FT(c.B(c.I32), c.B(c.I64)), c.FT(c.B(c.I32), c.B(c.I64, c.I64)), c.FT(c.B(c.I32), nil)}
	mx := uint32(65536)
	m.Mems = [][]byte{c.MemLimits(65536, &mx)}
	m.Exports = [][]byte{c.Export("mem", 2, 0)}
	type fn struct {
		op  topOp
		off uint32
	}
	var fns []fn
	for _, op := range topOps {
		for _, off := range topOffsets {
			var body []byte
			ti := 3
			if !op.Store {
				body = c.Cat(c.LocalGet(0), op.Code, c.MemArg(0, off))
				switch op.Res {
				case c.I32:
					ti = 0
				case c.I64:
					ti = 1
				default: // v128: return both halves
					ti = 2
					body = c.Cat(c.LocalGet(0), op.Code, c.MemArg(0, off), simdOp(29), c.B(0), // i64x2.extract_lane 0
						c.LocalGet(0), op.Code, c.MemArg(0, off), simdOp(29), c.B(1))
				}
			} else {
				var val []byte
				switch op.Res {
				case c.I32:
					val = c.I32Const(-0x5e5e5e5f) // 0xa1a1a1a1
				case c.I64:
					val = c.I64Const(-0x4d4c4b4a49484746)
				default:
					val = c.Cat(simdOp(12), c.B(0xc0, 0xc1, 0xc2, 0xc3, 0xc4, 0xc5, 0xc6, 0xc7, 0xc8, 0xc9, 0xca, 0xcb, 0xcc, 0xcd, 0xce, 0xcf))
				}
				body = c.Cat(c.LocalGet(0), val, op.Code, c.MemArg(0, off))
			}
			m.Funcs = append(m.Funcs, c.U32(uint32(ti)))
			m.Codes = append(m.Codes, c.Code(nil, body))
			m.Exports = append(m.Exports, c.Export(fmt.Sprintf("f%d", len(fns)), 0, uint32(len(fns))))
			fns = append(fns, fn{op, off})
		}
	}
	r := wazero.NewRuntimeWithConfig(ctx, wazero.NewRuntimeConfigInterpreter())
	defer r.Close(ctx)
	mod, err := r.Instantiate(ctx, m.Bytes())
	if err != nil {
		out.Emit(map[string]any{"k": "top4g-error", "err": err.Error()})
		return
	}
	mem := mod.Memory()
	pattern := make([]byte, 64)
	reset := func() {
		for i := range pattern {
			pattern[i] = byte(0x40 + i)
		}
		mem.Write(0xffffffc0, pattern)
	}
	for i, f := range fns {
		// bases so that base+off lands in [2^32-40, 2^32+8) when possible, plus a few random ones
		var bases []uint64
		for ea := uint64(1<<32) - 40; ea < 1<<32+8; ea++ {
			if ea >= uint64(f.off) && ea-uint64(f.off) < 1<<32 {
				if ea >= 1<<32-20 || ea%5 == 0 {
					bases = append(bases, ea-uint64(f.off))
				}
			}
		}
		bases = append(bases, 0, 0xffffffff, uint64(uint32(rng.U64())))
		for _, b := range bases {
			reset()
			cs := TopCase{K: "top4g", Op: f.op.Name, Width: f.op.Width, Store: f.op.Store, Base: b, Off: uint64(f.off), Engine: "interp"}
			res, err := mod.ExportedFunction(fmt.Sprintf("f%d", i)).Call(ctx, b)
			if err != nil {
				cs.Trap = c.TrapClass(err)
			} else {
				cs.Res = res
				if f.op.Res == c.I32 && !f.op.Store {
					cs.Res = []uint64{res[0] & 0xffffffff}
				}
			}
			tail, _ := mem.Read(0xffffffc0, 64)
			cs.Tail = fmt.Sprintf("%x", tail)
			out.Emit(cs)
		}
	}
	_ = api.ValueTypeI32
}
