"""C12 — non-semantic configuration does not change guest behaviour."""
import hashlib, json, re
from vcheck import *


def coq_bool(b): return "true" if b else "false"


def coq_lcase(l):
    cfg = "{| c_min := %d; c_hasmax := %s; c_max := %d; c_limit := %d; c_capmax := %s; c_alloc := false |}" % (
        l["min"], coq_bool(l["hasmax"]), l["max"], l["limit"], coq_bool(l["capmax"]))
    return "(%s, %s, %d, %d, %d)" % (cfg, coq_bool(l["accepted"]), l["rmin"], l["rcap"], l["rmax"])


def trace_key(e): return json.dumps(e.get("trace"), sort_keys=True)


def first_trace_diff(a, b):
    if a is None or b is None: return "no trace (%s)" % ("reference" if a is None else "this execution")
    for k in ("results", "peeks", "hostreads", "host", "pages", "memsum", "g0", "memmin", "memmax"):
        if a[k] != b[k]:
            if isinstance(a[k], list):
                for i, (x, y) in enumerate(zip(a[k], b[k])):
                    if x != y: return "%s[%d]: reference %s, here %s" % (k, i, x, y)
                return "%s: length %d vs %d" % (k, len(a[k]), len(b[k]))
            return "%s: reference %s, here %s" % (k, a[k], b[k])
    return None


def run(tier, seed):
    ck = Check("C12", tier, seed)
    ck.trusted += ["tools/go2coq (newMemorySizer, Memory.Validate and the page/byte conversions regenerated from decoder.go, module.go, memory.go)",
                   "Rt.MemInst (the C14 memory-instance model, tied by C14's correspondence run) for the capacity/allocator theorem",
                   "hand transcription of wasm.Module.AssignModuleID's hashed byte string (coq/Rt/Limits.v id_input), tied by hashing the model's "
                   "string with sha256 and comparing with the real Module.ID",
                   "harness/c12 (Go: program generator, lattice sampler, trace projection) and checks/c12.py (oracle)"]
    ck.assumptions += ["C12_module_id_separates assumes the hash injective on the strings it is given (stated as a hypothesis of the theorem; sha256 collisions are out of scope)",
                       "the experimental.MemoryAllocator used is well behaved: it returns a zeroed buffer of the requested size and never fails below max",
                       "equality of behaviour under the lattice is established by differential execution of generated programs, not proved: the reference "
                       "semantics W has no notion of the tuning options; stack-trace text (which debug info changes legitimately) is projected away",
                       "the on-disk cache codec itself (serialize/deserialize) is C13's model; here it is exercised cold/warm/shared"]
    proofs_ok = ck.proofs()
    nprog, rows = (25, 24) if tier == "quick" else (400, 64)
    if not proofs_ok:
        nprog *= 2
    binp, log = build_harness("c12")
    if not binp:
        ck.violation("harness-build", {"kind": "build"}, {"log": log[-3000:]}, no_input=True)
        return ck.finish()
    # a guest that cannot be stopped (code without termination checks served to a runtime that asked for them) freezes the whole
    # process at the next garbage collection: bound the run and name the rows that were running
    rc, out = sh([binp, "-seed", str(seed), "-n", str(nprog), "-rows", str(rows)], timeout=300 if tier == "quick" else 3000)
    recs = jlines(out)
    limits = [r for r in recs if r["t"] == "limits"]
    ids = [r for r in recs if r["t"] == "id"]
    execs = [r for r in recs if r["t"] == "exec"]
    progs = {r["prog"]: r for r in recs if r["t"] == "prog"}
    lat = next((r["rows"] for r in recs if r["t"] == "lattice"), [])
    if rc != 0 or not execs or not limits or not ids:
        # a fatal fault of the process (e.g. inside machine code served to the wrong runtime): name the rows that were running
        started = {r["job"]: r for r in recs if r["t"] == "start"}
        for r in recs:
            if r["t"] == "end": started.pop(r["job"], None)
        m = re.search(r"^(fatal error:.*|unexpected signal.*|panic:.*|SIG[A-Z]+:.*)$", out, re.M)
        running = list(started.values())[:8]
        sig = {"kind": "timeout" if rc == 124 else "crash", "caches": sorted({r["cfg"]["cache"] for r in running})}
        ck.violation("harness-crash", sig, {"rc": rc, "error": m.group(1) if m else None, "rows_running": running,
                                            "tail": out[-1500:]}, no_input=False)
        if not execs or not limits or not ids:
            return ck.finish()
    ck.cases = len(execs) + len(limits) + len(ids)

    # ---- memory limits: model inside Coq + the property on the observations
    v = ("From Verif Require Import Lib.GoInt Rt.MemInst Rt.Limits.\nOpen Scope Z_scope.\n"
         "Definition cases : list lcase := [\n" + ";\n".join(coq_lcase(l) for l in limits) + "].\n"
         "Definition M := Eval vm_compute in mismatches 0 cases.\nPrint M.\n")
    rc, o = coq_eval("c12_limits", v)
    lst = parse_zlist(o, "M")
    if rc != 0 or lst is None:
        ck.violation("model-eval", {"kind": "model-eval"}, {"rc": rc, "out": o[-2000:]}, no_input=True)
        return ck.finish()
    lim_mism = {lst[i]: lst[i + 1] for i in range(0, len(lst), 2)}
    pairs = {}
    for i, l in enumerate(limits):
        pairs.setdefault((l["min"], l["hasmax"], l["max"], l["limit"]), {})[l["capmax"]] = (i, l)
    n_acc = 0
    for key, pr in pairs.items():
        if len(pr) != 2: continue
        (i0, a), (i1, b) = pr[False], pr[True]
        why = None
        if a["accepted"] != b["accepted"]:
            why = "capacity-from-max changes acceptance: %s vs %s" % (a.get("err") or "accepted", b.get("err") or "accepted")
        elif a["accepted"]:
            n_acc += 1
            if (a["rmin"], a["rmax"]) != (b["rmin"], b["rmax"]): why = "capacity-from-max changes (min,max): %s vs %s" % ((a["rmin"], a["rmax"]), (b["rmin"], b["rmax"]))
            else:
                for x in (a, b):
                    if not (x["rmin"] <= x["rcap"] <= x["rmax"] <= x["limit"]): why = "not min <= cap <= max <= limit: %s" % x
        d = lim_mism.get(i0, lim_mism.get(i1))
        if why is None and d is None: continue
        sig = {"kind": "limits-depend-on-capacity-flag" if why else "limits-model-differs"}
        if not any(vv["sig"] == sig for vv in ck.violations):
            ck.violation(sig["kind"], sig, {"config": key, "without": a, "with": b, "oracle": why, "model_diff_code": d}, no_input=why is None)

    # ---- module identity: sha256 of the model's byte string vs Module.ID; distinct instrumentation -> distinct IDs
    def zl(xs): return "[" + "; ".join(str(x) for x in xs) + "]"
    v = ("From Verif Require Import Lib.GoInt Rt.Limits.\nOpen Scope Z_scope.\n"
         "Definition cases : list (list Z * list bool * bool) := [\n" +
         ";\n".join("(%s, [%s], %s)" % (zl(c["wasm"]), "; ".join(coq_bool(b) for b in c["ls"]), coq_bool(c["term"])) for c in ids) + "].\n"
         "Definition IDS := Eval vm_compute in id_inputs cases.\nPrint IDS.\n")
    rc, o = coq_eval("c12_ids", v)
    flat = parse_zlist(o, "IDS")
    if rc != 0 or flat is None:
        ck.violation("model-eval", {"kind": "model-eval"}, {"rc": rc, "out": o[-2000:]}, no_input=True)
        return ck.finish()
    pos, id_bad = 0, 0
    for c in ids:
        n = flat[pos]; s = bytes(flat[pos + 1:pos + 1 + n]); pos += 1 + n
        if hashlib.sha256(s).hexdigest() != c["id"]:
            id_bad += 1
            if id_bad == 1:
                ck.violation("module-id-model-differs", {"kind": "module-id-model-differs"}, {"case": c, "model_input": list(s)}, no_input=True)
    byw = {}
    for c in ids:
        byw.setdefault(json.dumps(c["wasm"]), {}).setdefault(c["id"], set()).add(json.dumps([c["ls"], c["term"]]))
    for w, m in byw.items():
        for idv, insts in m.items():
            if len(insts) > 1 and not any(vv["kind"] == "module-id-collision" for vv in ck.violations):
                ck.violation("module-id-collision", {"kind": "module-id-collision"}, {"wasm": w, "id": idv, "instrumentations": sorted(insts)}, no_input=False)

    # ---- traces: every execution of a program equals the reference (interpreter, no cache, all flags off)
    dist = {"programs": len(progs), "executions": len(execs), "lattice_rows": len(lat), "engine": {}, "cache": {}, "flags_on": {}, "roles": {},
            "results": {}, "program_features": {}, "limit_pairs": len(pairs), "limit_pairs_accepted": n_acc, "module_ids": len(ids),
            "host_calls": 0, "listener_events": 0, "spin_probes": 0, "memory_grown_programs": 0}
    def bump(d, k, n=1): d[k] = d.get(k, 0) + n
    for p in progs.values():
        for k, n in p["shape"].items(): bump(dist["program_features"], k, n)
    byprog = {}
    for e in execs: byprog.setdefault(e["prog"], []).append(e)
    distinct = set()
    classes = {}
    def report(sig, detail, no_input=False):
        key = json.dumps(sig, sort_keys=True)
        classes[key] = classes.get(key, 0) + 1
        if classes[key] == 1 and len(classes) <= 8:
            ck.violation(sig["kind"], sig, detail, no_input=no_input)
    for pid, es in sorted(byprog.items()):
        ref = next((e for e in es if e["row"] == -1 and e["engine"] == "interp"), None)
        rt = ref.get("trace") if ref else None
        if rt and rt["pages"] > progs[pid]["min"]: dist["memory_grown_programs"] += 1
        # expected listener events: what a runtime that shares nothing reports (else the most common count)
        on = [e for e in es if e["cfg"]["listener"] and not e["cfg"].get("decline") and not e.get("err")]
        alone = [e["lsn"] for e in on if e["cfg"]["cache"] == "none"] or [e["lsn"] for e in on]
        lsn_ref = max(alone, key=alone.count) if alone else None
        for e in es:
            cf = e["cfg"]
            bump(dist["engine"], e["engine"]); bump(dist["cache"], cf["cache"]); bump(dist["roles"], e["role"])
            for f in ("capmax", "alloc", "moving", "chunked", "debug", "custom", "listener", "closeondone"):
                if cf[f]: bump(dist["flags_on"], f)
            t = e.get("trace")
            if t:
                for r in t["results"]: bump(dist["results"], r[0] if r[0] == "ok" else r[1])
                dist["host_calls"] += len(t["host"] or [])
            dist["listener_events"] += sum(e["lsn"])
            distinct.add(json.dumps([pid, e["engine"], cf, e["role"]], sort_keys=True))
            axis = {"engine": e["engine"], "cache": cf["cache"], "role": e["role"]}
            # the runtime that comes SECOND to an in-memory cache shared with a runtime that also listens
            if (cf["cache"].startswith("memshared") and e["role"] == ("y" if cf["cache"].endswith("-ab") else "x")) or (cf["cache"] == "mem" and e["role"] == "x"):
                axis["second_runtime_on_shared_memory_cache"] = True
            if e.get("err"):
                report({"kind": "execution-failed", **axis}, {"exec": e, "program": progs.get(pid)})
                continue
            why = first_trace_diff(rt, t)
            if why:
                report({"kind": "trace-differs", **axis}, {"exec": e, "reference": ref, "first_difference": why, "program": progs.get(pid)})
            # instrumentation served must be the one this runtime asked for
            if cf["listener"] and not cf.get("decline"):
                if e["lsn"] != lsn_ref or e["lsn"][0] == 0:
                    report({"kind": "listener-events-differ", **axis}, {"exec": e, "expected": lsn_ref, "program": progs.get(pid)})
            elif e["lsn"] != [0, 0, 0]:
                report({"kind": "listener-fired-without-listener", **axis}, {"exec": e, "program": progs.get(pid)})
            if cf["closeondone"]:
                dist["spin_probes"] += 1
                if e.get("spin") != "stopped":
                    report({"kind": "termination-not-honoured", **axis}, {"exec": e, "program": progs.get(pid)})
    # the sampled lattice really covers every pair of factor values
    fac = ("cache", "capmax", "allocator", "debug", "custom", "listener", "closeondone")
    lv = {f: {False, True} for f in fac}
    lv["cache"] = {"none", "mem", "dircold", "dirwarm", "memshared-ab", "memshared-ba", "dirshared-ab", "dirshared-ba"}
    lv["allocator"] = {"off", "fixed", "moving", "chunked"}
    def fv(r, f): return ("off" if not r["alloc"] else "moving" if r["moving"] else "chunked" if r.get("chunked") else "fixed") if f == "allocator" else r[f]
    missing = [(f1, a, f2, b) for i, f1 in enumerate(fac) for f2 in fac[i + 1:] for a in lv[f1] for b in lv[f2]
               if not any(fv(r, f1) == a and fv(r, f2) == b for r in lat)]
    # ... and the fixed rows pair capacity-from-max true/false over every shared cache in both orders, and the moving allocator with capacity-from-max
    fixed_rows = next((r.get("fixed") or [] for r in recs if r["t"] == "lattice"), [])
    want = {(cm, x) for cm in ("memshared-ab", "memshared-ba", "dirshared-ab", "dirshared-ba") for x in (False, True)}
    have = {(a["cache"], a["capmax"]) for a, b in fixed_rows if a["capmax"] != b["capmax"]}
    if not want <= have or not any(a["alloc"] and a["moving"] and a["capmax"] for a, b in fixed_rows):
        missing.append(("fixed-rows", sorted(want - have)))
    dist["fixed_rows"] = len(fixed_rows)
    dist["pairwise_pairs_missing"] = len(missing)
    if missing:
        ck.violation("lattice-not-covering", {"kind": "lattice-not-covering"}, {"missing": missing[:10]}, no_input=True)
    ck.dist = dist
    ck.distinct = len(distinct)
    ck.samples = [dict(prog=e["prog"], engine=e["engine"], cfg=e["cfg"], role=e["role"], results=((e.get("trace") or {}).get("results") or [])[:4],
                       host=((e.get("trace") or {}).get("host") or [])[:4], lsn=e["lsn"]) for e in execs[30:33]]
    ck.extra["rule"] = ("generated integer programs (arithmetic, loops, memory load/store/grow, globals, internal calls, a logging host import, trapping paths, and the "
                        "store / grow (direct, via a callee, via the host) / store-to-the-same-address shape, also as 9 fixed programs) "
                        "x pairwise-covering sample of {cache none/mem/dir cold/dir warm/shared in memory or on disk between two live runtimes with different "
                        "settings, both orders} x capacity-from-max x allocator (none, in place, moving, chunked with spare capacity) x debug info x custom sections x listener x close-on-context-done x both engines; "
                        "plus fixed rows sharing a cache between two live runtimes that differ only in capacity-from-max, in both orders, and the moving allocator "
                        "with capacity-from-max; oracle: every trace (results, trap class, peek calls and host reads after every call, host-call log, final memory "
                        "digest/pages, global, memory definition) equals the reference; "
                        "listener event counts and a termination probe show each runtime got code instrumented for its own settings; "
                        "distinct by (program, engine, settings, role)")
    ck.extra["violation_classes"] = classes
    ck.extra["limits_model_mismatches"] = len(lim_mism)
    ck.extra["module_id_model_mismatches"] = id_bad
    if not proofs_ok and not any(not vv["no_input"] for vv in ck.violations):
        ck.violation("proof-broken", {"kind": "proof-broken"}, getattr(ck, "proof_failure", {}), no_input=True)
    return ck.finish()
