"""C02 — guest memory accesses never leave the linear memory."""
import json
from vcheck import *
from wcommon import *


def run(tier, seed):
    ck = Check("C02", tier, seed)
    ck.trusted += ["tools/go2coq (hasSize); hand models of memOpSetup's check, popMemoryOffset, lowerToAddressMode (Engine/Bounds.v, Engine/Amode.v)",
                   "coq/Wasm/Sem.v as the oracle of every access; harness/c02, checks/c02.py"]
    ck.assumptions += ["instruction selection/encoding after address-mode lowering and the known-safe-bound dataflow across block joins are exercised, not modelled",
                       "arm64 is out of scope on this machine; atomics/SIMD/bulk-memory accesses are not generated",
                       "final memory contents above the first 64 MiB are observed through the programs' own loads, not dumped"]
    proofs_ok = ck.proofs()
    n, big = (140, 4) if tier == "quick" else (3000, 40)
    binp, log = build_harness("c02")
    if not binp:
        ck.violation("harness-build", {"kind": "build"}, {"log": log[-3000:]}, no_input=True)
        return ck.finish()
    rc, out = sh([binp, "-seed", str(seed), "-n", str(n), "-big", str(big)], timeout=2400)
    cases = [json.loads(l) for l in out.split("\n") if l.startswith("{")]
    if rc != 0 or not cases:
        ck.violation("process-fault", {"kind": "process-fault"}, {"rc": rc, "tail": out[-3000:]})
        return ck.finish()
    ck.cases = len(cases) * 2
    dist = {"calls": 0, "outcomes": {}, "memories_above_2GiB": 0, "model_out_of_fuel": 0}
    for c in cases:
        if c["pages"] > 32768: dist["memories_above_2GiB"] += 1
        for o in (c["engines"]["compiler"].get("obs") or []):
            dist["calls"] += 1
            k = o.get("trap") or "values"
            dist["outcomes"][k] = dist["outcomes"].get(k, 0) + 1
    ck.dist = dist
    ck.distinct = len(set(c["wasm"] for c in cases))
    ck.samples = [dict(pages=c["pages"], calls=c["calls"][:4], compiler=(c["engines"]["compiler"].get("obs") or [])[:4]) for c in cases[:3]]
    ck.extra["rule"] = ("functions with 2-5 loads/stores of every width (bases: parameter reused, derived, constants incl. >= 2^31; static offsets over the whole 32-bit range) "
                        "placed around calls, memory.grow, if/block/loop boundaries; memories of 1-3 pages and just above 2 GiB / just under 4 GiB; both engines vs W; distinct by module bytes")
    shown = set()
    def viol(kind, sig, detail, **kw):
        if kind in shown: return
        shown.add(kind); ck.violation(kind, sig, detail, **kw)
    for c in cases:
        why = engines_agree(c)
        if why:
            viol("engines-differ", {"kind": "engines-differ"}, {"why": why, "case": c})
    for eng in ("interp", "compiler"):
        items, idx = [], []
        for i, c in enumerate(cases):
            eo = c["engines"][eng]
            if eo.get("err"):
                viol("engine-error", {"kind": "engine-error", "engine": eng}, {"err": eo["err"], "case": c}); continue
            items.append(coq_dcase(c, eo)); idx.append(i)
        mism, err = eval_dcases("c02_" + eng, items)
        if err:
            viol("model-eval", {"kind": "model-eval"}, {"err": err}, no_input=True); break
        for k, code in mism:
            if code == -3:
                dist["model_out_of_fuel"] += 1; continue
            if code == 1002 and cases[idx[k]]["pages"] > 1024: continue
            viol("access-differs-from-spec-" + eng, {"kind": "access-differs-from-spec", "engine": eng},
                 {"code": code, "meaning": "i>=0 first differing call (value or trap); 1002 memory contents; 1003 size", "case": cases[idx[k]]})
    if not proofs_ok and not ck.violations:
        ck.violation("proof-broken", {"kind": "proof-broken"}, getattr(ck, "proof_failure", {}), no_input=True)
    return ck.finish()
