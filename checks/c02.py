"""C02 — guest memory accesses never leave the linear memory."""
import json, threading, time
from concurrent.futures import ThreadPoolExecutor
from vcheck import *
from wcommon import *
import c02_amode, c02_elide, c02_guard, c02_enc, c02_top4g


def run(tier, seed):
    ck = Check("C02", tier, seed)
    ck.trusted += ["tools/go2coq (hasSize); hand models of memOpSetup's check, popMemoryOffset (Engine/Bounds.v), of lowerToAddressMode (Engine/Amode.v) and of the known-safe-bounds cache "
                   "(Engine/Elide.v) — the last two compared with the real functions on every run through overlay wrappers (harness/c02/x_*_export.go)",
                   "the x86 meaning of an addressing mode (base + index*2^shift + sign-extended disp32) and of the three instructions lowerToAddressMode inserts (mov imm, xor-zero, shl imm)",
                   "Engine/X86Enc.v: the hand transcription of encodeEncMem/encodeEncEnc/rexInfo/legacyPrefixes (compared byte for byte with the real functions on every run through "
                   "harness/c02/x_enc_export.go) and the decoder of the x86-64 instruction format written from the Intel SDM (prefixes 66/F0/F2/F3, REX, opcode maps xx | 0F xx | 0F 38 xx | 0F 3A xx, "
                   "ModRM, SIB, disp8/disp32, RIP-relative) — restated independently in Python (checks/c02_enc.py) and, when GNU objdump is installed, cross-read by it on the mov/lea/add/cmp instances",
                   "the overlay's copy of LowerToSSA/lowerBody that steps the real frontend (its SSA output is compared with LowerToSSA's on every function)",
                   "coq/Wasm/Sem.v as the oracle of every access of the end-to-end run; harness/c02, checks/c02*.py",
                   "guard stream: Engine/Access.v (byte-level model of plain/SIMD/atomic/bulk accesses, written from the specification) and its restatement in Python (checks/c02_guard.py) as "
                   "reference; the kernel's page protection (mmap PROT_NONE / mprotect) as the detector of host accesses outside [0,size); the harness's twin construction "
                   "(the consumer of a loaded value, called with the reference value of the addressed bytes on the same engine) instead of a semantics of the consumers; "
                   "wazero's api.Memory Read/Write used to fill and to dump the memories"]
    ck.assumptions += ["the encoding of memory operands (and of the register-register form) is modelled and proved against the instruction format; which opcode / prefix / REX.W an instruction "
                       "passes to the encoder (instruction selection), immediates after the operand, register allocation and the native execution are exercised end to end, not modelled",
                       "Engine/Elide.v's execution semantics: the memory never shrinks and moves only at calls and memory.grow; a block's own SSA values change only when the block is entered",
                       "arm64 is out of scope on this machine",
                       "guard stream: a wild access is detected when it reaches an inaccessible page: within 64 KiB below the memory, or anywhere from its current size up to the "
                       "reserved maximum + 64 KiB (fixed allocator) / 64 KiB above it (moving allocator, which also unmaps the old memory on every growth); accesses that land in other "
                       "mappings of the process are only seen through results, trap class and the complete memory comparison. Memories of 1-4 pages growing up to 8; the alignment "
                       "check of atomics is compared for page-aligned memory bases only; float SIMD arithmetic on loaded vectors is not generated (NaN payloads)",
                       "final memory contents above the first 64 MiB are observed through the programs' own loads, not dumped"]
    proofs_ok = ck.proofs()
    n, big = (140, 4) if tier == "quick" else (3000, 40)
    binp, log = build_harness("c02")
    if not binp:
        ck.violation("harness-build", {"kind": "build"}, {"log": log[-3000:]}, no_input=True)
        return ck.finish()
    shown = set()
    lock = threading.Lock()
    def viol(kind, sig, detail, **kw):
        with lock:
            if kind in shown: return
            shown.add(kind); ck.violation(kind, sig, detail, **kw)
    # the two direct streams run beside the end-to-end harness
    pool = ThreadPoolExecutor(4)
    t0 = time.time()
    def stream(mod, name):
        try:
            return mod.run(ck, binp, seed, tier, viol)
        except Exception as e:   # a bug of the check itself must not look like a pass
            import traceback
            viol(name + "-stream-error", {"kind": "stream-error", "stream": name}, {"err": repr(e), "trace": traceback.format_exc()[-3000:]}, no_input=True)
            return 0, 0, {}, []
    fut_a = pool.submit(stream, c02_amode, "amode")
    fut_e = pool.submit(stream, c02_elide, "elide")
    fut_g = pool.submit(stream, c02_guard, "guard")
    fut_x = pool.submit(stream, c02_enc, "enc")
    fut_t = pool.submit(stream, c02_top4g, "top4g")
    rc, out = sh([binp, "-seed", str(seed), "-n", str(n), "-big", str(big)], timeout=2400)
    cases = jlines(out)
    na, da, dist_a, samp_a = fut_a.result()
    ne, de, dist_e, samp_e = fut_e.result()
    ng, dg, dist_g, samp_g = fut_g.result()
    nx, dx, dist_x, samp_x = fut_x.result()
    nt, dt, dist_t, samp_t = fut_t.result()
    ck.note("streams: amode %d cases, elide %d functions, enc %d operand encodings (%d instruction lists), guard %d calls (%d programs, %d at the last in-bounds position, %d children died), end-to-end %d programs (harness phase %.1fs)"
            % (na, ne, nx, dist_x.get("sequences", 0), ng, dist_g.get("programs", 0), dist_g.get("main_access_at_last_in_bounds_position", 0), dist_g.get("children_died", 0), len(cases), time.time() - t0))
    if rc != 0 or not cases:
        ck.violation("process-fault", {"kind": "process-fault"}, {"rc": rc, "tail": out[-3000:]})
        return ck.finish()
    ck.cases = len(cases) * 2 + na + ne + ng + nx + nt
    dist = {"direct_amode": dist_a, "direct_elide": dist_e, "direct_enc": dist_x, "guard": dist_g, "top_of_4GiB_interpreter": dist_t, "calls": 0, "outcomes": {}, "memories_above_2GiB": 0, "model_out_of_fuel": 0}
    for c in cases:
        if c["pages"] > 32768: dist["memories_above_2GiB"] += 1
        for o in (c["engines"]["compiler"].get("obs") or []):
            dist["calls"] += 1
            k = o.get("trap") or "values"
            dist["outcomes"][k] = dist["outcomes"].get(k, 0) + 1
    ck.dist = dist
    ck.distinct = len(set(c["wasm"] for c in cases)) + da + de + dg + dx
    ck.samples = [dict(pages=c["pages"], calls=c["calls"][:4], compiler=(c["engines"]["compiler"].get("obs") or [])[:4]) for c in cases[:3]] + samp_a + samp_e + samp_x + samp_g
    ck.extra["rule"] = ("functions with 2-5 loads/stores of every width (bases: parameter reused, derived, constants incl. >= 2^31; static offsets over the whole 32-bit range) "
                        "placed around calls, memory.grow, if/block/loop boundaries; memories of 1-3 pages and just above 2 GiB / just under 4 GiB; both engines vs W; distinct by module bytes. "
                        "Direct stream A: SSA trees (the frontend's shapes enumerated x all interesting offsets, then random trees over the whole of Amode.v's e64 incl. constants/offsets >= 2^31, "
                        "shifts 0..65, single/multi-use) handed to the real lowerToAddressMode; its result is read under 3 register valuations and compared part by part with Amode.v (in Coq) "
                        "and with value+offset (Python). Direct stream B: generated functions (loops, ifs, br/br_if/br_table, calls, memory.grow, few base values) lowered by the real frontend "
                        "stepped opcode by opcode; the real cache at every block boundary/event and every decision of memOpSetup are compared with Elide.v (in Coq, which also evaluates wf_cfg on "
                        "the real graph) and every access of the emitted SSA is checked by a must-dataflow over the final graph (Python). "
                        "Direct stream D: (rexInfo, legacy prefix, opcode, reg, amode) tuples — every base x index x shift (rsp as index: the encoder must panic), every base x boundary displacement "
                        "(0, +-1, 127, 128, -128, -129, 255, 256, 2^31-1, -2^31, ...), rbp-relative, rip-relative, every rexInfo x reg x base, every reg x rm, random tuples — handed to the real "
                        "encodeEncMem/encodeRegMem/encodeEncEnc/encodeRegReg writing into the real compiler buffer; the bytes are compared with X86Enc.v's encoder and DECODED by its SDM decoder (in Coq), "
                        "by a Python restatement of the format and by objdump; instruction lists (loads, stores of every size, movdqu, rip-relative movdqu, labels before and after their uses) go "
                        "through the real machine.Encode and the whole buffer must disassemble into the list, every rip-relative operand addressing its label. "
                        "Guard stream: access programs run in child processes on memories whose first byte after the current size is always inaccessible (mmap allocator, fixed or moving on "
                        "growth): a systematic sweep (every full-width load i32/i64/f32/f64/v128 x every consumer of its type — ALU/compare/shift/rotate on either side, vector shifts, splat, "
                        "replace_lane, conversions, float operators, select, if/br_if/br_table, call arguments, global.set — at the last in-bounds and the first out-of-bounds position) and random "
                        "programs (every load/store width and extension, stores of constants and of loaded values, load-op-store in place, v128 load/store/extending/splat/zero/lane, atomics "
                        "load/store/rmw/cmpxchg/notify/wait of every width incl. every misalignment class, memory.fill/copy/init incl. overlapping copies and zero lengths; bases from parameters, "
                        "derived values and constants, static offsets incl. >= 2^31 and effective addresses >= 2^32; an earlier access on the same base value, memory.grow or a growing call "
                        "in between); every call: interpreter vs compiler (trap class, results, every changed byte, size), both vs the specification (Python) and vs Engine/Access.v (Coq, on "
                        "a window of the memory); a dead child = wild access, attributed to program + call by markers and confirmed by a single re-run")
    for c in cases:
        why = engines_agree(c)
        if why:
            viol("engines-differ", {"kind": "engines-differ"}, {"why": why, "case": c})
    for eng in ("interp", "compiler"):
        items, idx = [], []
        for i, c in enumerate(cases):
            eo = c["engines"][eng]
            if eo.get("err"):
                viol("engine-error", {"kind": "engine-error", "engine": eng}, {"err": eo["err"], "case": c}); continue
            items.append(coq_dcase(c, eo)); idx.append(i)
        mism, err = eval_dcases("c02_" + eng, items)
        if err:
            viol("model-eval", {"kind": "model-eval"}, {"err": err}, no_input=True); break
        for k, code in mism:
            if code == -3:
                dist["model_out_of_fuel"] += 1; continue
            if code == 1002 and cases[idx[k]]["pages"] > 1024: continue
            viol("access-differs-from-spec-" + eng, {"kind": "access-differs-from-spec", "engine": eng},
                 {"code": code, "meaning": "i>=0 first differing call (value or trap); 1002 memory contents; 1003 size", "case": cases[idx[k]]})
    if not proofs_ok and not ck.violations:
        ck.violation("proof-broken", {"kind": "proof-broken"}, getattr(ck, "proof_failure", {}), no_input=True)
    return ck.finish()
