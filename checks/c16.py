"""C16 — WASI file operations behave like a POSIX-style reference model.
Streams: table (descriptor.Table vs Sys/DescTable.v), readdir (fd_readdir vs Sys/Dirent.v),
fs (WASI calls through a proxy guest on a real temp dir vs Sys/FsModel.v)."""
import json, os, re
from vcheck import *


def coq_bool(b): return "true" if b else "false"
def zl(xs): return "[" + "; ".join(zs(x) for x in xs) + "]"
def zs(x): return "(%d)" % x if x < 0 else "%d" % x


# ------------------------------------------------------------------------------------------------
# stream A: descriptor table

def table_coq_op(op):
    k = op[0]
    if k == "ins": return "Insert %s" % zs(op[1])
    if k == "at": return "InsertAt %s %s" % (zs(op[1]), zs(op[2]))
    if k == "get": return "Lookup %s" % zs(op[1])
    if k == "del": return "Delete %s" % zs(op[1])
    if k == "reset": return "Reset"
    raise ValueError(k)


def table_coq_obs(o):
    k = o[0]
    if k == "key": return "OKey %s %s" % (zs(o[1]), coq_bool(o[2]))
    if k == "item": return "OItem %s %s" % (zs(o[1]), coq_bool(o[2]))
    if k == "bool": return "OBool %s" % coq_bool(o[1])
    if k == "unit": return "OUnit"
    return "OPanic"


def table_coq_case(c):
    return "([%s], [%s], %s, %d)" % ("; ".join(table_coq_op(o) for o in c["ops"]),
                                     "; ".join(table_coq_obs(o) for o in c["obs"]), zl(c["masks"]), c["nitems"])


def table_oracle(c):
    """The property on the observations alone: a dict with lowest-free Insert."""
    d = {}
    if len(c["obs"]) != len(c["ops"]):
        return "run stopped after %d of %d operations: %s" % (len(c["obs"]), len(c["ops"]), c["obs"][-1:])
    for j, (op, ob) in enumerate(zip(c["ops"], c["obs"])):
        k = op[0]
        if ob[0] == "panic":
            return "op %d %s panicked: %s" % (j, op, ob[1:])
        if k == "ins":
            want = 0
            while want in d: want += 1
            if ob != ["key", want, True]:
                return "op %d: Insert returned %s, lowest free key is %d" % (j, ob, want)
            d[want] = op[1]
        elif k == "at":
            ok = op[2] >= 0
            if ob != ["bool", ok]:
                return "op %d: InsertAt(%d) returned %s" % (j, op[2], ob)
            if ok: d[op[2]] = op[1]
        elif k == "get":
            want = ["item", d[op[1]], True] if op[1] in d else ["item", 0, False]
            if ob != want:
                return "op %d: Lookup(%d) returned %s, expected %s" % (j, op[1], ob, want)
        elif k == "del":
            d.pop(op[1], None)
        elif k == "reset":
            d.clear()
    # mask bit set <=> key present
    bits = set()
    for i, m in enumerate(c["masks"]):
        for b in range(64):
            if (m >> b) & 1: bits.add(i * 64 + b)
    if bits != set(d):
        return "final bitmap %s differs from the keys in use %s" % (sorted(bits)[:20], sorted(d)[:20])
    if c["nitems"] != 64 * len(c["masks"]):
        return "len(items)=%d but %d mask words" % (c["nitems"], len(c["masks"]))
    return None


def table_sig(c, j):
    ops = c["ops"]
    op = ops[j] if j is not None and 0 <= j < len(ops) else None
    sig = {"stream": "table", "op": op[0] if op else "final-state"}
    if op and op[0] == "ins":
        sig["boundary"] = "word" if any(o[0] == "key" and o[1] >= 63 for o in c["obs"][:j + 1] if o) else "first-word"
    return sig


# ------------------------------------------------------------------------------------------------
# stream B: fd_readdir

# Large byte strings are passed as lists of primitive 63-bit integers holding 7 bytes each (one term node
# per literal; Z/string literals cost one node per bit and made Coq spend ~100 us per byte on parsing).
PACK_PRELUDE = ("From Coq Require Import Uint63.\n"
                "Fixpoint num7 (l : list int) : Z := match l with [] => 0 | x :: r => Uint63.to_Z x + 72057594037927936 * num7 r end.\n")


def num7(b):
    """bytes (memory order) as the little-endian number they denote"""
    return "(num7 [%s])" % "; ".join("0x%s%%uint63" % b[i:i + 7][::-1].hex() for i in range(0, len(b), 7))


def rd_dir_def(c):
    ents = "; ".join("{| d_name := le %d %s; d_ino := %d; d_type := %d |}" % (len(e["name"].encode()), num7(e["name"].encode()), e["ino"], e["type"])
                     for e in (c.get("list") or []))
    return "[%s]" % ents


def rd_num(hexs):
    return num7(bytes.fromhex(hexs))


def rd_coq_case(c, dirname):
    calls = "; ".join("(%d, %d, (%s, %d, %s))" % (k["buf_len"], k["cookie"], zs(k["errno"]), k["used"] if k["errno"] == 0 else 0,
                                                   rd_num(k["buf"]) if k["errno"] == 0 else "0") for k in (c.get("calls") or []))
    return "(%d, %s, %d, [%s])" % (c.get("dot_ino", 0), dirname, c.get("fill", 0), calls)


def rd_parse(buf, used):
    """complete entries as a WASI guest (wasi-libc readdir) extracts them; also the trailing header if present"""
    pos, es, hdr = 0, [], None
    while pos + 24 <= used:
        dnext = int.from_bytes(buf[pos:pos + 8], "little")
        ino = int.from_bytes(buf[pos + 8:pos + 16], "little")
        nl = int.from_bytes(buf[pos + 16:pos + 20], "little")
        ty = int.from_bytes(buf[pos + 20:pos + 24], "little")
        if pos + 24 + nl > used:
            hdr = (dnext, ino, nl, ty)
            break
        es.append((dnext, ino, ty, buf[pos + 24:pos + 24 + nl].decode("latin1")))
        pos += 24 + nl
    return es, hdr, pos


def rd_oracle(c):
    if c["obs"] and c["obs"][0][0] == "bad-listing":
        return "first full listing of a directory with %d entries returned %s" % (c["obs"][0][1], c["ops"])
    lst = [(".", c["dot_ino"], 3), ("..", 0, 3)] + [(e["name"], e["ino"], e["type"]) for e in (c.get("list") or [])]
    n = len(lst)
    valid = {0}
    for j, k in enumerate(c["calls"]):
        bl, ck, en = k["buf_len"], k["cookie"], k["errno"]
        if bl < 24:
            if en != 28:
                return "call %d: buf_len %d < 24 returned errno %d, not EINVAL" % (j, bl, en)
            continue
        if en != 0:
            if ck in valid:
                return "call %d: cookie %d (0, the previous cookie or a d_next just returned) failed with errno %d %s" % (j, ck, en, k.get("trap", ""))
            if en != 44:
                return "call %d: invalid cookie %d returned errno %d, not ENOENT %s" % (j, ck, en, k.get("trap", ""))
            continue
        buf, used = bytes.fromhex(k["buf"]), k["used"]
        if used > bl:
            return "call %d: bufused %d > buf_len %d" % (j, used, bl)
        es, hdr, pos = rd_parse(buf, used)
        for i, (dnext, ino, ty, name) in enumerate(es):
            idx = ck + i
            if idx >= n:
                return "call %d: entry %r beyond the end of the listing" % (j, name)
            if name != lst[idx][0]:
                return "call %d: cookie %d entry %d is %r, expected %r (skipped or duplicated)" % (j, ck, i, name, lst[idx][0])
            if dnext != idx + 1:
                return "call %d: d_next of entry %r is %d, expected %d" % (j, name, dnext, idx + 1)
            if (ino, ty) != lst[idx][1:]:
                return "call %d: entry %r inode/type %s differ from the first listing %s" % (j, name, (ino, ty), lst[idx][1:])
        nxt = ck + len(es)
        if nxt < n and used != bl:
            return "call %d: entries remain (next index %d of %d) but bufused %d != buf_len %d: not reported truncated" % (j, nxt, n, used, bl)
        if used < bl and nxt != n and ck <= n:
            return "call %d: bufused %d < buf_len %d signals the end at index %d of %d" % (j, used, bl, nxt, n)
        if hdr is not None and nxt < n and (hdr[0] != nxt + 1 or hdr[2] != len(lst[nxt][0])):
            return "call %d: truncated header %s does not describe entry %d" % (j, hdr, nxt)
        if any(b != c["fill"] for b in buf[used:]):
            return "call %d: bytes beyond bufused were modified" % j
        if ck < n and bl >= 24 + len(lst[ck][0]) and not es:
            return "call %d: buf_len %d can hold entry %d but no complete entry was returned" % (j, bl, ck)
        valid = {0, ck} | {e[0] for e in es}
    return None


def rd_sig(c, j):
    calls = c.get("calls") or []
    k = calls[j] if j is not None and 0 <= j < len(calls) else None
    sig = {"stream": "readdir"}
    if k:
        sig["cookie"] = k["kind"]
        sig["buf"] = "small" if k["buf_len"] < 24 else ("headers-only" if k["buf_len"] < 40 else "normal")
    return sig


# ------------------------------------------------------------------------------------------------
# stream C: WASI calls on a real directory

FS_NAMES = {n: i for i, n in enumerate("abcdef")}
E = dict(BADF=8, EXIST=20, INVAL=28, IO=29, ISDIR=31, NOENT=44, NOTDIR=54, NOTEMPTY=55, NOTSUP=58, NOSYS=52, PERM=63)


def fs_slash(p): return len(p) > 1 and p.endswith("/")
def fs_comps(p): return tuple((p[:-1] if fs_slash(p) else p).split("/"))
def fs_name_id(x):
    """the generator's names are a..f; anything else can only show up in a host tree written by broken code"""
    if x not in FS_NAMES: FS_NAMES[x] = 100 + len(FS_NAMES)
    return FS_NAMES[x]
def fs_path(p): return zl([fs_name_id(x) for x in fs_comps(p)])      # a trailing '/' is not a component: it becomes a flag
def fs_bytes(h): return zl(list(bytes.fromhex(h)))


def fs_is_raw(p):
    """not a clean relative path (optionally followed by one '/'): has '.', '..', an empty component or a leading '/'"""
    q = p[:-1] if fs_slash(p) else p
    return any(x in ("", ".", "..") for x in q.split("/"))


def fs_rpath(p):
    """(rooted, components) of the raw string for Sys.FsNorm.norm"""
    cs = "; ".join("CEmpty" if x == "" else "CDot" if x == "." else "CDotDot" if x == ".." else "CName %d" % fs_name_id(x) for x in p.split("/"))
    return "%s [%s]" % (coq_bool(p.startswith("/")), cs)


def fs_lex(p):
    """the oracle's own lexical normalisation (what atPath documents): the components, or None when the path is
    rooted or leaves the directory"""
    if p.startswith("/"): return None
    out = []
    for x in p.split("/"):
        if x in ("", "."): continue
        if x == "..":
            if not out: return None
            out.pop()
        else:
            out.append(x)
    return tuple(out)


def fs_dirfds(op):
    """(dirfd of the first path argument, dirfd of the second) of a path operation; older case files omit them"""
    k = op[0]
    if k == "open": return (op[5] if len(op) > 5 else 3), None
    if k == "rename":
        if len(op) > 4: return op[3], op[4]
        d = op[3] if len(op) > 3 else 3
        return d, d
    return (op[2] if len(op) > 2 and isinstance(op[2], int) else 3), None


def fs_coq_op(op):
    k = op[0]
    if k == "open": return "PathOpen %s %s %d %d %d" % (zs(op[5] if len(op) > 5 else 3), fs_path(op[1]), op[2], op[3], op[4])
    if k == "close": return "FdClose %s" % zs(op[1])
    if k == "renumber": return "FdRenumber %s %s" % (zs(op[1]), zs(op[2]))
    if k == "read": return "FdRead %s %s" % (zs(op[1]), zl(op[2]))
    if k == "write": return "FdWrite %s [%s]" % (zs(op[1]), "; ".join(fs_bytes(h) for h in op[2]))
    if k == "pread": return "FdPread %s %s %s" % (zs(op[1]), zl(op[2]), zs(op[3]))
    if k == "pwrite": return "FdPwrite %s [%s] %s" % (zs(op[1]), "; ".join(fs_bytes(h) for h in op[2]), zs(op[3]))
    if k == "seek": return "FdSeek %s %s %s" % (zs(op[1]), zs(op[2]), zs(op[3]))
    if k == "tell": return "FdTell %s" % zs(op[1])
    if k == "setsize": return "FdSetSize %s %s" % (zs(op[1]), zs(op[2]))
    if k == "fstat": return "FdStat %s" % zs(op[1])
    d, d2 = fs_dirfds(op)
    if k == "mkdir": return "Mkdir %s %s" % (zs(d), fs_path(op[1]))
    if k == "rmdir": return "Rmdir %s %s" % (zs(d), fs_path(op[1]))
    if k == "unlink": return "Unlink %s %s" % (zs(d), fs_path(op[1]))
    if k == "rename": return "Rename %s %s %s %s" % (zs(d), fs_path(op[1]), zs(d2), fs_path(op[2]))
    if k == "stat": return "Stat %s %s" % (zs(d), fs_path(op[1]))
    raise ValueError(k)


FS_PATH_OPS = ("open", "mkdir", "rmdir", "unlink", "rename", "stat")


def fs_coq_nop(op):
    """Sys.FsNorm.nop: NOp o t1 t2 (clean paths; t = that path argument ends in '/'), NRaw / NRename for raw paths"""
    k = op[0]
    if k not in FS_PATH_OPS:
        return "NOp (%s) false false" % fs_coq_op(op)
    t1 = coq_bool(op[1].endswith("/"))
    d1, d2 = fs_dirfds(op)
    if k == "rename":
        t2 = coq_bool(op[2].endswith("/"))
        if fs_is_raw(op[1]) or fs_is_raw(op[2]):
            return "NRename %s %s %s %s %s %s" % (zs(d1), fs_rpath(op[1]), t1, zs(d2), fs_rpath(op[2]), t2)
        return "NOp (%s) %s %s" % (fs_coq_op(op), t1, t2)
    if fs_is_raw(op[1]):
        kind = {"open": "(POpen %d %d %d)" % tuple(op[2:5]) if k == "open" else "", "mkdir": "PMkdir", "rmdir": "PRmdir", "unlink": "PUnlink", "stat": "PStat"}[k]
        return "NRaw %s %s %s %s" % (kind, zs(d1), fs_rpath(op[1]), t1)
    return "NOp (%s) %s false" % (fs_coq_op(op), t1)


def fs_coq_obs(op, ob):
    k = op[0]
    if ob[0] != 0: return "OErr %s" % zs(ob[0])
    if k == "open": return "OFd %s" % zs(ob[1])
    if k in ("read", "pread"): return "OData %s" % fs_bytes(ob[2])
    if k in ("write", "pwrite", "seek", "tell"): return "ONum %s" % zs(ob[1])
    if k in ("fstat", "stat"): return "OStat %d %d" % (ob[1], ob[2])
    return "OOk"


def fs_coq_case(c):
    tree = "; ".join("(%s, %s)" % (fs_path(t[0]), "None" if t[1] == "dir" else "Some %s" % fs_bytes(t[2])) for t in (c["tree"] or []))
    return "([%s], [%s], [%s])" % ("; ".join(fs_coq_nop(o) for o in c["ops"]),
                                   "; ".join(fs_coq_obs(o, b) for o, b in zip(c["ops"], c["obs"])), tree)


class _File:
    def __init__(self): self.data = bytearray()


def fs_oracle(c, stats=None):
    """POSIX-style reference written directly in Python (independent of the Coq model): descriptors
    are lowest-free and live until closed/renumbered, every read sees what was written through any
    descriptor of the same file, directory changes are seen by later lookups, failed calls change
    nothing. A path is resolved relative to the directory its descriptor was opened as. A name with a
    trailing slash resolves only to a directory: it never opens, stats, unlinks, creates or renames a
    regular file (and a call that fails changes nothing). Failures are judged by class (must fail /
    must succeed); only EBADF for a descriptor that is not open is checked exactly.
    Returns the first contradiction or None. [stats], if given, receives input-distribution counters."""
    def count(key):
        if stats is not None: stats[key] = stats.get(key, 0) + 1
    tree = {}                                   # path tuple -> "dir" | _File
    fds = {0: "stdio", 1: "stdio", 2: "stdio", 3: dict(kind="pre")}

    def node(p): return "dir" if p == () else tree.get(p)

    def resolve(p):
        for i in range(1, len(p)):
            n = node(p[:i])
            if n is None: return "noent"
            if n != "dir": return "notdir"
        n = node(p)
        return "free" if n is None else n

    def base(fd):
        e = fds.get(fd) if fd >= 0 else None
        if e is None: return "badf"
        if e == "stdio" or e["kind"] == "file": return "notdir"
        return () if e["kind"] == "pre" else e["name"]

    def children(p): return any(len(q) > len(p) and q[:len(p)] == p for q in tree)

    for j, (op, ob) in enumerate(zip(c["ops"], c["obs"])):
        k, en = op[0], ob[0]
        ok = en == 0
        def bad(msg): return "op %d %s -> %s: %s" % (j, op, ob, msg)
        if en < 0:
            return bad("trap/panic")
        # ---- descriptor operations
        if k in ("close", "renumber", "read", "write", "pread", "pwrite", "seek", "tell", "setsize", "fstat"):
            fd = op[1]
            e = fds.get(fd) if fd >= 0 else None
            if e is None:
                if en != E["BADF"]: return bad("descriptor is not open, expected EBADF")
                continue
            if en == E["BADF"] and (k in ("close", "seek", "tell", "fstat") or (k == "renumber" and op[2] >= 0)):
                return bad("descriptor %d is open (opened earlier, not closed since) but the call says EBADF" % fd)
            if k == "close":
                if not ok: return bad("closing an open descriptor failed")
                del fds[fd]
                continue
            if k == "renumber":
                to = op[2]
                pre = lambda x: x == "stdio" or x["kind"] == "pre"
                must_fail = to < 0 or pre(e) or (fd != to and to in fds and pre(fds[to]))
                if ok == must_fail: return bad("renumber %s" % ("must fail" if must_fail else "must succeed"))
                if ok and fd != to:
                    fds[to] = e
                    del fds[fd]
                continue
            if e == "stdio":
                continue                        # stdio streams are outside the property
            isfile = e["kind"] == "file"
            if k in ("read", "pread"):
                total = sum(op[2])
                if total == 0:
                    if not ok: return bad("empty read failed")
                    continue
                off = op[3] if k == "pread" else (e["off"] if isfile else 0)
                must_fail = (not isfile) or (not e["r"]) or off < 0
                if ok == must_fail: return bad("read %s" % ("must fail" if must_fail else "must succeed"))
                if ok:
                    want = bytes(e["file"].data[off:off + total])
                    if bytes.fromhex(ob[2]) != want or ob[1] != len(want):
                        return bad("read returned %s, the file holds %s at offset %d" % (ob[2], want.hex(), off))
                    if k == "read": e["off"] += len(want)
                continue
            if k in ("write", "pwrite"):
                data = b"".join(bytes.fromhex(h) for h in op[2])
                if len(data) == 0:
                    if ok and ob[1] != 0: return bad("empty write reported %d bytes" % ob[1])
                    continue                    # an empty write on a directory may or may not fail
                if k == "write":
                    must_fail = (not isfile) or (not e["w"])
                    if ok == must_fail: return bad("write %s" % ("must fail" if must_fail else "must succeed"))
                    if ok:
                        f = e["file"]
                        pos = len(f.data) if e["app"] else e["off"]
                        if pos > len(f.data): f.data.extend(bytes(pos - len(f.data)))
                        f.data[pos:pos + len(data)] = data
                        e["off"] = pos + len(data)
                        if ob[1] != len(data): return bad("short write")
                else:
                    off = op[3]
                    must_fail = (not isfile) or (not e["w"]) or off < 0
                    if must_fail and ok: return bad("pwrite must fail")
                    if not must_fail and not ok and not e["app"]: return bad("pwrite must succeed")
                    if ok:                      # (wazero refuses pwrite on an append descriptor; POSIX would append)
                        f = e["file"]
                        if off > len(f.data): f.data.extend(bytes(off - len(f.data)))
                        f.data[off:off + len(data)] = data
                        if ob[1] != len(data): return bad("short write")
                continue
            if k in ("seek", "tell"):
                off, wh = (op[2], op[3]) if k == "seek" else (0, 1)
                if not isfile:
                    if ok: return bad("seek on a directory must fail")
                    continue
                new = None if wh > 2 else (off if wh == 0 else e["off"] + off if wh == 1 else len(e["file"].data) + off)
                must_fail = new is None or new < 0
                if ok == must_fail: return bad("seek %s" % ("must fail" if must_fail else "must succeed"))
                if ok:
                    if ob[1] != new: return bad("new offset %d, expected %d" % (ob[1], new))
                    e["off"] = new
                continue
            if k == "setsize":
                must_fail = (not isfile) or op[2] < 0 or not e["w"]
                if ok == must_fail: return bad("set_size %s" % ("must fail" if must_fail else "must succeed"))
                if ok:
                    f = e["file"]
                    if op[2] < len(f.data): del f.data[op[2]:]
                    else: f.data.extend(bytes(op[2] - len(f.data)))
                continue
            if k == "fstat":
                if not ok: return bad("fd_filestat_get on an open descriptor failed")
                want = [0, 4, len(e["file"].data)] if isfile else [0, 3, 0]
                if ob != want: return bad("expected %s" % want)
                continue
        # ---- path operations
        d1, d2 = fs_dirfds(op)
        sl1, sl2 = op[1].endswith("/"), (k == "rename" and op[2].endswith("/"))
        count("path_ops")
        if sl1 or sl2: count("trailing_slash_ops")
        raw = fs_is_raw(op[1]) or (k == "rename" and fs_is_raw(op[2]))
        if raw: count("raw_path_ops")
        # a path that is rooted or leaves the directory of its descriptor is refused (EPERM) before anything else
        lex1 = fs_lex(op[1])
        if lex1 is None:
            count("raw_path_escapes")
            if en != E["PERM"]: return bad("%r leaves the directory of the descriptor, expected EPERM" % op[1])
            continue
        if lex1 == (): sl1 = True     # the directory of the descriptor itself: "." must be a directory, like "name/"
        b = base(d1)
        if b == "badf":
            if en != E["BADF"]: return bad("directory descriptor is not open, expected EBADF")
            continue
        if b == "notdir":
            if ok: return bad("directory descriptor is a file")
            continue
        full = b + lex1
        lex2 = fs_lex(op[2]) if k == "rename" else ()
        if lex2 is None:
            count("raw_path_escapes")
            if en != E["PERM"]: return bad("%r leaves the directory of the descriptor, expected EPERM" % op[2])
            continue
        if raw:
            # POSIX resolves ".", ".." and empty components one at a time in directories that must exist; atPath
            # normalises lexically. Where the two differ the call is judged as implemented, and counted.
            def posix_walk(bb, p):
                cur = list(bb)
                for x in (p[:-1] if p.endswith("/") else p).split("/"):
                    if node(tuple(cur)) != "dir": return False
                    if x == "..": cur.pop()
                    elif x not in ("", "."): cur.append(x)
                return True
            if ok and (not posix_walk(b, op[1]) or (k == "rename" and base(d2) not in ("badf", "notdir") and not posix_walk(base(d2), op[2]))):
                count("lexical_resolution_succeeds_where_posix_fails")
        r = resolve(full)
        isfile = isinstance(r, _File)
        if full == () and k in ("mkdir", "rmdir", "unlink", "rename"):
            if ok: return bad("changed the mount point itself")
            continue                                 # the mount point itself: outside the property (and not generated)
        rclass = "file" if isfile else r
        via = d1 != 3                                # an open directory descriptor other than the pre-open
        if k == "rename":
            b2 = base(d2)
            via = via or (d2 != 3 and b2 not in ("badf", "notdir"))
        if via:
            count("via_dirfd_ops")
            if isfile or r == "dir": count("via_dirfd_existing")
            if sl1 or sl2: count("via_dirfd_trailing_slash")
            if (sl1 or sl2) and isfile: count("via_dirfd_trailing_slash_on_file")
        if sl1: count("trailing_slash_on_" + ("missing" if rclass in ("noent", "notdir", "free") else rclass))
        if sl1 and isfile and ok and not (k == "rename" and sl2 and b2 not in ("badf", "notdir") and full == b2 + lex2):
            return bad("%r names a regular file: a name with a trailing slash resolves only to a directory" % op[1])
        if k == "open":
            ofl, fdf, rights = op[2], op[3], op[4]
            creat, isdir, excl, trunc = bool(ofl & 1), bool(ofl & 2), bool(ofl & 4), bool(ofl & 8)
            app = bool(fdf & 1)
            rr, ww = bool(rights & 2), bool(rights & 64)
            if not rr and not ww: rr, ww = True, (trunc or creat or app)
            elif ww and not rr: pass
            if isdir and creat: must_fail = True
            elif r in ("noent", "notdir"): must_fail = True
            elif r == "free": must_fail = not creat or sl1     # "new/" never creates a regular file
            elif r == "dir": must_fail = creat or ww or trunc
            else: must_fail = (creat and excl) or isdir or sl1
            if ok == must_fail: return bad("path_open %s (path resolves to %s)" % ("must fail" if must_fail else "must succeed", rclass))
            if ok:
                want = 0
                while want in fds: want += 1
                if ob[1] != want: return bad("opened descriptor %d, lowest free is %d" % (ob[1], want))
                if r == "dir":
                    fds[want] = dict(kind="dir", name=full)
                else:
                    f = r if isfile else _File()
                    if r == "free": tree[full] = f
                    if trunc: del f.data[:]
                    fds[want] = dict(kind="file", file=f, off=0, app=app, r=rr or not ww, w=ww)
            continue
        if k == "mkdir":
            must_fail = r != "free"
            if ok == must_fail: return bad("mkdir %s" % ("must fail" if must_fail else "must succeed"))
            if ok: tree[full] = "dir"
            elif isfile or r == "dir":
                if en != E["EXIST"]: return bad("path exists, expected EEXIST")
        elif k == "rmdir":
            must_fail = r != "dir" or children(full)
            if ok == must_fail: return bad("rmdir %s" % ("must fail" if must_fail else "must succeed"))
            if ok: del tree[full]
            elif r == "dir" and en != E["NOTEMPTY"]: return bad("directory not empty, expected ENOTEMPTY")
        elif k == "unlink":
            must_fail = not isfile or sl1
            if ok == must_fail: return bad("unlink %s" % ("must fail" if must_fail else "must succeed"))
            if ok: del tree[full]
        elif k == "stat":
            must_fail = r in ("noent", "notdir", "free") or (sl1 and isfile)
            if ok == must_fail: return bad("filestat_get %s" % ("must fail" if must_fail else "must succeed"))
            if ok:
                want = [0, 3, 0] if r == "dir" else [0, 4, len(r.data)]
                if ob != want: return bad("expected %s" % want)
            elif r in ("noent", "free") and en != E["NOENT"]: return bad("expected ENOENT")
        elif k == "rename":
            if b2 == "badf":
                if en != E["BADF"]: return bad("second directory descriptor is not open, expected EBADF")
                continue
            if b2 == "notdir":
                if ok: return bad("second directory descriptor is a file")
                continue
            new = b2 + lex2
            if new == ():
                if ok: return bad("changed the mount point itself")
                continue
            r2 = resolve(new)
            if sl2: count("trailing_slash_on_" + ("missing" if r2 in ("noent", "notdir", "free") else "file" if isinstance(r2, _File) else r2))
            if full == new:
                if sl1 == sl2:
                    # POSIX: ENOENT when the path does not exist (ENOTDIR for "file/"); wazero short-cuts textually
                    # identical names to success. Either way nothing changes; both answers are accepted.
                    if not ok and (r == "dir" or (isfile and not sl1)): return bad("rename onto itself failed")
                    if ok and (not (r == "dir" or isfile) or (isfile and sl1)): count("rename_same_name_shortcut")
                else:
                    must_fail = r != "dir"      # "x/" and "x" are the same thing only if x is a directory
                    if ok == must_fail: return bad("rename %s (one name ends in '/', both name the same %s)" % ("must fail" if must_fail else "must succeed", rclass))
                continue
            inside = len(new) > len(full) and new[:len(full)] == full
            above = len(full) > len(new) and full[:len(new)] == new
            if r in ("noent", "notdir", "free") or r2 in ("noent", "notdir"): must_fail = True
            elif inside or above: must_fail = True
            elif isfile and (sl1 or sl2): must_fail = True        # a regular file never moves from or to a name ending in '/'
            elif r2 == "free": must_fail = False
            elif r == "dir": must_fail = r2 != "dir" or children(new)
            else: must_fail = r2 == "dir"
            if ok == must_fail: return bad("rename %s" % ("must fail" if must_fail else "must succeed"))
            if ok:
                moved = {q: n for q, n in tree.items() if q[:len(full)] == full}
                for q in moved: del tree[q]
                tree.pop(new, None)
                for q, n in moved.items(): tree[new + q[len(full):]] = n
    # final host tree
    want = sorted(["/".join(p)] + (["dir"] if n == "dir" else ["file", bytes(n.data).hex()]) for p, n in tree.items())
    got = sorted([t[0]] + t[1:] for t in (c["tree"] or []))
    if want != got:
        return "final-tree: host tree %s differs from the expected %s" % (got[:8], want[:8])
    return None


def fs_sig(c, j):
    ops = c["ops"]
    op = ops[j] if j is not None and 0 <= j < len(ops) else None
    sig = {"stream": "fs", "op": op[0] if op else "final-tree"}
    if op and j < len(c["obs"]):
        sig["errno"] = c["obs"][j][0]
    return sig


# ------------------------------------------------------------------------------------------------

STREAMS = {
    "table": dict(mod="Sys.DescTable", case=table_coq_case, oracle=table_oracle, sig=table_sig, shard=50),
    "fs": dict(mod="Sys.FsModel Sys.FsSlash Sys.FsNorm", case=fs_coq_case, oracle=fs_oracle, sig=fs_sig, shard=100, ctype="case_n", mism="mismatches_n"),
    "readdir": dict(mod="Sys.Dirent", case=rd_coq_case, oracle=rd_oracle, sig=rd_sig, shard=60, dirs=rd_dir_def, prelude=PACK_PRELUDE),
}


def shard_text(name, shard):
    st = STREAMS[name]
    prelude, render = st.get("prelude", ""), st["case"]
    if "dirs" in st:   # share one definition per directory between the scripts that read it
        names = {}
        for c in shard:
            if c["dir"] not in names:
                names[c["dir"]] = "dir_%d" % len(names)
                prelude += "Definition %s : list dirent := %s.\n" % (names[c["dir"]], st["dirs"](c))
        render = lambda c: st["case"](c, names[c["dir"]])
    return ("From Verif Require Import Lib.GoInt %s.\nOpen Scope Z_scope.\n" % st["mod"] + prelude +
            "Definition cases : list %s := [\n" % st.get("ctype", "case") + ";\n".join(render(c) for c in shard) + "].\n"
            "Definition M := Eval vm_compute in %s 0 cases.\nPrint M.\n" % st.get("mism", "mismatches"))


def eval_streams(ck, by, big=False):
    """Evaluate every case in its Coq model (vm_compute), shards in parallel.
    Returns {stream: {case index: first differing op / code}} or None on failure."""
    from concurrent.futures import ThreadPoolExecutor
    jobs = []
    for name, cases in by.items():
        SH = STREAMS[name]["shard"] * (3 if big else 1)   # larger shards amortise coqc start-up in the thorough tier
        for s in range(0, len(cases), SH):
            jobs.append((name, s, cases[s:s + SH]))
    def work(job):
        name, s, shard = job
        return coq_eval("c16_%s_%d" % (name, s), shard_text(name, shard))
    with ThreadPoolExecutor(max_workers=8) as ex:
        results = list(ex.map(work, jobs))
    mism = {name: {} for name in by}
    for (name, s, shard), (rc, o) in zip(jobs, results):
        lst = parse_zlist(o, "M")
        if rc != 0 or lst is None:
            ck.violation("model-eval", {"kind": "model-eval", "stream": name}, {"rc": rc, "out": o[-2000:]}, no_input=True)
            return None
        for i in range(0, len(lst), 2):
            mism[name][s + lst[i]] = lst[i + 1]
    return mism


def eval_stream(ck, name, cases):
    r = eval_streams(ck, {name: cases})
    return None if r is None else r[name]


def run(tier, seed):
    ck = Check("C16", tier, seed)
    ck.trusted += ["hand transcription of internal/descriptor/table.go in coq/Sys/DescTable.v (generic, slice based: outside go2coq), tied by the table stream incl. final masks words and len(items)",
                   "hand transcription of DirentCache.Read/cachedDirents (internal/sys/fs.go) and fdReaddirFn/maxDirents/writeDirents/writeDirent (imports/wasi_snapshot_preview1/fs.go) in coq/Sys/Dirent.v, tied by the readdir stream (errno, bufused and every byte of the buffer, through the real host function)",
                   "coq/Sys/FsModel.v + coq/Sys/FsSlash.v (trailing-slash guard in front of FsModel.step) + coq/Sys/FsNorm.v (lexical normalisation of '.', '..', empty components in front of that; about 1 path argument in 8) are a reference model (not a transcription) of path_open/fd_*/path_* as implemented by wazero over sysfs over the Linux kernel; tied by the fs stream (errno, outputs, opened fd numbers, final host tree), with about 1 path argument in 6 ending in '/' and about a third of the path operations going through a directory descriptor other than the pre-open with a path relative to it",
                   "tools/go2coq for the constants DirentSize, largestDirent, errno numbers, O_*/FD_APPEND/FILETYPE_* (regenerated from internal/wasip1 and imports/wasi_snapshot_preview1)",
                   "the host kernel, the Go os package and the temp file system are the other half of the implementation under the fs and readdir streams",
                   "harness/c16 (Go, proxy guest module) and checks/c16.py (case conversion, oracles)"]
    ck.assumptions += ["descriptor table: keys are int32, a run stops at the first Go panic (only Insert on a table holding all 2^31 keys)",
                       "fd_readdir: the directory does not change while it is read; sys.File.Readdir(n) returns min(n, remaining) entries; fewer than 2^62 entries; names shorter than 2^32-48 bytes; the buffer lies inside guest memory",
                       "fs model: one mount, no symlinks/hard links, paths are relative names optionally followed by '/', with '.', '..' and empty components normalised lexically as atPath does (Sys/FsNorm.v; rooted or escaping paths -> EPERM), stdio descriptors only take part in close/renumber, creating/removing/renaming the mount point itself is unmodelled",
                       "fs stream does not generate a rename between two textually different spellings of the same path with equal trailing-slash flags (\"dir//x\" vs \"dir/x\", possible only through a descriptor opened as \"dir/\"): sysfs.rename short-cuts textually identical names only and the model identifies a name with its component list",
                       "fs model follows wazero where it departs from POSIX: pread/pwrite with a negative offset -> EIO, pwrite on an O_APPEND descriptor -> EIO, mkdir below a file -> ENOENT, rename of a path onto the identical path succeeds even if it does not exist (also \"x/\" onto \"x/\" when x is a regular file); with a trailing slash: open with O_CREAT -> EISDIR whatever the name is, rename of a regular file from or to a name ending in '/' -> ENOTDIR; '..' and '.' are removed lexically before the file system is consulted (POSIX: component by component)"]
    proofs_ok = ck.proofs()
    quick = tier == "quick"
    n_table = 100 if quick else 4000
    if not proofs_ok:
        n_table *= 3
    binp, log = build_harness("c16")
    if not binp:
        ck.violation("harness-build", {"kind": "build"}, {"log": log[-3000:]}, no_input=True)
        return ck.finish()
    n_dirs, n_scripts = (50, 4) if quick else (1200, 10)
    n_fs = 250 if quick else 8000
    rc, out = sh([binp, "-seed", str(seed), "-table", str(n_table), "-dirs", str(n_dirs), "-scripts", str(n_scripts),
                  "-fs", str(n_fs), "-compiler-every", "10"], timeout=3000)
    by = {k: [] for k in STREAMS}
    for ln in out.split("\n"):
        if ln.startswith("{"):
            c = json.loads(ln)
            by.setdefault(c["stream"], []).append(c)
    # fixed fs scenarios (corpus/C16/*.jsonl, one operation list per line), executed on the real code like the
    # generated ones: trailing slashes on files / directories / missing names through the pre-open and through
    # directory descriptors opened as "d" and as "d/", both sides of rename, O_CREAT / O_TRUNC through "name/"
    cdir = os.path.join(ROOT, "corpus", "C16")
    n_fixed = 0
    for fn in sorted(os.listdir(cdir)) if os.path.isdir(cdir) else []:
        if not fn.endswith(".jsonl"): continue
        rc2, out2 = sh([binp, "-script", os.path.join(cdir, fn)], timeout=300)
        fixed = jlines(out2)
        want = sum(1 for ln in open(os.path.join(cdir, fn)) if ln.startswith("["))
        if rc2 != 0 or len(fixed) != want:
            rc, out = rc2 or 1, out2
            break
        for c in fixed: c["corpus"] = fn
        by["fs"] = fixed + by["fs"]
        n_fixed += len(fixed)
    if rc != 0 or not all(by[k] for k in STREAMS):
        ck.violation("harness-crash", {"kind": "crash"}, {"rc": rc, "tail": out[-3000:]}, no_input=False)
        return ck.finish()
    # positional I/O beyond 2^31 / 2^32 on a sparse file: self-contained expectations (file contents are byte lists in the
    # model and in the oracle below, so these offsets are judged here)
    bigoff = by.pop("bigoff", [])
    if len(bigoff) != 2:
        ck.violation("harness-crash", {"kind": "crash", "stream": "bigoff"}, {"got": len(bigoff)}, no_input=True)
    for c in bigoff:
        for j, st in enumerate(c["steps"]):
            if st["got"] != st["want"]:
                ck.violation("property-fails", {"kind": "property-fails", "stream": "bigoff", "op": st["op"][0], "engine": c["engine"]},
                             {"oracle": "step %d %s returned %s, expected %s: positional I/O at large offsets must see one consistent file content "
                                        "(what pwrite stored at an offset is what pread returns there, earlier bytes stay, size = offset + length)"
                                        % (j, st["op"], st["got"], st["want"]), "steps": c["steps"][:j + 1], "engine": c["engine"]})
                break
    ck.cases = sum(len(v) for v in by.values()) + sum(len(c["steps"]) for c in bigoff)
    dist, seen = {}, set()
    for name, cases in by.items():
        d = dist.setdefault(name, {"cases": len(cases), "ops": {}, "outcomes": {}})
        for c in cases:
            for op, ob in zip(c["ops"], c["obs"]):
                d["ops"][op[0]] = d["ops"].get(op[0], 0) + 1
                ok = ob[0] if name == "table" else str(ob[0])
                d["outcomes"][ok] = d["outcomes"].get(ok, 0) + 1
            if len(c["ops"]) > 2:
                seen.add(name + json.dumps(c["ops"], sort_keys=True))
    td = dist.get("table", {})
    if by.get("table"):
        td["max_key"] = max([o[1] for c in by["table"] for o in c["obs"] if o[0] == "key"] + [0])
        td["max_words"] = max(len(c["masks"]) for c in by["table"])
    # fs stream: how the path arguments are distributed (trailing slashes, descriptor-relative paths)
    fs_stats = {}
    for c in by.get("fs", []):
        fs_oracle(c, fs_stats)
    if "fs" in dist:
        dist["fs"]["paths"] = dict(sorted(fs_stats.items()))
        dist["fs"]["fixed_scenarios"] = n_fixed
    ck.dist = dist
    ck.distinct = len(seen)
    ck.samples = [dict(stream=n, ops=cs[0]["ops"][:8], obs=cs[0]["obs"][:8]) for n, cs in by.items() if cs]
    ck.extra["rule"] = ("operation sequences generated from VERIF_SEED (random + boundary keys/buffers), executed on the real code; every case is evaluated by "
                        "the Coq model (vm_compute) and, independently, by a Python oracle stating the property on the observations; "
                        "non-trivial = more than two operations; distinct by (stream, ops)")
    same = sum(1 for c in by.get("fs", []) for op, ob in zip(c["ops"], c["obs"])
               if op[0] == "rename" and op[1] == op[2] and fs_dirfds(op)[0] == fs_dirfds(op)[1] and ob[0] == 0)
    ck.extra["wazero_vs_posix"] = {"rename(p, p) returned success (POSIX: ENOENT when p does not exist; modelled as implemented)": same,
                                   "... of which p is missing, or is \"file/\" (POSIX: ENOENT / ENOTDIR); nothing changes either way": fs_stats.get("rename_same_name_shortcut", 0),
                                   "path with '.', '..' or an empty component on which the call succeeded although POSIX resolution fails (\"missing/../a\", \"file/.\"): atPath's path.Clean is lexical; judged as implemented": fs_stats.get("lexical_resolution_succeeds_where_posix_fails", 0)}
    reported = set()
    allmism = eval_streams(ck, by, big=not quick)
    if allmism is None:
        return ck.finish()
    for name, cases in by.items():
        st = STREAMS[name]
        mism = allmism[name]
        ck.extra["model_mismatches_" + name] = len(mism)
        for idx, c in enumerate(cases):
            why = st["oracle"](c)
            j = mism.get(idx)
            if why is None and j is None:
                continue
            jj = j
            if why is not None:   # the oracle's own position wins for the signature
                m = re.match(r"(?:call|op) (\d+)", why)
                if m: jj = int(m.group(1))
            sig = st["sig"](c, jj)
            sig["kind"] = "property-fails" if why is not None else "model-differs"
            key = json.dumps(sig, sort_keys=True)
            if key in reported:
                continue
            reported.add(key)
            if len(reported) > 12:
                break
            ck.violation(sig["kind"], sig, {"case": c, "model_first_diff": j, "oracle": why}, no_input=(why is None))
    if not proofs_ok and not any(v["kind"] == "property-fails" for v in ck.violations):
        ck.violation("proof-broken", {"kind": "proof-broken"}, getattr(ck, "proof_failure", {}), no_input=True)
    return ck.finish()
