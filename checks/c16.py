"""C16 — WASI file operations behave like a POSIX-style reference model.
Streams: table (descriptor.Table vs Sys/DescTable.v), readdir (fd_readdir vs Sys/Dirent.v),
fs (WASI calls through a proxy guest on a real temp dir vs Sys/FsModel.v)."""
import json, os
from vcheck import *


def coq_bool(b): return "true" if b else "false"
def zl(xs): return "[" + "; ".join(zs(x) for x in xs) + "]"
def zs(x): return "(%d)" % x if x < 0 else "%d" % x


# ------------------------------------------------------------------------------------------------
# stream A: descriptor table

def table_coq_op(op):
    k = op[0]
    if k == "ins": return "Insert %s" % zs(op[1])
    if k == "at": return "InsertAt %s %s" % (zs(op[1]), zs(op[2]))
    if k == "get": return "Lookup %s" % zs(op[1])
    if k == "del": return "Delete %s" % zs(op[1])
    if k == "reset": return "Reset"
    raise ValueError(k)


def table_coq_obs(o):
    k = o[0]
    if k == "key": return "OKey %s %s" % (zs(o[1]), coq_bool(o[2]))
    if k == "item": return "OItem %s %s" % (zs(o[1]), coq_bool(o[2]))
    if k == "bool": return "OBool %s" % coq_bool(o[1])
    if k == "unit": return "OUnit"
    return "OPanic"


def table_coq_case(c):
    return "([%s], [%s], %s, %d)" % ("; ".join(table_coq_op(o) for o in c["ops"]),
                                     "; ".join(table_coq_obs(o) for o in c["obs"]), zl(c["masks"]), c["nitems"])


def table_oracle(c):
    """The property on the observations alone: a dict with lowest-free Insert."""
    d = {}
    if len(c["obs"]) != len(c["ops"]):
        return "run stopped after %d of %d operations: %s" % (len(c["obs"]), len(c["ops"]), c["obs"][-1:])
    for j, (op, ob) in enumerate(zip(c["ops"], c["obs"])):
        k = op[0]
        if ob[0] == "panic":
            return "op %d %s panicked: %s" % (j, op, ob[1:])
        if k == "ins":
            want = 0
            while want in d: want += 1
            if ob != ["key", want, True]:
                return "op %d: Insert returned %s, lowest free key is %d" % (j, ob, want)
            d[want] = op[1]
        elif k == "at":
            ok = op[2] >= 0
            if ob != ["bool", ok]:
                return "op %d: InsertAt(%d) returned %s" % (j, op[2], ob)
            if ok: d[op[2]] = op[1]
        elif k == "get":
            want = ["item", d[op[1]], True] if op[1] in d else ["item", 0, False]
            if ob != want:
                return "op %d: Lookup(%d) returned %s, expected %s" % (j, op[1], ob, want)
        elif k == "del":
            d.pop(op[1], None)
        elif k == "reset":
            d.clear()
    # mask bit set <=> key present
    bits = set()
    for i, m in enumerate(c["masks"]):
        for b in range(64):
            if (m >> b) & 1: bits.add(i * 64 + b)
    if bits != set(d):
        return "final bitmap %s differs from the keys in use %s" % (sorted(bits)[:20], sorted(d)[:20])
    if c["nitems"] != 64 * len(c["masks"]):
        return "len(items)=%d but %d mask words" % (c["nitems"], len(c["masks"]))
    return None


def table_sig(c, j):
    ops = c["ops"]
    op = ops[j] if j is not None and 0 <= j < len(ops) else None
    sig = {"stream": "table", "op": op[0] if op else "final-state"}
    if op and op[0] == "ins":
        sig["boundary"] = "word" if any(o[0] == "key" and o[1] >= 63 for o in c["obs"][:j + 1] if o) else "first-word"
    return sig


# ------------------------------------------------------------------------------------------------

STREAMS = {
    "table": dict(mod="Sys.DescTable", case=table_coq_case, oracle=table_oracle, sig=table_sig, shard=150),
}


def eval_stream(ck, name, cases):
    """model evaluation in Coq; returns {case index: first differing op / code} or None on failure"""
    st = STREAMS[name]
    mism = {}
    SH = st["shard"]
    for s in range(0, len(cases), SH):
        shard = cases[s:s + SH]
        v = ("From Verif Require Import Lib.GoInt %s.\nOpen Scope Z_scope.\n" % st["mod"] +
             st.get("prelude", "") +
             "Definition cases : list case := [\n" + ";\n".join(st["case"](c) for c in shard) + "].\n"
             "Definition M := Eval vm_compute in mismatches 0 cases.\nPrint M.\n")
        rc, o = coq_eval("c16_%s_%d" % (name, s), v)
        lst = parse_zlist(o, "M")
        if rc != 0 or lst is None:
            ck.violation("model-eval", {"kind": "model-eval", "stream": name}, {"rc": rc, "out": o[-2000:]}, no_input=True)
            return None
        for i in range(0, len(lst), 2):
            mism[s + lst[i]] = lst[i + 1]
    return mism


def run(tier, seed):
    ck = Check("C16", tier, seed)
    ck.trusted += ["hand transcription of internal/descriptor/table.go in coq/Sys/DescTable.v (generic, slice based: outside go2coq), tied by the table stream incl. final masks words and len(items)",
                   "harness/c16 (Go) and checks/c16.py (case conversion, oracles)"]
    ck.assumptions += ["descriptor table: keys are int32, a run stops at the first Go panic (only Insert on a table holding all 2^31 keys)"]
    proofs_ok = ck.proofs()
    quick = tier == "quick"
    n_table = 150 if quick else 4000
    if not proofs_ok:
        n_table *= 3
    binp, log = build_harness("c16")
    if not binp:
        ck.violation("harness-build", {"kind": "build"}, {"log": log[-3000:]}, no_input=True)
        return ck.finish()
    rc, out = sh([binp, "-seed", str(seed), "-table", str(n_table)], timeout=3000)
    by = {k: [] for k in STREAMS}
    for ln in out.split("\n"):
        if ln.startswith("{"):
            c = json.loads(ln)
            by.setdefault(c["stream"], []).append(c)
    if rc != 0 or not all(by[k] for k in STREAMS):
        ck.violation("harness-crash", {"kind": "crash"}, {"rc": rc, "tail": out[-3000:]}, no_input=False)
        return ck.finish()
    ck.cases = sum(len(v) for v in by.values())
    dist, seen = {}, set()
    for name, cases in by.items():
        d = dist.setdefault(name, {"cases": len(cases), "ops": {}, "outcomes": {}})
        for c in cases:
            for op, ob in zip(c["ops"], c["obs"]):
                d["ops"][op[0]] = d["ops"].get(op[0], 0) + 1
                ok = ob[0] if name == "table" else str(ob[0])
                d["outcomes"][ok] = d["outcomes"].get(ok, 0) + 1
            if len(c["ops"]) > 2:
                seen.add(name + json.dumps(c["ops"], sort_keys=True))
    td = dist.get("table", {})
    if by.get("table"):
        td["max_key"] = max([o[1] for c in by["table"] for o in c["obs"] if o[0] == "key"] + [0])
        td["max_words"] = max(len(c["masks"]) for c in by["table"])
    ck.dist = dist
    ck.distinct = len(seen)
    ck.samples = [dict(stream=n, ops=cs[0]["ops"][:8], obs=cs[0]["obs"][:8]) for n, cs in by.items() if cs]
    ck.extra["rule"] = ("operation sequences generated from VERIF_SEED (random + boundary keys/buffers), executed on the real code; every case is evaluated by "
                        "the Coq model (vm_compute) and, independently, by a Python oracle stating the property on the observations; "
                        "non-trivial = more than two operations; distinct by (stream, ops)")
    reported = set()
    for name, cases in by.items():
        st = STREAMS[name]
        mism = eval_stream(ck, name, cases)
        if mism is None:
            return ck.finish()
        ck.extra["model_mismatches_" + name] = len(mism)
        for idx, c in enumerate(cases):
            why = st["oracle"](c)
            j = mism.get(idx)
            if why is None and j is None:
                continue
            sig = st["sig"](c, j)
            sig["kind"] = "property-fails" if why is not None else "model-differs"
            key = json.dumps(sig, sort_keys=True)
            if key in reported:
                continue
            reported.add(key)
            if len(reported) > 12:
                break
            ck.violation(sig["kind"], sig, {"case": c, "model_first_diff": j, "oracle": why}, no_input=(why is None))
    if not proofs_ok and not any(v["kind"] == "property-fails" for v in ck.violations):
        ck.violation("proof-broken", {"kind": "proof-broken"}, getattr(ck, "proof_failure", {}), no_input=True)
    return ck.finish()
