"""C20 — function listeners see every call, correctly bracketed (engines vs the reference semantics' event stream)."""
import json
from vcheck import *
from wcommon import *


def bracket_oracle(events):
    """the property on one engine's event stream alone: Dyck-shaped, matching function, nothing left open."""
    st = []
    for e in events:
        if e[0] == 0:
            st.append(e[1])
        else:
            if not st or st[-1] != e[1]:
                return "closing event %s does not match open calls %s" % (e, st)
            st.pop()
    if st:
        return "before-events never closed: %s" % st
    return None


def run(tier, seed):
    ck = Check("C20", tier, seed)
    ck.trusted += ["coq/Wasm/Sem.v listener semantics (bracket/invoke_with), tied to both engines by the event-stream comparison",
                   "harness/c20 (recording FunctionListenerFactory), generator, checks/c20.py"]
    ck.assumptions += ["tail calls are not generated (their depth is implementation-defined)", "native stack walk exercised, not modelled"]
    proofs_ok = ck.proofs()
    n = 120 if tier == "quick" else 3000
    binp, log = build_harness("c20")
    if not binp:
        ck.violation("harness-build", {"kind": "build"}, {"log": log[-3000:]}, no_input=True)
        return ck.finish()
    rc, out = sh([binp, "-seed", str(seed), "-n", str(n)], timeout=1200)
    cases = jlines(out)
    if rc != 0 or not cases:
        ck.violation("harness-crash", {"kind": "crash"}, {"rc": rc, "tail": out[-3000:]})
        return ck.finish()
    ck.cases = len(cases) * 2
    dist = {"events": 0, "aborts": 0, "all_listened": 0, "subset": 0, "model_out_of_fuel": 0, "max_nesting": 0}
    for c in cases:
        dist["all_listened" if c["all"] else "subset"] += 1
        ev = c["engines"]["interp"].get("events") or []
        dist["events"] += len(ev)
        dist["aborts"] += sum(1 for e in ev if e[0] == 2)
        d = m = 0
        for e in ev:
            d += 1 if e[0] == 0 else -1
            m = max(m, d)
        dist["max_nesting"] = max(dist["max_nesting"], m)
    ck.dist = dist
    ck.distinct = len(set(c["wasm"] + str(c["mask"]) for c in cases))
    ck.samples = [dict(calls=c["calls"], mask=c["mask"], events=(c["engines"]["compiler"].get("events") or [])[:12]) for c in cases[:2]]
    ck.extra["rule"] = ("generated programs (direct, indirect, imported host calls, traps unwinding through frames) x listener set (all / random subset) on both "
                        "engines; compared: event kinds, function, parameter/result values, stack iterator contents, results with vs without listeners, and W's event stream")
    shown = set()
    def viol(kind, sig, detail, **kw):
        if kind in shown: return
        shown.add(kind); ck.violation(kind, sig, detail, **kw)
    for c in cases:
        for eng in ("interp", "compiler"):
            eo = c["engines"][eng]
            if eo.get("err"):
                viol("engine-error", {"kind": "engine-error", "engine": eng}, {"err": eo["err"], "case": c}); continue
            why = bracket_oracle(eo.get("events") or [])
            if why and not any((o.get("trap") or "") == "exhaust" for o in eo["obs"]):
                viol("not-bracketed", {"kind": "not-bracketed", "engine": eng}, {"why": why, "case": c})
            if eo.get("stack_bad"):
                viol("stack-iterator", {"kind": "stack-iterator", "engine": eng}, {"why": eo["stack_bad"], "case": c})
            if eo["obs"] != eo["plain"]:
                viol("listener-changes-result", {"kind": "listener-changes-result", "engine": eng}, {"case": c})
        a, b = c["engines"]["interp"], c["engines"]["compiler"]
        if not (a.get("err") or b.get("err")) and a.get("events") != b.get("events"):
            viol("engines-differ", {"kind": "engines-differ"}, {"case": c})
    for eng in ("interp", "compiler"):
        items, idx = [], []
        for i, c in enumerate(cases):
            eo = c["engines"][eng]
            if eo.get("err") or not c["store"] or any((o.get("trap") or "") == "exhaust" for o in eo["obs"]): continue
            ev = "; ".join("(%d, %d, %s)" % (e[0], e[1], zl(e[2:])) for e in (eo.get("events") or []))
            mask = "; ".join("true" if b else "false" for b in c["mask"])
            items.append("{| l_case := %s; l_mask := [%s]; l_events := [%s] |}" % (coq_dcase(c, eo), mask, ev)); idx.append(i)
        mism, err = eval_dcases("c20_" + eng, items, fn="lmismatches")
        if err:
            viol("model-eval", {"kind": "model-eval"}, {"err": err}, no_input=True); break
        for k, code in mism:
            if code == -3:
                dist["model_out_of_fuel"] += 1; continue
            viol("engine-vs-spec-" + eng, {"kind": "engine-vs-spec", "engine": eng},
                 {"code": code, "meaning": "2000 event stream; i>=0 first differing call; 1000 host log; 1001 globals", "case": cases[idx[k]]})
    if not proofs_ok and not ck.violations:
        ck.violation("proof-broken", {"kind": "proof-broken"}, getattr(ck, "proof_failure", {}), no_input=True)
    return ck.finish()
