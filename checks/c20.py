"""C20 — function listeners see every call, correctly bracketed (engines vs the reference semantics' event stream)."""
import json
from vcheck import *
from wcommon import *
import c20link


def bracket_oracle(events):
    """the property on one engine's event stream alone: Dyck-shaped, matching function, nothing left open."""
    st = []
    for e in events:
        if e[0] == 0:
            st.append(e[1])
        else:
            if not st or st[-1] != e[1]:
                return "closing event %s does not match open calls %s" % (e, st)
            st.pop()
    if st:
        return "before-events never closed: %s" % st
    return None


def linked_part(ck, linked, viol, dist):
    """linked cases: start functions, several modules with the model, failure paths at depth, listener subsets."""
    ck.trusted += ["coq/Rt/Linking.v instantiate + coq/Wasm/ListenerLink.v (history runner, host behaviours), tied to both engines by the replay of every linked history",
                   "harness/c20/link.go (generator of linked programs, recording listener, def -> store address mapping)"]
    ck.assumptions += ["the stack iterator is compared with the call chain of the innermost api.Function.Call: a host function that calls the guest back starts a new "
                       "invocation whose iterator does not show the outer frames (both engines; reported, not counted as a violation)"]
    d = {"linked_cases": len(linked), "modes": {}, "inst_ok": 0, "start_failed": {}, "skipped_steps": 0, "call_traps": {}, "calls_ok": 0, "exit_closed_modules": 0,
         "calls_on_closed_module": 0, "linked_events": 0, "linked_aborts": 0, "linked_max_nesting": 0, "reentry_chain_cut": 0, "max_abort_run": 0,
         "linked_model_out_of_fuel": 0, "close_cm_cases": 0}
    for c in linked:
        d["modes"][c["mode"]] = d["modes"].get(c["mode"], 0) + 1
        d["close_cm_cases"] += 1 if c["close_cm"] else 0
        A = c["engines"]["interp"]["A"]
        for a, s in zip(c["acts"], A["steps"]):
            if s.get("skip"): d["skipped_steps"] += 1
            elif a["t"] == "inst":
                if s["inst"] == "ok": d["inst_ok"] += 1
                else: d["start_failed"][s["inst"].split(":")[0]] = d["start_failed"].get(s["inst"].split(":")[0], 0) + 1
            elif s.get("trap"):
                k = s["trap"].split(":")[0]
                d["call_traps"][k] = d["call_traps"].get(k, 0) + 1
                d["calls_on_closed_module"] += 1 if s.get("any") else 0
            else: d["calls_ok"] += 1
        d["exit_closed_modules"] += len(A.get("closed") or [])
        ev = A.get("events") or []
        d["linked_events"] += len(ev)
        d["linked_aborts"] += sum(1 for e in ev if e[0] == 2)
        depth = run = 0
        for e in ev:
            depth += 1 if e[0] == 0 else -1
            run = run + 1 if e[0] == 2 else 0
            d["linked_max_nesting"] = max(d["linked_max_nesting"], depth)
            d["max_abort_run"] = max(d["max_abort_run"], run)
        d["reentry_chain_cut"] += sum(1 for (fa, ch, st) in c20link.chains(c, ev) if len(ch) != len(st) + 1)
    dist.update(d)
    ck.extra["rule"] += ("; linked histories (2-3 guest modules sharing a table + a host module in all definition styles + starter modules; start section / _start / "
                         "WithStartFunctions; host panic, exit, trap at depth; re-entry) run with every function listened, with a listener subset and without: "
                         "bracketing, subset = projection of the full stream, stack iterator = call chain across modules, results unchanged, and the replay through "
                         "Linking.instantiate + W (vm_compute)")
    ck.samples += [dict(mode=c["mode"], acts=c["acts"][:6], steps=c["engines"]["compiler"]["A"]["steps"][:6], events=(c["engines"]["compiler"]["A"].get("events") or [])[:10])
                   for c in linked[:2]]

    def lviol(c, eng, kind, detail):
        # one open finding: the compiler loses frames of modules whose CompiledModule was closed after instantiation
        if c["close_cm"] and eng in ("compiler", "both") and kind in ("not-bracketed", "stack-iterator", "engine-vs-spec", "engines-differ", "subset-not-projection"):
            viol("frames-lost-after-compiled-module-close", {"kind": "frames-lost-after-compiled-module-close", "engine": "compiler"},
                 dict(detail, first_symptom=kind, case=c))
        else:
            viol("linked-" + kind + ("-" + eng if kind == "engine-vs-spec" else ""), {"kind": kind, "engine": eng, "linked": True}, dict(detail, case=c))

    groups = []
    for c in linked:
        bad = False
        for eng in ("interp", "compiler"):
            for kind, why in c20link.oracle(c, eng):
                bad = True
                lviol(c, eng, kind, {"why": why})
        a, b = c["engines"]["interp"], c["engines"]["compiler"]
        for pn in a:
            for key in ("steps", "events", "iters", "hlog", "globals"):
                if not (a[pn].get("err") or b[pn].get("err")) and a[pn].get(key) != b[pn].get(key):
                    lviol(c, "both", "engines-differ", {"why": "pass %s: %s differ between the engines" % (pn, key)}); break
        runs = []
        for eng in ("interp", "compiler"):
            po = c["engines"][eng]
            if po["A"].get("err"): continue
            runs.append((eng, po["A"], c20link.all_mask(c)))
            if "B" in po: runs.append((eng, po["B"], c["mask"]))
        groups.append((c, runs))
    mism, err = c20link.eval_linked("c20_linked", [(c, [(po, m) for (_, po, m) in runs]) for c, runs in groups])
    if err:
        viol("model-eval", {"kind": "model-eval"}, {"err": err}, no_input=True)
    for gi, ri, code in mism:
        if code == -3:
            dist["linked_model_out_of_fuel"] += 1; continue
        c, runs = groups[gi]
        lviol(c, runs[ri][0], "engine-vs-spec",
              {"code": code, "meaning": "2000 event stream; i>=0 first differing step of the history; 1000 host log; 1001 globals",
               "pass": "A (all listened)" if runs[ri][2] is not c["mask"] else "B (" + c["mode"] + ")"})


def run(tier, seed):
    ck = Check("C20", tier, seed)
    ck.trusted += ["coq/Wasm/Sem.v listener semantics (bracket/invoke_with), tied to both engines by the event-stream comparison",
                   "harness/c20 (recording FunctionListenerFactory), generator, checks/c20.py"]
    ck.assumptions += ["tail calls are not generated (their depth is implementation-defined)", "native stack walk exercised, not modelled"]
    proofs_ok = ck.proofs()
    n = 120 if tier == "quick" else 3000
    binp, log = build_harness("c20")
    if not binp:
        ck.violation("harness-build", {"kind": "build"}, {"log": log[-3000:]}, no_input=True)
        return ck.finish()
    ln = 24 if tier == "quick" else 600
    rc, out = sh([binp, "-seed", str(seed), "-n", str(n), "-ln", str(ln)], timeout=1200)
    cases = jlines(out)
    if rc != 0 or not cases:
        ck.violation("harness-crash", {"kind": "crash"}, {"rc": rc, "tail": out[-3000:]})
        return ck.finish()
    linked = sorted([c for c in cases if c.get("kind") == "linked"], key=lambda c: not c.get("fixed"))   # the fixed (minimal) histories first
    cases = [c for c in cases if c.get("kind") != "linked"]
    ck.cases = len(cases) * 2 + len(linked) * 6
    dist = {"events": 0, "aborts": 0, "all_listened": 0, "subset": 0, "model_out_of_fuel": 0, "max_nesting": 0}
    for c in cases:
        dist["all_listened" if c["all"] else "subset"] += 1
        ev = c["engines"]["interp"].get("events") or []
        dist["events"] += len(ev)
        dist["aborts"] += sum(1 for e in ev if e[0] == 2)
        d = m = 0
        for e in ev:
            d += 1 if e[0] == 0 else -1
            m = max(m, d)
        dist["max_nesting"] = max(dist["max_nesting"], m)
    ck.dist = dist
    ck.distinct = len(set(c["wasm"] + str(c["mask"]) for c in cases)) + len(set(str(c["wasm"]) + str(c["mask"]) for c in linked))
    ck.samples = [dict(calls=c["calls"], mask=c["mask"], events=(c["engines"]["compiler"].get("events") or [])[:12]) for c in cases[:2]]
    ck.extra["rule"] = ("generated programs (direct, indirect, imported host calls, traps unwinding through frames) x listener set (all / random subset) on both "
                        "engines; compared: event kinds, function, parameter/result values, stack iterator contents, results with vs without listeners, and W's event stream")
    shown = set()
    def viol(kind, sig, detail, **kw):
        if kind in shown: return
        shown.add(kind); ck.violation(kind, sig, detail, **kw)
    for c in cases:
        for eng in ("interp", "compiler"):
            eo = c["engines"][eng]
            if eo.get("err"):
                viol("engine-error", {"kind": "engine-error", "engine": eng}, {"err": eo["err"], "case": c}); continue
            why = bracket_oracle(eo.get("events") or [])
            if why and not any((o.get("trap") or "") == "exhaust" for o in eo["obs"]):
                viol("not-bracketed", {"kind": "not-bracketed", "engine": eng}, {"why": why, "case": c})
            if eo.get("stack_bad"):
                viol("stack-iterator", {"kind": "stack-iterator", "engine": eng}, {"why": eo["stack_bad"], "case": c})
            if eo["obs"] != eo["plain"]:
                viol("listener-changes-result", {"kind": "listener-changes-result", "engine": eng}, {"case": c})
        a, b = c["engines"]["interp"], c["engines"]["compiler"]
        if not (a.get("err") or b.get("err")) and a.get("events") != b.get("events"):
            viol("engines-differ", {"kind": "engines-differ"}, {"case": c})
    for eng in ("interp", "compiler"):
        items, idx = [], []
        for i, c in enumerate(cases):
            eo = c["engines"][eng]
            if eo.get("err") or not c["store"] or any((o.get("trap") or "") == "exhaust" for o in eo["obs"]): continue
            ev = "; ".join("(%d, %d, %s)" % (e[0], e[1], zl(e[2:])) for e in (eo.get("events") or []))
            mask = "; ".join("true" if b else "false" for b in c["mask"])
            items.append("{| l_case := %s; l_mask := [%s]; l_events := [%s] |}" % (coq_dcase(c, eo), mask, ev)); idx.append(i)
        mism, err = eval_dcases("c20_" + eng, items, fn="lmismatches")
        if err:
            viol("model-eval", {"kind": "model-eval"}, {"err": err}, no_input=True); break
        for k, code in mism:
            if code == -3:
                dist["model_out_of_fuel"] += 1; continue
            viol("engine-vs-spec-" + eng, {"kind": "engine-vs-spec", "engine": eng},
                 {"code": code, "meaning": "2000 event stream; i>=0 first differing call; 1000 host log; 1001 globals", "case": cases[idx[k]]})
    linked_part(ck, linked, viol, dist)
    if not proofs_ok and not ck.violations:
        ck.violation("proof-broken", {"kind": "proof-broken"}, getattr(ck, "proof_failure", {}), no_input=True)
    return ck.finish()
