"""C11 — instances are isolated unless explicitly linked."""
import json
from vcheck import *
from wcommon import *


def run(tier, seed):
    ck = Check("C11", tier, seed)
    ck.trusted += ["coq/Wasm/Sem.v multi-instance store; harness/c11 (N instances, two runtimes sharing a compilation cache), checks/c11.py"]
    ck.assumptions += ["per-instance WASI state (descriptors, stdio) is covered by C16/C18 models, not by this run",
                       "bulk-memory, reference-type, table and SIMD instructions are outside W: they are covered by the type-coverage stream (interleaved vs lone, oracle only)"]
    proofs_ok = ck.proofs()
    n = 100 if tier == "quick" else 3000
    binp, log = build_harness("c11")
    if not binp:
        ck.violation("harness-build", {"kind": "build"}, {"log": log[-3000:]}, no_input=True)
        return ck.finish()
    rc, out = sh([binp, "-seed", str(seed), "-n", str(n)], timeout=1200)
    lines = jlines(out)
    succ = [x for x in lines if x.get("kind") == "successor"]
    cases = [x for x in lines if x.get("kind") != "successor"]
    if rc != 0 or not cases:
        ck.violation("harness-crash", {"kind": "crash"}, {"rc": rc, "tail": out[-3000:]})
        return ck.finish()
    ck.cases = len(cases) * 2
    dist = {"instances": 0, "calls": 0, "state_changing_histories": 0, "model_out_of_fuel": 0}
    nontrivial = 0
    shown = set()
    def viol(kind, sig, detail, **kw):
        if kind in shown: return
        shown.add(kind); ck.violation(kind, sig, detail, **kw)
    # successor instances: nothing of a closed instance's memory reaches a later, unrelated instance
    dist["successor_probes"] = len(succ)
    if len(succ) != 12:
        viol("successor-missing", {"kind": "successor-missing"}, {"got": len(succ)}, no_input=True)
    for sc in succ:
        if sc.get("err") or any(sc.get("reads") or []):
            viol("successor-sees-closed-instance-" + sc["engine"], {"kind": "successor-sees-closed-instance", "engine": sc["engine"], "capmax": sc["capmax"], "where": sc["where"]},
                 {"oracle": "instance A: memory (1, max 4) grow 3, stores 0x5ec2e7xx at 65552, 131068, 131072, 196600, 262140, closed; then instance B (%s, capacity-from-max=%s) "
                            "grows by 3 and loads the same addresses: a lone instance reads zeros, B read %s%s" % (sc["where"], sc["capmax"], [hex(x) for x in sc.get("reads") or []],
                            (" / error " + sc["err"]) if sc.get("err") else ""), "probe": sc})
    for c in cases:
        dist["instances"] += c["n"]; dist["calls"] += len(c["sched"])
        for eng in ("interp", "compiler"):
            eo = c["engines"][eng]
            if eo.get("err"):
                viol("engine-error", {"kind": "engine-error", "engine": eng}, {"err": eo["err"], "case": c}); continue
            for i, (a, b) in enumerate(zip(eo["inter"], eo["lone"])):
                if a != b:
                    viol("instance-observes-other", {"kind": "instance-observes-other", "engine": eng},
                         {"instance": i, "interleaved": a, "lone": b, "case": c})
        eo = c["engines"]["compiler"]
        if not eo.get("err") and len(set(json.dumps(x, sort_keys=True) for x in eo["inter"])) > 1 and any(x.get("mem") or any(x.get("globals") or []) for x in eo["inter"]):
            nontrivial += 1
    dist["state_changing_histories"] = nontrivial
    ck.dist = dist
    ck.distinct = nontrivial
    ck.samples = [dict(n=c["n"], sched=c["sched"][:6]) for c in cases[:3]]
    ck.extra["rule"] = ("generated programs x 2-4 anonymous instances of one compiled module spread over two runtimes sharing a compilation cache x interleaved calls; "
                        "non-trivial = the instances end in different, non-empty states; oracle: each instance's results, host log, globals, memory equal a lone run")
    # the lone runs are also compared with W (ties the oracle's reference to the specification)
    for eng in ("compiler",):
        items, idx = [], []
        for ci, c in enumerate(cases):
            eo = c["engines"][eng]
            if eo.get("err") or not c["store"]: continue
            for i in range(c["n"]):
                lone = eo["lone"][i]
                calls = [s[1:] for s in c["sched"] if s[0] == i]
                if not calls or any((o.get("trap") or "") == "exhaust" for o in lone["obs"]): continue
                items.append(coq_dcase(dict(c, calls=calls), lone)); idx.append(ci)
                break
        mism, err = eval_dcases("c11_" + eng, items)
        if err:
            viol("model-eval", {"kind": "model-eval"}, {"err": err}, no_input=True); break
        for k, code in mism:
            if code == -3:
                dist["model_out_of_fuel"] += 1; continue
            viol("engine-vs-spec", {"kind": "engine-vs-spec", "engine": eng}, {"code": code, "case": cases[idx[k]]})
    # ---- type-coverage stream (oracle only: these programs are outside W): modules of harness/c03's second generator
    # (tables with table.set/grow/fill/copy/init, ref.func at run time, passive segments and their drops, bulk memory,
    # SIMD), three anonymous instances over two runtimes sharing a cache, interleaved vs lone
    b3, log3 = build_harness("c03")
    if not b3:
        viol("harness-build", {"kind": "build", "harness": "c03"}, {"log": log3[-2000:]}, no_input=True)
    else:
        n2 = 40 if tier == "quick" else 1500
        rc3, out3 = sh([b3, "-mode", "iso", "-seed", str(seed + 500), "-nvalid2", str(n2)], timeout=2400)
        iso = jlines(out3, '{"ev":"iso"')
        tcs = {"modules": n2, "runs": len(iso), "calls": sum(x.get("calls", 0) for x in iso), "skipped": sum(1 for x in iso if x.get("skip"))}
        dist["type_coverage_stream"] = tcs
        ck.cases += len(iso)
        if rc3 != 0:
            viol("harness-crash", {"kind": "crash", "stream": "type-coverage"}, {"rc": rc3, "tail": out3[-2000:]})
        for x in iso:
            if x.get("diff"):
                viol("instance-observes-other", {"kind": "instance-observes-other", "engine": x.get("engine"), "stream": "type-coverage"}, x)
    if not proofs_ok and not ck.violations:
        ck.violation("proof-broken", {"kind": "proof-broken"}, getattr(ck, "proof_failure", {}), no_input=True)
    return ck.finish()
