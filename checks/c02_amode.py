"""C02, direct stream A: the real lowerToAddressMode (amd64) against Engine/Amode.v and against the property."""
import json
from concurrent.futures import ThreadPoolExecutor
from vcheck import *

M64 = (1 << 64) - 1
M32 = (1 << 32) - 1


def zc(v):
    v = int(v)
    if v < 0: raise ValueError(v)
    return "(zi %d)" % v if v < 1 << 62 else "(zh %d %d)" % (v >> 32, v & M32)


def cb(b): return "true" if b else "false"


def c32(t): return "C32 %s" % zc(t["c"] & M32) if t.get("isc") else "R32 %d%%nat" % t.get("r", 0)


def cq(t):
    k, m = t["k"], cb(t.get("m"))
    if k == "V64": return "(V64 %d%%nat)" % t.get("r", 0)
    if k == "K64": return "(K64 %s %s)" % (zc(t["c"]), m)
    if k == "UX": return "(UX (%s) %s)" % (c32(t), m)
    if k == "SX": return "(SX (%s) %s)" % (c32(t), m)
    if k in ("XNU", "XNS"): return "(XN %s %d (%s) %s)" % (cb(k == "XNS"), t["from"], c32(t), m)
    if k == "SXW": return "(SXW %d %d%%nat %s)" % (t["from"], t.get("r", 0), m)
    if k == "SHL": return "(SHL %s %s %s)" % (cq(t["a"]), zc(t["c"]), m)
    if k == "SHV": return "(SHV %s %s %s)" % (cq(t["a"]), cq(t["b"]), m)
    if k == "ADD": return "(ADD %s %s %s)" % (cq(t["a"]), cq(t["b"]), m)
    raise ValueError(k)


# ---- the SSA meaning of a tree, in Python (the oracle's side; independent of the Coq model) ----
def sext(v, n):
    v &= (1 << n) - 1
    return v - (1 << n) if v >> (n - 1) else v


def in32(t, vals): return (t["c"] if t.get("isc") else vals[t.get("r", 0)]) & M32


def ev(t, vals):
    k = t["k"]
    if k == "V64": return vals[t.get("r", 0)] & M64
    if k == "K64": return t["c"] & M64
    if k == "UX": return in32(t, vals)
    if k == "SX": return sext(in32(t, vals), 32) & M64
    if k == "XNU": return in32(t, vals) & ((1 << t["from"]) - 1)
    if k == "XNS": return sext(in32(t, vals), t["from"]) & M64
    if k == "SXW": return sext(vals[t.get("r", 0)], t["from"]) & M64
    if k == "SHL": return (ev(t["a"], vals) << (t["c"] % 64)) & M64
    if k == "SHV": return (ev(t["a"], vals) << (ev(t["b"], vals) % 64)) & M64
    if k == "ADD": return (ev(t["a"], vals) + ev(t["b"], vals)) & M64
    raise ValueError(k)


def subtree(t, path):
    for p in path:
        t = t["a"] if p == 0 else t["b"]
    return t


def real_address(c, vals):
    """the effective address of the addressing mode the real code returned, after the instructions it inserted;
    None when it names a register nobody defined"""
    rf = {}
    for s in c["rmap"]:
        if s["leaf"] >= 0: rf[s["vreg"]] = vals[s["leaf"]] & M64
        elif s.get("const") is not None: rf[s["vreg"]] = s["const"] & M64
        else: rf[s["vreg"]] = ev(subtree(c["e"], s["path"]), vals)
    for i in c["ins"] or []:
        if i["Kind"] == "imm": rf[i["Dst"]] = i["Val"] & (M64 if i["B64"] else M32)
        elif i["Kind"] == "zero": rf[i["Dst"]] = 0
        elif i["Kind"] == "shl":
            if i["Dst"] not in rf: return None
            rf[i["Dst"]] = (rf[i["Dst"]] << i["Val"]) & M64
        else: return None
    am = c["am"]
    if am["Base"] not in rf: return None
    a = rf[am["Base"]] + sext(am["Imm32"], 32)
    if am["Kind"] == 3:
        if am["Index"] not in rf: return None
        a += rf[am["Index"]] << am["Shift"]
    elif am["Kind"] != 1:
        return None
    return a & M64


# ---- the frontend-shape hypothesis, restated in Python ----
def addend_ok(t):
    k, m = t["k"], t.get("m")
    if not m: return True
    if k == "SX": return bool(t.get("isc"))
    if k in ("XNU", "XNS", "SXW", "SHV"): return False
    if k == "SHL": return 0 <= t["c"] <= 3
    return True


def matched(c):
    """the nodes lowerToAddressMode pattern-matches"""
    e = c["e"]
    if c["off"] < 1 << 31 and e["k"] == "ADD" and e.get("m"): return [e["a"], e["b"]]
    return [e]


def shifted_leaf(t):
    if t["k"] == "SHL" and t.get("m") and 1 <= t["c"] <= 3 and t["a"]["k"] == "V64": return t["a"].get("r", 0)
    return None


def alias(ts): return len(ts) == 2 and shifted_leaf(ts[0]) is not None and shifted_leaf(ts[0]) == shifted_leaf(ts[1])


def in_class(c, vals):
    if alias(matched(c)): return False
    for t in matched(c):
        if not addend_ok(t): return False
        if t["k"] == "UX" and t.get("m") and not t.get("isc") and vals[t.get("r", 0)] > M32: return False
    return True


def frontend_image(c):
    def fs(t):
        k = t["k"]
        if k in ("SX", "XNU", "XNS", "SXW", "SHV"): return False
        if k == "SHL": return 0 <= t["c"] <= 3 and fs(t["a"])
        if k == "ADD": return fs(t["a"]) and fs(t["b"]) and not alias([t["a"], t["b"]])
        return True
    return fs(c["e"])


def shape(t, d=0):
    k = t["k"]
    if k in ("UX", "SX", "XNU", "XNS"): s = k + ("c" if t.get("isc") else "r")
    elif k in ("ADD", "SHV"): s = "%s(%s,%s)" % (k, shape(t["a"], d + 1), shape(t["b"], d + 1)) if d < 1 else k
    elif k == "SHL": s = "SHL%s" % ("<=3" if t["c"] <= 3 else ">3")
    else: s = k
    return s + ("" if t.get("m") or k == "V64" else "*")


def coq_acase(c):
    used = {c["am"]["Base"], c["am"]["Index"]} | {i["Dst"] for i in (c["ins"] or []) if i["Kind"] == "shl"}
    rmap = []
    for s in c["rmap"]:
        if s["vreg"] not in used: continue
        if s["leaf"] >= 0: src = "SLeaf %d%%nat" % s["leaf"]
        elif s.get("const") is not None: src = "SConst %s" % zc(s["const"])
        else: src = "SVal %s" % cq(subtree(c["e"], s["path"]))
        rmap.append("(%d, %s)" % (s["vreg"], src))
    ins = []
    for i in c["ins"] or []:
        if i["Kind"] == "imm": ins.append("IImm %d %s %s" % (i["Dst"], zc(i["Val"]), cb(i["B64"])))
        elif i["Kind"] == "zero": ins.append("IZero %d" % i["Dst"])
        elif i["Kind"] == "shl": ins.append("IShl %d %d" % (i["Dst"], i["Val"]))
        else: ins.append("IOther")
    am = c["am"]
    real = ("{| r_panic := %s; r_kind := %d; r_imm := %s; r_base := %d; r_index := %d; r_shift := %d; r_ins := [%s]; r_map := [%s] |}"
            % (cb(bool(c.get("panic"))), am["Kind"], zc(am["Imm32"]), am["Base"], am["Index"], am["Shift"], "; ".join(ins), "; ".join(rmap)))
    vals = "; ".join("[" + "; ".join(zc(v) for v in vs) + "]" for vs in c["vals"])
    return "{| ac_e := %s; ac_off := %s; ac_vals := [%s]; ac_real := %s |}" % (cq(c["e"]), zc(c["off"]), vals, real)


def eval_shards(name, items, header, fn, shard=400, workers=6):
    """returns (list of (index, code), error)"""
    def one(s):
        v = (header + "Definition cases := [\n" + ";\n".join(items[s:s + shard]) + "].\n"
             + "Definition M := Eval vm_compute in %s 0 cases.\nPrint M.\n" % fn)
        rc, o = coq_eval("%s_%d" % (name, s), v, timeout=900)
        lst = parse_zlist(o, "M")
        if rc != 0 or lst is None:
            return None, "coq evaluation failed (rc %d): %s" % (rc, o[-1500:])
        return [(s + lst[i], lst[i + 1]) for i in range(0, len(lst), 2)], None
    out = []
    with ThreadPoolExecutor(workers) as ex:
        for r, err in ex.map(one, range(0, len(items), shard)):
            if err: return out, err
            out += r
    return out, None


AMODE_HEADER = ("From Coq Require Import ZArith List Uint63. Import ListNotations.\n"
                "From Verif Require Import Lib.CaseNum Engine.Amode.\nOpen Scope Z_scope.\n")
CODES = {1: "the real function panics where the model does not (or the reverse)", 2: "the real addressing mode names an undefined register or an unknown instruction",
         3: "the parts of the real addressing mode differ from the model's", 4: "model's address differs from value+offset inside the class of the theorem"}


def run(ck, binp, seed, tier, viol):
    n = 4000 if tier == "quick" else 60000
    rc, out = sh([binp, "-mode", "amode", "-seed", str(seed), "-n", str(n)], timeout=600)
    cases = jlines(out)
    if rc != 0 or not cases:
        viol("amode-process-fault", {"kind": "process-fault", "stream": "amode"}, {"rc": rc, "tail": out[-3000:]})
        return 0, 0, {}, []
    dist = {"cases": len(cases), "enumerated_frontend_shapes": 0, "random_trees": 0, "in_frontend_image": 0, "valuations_in_class": 0, "valuations_outside_class": 0,
            "offset>=2^31": 0, "constant>=2^31_folded": 0, "materialised_constants": 0, "real_panics": 0,
            "latent_wrong_outside_class": 0, "in_place_shift_of_an_operand_register": 0, "amode_kinds": {}, "top_shapes": {}}
    # ---- oracle (property on the implementation's observations only) ----
    for c in cases:
        dist["enumerated_frontend_shapes" if c["enum"] else "random_trees"] += 1
        if frontend_image(c): dist["in_frontend_image"] += 1
        if c["off"] >= 1 << 31: dist["offset>=2^31"] += 1
        if any(t["k"] in ("UX", "K64") and (t.get("isc") or t["k"] == "K64") and t.get("m") and (t["c"] & M64) >= 1 << 31 for t in matched(c)): dist["constant>=2^31_folded"] += 1
        dist["materialised_constants"] += sum(1 for i in (c["ins"] or []) if i["Kind"] in ("imm", "zero"))
        dist["in_place_shift_of_an_operand_register"] += sum(1 for i in (c["ins"] or []) if i["Kind"] == "shl")
        sh_ = shape(c["e"]); dist["top_shapes"][sh_] = dist["top_shapes"].get(sh_, 0) + 1
        sig = {"kind": "amode-wrong-address", "shape": sh_, "offset_top_bit": c["off"] >= 1 << 31}
        if c.get("panic"):
            dist["real_panics"] += 1
            if all(addend_ok(t) for t in matched(c)) and not alias(matched(c)):
                viol("amode-panic", dict(sig, kind="amode-panic"), {"panic": c["panic"], "case": c})
            continue
        k = "imm(base)" if c["am"]["Kind"] == 1 else "imm(base,index,%d)" % (1 << c["am"]["Shift"])
        dist["amode_kinds"][k] = dist["amode_kinds"].get(k, 0) + 1
        used = {c["am"]["Base"]} | ({c["am"]["Index"]} if c["am"]["Kind"] == 3 else set())
        dang = [s for s in c["rmap"] if s["vreg"] in used and s["lowered"] and s.get("const") is None]
        if dang:
            viol("amode-dangling-register", dict(sig, kind="amode-dangling-register"),
                 {"why": "the addressing mode reads the register of a value whose defining instruction was marked lowered (never emitted)", "regs": dang, "case": c})
        for vals in c["vals"]:
            want = (ev(c["e"], vals) + c["off"]) & M64
            got = real_address(c, vals)
            if in_class(c, vals):
                dist["valuations_in_class"] += 1
                if got != want:
                    viol("amode-wrong-address", sig, {"why": "effective address %s, pointer value + offset = %d" % (got, want), "valuation": vals, "case": c})
            else:
                dist["valuations_outside_class"] += 1
                if got != want: dist["latent_wrong_outside_class"] += 1
    # ---- model vs real, inside Coq ----
    mism, err = eval_shards("c02_amode", [coq_acase(c) for c in cases], AMODE_HEADER, "amismatches")
    if err:
        viol("model-eval", {"kind": "model-eval", "stream": "amode"}, {"err": err}, no_input=True)
    for k, code in mism:
        c = cases[k]
        bad = any(in_class(c, v) and real_address(c, v) != ((ev(c["e"], v) + c["off"]) & M64) for v in c["vals"]) and not c.get("panic")
        viol("amode-differs-from-model", {"kind": "amode-differs-from-model", "code": code, "shape": shape(c["e"])},
             {"code": code, "meaning": CODES.get(code), "coq": coq_acase(c), "case": c}, no_input=not bad)
    distinct = len(set(json.dumps([c["e"], c["off"]], sort_keys=True) for c in cases))
    top = sorted(dist["top_shapes"].items(), key=lambda kv: -kv[1])
    dist["top_shapes"] = dict(top[:25]); dist["distinct_top_shapes"] = len(top)
    samples = [dict(stream="amode", tree=cq(c["e"]), offset=c["off"], real_amode=c["am"], inserted=c["ins"], panic=c.get("panic")) for c in cases[:1] + cases[-2:]]
    return len(cases), distinct, dist, samples
