"""C07 — close-on-context-done always stops a running guest.

(a) structural tie: programs (hand-written cycle shapes, random structured programs, programs of the common generator)
    are compiled through the public API with WithCloseOnContextDone; overlay code inside the engine packages dumps the
    interpreter's lowered operation lists and the compiler's SSA (after the frontend and after the SSA passes). A control
    graph is built from each dump and the verified checker `all_cycles_checked` (evaluated inside Coq) must accept it;
    the placement predicted by the model (`place interp_now` / `place comp_now`) is compared with the dumps.
(b) behavioural tie, both engines, one child process per engine batch: cycle shapes x {cancel, deadline, close} x arrival
    moment; every call must return within the bound with *sys.ExitError of the cause's code and IsClosed() afterwards.
(c) the closed-word state machine of a real module instance vs. the model, under sequences of causes.
(d) the HOST as a node kind (coq/Engine/TermHost.v): the call-entry probe establishes on both engines which checks a call
    entry performs (an exported function called with an already cancelled / expired context, on a module closed from
    outside, with the word written by a watcher: did any guest code run?) and compares with `probe_model`; the engine
    graphs get host nodes and entry edges carrying the probed checks and `hcheck` judges them in four situations; an
    independent oracle searches a check-free cycle through the host.
(e) host <-> guest recursion (guest -> imported Go function -> api.Function.Call -> guest ...): shapes x causes x
    arrival moments x engines in watchdogged child processes, judged by the number of nesting levels entered after
    the cause (a safety net in the host callback stops a recursion that is not stopped), exit code, module closed.
(f) sibling calls (coq/Engine/Watcher.v): 2-3 concurrent calls from different goroutines on one instance (and on two
    instances of one runtime) x context relation (same / WithValue child / WithCancel child / distinct) x shape (which
    call starts first, which ends before / after the cause) x cause x engine. Every case is one schedule of the
    interleaving semantics of Watcher.v; the oracle is the property; the schedule is also run through the model (one
    watcher per call: nobody stranded; one watcher per Done channel without a reference count: the seeded rule C07d).
(g) loops in an IMPORTED module N call levels below the import boundary (N = 0, 1, 2; call, call_indirect, tail-call
    cycle) x cause x engine, compared with `check_observes` of Watcher.v (which module's closed word a check reads)."""
import bisect, json, subprocess, threading, time
from vcheck import *

HOST, REENTER = 0, 1


# ------------------------------------------------------------------------------------ graphs from engine dumps
def build_graph(funcs, nimp, compiler):
    """nodes: list of (check, [edge]); edge = ('s',t) | ('c',callee,ret) | ('t',callee) | ('r',)"""
    offs, base = [], 2
    for f in funcs:
        offs.append(base)
        base += len(f["toks"]) + 1
    entry = lambda fi: HOST if fi < nimp or fi - nimp >= len(offs) else offs[fi - nimp]
    nodes = [(False, [("s", REENTER), ("r",)]), (True, [("c", e, HOST) for e in offs])]
    for k, f in enumerate(funcs):
        toks, start = f["toks"], offs[k]
        retn = start + len(toks)
        pcs = [t["pc"] for t in toks]

        def node_of(pc):
            if pc < 0:
                return retn
            i = bisect.bisect_left(pcs, pc)
            return start + i if i < len(toks) else retn
        for i, t in enumerate(toks):
            nxt, kd, tg = start + i + 1, t["k"], t.get("t") or []
            if kd == "chk":
                nodes.append((True, [("s", nxt)]))
            elif kd == "exit":
                nodes.append((False, []))
            elif kd == "br":
                nodes.append((False, [("s", node_of(x)) for x in tg]))
            elif kd == "call":
                nodes.append((False, [("c", entry(t["f"]), nxt)]))
            elif kd == "calli":
                nodes.append((False, [("c", e, nxt) for e in [HOST] + offs]))
            elif kd == "tail":
                es = [("t", entry(t["f"]))]
                if compiler:  # "sometimes the backend might need to fall back to a regular call" (lower.go)
                    es.append(("c", entry(t["f"]), nxt))
                nodes.append((False, es))
            elif kd == "taili":
                # a callee of another module is called normally, then control continues at the return label
                nodes.append((False, [("t", e) for e in offs] + [("c", HOST, node_of(tg[0]) if tg else nxt)]))
            else:
                raise ValueError(kd)
        nodes.append((False, [("r",)]))
    return nodes


def coq_graph(nodes):
    def ce(e):
        if e[0] == "s": return "ESeq %d" % e[1]
        if e[0] == "c": return "ECall %d %d" % (e[1], e[2])
        if e[0] == "t": return "ETail %d" % e[1]
        return "ERet"
    return "[" + "; ".join("mk %s [%s]" % ("true" if c else "false", "; ".join(ce(e) for e in es)) for c, es in nodes) + "]"


def unchecked_cycle(nodes):
    """Oracle, independent of the Coq checker: a cycle through non-check nodes along edges that do not grow the stack
    (seq, tail call, call site -> continuation). Returns the cycle as a node list or None."""
    n = len(nodes)
    succ = []
    for c, es in nodes:
        s = []
        if not c:
            for e in es:
                t = e[1] if e[0] in ("s", "t") else e[2] if e[0] == "c" else None
                if t is not None and t < n and not nodes[t][0]:
                    s.append(t)
        succ.append(s)
    color = [0] * n
    for root in range(n):
        if color[root] or nodes[root][0]:
            continue
        stack = [(root, 0)]
        color[root] = 1
        path = [root]
        while stack:
            v, i = stack[-1]
            if i < len(succ[v]):
                stack[-1] = (v, i + 1)
                w = succ[v][i]
                if color[w] == 1:
                    return path[path.index(w):] + [w]
                if color[w] == 0:
                    color[w] = 1
                    stack.append((w, 0))
                    path.append(w)
            else:
                color[v] = 2
                stack.pop()
                path.pop()
    return None


def tok_code(t, nimp=None):
    k = t["k"]
    if k == "chk": return 1
    if k == "calli": return 2
    if k == "taili": return 3
    if k in ("call", "tail"):
        if nimp is not None and t["f"] < nimp:
            return 2 if k == "call" else 3
        return (10 if k == "call" else 11) + 2 * t["f"]
    return None


def traces(funcs, nimp=None, sort=False):
    out = []
    for f in funcs:
        tr = [c for c in (tok_code(t, nimp) for t in f["toks"]) if c is not None]
        out.append(sorted(tr) if sort else tr)
    return out


def coq_nats(xs): return "[" + "; ".join(str(x) for x in xs) + "]"
def coq_natss(xss): return "[" + "; ".join(coq_nats(x) for x in xss) + "]"


def structural(ck, binp, seed, n, dist):
    rc, out = sh([binp, "-mode", "struct", "-seed", str(seed), "-n", str(n)], timeout=900)
    cases = [json.loads(l) for l in out.split("\n") if l.startswith("{")]
    if rc != 0 or not cases:
        ck.violation("harness-crash", {"kind": "crash", "mode": "struct"}, {"rc": rc, "tail": out[-3000:]})
        return []
    items, keep = [], []
    sd = dist.setdefault("structural", {"programs": 0, "by_source": {}, "functions": 0, "graph_nodes": 0, "checks_interp": 0, "checks_compiler": 0,
                                         "tail_calls": 0})
    for c in cases:
        if c.get("err"):
            ck.violation("structural-dump", {"kind": "structural-dump"}, {"err": c["err"], "src": c["src"], "wasm": c["wasm"]}, no_input=True)
            continue
        src = c["src"].split(":")[0]
        sd["programs"] += 1
        sd["by_source"][src] = sd["by_source"].get(src, 0) + 1
        sd["functions"] += c["nfuncs"]
        nimp = c["nimp"]
        # the flag requested through the RuntimeConfig must be the flag both engines compiled with
        if c["interp_ensure"] != c["ensure"] or c["comp_ensure"] != c["ensure"]:
            ck.violation("ensure-termination-flag", {"kind": "ensure-termination-flag"},
                         {"requested": c["ensure"], "interpreter": c["interp_ensure"], "compiler": c["comp_ensure"], "src": c["src"], "wasm": c["wasm"]})
        graphs = [build_graph(c["interp"], nimp, False), build_graph(c["comp_pre"], nimp, True), build_graph(c["comp_post"], nimp, True)]
        c["_graphs"] = graphs
        sd["graph_nodes"] += sum(len(g) for g in graphs)
        it, ct = traces(c["interp"]), traces(c["comp_pre"], nimp, sort=True)
        sd["checks_interp"] += sum(t.count(1) for t in it)
        sd["checks_compiler"] += sum(t.count(1) for t in ct)
        sd["tail_calls"] += sum(1 for t in it for x in t if x == 3 or (x >= 10 and x % 2 == 1))
        prog = "Some (%s)" % c["ast"] if c.get("ast") else "None"
        items.append("{| s_prog := %s; s_on := %s; s_itrace := %s; s_ctrace := %s; s_graphs := [%s] |}" % (
            prog, "true" if c["ensure"] else "false", coq_natss(it), coq_natss(ct), "; ".join(coq_graph(g) for g in graphs)))
        keep.append(c)
    mism = {}
    SH = 25
    for s in range(0, len(items), SH):
        v = ("From Coq Require Import List ZArith.\nFrom Verif Require Import Engine.TermCheck.\nImport ListNotations.\nOpen Scope nat_scope.\n"
             "Definition cases : list scase := [\n" + ";\n".join(items[s:s + SH]) + "].\n"
             "Definition M := Eval vm_compute in mismatches 0%Z cases.\nPrint M.\n")
        rc, o = coq_eval("c07_s%d" % s, v, timeout=600)
        lst = parse_zlist(o, "M")
        if rc != 0 or lst is None:
            ck.violation("model-eval", {"kind": "model-eval"}, {"rc": rc, "out": o[-2000:]}, no_input=True)
            return keep
        for i in range(0, len(lst), 2):
            mism.setdefault(s + lst[i], []).append(lst[i + 1])
    names = {10: "interpreter body", 11: "compiler SSA after the frontend", 12: "compiler SSA after the passes"}
    shown = set()
    for idx, c in enumerate(keep):
        codes = mism.get(idx, [])
        cyc = [unchecked_cycle(g) if c["ensure"] else None for g in c["_graphs"]]
        for k, cy in enumerate(cyc):
            rejected = (10 + k) in codes
            if cy is not None or rejected:
                eng = "interp" if k == 0 else "compiler"
                kind = "unchecked-cycle" if cy is not None else "checker-rejects-acyclic-graph"
                if cy is not None and not rejected:
                    kind = "checker-accepts-cyclic-graph"
                if (kind, eng) in shown: continue
                shown.add((kind, eng))
                ck.violation(kind, {"kind": kind, "engine": eng},
                             {"where": names[10 + k], "cycle_nodes": cy, "src": c["src"], "ast": c.get("ast"), "wasm": c["wasm"],
                              "graph": coq_graph(c["_graphs"][k]), "meaning": "a cycle that neither grows the call stack nor contains an exit-code check"},
                             no_input=(cy is None))
        for code, eng in ((1, "interp"), (2, "compiler")):
            if code in codes and ("placement", eng) not in shown:
                shown.add(("placement", eng))
                # oracle on the implementation alone: the number of checks the lowering emitted vs. loops + tail calls is what the
                # cycle verdict above decides; a pure placement difference with all cycles checked is a model divergence
                harmless = all(cy is None for cy in cyc)
                ck.violation("placement-differs", {"kind": "placement-differs", "engine": eng},
                             {"src": c["src"], "ast": c.get("ast"), "wasm": c["wasm"], "interp_trace": traces(c["interp"]),
                              "compiler_trace": traces(c["comp_pre"], c["nimp"], sort=True), "on": c["ensure"],
                              "meaning": "check/call/tail-call operations per function differ from `place` of the model (1 = check)"},
                             no_input=harmless)
        if 3 in codes and "model-graph" not in shown:
            shown.add("model-graph")
            ck.violation("model-graph-rejected", {"kind": "model-graph-rejected"}, {"src": c["src"], "ast": c.get("ast")}, no_input=True)
    return keep


# ------------------------------------------------------------------------------------ behaviour
def behaviour_engine(binp, engine, quick, bound_ms, results, notes, delays=(15,), mode="behave"):
    hung = []
    for dl in delays:
        behaviour_round(binp, engine, quick, bound_ms, results, notes, dl, hung, mode)


def behaviour_round(binp, engine, quick, bound_ms, results, notes, delay, hung, mode="behave"):
    rc, out = sh([binp, "-mode", mode, "-list"] + (["-quick"] if quick else []), timeout=60)
    ncases = sum(1 for l in out.split("\n") if l.startswith("{"))
    frm, guard = 0, 0
    while frm < ncases and guard < ncases + 2:
        guard += 1
        # a shape that hung once is not run again in this batch (every further combination would cost a full bound)
        cmd = [binp, "-mode", mode, "-engine", engine, "-from", str(frm), "-bound", str(bound_ms), "-delay", str(delay), "-skip", ",".join(hung)] + (["-quick"] if quick else [])
        # generous: every case may take up to its bound twice (cause not yet delivered + the watchdog)
        rc, out = sh(cmd, timeout=120 + (ncases - frm) * 0.2 + 3 * bound_ms / 1000)
        got = [json.loads(l) for l in out.split("\n") if l.startswith("{")]
        results.extend(got)
        last = got[-1]["idx"] if got else frm - 1
        if rc == 0:
            break
        if rc == 3 and got and not got[-1]["returned"]:
            frm = last + 1            # the child reported a hang and left
            hung.append(got[-1]["shape"])
            continue
        # the child froze or crashed: the case after the last reported one is to blame
        results.append({"idx": last + 1, "engine": engine, "shape": "?", "cause": "?", "arrival": "?", "returned": False,
                        "class": "child-frozen" if rc == 124 else "child-crashed:%d" % rc, "closed": False, "want": 0, "latency_ms": 0,
                        "tail": out[-1500:]})
        frm = last + 2
    notes.append((engine, ncases))


def behaviour_oracle(d):
    if d.get("setup"):
        return "setup"
    if not d["returned"]:
        return "hang"
    if d.get("allow") and d["class"] == d["allow"]:
        return None
    if d["class"] != "exit:%d" % d["want"]:
        return "wrong-outcome"
    if not d["closed"]:
        return "module-not-closed"
    return None


def behavioural(ck, binp, tier, dist):
    quick = tier == "quick"
    bound = 6000 if quick else 10000
    res, notes, ths = {"interp": [], "compiler": []}, [], []
    for eng in res:
        th = threading.Thread(target=behaviour_engine, args=(binp, eng, quick, bound, res[eng], notes, (15,) if quick else (1, 15, 60, 5)))
        th.start(); ths.append(th)
    for th in ths: th.join()
    bd = dist.setdefault("behaviour", {"cases": 0, "by_cause": {}, "by_arrival": {}, "shapes": 0, "outcomes": {}, "max_latency_ms": 0.0, "bound_ms": bound})
    shapes, shown = set(), set()
    names = {}
    rc, out = sh([binp, "-mode", "behave", "-list"] + (["-quick"] if quick else []), timeout=60)
    for l in out.split("\n"):
        if l.startswith("{"):
            d = json.loads(l); names[d["idx"]] = d
    allres = []
    for eng, rs in res.items():
        if not rs:
            ck.violation("harness-crash", {"kind": "crash", "mode": "behave", "engine": eng}, {}, no_input=True)
        for d in rs:
            if d["shape"] == "?" and d["idx"] in names:
                d.update({k: names[d["idx"]][k] for k in ("shape", "cause", "arrival")})
            allres.append(d)
            bd["cases"] += 1
            bd["by_cause"][d["cause"]] = bd["by_cause"].get(d["cause"], 0) + 1
            bd["by_arrival"][d["arrival"]] = bd["by_arrival"].get(d["arrival"], 0) + 1
            bd["outcomes"][d["class"].split(":")[0]] = bd["outcomes"].get(d["class"].split(":")[0], 0) + 1
            bd["max_latency_ms"] = max(bd["max_latency_ms"], d.get("latency_ms", 0))
            shapes.add(d["shape"])
            why = behaviour_oracle(d)
            if why is None:
                continue
            if why == "setup":
                sig = {"kind": "harness-setup", "engine": eng}
            elif why == "hang":
                sig = {"kind": "hang", "shape": d["shape"], "engine": eng}
            else:
                sig = {"kind": why, "cause": d["cause"], "engine": eng}
            key = json.dumps(sig, sort_keys=True)
            if key in shown: continue
            shown.add(key)
            ck.violation(sig["kind"], sig, {"case": d, "expected": "return within %d ms of the cause with *sys.ExitError code %d and IsClosed()" % (bound, d.get("want", 0)),
                                          "replay": "h_c07 -mode behave -engine %s -only %d%s" % (eng, d["idx"], " -quick" if quick else "")},
                         no_input=(why == "setup"))
    bd["shapes"] = len(shapes)
    return allres


# ------------------------------------------------------------------------------------ closed word
def word_oracle(c):
    """first cause wins; closed afterwards; FailIfClosed = the first cause's code"""
    CANCEL, DEADLINE = 0xffffffff, 0xefffffff
    want = None
    for (a, b), o in zip(c["steps"], c["obs"]):
        if c["kind"] == "api":
            code = CANCEL if a in (0, 2) else DEADLINE if a in (1, 3) else b
        else:
            code = a
        if want is None:
            want = code
        if o[1] != want or o[2] != 1 or o[3] != want:
            return "after %s the word reports exit code %s / closed=%s / FailIfClosed=%s, expected %d" % ([a, b], o[1], o[2], o[3], want)
    return None


def closed_word(ck, binp, seed, n, dist):
    rc, out = sh([binp, "-mode", "word", "-seed", str(seed), "-n", str(n)], timeout=600)
    cases = [json.loads(l) for l in out.split("\n") if l.startswith("{")]
    if rc != 0 or not cases:
        ck.violation("harness-crash", {"kind": "crash", "mode": "word"}, {"rc": rc, "tail": out[-3000:]})
        return []
    wd = dist.setdefault("closed_word", {"histories": len(cases), "steps": 0, "first_cause": {}})
    items = []
    for c in cases:
        wd["steps"] += len(c["steps"])
        k = "raw" if c["kind"] == "raw" else ["cancel-watcher", "deadline-watcher", "cancel-at-entry", "deadline-at-entry", "close"][c["steps"][0][0]]
        wd["first_cause"][k] = wd["first_cause"].get(k, 0) + 1
        items.append("(%s, [%s], [%s])" % ("true" if c["kind"] == "raw" else "false",
                                             "; ".join("(%d, %d)" % (a, b) for a, b in c["steps"]),
                                             "; ".join("[" + "; ".join(str(x) for x in o) + "]" for o in c["obs"])))
    v = ("From Coq Require Import List ZArith.\nFrom Verif Require Import Engine.TermCheck.\nImport ListNotations.\nOpen Scope Z_scope.\n"
         "Definition cases : list wcase := [\n" + ";\n".join(items) + "].\nDefinition M := Eval vm_compute in wmismatches 0 cases.\nPrint M.\n")
    rc, o = coq_eval("c07_w", v, timeout=300)
    lst = parse_zlist(o, "M")
    if rc != 0 or lst is None:
        ck.violation("model-eval", {"kind": "model-eval"}, {"rc": rc, "out": o[-2000:]}, no_input=True)
        return cases
    mism = {lst[i]: lst[i + 1] for i in range(0, len(lst), 2)}
    shown = set()
    for idx, c in enumerate(cases):
        why, j = word_oracle(c), mism.get(idx)
        if why is None and j is None:
            continue
        kind = "closed-word-property-fails" if why else "closed-word-model-differs"
        if kind in shown: continue
        shown.add(kind)
        ck.violation(kind, {"kind": kind}, {"case": c, "oracle": why, "model_first_diff_step": j}, no_input=(why is None))
    return cases


# ------------------------------------------------------------------------------------ host nodes: entry probe
SIT_NAMES = ["ctx-cancelled", "ctx-deadline", "closed-from-outside", "word-by-watcher-cancel", "word-by-watcher-deadline", "quiet"]
CANCEL, DEADLINE = 0xffffffff, 0xefffffff
ENTRY_MODELS = {"entry_now": ["KCtx"], "entry_repaired": ["KCtx", "KWord"]}


def probe_oracle(c):
    """The property at a call entry. A context that is done must stop the call AT entry (entry is the only check point on
    a cycle through the host), with the context's code and the module closed; a closed word must surface as the exit
    error of the call (a terminating body may run: that alone does not contradict the property); nothing -> nothing."""
    sit = c["sit"]
    if c.get("err"):
        return "probe-error"
    if sit in (0, 1):
        want = CANCEL if sit == 0 else DEADLINE
        if c["ran"]:
            return "entry-precheck-missing"
        if c["exit"] != want or not c["closed"]:
            return "entry-wrong-outcome"
    elif sit in (2, 3, 4):
        want = c["code"] if sit == 2 else CANCEL if sit == 3 else DEADLINE
        if c["exit"] != want or not c["closed"]:
            return "entry-wrong-outcome"
    else:
        if c["exit"] != -1 or c["closed"] or not c["ran"]:
            return "entry-wrong-outcome"
    return None


def entry_probe(ck, binp, dist):
    """returns {engine: [echk]}: the checks found at call entry on each engine"""
    rc, out = sh([binp, "-mode", "probe"], timeout=300)
    cases = [json.loads(l) for l in out.split("\n") if l.startswith("{")]
    pd = dist.setdefault("entry_probe", {"cases": len(cases), "by_situation": {}, "by_engine": {}, "ran_guest": 0, "stopped_at_entry": 0, "entry_checks": {}})
    found = {"interp": ["KCtx"], "compiler": ["KCtx"]}
    if rc != 0 or not cases:
        ck.violation("harness-crash", {"kind": "crash", "mode": "probe"}, {"rc": rc, "tail": out[-3000:]})
        return found, []
    per = {}
    for c in cases:
        per.setdefault(c["engine"], []).append(c)
        pd["by_situation"][SIT_NAMES[c["sit"]]] = pd["by_situation"].get(SIT_NAMES[c["sit"]], 0) + 1
        pd["by_engine"][c["engine"]] = pd["by_engine"].get(c["engine"], 0) + 1
        pd["ran_guest" if c["ran"] else "stopped_at_entry"] += 1
    # model evaluation: every engine against entry_now and against the candidate repair
    defs, names = [], []
    for eng, cs in per.items():
        items = "; ".join("{| pc_sit := %d; pc_code := %d; pc_ran := %s; pc_exit := %d |}" % (c["sit"], c["code"], "true" if c["ran"] else "false", c["exit"]) for c in cs if not c.get("err"))
        for m in ENTRY_MODELS:
            nm = "M_%s_%s" % (eng, m)
            names.append((eng, m, nm))
            defs.append("Definition %s := Eval vm_compute in pmismatches %s 0 [%s].\nPrint %s.\n" % (nm, m, items, nm))
    v = ("From Coq Require Import List ZArith.\nFrom Verif Require Import Engine.TermCheck Engine.TermHost.\nImport ListNotations.\nOpen Scope Z_scope.\n" + "".join(defs))
    rc, o = coq_eval("c07_probe", v, timeout=300)
    mism = {}
    for eng, m, nm in names:
        lst = parse_zlist(o, nm)
        if rc != 0 or lst is None:
            ck.violation("model-eval", {"kind": "model-eval", "mode": "probe"}, {"rc": rc, "out": o[-2000:]}, no_input=True)
            return found, cases
        mism[(eng, m)] = lst
    shown = set()
    for eng, cs in per.items():
        ok = [c for c in cs if not c.get("err")]
        stops = lambda sits: all(not c["ran"] for c in ok if c["sit"] in sits) and any(c["sit"] in sits for c in ok)
        ks = (["KCtx"] if stops((0, 1)) else []) + (["KWord"] if stops((2, 3, 4)) else [])
        found[eng] = ks
        pd["entry_checks"][eng] = ks
        fits = [m for m in ENTRY_MODELS if not mism[(eng, m)]]
        for c in cs:
            why = probe_oracle(c)
            if why is None:
                continue
            sig = {"kind": why, "situation": SIT_NAMES[c["sit"]], "engine": eng}
            key = json.dumps(sig, sort_keys=True)
            if key in shown: continue
            shown.add(key)
            ck.violation(why, sig, {"case": c, "expected": "a call whose context is already done returns *sys.ExitError of that cause WITHOUT running guest code, and the module is closed "
                                                            "(call entry is the only check point on a cycle guest -> host function -> api.Function.Call -> guest)",
                                    "replay": "h_c07 -mode probe  (module bytes and schedule in the case)", "model": "TermHost.probe_model entry_now"})
        if not fits and not any(probe_oracle(c) for c in cs):
            i = mism[(eng, "entry_now")][0]
            ck.violation("entry-probe-model-differs", {"kind": "entry-probe-model-differs", "engine": eng},
                         {"case": ok[i] if i < len(ok) else None, "entry_checks_found": ks, "meaning": "the entry behaves neither like entry_now nor like entry_repaired of TermHost.v"}, no_input=True)
    return found, cases


# ------------------------------------------------------------------------------------ host nodes: structure
HSITS = [("ctx-cancelled (watcher ran)", "ctx-done", "KCtx"), ("ctx-deadline (watcher ran)", "ctx-done", "KCtx"),
         ("closed from another goroutine", "closed-word", "KWord"), ("outer call cancelled, nested call got a fresh context", "closed-word", "KWord")]


def host_cycle(nodes, entry_observed):
    """Independent oracle: a cycle function entry -> ... -> call of a host function -> api.Function.Call -> the same entry on
    which no check observes the situation. All in-guest checks read the closed word, which is written in every situation
    of HSITS, so a check node always blocks; the entry edge blocks iff the entry check observes. Returns a node list."""
    if entry_observed:
        return None
    n = len(nodes)
    for e in [ed[1] for ed in nodes[REENTER][1] if ed[0] == "c"]:
        prev, todo = {e: None}, [e]
        while todo:
            v = todo.pop()
            if v == HOST:
                path = []
                while v is not None:
                    path.append(v); v = prev[v]
                return path[::-1] + [REENTER, e]
            if v >= n or nodes[v][0]:
                continue
            for ed in nodes[v][1]:
                for t in ((ed[1],) if ed[0] in ("s", "t") else (ed[1], ed[2]) if ed[0] == "c" else ()):
                    if t not in prev and t != REENTER:
                        prev[t] = v; todo.append(t)
    return None


def coq_echks(ks): return "[" + "; ".join(ks) + "]"


def host_structural(ck, keep, entries, dist):
    hd = dist.setdefault("host_structure", {"programs": 0, "graphs": 0, "situations": len(HSITS), "hcheck_accepts": 0, "hcheck_rejects": 0,
                                            "host_cycles_by_oracle": 0, "rejected_without_cycle": 0, "by_situation": {}})
    cs = [c for c in keep if c["ensure"]]
    cs.sort(key=lambda c: 0 if c["src"] == "hshape:hostrec_pure" else 1 if c["src"].startswith("hshape:") else 2)   # report on the plainest program
    engs = ["interp", "compiler", "compiler"]
    items = ["{| hc_entries := [%s]; hc_graphs := [%s] |}" % ("; ".join(coq_echks(entries[e]) for e in engs), "; ".join(coq_graph(g) for g in c["_graphs"])) for c in cs]
    rej = {}
    SH = 25
    for s in range(0, len(items), SH):
        v = ("From Coq Require Import List ZArith.\nFrom Verif Require Import Engine.TermCheck Engine.TermHost.\nImport ListNotations.\nOpen Scope nat_scope.\n"
             "Definition cases : list hcase := [\n" + ";\n".join(items[s:s + SH]) + "].\n"
             "Definition M := Eval vm_compute in hmismatches 0%Z cases.\nPrint M.\n")
        rc, o = coq_eval("c07_h%d" % s, v, timeout=600)
        lst = parse_zlist(o, "M")
        if rc != 0 or lst is None:
            ck.violation("model-eval", {"kind": "model-eval", "mode": "host"}, {"rc": rc, "out": o[-2000:]}, no_input=True)
            return {}
        for i in range(0, len(lst), 2):
            rej.setdefault(s + lst[i], set()).add(lst[i + 1])
    names = {0: "interpreter body", 1: "compiler SSA after the frontend", 2: "compiler SSA after the passes"}
    shown, verdict = set(), {}
    for idx, c in enumerate(cs):
        hd["programs"] += 1
        for k, g in enumerate(c["_graphs"]):
            hd["graphs"] += 1
            stack_neutral = unchecked_cycle(g) is not None      # reported by structural()
            for j, (sname, need, chk) in enumerate(HSITS):
                rejected = (100 * (j + 1) + k) in rej.get(idx, ())
                cyc = host_cycle(g, chk in entries[engs[k]])
                verdict[(c["src"], k, j)] = cyc is None
                hd["hcheck_rejects" if rejected else "hcheck_accepts"] += 1
                if cyc is not None:
                    hd["host_cycles_by_oracle"] += 1
                    hd["by_situation"][sname] = hd["by_situation"].get(sname, 0) + 1
                elif rejected and not stack_neutral:
                    hd["rejected_without_cycle"] += 1    # hcheck demands every entry edge checked: sufficient, not necessary
                if cyc is None:
                    continue
                kind = "host-cycle-unchecked" if rejected else "hcheck-accepts-host-cycle"
                sig = {"kind": kind, "entry_check_needed": need, "engine": engs[k]}
                key = json.dumps(sig, sort_keys=True)
                if key in shown: continue
                shown.add(key)
                ck.violation(kind, sig, {"where": names[k], "situation": sname, "entry_checks_found_by_probe": entries[engs[k]], "cycle_nodes": cyc,
                                         "src": c["src"], "ast": c.get("ast"), "wasm": c["wasm"], "graph": coq_graph(g),
                                         "schedule": "instantiate the module with its imports bound to Go functions that call the exported function back "
                                                     "(mod.ExportedFunction(..).Call(ctx)); start the call; then: " + sname,
                                         "meaning": "a cycle guest function -> imported Go function (node 0) -> api.Function.Call (node 1) -> guest function on which no check "
                                                    "observes the situation: the in-guest checks are not on it and the call entry does not perform a %s check" % chk})
    return verdict


# ------------------------------------------------------------------------------------ host <-> guest recursion
SLACK_LEVELS = 3   # a correct engine enters 0 or 1 further nesting level after the cause; the harness's safety net stops at 40


def hostrec_need(d):
    return "closed-word" if d["cause"] == "close" or d.get("ctx") == "fresh" else "ctx-done"


def hostrec_running(d):
    # where only a watcher goroutine can deliver the cause (fresh context) the level count depends on goroutine scheduling:
    # such a case is judged by the safety net alone (>= 40 levels at >= 1 ms each with the closed word unread)
    return d["gave_up"] or (d["levels_after"] > SLACK_LEVELS and not d.get("relies_on_watcher"))


def hostrec_oracle(d):
    if d.get("setup"):
        return "setup"
    if not d["returned"]:
        return "hang"
    if hostrec_running(d):
        return "host-recursion-keeps-running"
    if d["class"] != "exit:%d" % d["want"]:
        return "wrong-outcome"
    if not d["closed"]:
        return "module-not-closed"
    return None


def host_behavioural(ck, binp, tier, dist):
    quick = tier == "quick"
    bound = 8000 if quick else 12000
    res, notes, ths = {"interp": [], "compiler": []}, [], []
    for eng in res:
        th = threading.Thread(target=behaviour_engine, args=(binp, eng, quick, bound, res[eng], notes, (15,) if quick else (2, 15, 40), "hostrec"))
        th.start(); ths.append(th)
    for th in ths: th.join()
    hd = dist.setdefault("host_recursion", {"cases": 0, "shapes": {}, "by_cause": {}, "by_arrival": {}, "by_engine": {}, "by_context": {}, "shape_x_cause_x_engine_x_arrival": 0,
                                            "outcomes": {}, "levels_after_cause": {}, "max_nesting": 0, "stopped_by_safety_net": 0, "max_latency_ms": 0.0, "bound_ms": bound,
                                            "slack_levels": SLACK_LEVELS})
    shown, allres, combos = set(), [], set()
    for eng, rs in res.items():
        if not rs:
            ck.violation("harness-crash", {"kind": "crash", "mode": "hostrec", "engine": eng}, {}, no_input=True)
        for d in rs:
            allres.append(d)
            if d.get("shape") == "?":
                ck.violation("harness-crash", {"kind": "crash", "mode": "hostrec", "engine": eng}, {"case": d}, no_input=True)
                continue
            hd["cases"] += 1
            for k, f in (("shapes", "shape"), ("by_cause", "cause"), ("by_arrival", "arrival"), ("by_engine", "engine"), ("by_context", "ctx")):
                hd[k][d[f]] = hd[k].get(d[f], 0) + 1
            combos.add((d["shape"], d["cause"], d["engine"], d["arrival"]))
            oc = d["class"].split(":")[0]
            hd["outcomes"][oc] = hd["outcomes"].get(oc, 0) + 1
            la = str(d["levels_after"]) if d["levels_after"] <= SLACK_LEVELS else ">%d" % SLACK_LEVELS
            hd["levels_after_cause"][la] = hd["levels_after_cause"].get(la, 0) + 1
            hd["max_nesting"] = max(hd["max_nesting"], d["max_level"])
            hd["stopped_by_safety_net"] += 1 if d["gave_up"] else 0
            hd["max_latency_ms"] = max(hd["max_latency_ms"], d.get("latency_ms", 0))
            why = hostrec_oracle(d)
            d["_why"] = why
            if why is None:
                continue
            if why == "setup":
                sig = {"kind": "harness-setup", "engine": eng, "mode": "hostrec"}
            elif why == "hang":
                sig = {"kind": "hang", "shape": d["shape"], "engine": eng}
            elif why == "host-recursion-keeps-running":
                sig = {"kind": why, "entry_check_needed": hostrec_need(d), "cause": d["cause"], "engine": eng}
            elif why == "module-not-closed":
                sig = {"kind": why, "cross_instance": d["cross"], "cause": d["cause"], "engine": eng}
            else:
                sig = {"kind": why, "cause": d["cause"], "engine": eng, "host_recursion": True}
            key = json.dumps(sig, sort_keys=True)
            if key in shown: continue
            shown.add(key)
            ck.violation(sig["kind"], sig, {"case": {k: v for k, v in d.items() if not k.startswith("_")},
                                          "expected": "after the cause the call returns with *sys.ExitError code %d within %d ms, at most %d further host<->guest nesting levels are entered "
                                                      "(a correct engine: 0 or 1; the harness's safety net gives up after 40), and the module of the call is closed" % (d.get("want", 0), bound, SLACK_LEVELS),
                                          "replay": "h_c07 -mode hostrec -engine %s -only %d%s  (module bytes: case.wasm, schedule: case.schedule)" % (eng, d["idx"], " -quick" if quick else "")},
                         no_input=(why == "setup"))
    hd["shape_x_cause_x_engine_x_arrival"] = len(combos)
    return allres


def host_model_vs_behaviour(ck, verdict, hres, dist):
    """the structural oracle's prediction (is there a check-free cycle through the host in this situation?) against what the engine did"""
    md = dist.setdefault("host_model_vs_engine", {"compared": 0, "agree_stops": 0, "agree_keeps_running": 0, "engine_stops_where_graph_overapproximates": 0, "differ": 0})
    shown = set()
    for d in hres:
        if d.get("shape") in (None, "?") or d.get("_why") in ("setup", "hang"):
            continue
        j = 2 if d["cause"] == "close" else 3 if d.get("ctx") == "fresh" else 0 if d["cause"] == "cancel" else 1
        k = 0 if d["engine"] == "interp" else 2
        pred = verdict.get(("hshape:" + d["shape"], k, j))
        if pred is None:
            continue
        stopped = not hostrec_running(d)
        md["compared"] += 1
        if pred == stopped:
            md["agree_stops" if stopped else "agree_keeps_running"] += 1
            continue
        if stopped:
            # the graph has ONE host node standing for every imported function ("any of them may call back"): a call of an
            # import that never re-enters still counts as a way into the host. The engine stopping is what the property asks for.
            md["engine_stops_where_graph_overapproximates"] += 1
            continue
        md["differ"] += 1
        sig = {"kind": "host-model-differs", "engine": d["engine"], "predicted_stops": pred}
        key = json.dumps(sig, sort_keys=True)
        if key in shown: continue
        shown.add(key)
        # the engine stopping where the graph has a check-free host cycle is harmless; the reverse is reported by the behavioural oracle as well
        ck.violation("host-model-differs", sig, {"case": {k2: v for k2, v in d.items() if not k2.startswith("_")}, "situation": HSITS[j][0],
                                                "meaning": "graph built from the engine dump + probed entry checks predicts %s, the engine %s" % (
                                                    "a check on every cycle through the host" if pred else "a check-free cycle through the host", "stopped" if stopped else "kept running")},
                     no_input=stopped)



# ------------------------------------------------------------------------------------ sibling calls
def run_cases(binp, mode, engine, quick, bound_ms, results, par=4):
    """modes whose child cleans up after a hang by itself (siblings, imported): one child per engine, JSON lines"""
    rc, out = sh([binp, "-mode", mode, "-list"] + (["-quick"] if quick else []), timeout=60)
    ncases = sum(1 for l in out.split("\n") if l.startswith("{"))
    cmd = [binp, "-mode", mode, "-engine", engine, "-bound", str(bound_ms), "-par", str(par)] + (["-quick"] if quick else [])
    # every case may run into the watchdog, `par` at a time; cleanup after a hang up to 3 s per call
    rc, out = sh(cmd, timeout=180 + (ncases / par + 1) * (4 * bound_ms / 1000 + 12))
    got = []
    for l in out.split("\n"):
        if l.startswith("{"):
            try: got.append(json.loads(l))
            except ValueError: pass
    results.extend(got)
    if rc != 0 or len(got) != ncases:
        results.append({"crash": True, "engine": engine, "rc": rc, "reported": len(got), "expected": ncases, "tail": out[-1500:]})


def sib_concerned(d):
    """the instances the cause concerns: close: the target; cancel / deadline: every instance with a call in flight whose
    context is c0 or derived from it"""
    if d["cause"] == "close":
        return {d["target"]}
    return {c["inst"] for c in d["calls"] if c["in_flight_at_cause"] and c["ctx"] != "c1"}


def sib_oracle(d):
    """the property, on the observations of one case: (kind, call) of the first failure or None"""
    if d.get("setup"):
        return ("setup", None)
    if d.get("void"):
        return None
    want = "exit:%d" % d["want"]
    conc = sib_concerned(d)
    worst = None
    for c in d["calls"]:
        cl = c["class"]
        why = None
        if cl.startswith("other:") and "recovered by wazero" in cl or cl.startswith("other:PANIC"):
            why = "go-panic-in-call"
        elif not c["in_flight_at_cause"]:
            if cl != "nil":
                why = "sibling-disturbed"           # it finished before the cause
        elif c["inst"] in conc:
            if not c["returned"] or cl == "hang":
                why = "hang"
            elif cl != want:
                why = "wrong-outcome"
        else:
            if c["kind"] == "finite" and cl != "nil" or c["kind"] == "loop" and cl != "running":
                why = "sibling-disturbed"           # its module is not concerned by the cause
        if why and (worst is None or why == "hang"):
            worst = (why, c)
    if worst:
        return worst
    for inst in sorted(conc):
        if not d["closed"].get(inst):
            return ("module-not-closed", {"inst": inst})
    if d.get("hard_hang"):
        return ("hang", None)
    return None


def coq_event(e):
    if e[0] == 0: return "EEnter %d %d" % (e[1], e[2])
    if e[0] == 1: return "EReturn %d" % e[1]
    if e[0] == 2: return "EDone %d %s" % (e[1], "CtxCanceled" if e[2] == 1 else "CtxDeadline")
    return "EClose %d%%Z" % e[1]


def sib_model(ck, cases):
    """every executed schedule through Watcher.v, per instance: {(case index, inst): (stranded by PerCall, stranded by SharedNoRefcount)}"""
    keys, items = [], []
    for i, d in enumerate(cases):
        if d.get("setup") or d.get("void") or not d.get("events"):
            continue
        for inst in sorted(set(c["inst"] for c in d["calls"])):
            evs = [coq_event(e) for e, ei in zip(d["events"], d["ev_inst"]) if ei in ("", inst)]
            keys.append((i, inst))
            items.append("{| sb_calls := %d; sb_events := [%s] |}" % (len(d["calls"]), "; ".join(evs)))
    res = {}
    SH = 90     # the codes of sibmismatches hold the case index in two decimal digits below 100000
    for s0 in range(0, len(items), SH):
        v = ("From Coq Require Import List ZArith.\nFrom Verif Require Import Engine.TermCheck Engine.TermHost Engine.Watcher.\nImport ListNotations.\nOpen Scope nat_scope.\n"
             "Definition cases : list sibcase := [\n" + ";\n".join(items[s0:s0 + SH]) + "].\n"
             "Definition M := Eval vm_compute in sibmismatches 0%Z cases.\nPrint M.\n")
        rc, o = coq_eval("c07_sib%d" % s0, v, timeout=600)
        lst = parse_zlist(o, "M")
        if rc != 0 or lst is None:
            ck.violation("model-eval", {"kind": "model-eval", "mode": "siblings"}, {"rc": rc, "out": o[-2000:]}, no_input=True)
            return None
        for code in lst:
            seeded, code = divmod(code, 100000)
            j, k = divmod(code, 1000)
            r = res.setdefault(keys[s0 + j], ([], []))
            r[1 if seeded else 0].append(k)
    return res


def siblings(ck, binp, tier, dist):
    quick = tier == "quick"
    bound = 8000 if quick else 12000
    res, ths = {"interp": [], "compiler": []}, []
    for eng in res:
        th = threading.Thread(target=run_cases, args=(binp, "siblings", eng, quick, bound, res[eng]))
        th.start(); ths.append(th)
    for th in ths: th.join()
    sd = dist.setdefault("siblings", {"cases": 0, "calls": 0, "by_shape": {}, "by_context_relation": {}, "by_topology": {}, "by_cause": {}, "by_engine": {},
                                      "call_outcomes": {}, "in_flight_at_cause": 0, "finished_before_cause": 0, "void_deadline_attempts": 0, "max_attempts": 0,
                                      "max_latency_ms": 0.0, "bound_ms": bound, "model_schedules": 0, "model_seeded_rule_strands": 0})
    allres, shown = [], set()
    for eng, rs in res.items():
        for d in rs:
            if d.get("crash"):
                ck.violation("harness-crash", {"kind": "crash", "mode": "siblings", "engine": eng}, d, no_input=True)
                continue
            allres.append(d)
    model = sib_model(ck, allres)
    for i, d in enumerate(allres):
        eng = d["engine"]
        sd["cases"] += 1
        for k, f in (("by_shape", "shape"), ("by_context_relation", "ctx"), ("by_topology", "topology"), ("by_cause", "cause"), ("by_engine", "engine")):
            sd[k][d[f]] = sd[k].get(d[f], 0) + 1
        sd["max_attempts"] = max(sd["max_attempts"], d.get("attempts", 1))
        sd["void_deadline_attempts"] += d.get("attempts", 1) - 1 + (1 if d.get("void") else 0)
        for c in d["calls"]:
            sd["calls"] += 1
            oc = "%s/%s" % (c["kind"], c["class"].split(":")[0])
            sd["call_outcomes"][oc] = sd["call_outcomes"].get(oc, 0) + 1
            sd["in_flight_at_cause" if c["in_flight_at_cause"] else "finished_before_cause"] += 1
            sd["max_latency_ms"] = max(sd["max_latency_ms"], c.get("latency_ms", 0))
        mdl = {}
        if model is not None:
            for inst in sorted(set(c["inst"] for c in d["calls"])):
                if (i, inst) in model or d.get("events"):
                    pc, sn = model.get((i, inst), ([], []))
                    mdl[inst] = {"one_watcher_per_call_strands": pc, "one_watcher_per_done_channel_without_refcount_strands": sn}
                    sd["model_schedules"] += 1
                    sd["model_seeded_rule_strands"] += 1 if sn else 0
                    if pc and "model-strands" not in shown:     # excluded by C07_every_inflight_call_is_watched
                        shown.add("model-strands")
                        ck.violation("watcher-model-strands-call", {"kind": "watcher-model-strands-call"}, {"case": d, "calls": pc}, no_input=True)
        why = sib_oracle(d)
        d["_why"] = why
        if why is None:
            continue
        kind, c = why
        if kind == "setup":
            sig = {"kind": "harness-setup", "engine": eng, "mode": "siblings"}
        elif kind == "hang":
            sig = {"kind": "hang", "shape": d["shape"], "family": "siblings", "engine": eng}
        elif kind == "go-panic-in-call":
            # internal/wasm, both engines alike: one class
            sig = {"kind": kind, "family": "siblings"}
        elif kind == "module-not-closed":
            sig = {"kind": kind, "family": "siblings", "cause": d["cause"], "engine": eng}
        else:
            sig = {"kind": kind, "family": "siblings", "cause": d["cause"], "engine": eng}
        key = json.dumps(sig, sort_keys=True)
        if key in shown: continue
        shown.add(key)
        strands = {inst: m["one_watcher_per_done_channel_without_refcount_strands"] for inst, m in mdl.items()}
        ck.violation(sig["kind"], sig, {"case": d, "failing_call": c, "schedule": d["schedule"],
                                      "expected": "every call in flight when the cause arrives on a module the cause concerns returns within %d ms with *sys.ExitError code %d and that module "
                                                  "IsClosed() afterwards; calls that returned before the cause returned nil; calls on a module the cause does not concern keep running" % (bound, d["want"]),
                                      "model": {"Watcher.v on this schedule": mdl,
                                                "diagnosis": ("the schedule is one on which the ownership rule 'one watcher per Done channel, stopped by the return of the call that spawned it, no reference count' "
                                                              "(C07_shared_watcher_without_refcount_refuted) leaves call(s) %s in flight with a done context and no watcher" % strands)
                                                if kind == "hang" and any(strands.values()) else None},
                                      "replay": "h_c07 -mode siblings -engine %s -only %d%s  (module bytes: case.wasm, schedule: case.schedule)" % (eng, d["idx"], " -quick" if quick else "")},
                     no_input=(kind == "setup"))
    return allres


# ------------------------------------------------------------------------------------ loops in an imported module
IMPORT_MODELS = {"interp": ["SelCaller", "SelBoth", "SelEntry"], "compiler": ["SelEntry", "SelBoth"]}


def imported(ck, binp, tier, dist):
    quick = tier == "quick"
    bound = 5000 if quick else 10000
    res, ths = {"interp": [], "compiler": []}, []
    for eng in res:
        th = threading.Thread(target=run_cases, args=(binp, "imported", eng, quick, bound, res[eng]))
        th.start(); ths.append(th)
    for th in ths: th.join()
    idd = dist.setdefault("imported_loops", {"cases": 0, "by_shape": {}, "by_cause": {}, "by_engine": {}, "by_depth": {}, "outcomes": {}, "max_latency_ms": 0.0, "bound_ms": bound,
                                             "check_reads": {}})
    allres, shown = [], set()
    for eng, rs in res.items():
        per = []
        for d in rs:
            if d.get("crash"):
                ck.violation("harness-crash", {"kind": "crash", "mode": "imported", "engine": eng}, d, no_input=True)
                continue
            allres.append(d); per.append(d)
            idd["cases"] += 1
            for k, f in (("by_shape", "shape"), ("by_cause", "cause"), ("by_engine", "engine"), ("by_depth", "depth")):
                idd[k][str(d[f])] = idd[k].get(str(d[f]), 0) + 1
            oc = d["class"].split(":")[0]
            idd["outcomes"][eng + "/" + oc] = idd["outcomes"].get(eng + "/" + oc, 0) + 1
            idd["max_latency_ms"] = max(idd["max_latency_ms"], d.get("latency_ms", 0))
            why = behaviour_oracle(d)
            d["_why"] = why
            if why is None:
                continue
            if why == "setup":
                sig = {"kind": "harness-setup", "engine": eng, "mode": "imported"}
            elif why == "hang":
                sig = {"kind": "hang", "shape": d["shape"], "family": "imported_loop", "engine": eng}
            else:
                sig = {"kind": why, "family": "imported_loop", "cause": d["cause"], "engine": eng}
            key = json.dumps(sig, sort_keys=True)
            if key in shown: continue
            shown.add(key)
            ck.violation(sig["kind"], sig, {"case": d, "schedule": d["schedule"],
                                          "expected": "return within %d ms of the cause with *sys.ExitError code %d and A.IsClosed()" % (bound, d.get("want", 0)),
                                          "model": "Watcher.check_observes: a check executing in B.f1 reads the closed word of " +
                                                   ("the module of the CALLING function (SelCaller): B for depth >= 1, which nobody closes" if eng == "interp" else "the entry module (SelEntry)") +
                                                   "; C07_check_reads_entry_module",
                                          "replay": "h_c07 -mode imported -engine %s -only %d%s  (module bytes: case.wasm (A), case.wasm_imported (B))" % (eng, d["idx"], " -quick" if quick else "")},
                         no_input=(why == "setup"))
        # which module's word the checks of this engine read: the model's three rules against what the engine did
        ok = [d for d in per if not d.get("setup")]
        if not ok:
            continue
        defs = []
        items = "; ".join("(%d, %s)" % (d["depth"], "true" if d["returned"] else "false") for d in ok)
        for m in IMPORT_MODELS[eng]:
            defs.append("Definition M_%s := Eval vm_compute in imismatches %s 0%%Z [%s].\nPrint M_%s.\n" % (m, m, items, m))
        v = ("From Coq Require Import List ZArith.\nFrom Verif Require Import Engine.TermCheck Engine.TermHost Engine.Watcher.\nImport ListNotations.\nOpen Scope nat_scope.\n" + "".join(defs))
        rc, o = coq_eval("c07_imp_" + eng, v, timeout=300)
        fits, first = [], None
        for m in IMPORT_MODELS[eng]:
            lst = parse_zlist(o, "M_" + m)
            if rc != 0 or lst is None:
                ck.violation("model-eval", {"kind": "model-eval", "mode": "imported"}, {"rc": rc, "out": o[-2000:]}, no_input=True)
                fits = None
                break
            if not lst:
                fits.append(m)
            elif first is None:
                first = ok[lst[0]]
        if fits is None:
            continue
        idd["check_reads"][eng] = fits
        if not fits:
            # neither the rule of the code now nor a rule that reads the entry module: hangs are reported above; a pure divergence here
            ck.violation("imported-loop-model-differs", {"kind": "imported-loop-model-differs", "engine": eng},
                         {"case": first, "meaning": "the engine stops / does not stop imported loops in a pattern that none of SelCaller, SelEntry, SelBoth of Watcher.v predicts"},
                         no_input=not any(d.get("_why") for d in ok))
    return allres


def run(tier, seed):
    ck = Check("C07", tier, seed)
    ck.trusted += ["coq/Engine/TermCheck.v: the control-graph abstraction (call = push, return = pop, tail call = replace; a host function is one node that may re-enter "
                   "through a checked boundary) and `place`; tied by comparing `place` with the real lowerings and by running the verified checker on graphs built from them",
                   "coq/Engine/TermHost.v: host nodes, call entry = an edge carrying its checks on a fresh call engine (segment of the continuation stack), and what each check reads "
                   "(ctx.Err() of the call's context / the closed word); tied by the entry probe (probe_model vs both engines) and by judging the engine graphs with the probed entry checks",
                   "harness/c07 overlay files (read-only accessors inside package interpreter / frontend / wazevo / wasm / wazero) and checks/c07.py (graph construction from the dumps, independent cycle oracle)",
                   "coq/Engine/Watcher.v: the interleaving semantics of concurrent calls on one module (entry, return, context done, watcher step, close), the two watcher policies and the "
                   "rule for which module's closed word a check reads; tied by executing fixed schedules on real instances (siblings) and by the imported-loop family",
                   "tools/go2coq for the exit-code and flag constants (sys.ExitCodeContextCanceled, ExitCodeDeadlineExceeded, exitCodeFlag*)"]
    ck.assumptions += ["promptness is measured, not proved: goroutine scheduling, the watcher goroutine and the Go runtime are outside the model",
                       "the compiler's check placement is verified on the SSA (after the frontend and after the SSA passes); that the backend keeps the check calls is observed behaviourally only",
                       "the bound of C07_checker_sound is exponential in the stack ceiling and tight: recursion without loops is stopped only by stack overflow or termination (open finding: tree recursion)",
                       "a host function that loops by itself is the embedder's code and outside the property",
                       "C07_every_inflight_call_is_watched is about the model of CloseModuleOnCanceledOrTimeout (one goroutine per call, from entry to return); that the goroutine is scheduled "
                       "(fairness) is assumed, and measured by the sibling schedules",
                       "host <-> guest recursion: the host callback propagates the error of the nested call by panicking (as wasi proc_exit does); nesting levels after the cause are counted from the "
                       "moment the cause has been delivered (cancel() / CloseWithExitCode returned, ctx.Done() observed), so a correct engine shows 0 or 1"]
    proofs_ok = ck.proofs()
    binp, log = build_harness("c07")
    if not binp:
        ck.violation("harness-build", {"kind": "build"}, {"log": log[-3000:]}, no_input=True)
        return ck.finish()
    quick = tier == "quick"
    dist = {}
    ck.dist = dist
    out = {}
    th = threading.Thread(target=lambda: out.setdefault("b", behavioural(ck, binp, tier, dist)))
    th.start()
    th2 = threading.Thread(target=lambda: out.setdefault("h", host_behavioural(ck, binp, tier, dist)))
    th2.start()
    th3 = threading.Thread(target=lambda: out.setdefault("i", imported(ck, binp, tier, dist)))
    th3.start()
    entries, pc = entry_probe(ck, binp, dist)
    sc = structural(ck, binp, seed, 60 if quick else 1200, dist)
    verdict = host_structural(ck, sc, entries, dist)
    wc = closed_word(ck, binp, seed, 40 if quick else 600, dist)
    th.join(); th2.join(); th3.join()
    bc = out.get("b") or []
    hc = out.get("h") or []
    ic = out.get("i") or []
    # the sibling schedules are timing-sensitive in one respect only (a deadline must not pass before the schedule is set up):
    # they run once the batches above have released the machine
    sb = siblings(ck, binp, tier, dist)
    host_model_vs_behaviour(ck, verdict, hc, dist)
    ck.cases = (len(sc) * 3 + len(bc) + len(wc) + len(pc) + len(hc) + dist.get("host_structure", {}).get("graphs", 0) * len(HSITS) + len(ic) + len(sb) +
                dist.get("siblings", {}).get("model_schedules", 0))
    ck.distinct = (len(set(c["wasm"] for c in sc)) + len(set((d["engine"], d["shape"], d["cause"], d["arrival"]) for d in bc)) + len(set(json.dumps(c["steps"]) for c in wc)) +
                   len(set((c["engine"], c["sit"], c["code"]) for c in pc)) + len(set((d["engine"], d["shape"], d["cause"], d["arrival"]) for d in hc)) +
                   len(set((d["engine"], d["shape"], d["cause"]) for d in ic)) + len(set((d["engine"], d["shape"], d["ctx"], d["topology"], d["cause"], d["spin"]) for d in sb)))
    ck.samples = ([dict(src=c["src"], ast=(c.get("ast") or "")[:160], interp_trace=traces(c["interp"])) for c in sc[7:9]] +
                  [dict(engine=d["engine"], shape=d["shape"], cause=d["cause"], arrival=d["arrival"], outcome=d["class"], closed=d["closed"], latency_ms=d.get("latency_ms")) for d in bc[1:4]] +
                  [dict(kind=c["kind"], steps=c["steps"], obs=c["obs"]) for c in wc[:1]] +
                  [dict(engine=d["engine"], shape=d["shape"], cause=d["cause"], arrival=d["arrival"], outcome=d["class"], closed=d["closed"], levels_after_cause=d["levels_after"],
                        max_nesting=d["max_level"]) for d in hc[2:4]] +
                  [dict(engine=c["engine"], situation=SIT_NAMES[c["sit"]], ran_guest_code=c["ran"], exit=c["exit"], closed=c["closed"]) for c in pc[:1]] +
                  [dict(engine=d["engine"], shape=d["shape"], ctx=d["ctx"], topology=d["topology"], cause=d["cause"], calls=[(c["kind"], c["ctx"], c["class"]) for c in d["calls"]],
                        closed=d["closed"]) for d in sb[:1]] +
                  [dict(engine=d["engine"], shape=d["shape"], cause=d["cause"], outcome=d["class"], closed=d["closed"]) for d in ic[:1]])
    ck.extra["rule"] = ("structural: hand-written cycle shapes + random structured programs (own AST generator: loops, br/br_if/br_table, calls, call_indirect, return_call, "
                        "return_call_indirect, imports) + programs of the common generator, each compiled by both engines through the public API, 3 graphs per program; "
                        "behavioural: shapes x causes x arrival moments x 2 engines; closed word: cause sequences on a real instance; entry probe: 6 situations x 2 engines; "
                        "host structure: every engine graph with host nodes and the probed entry checks x 4 situations (hcheck inside Coq + independent host-cycle oracle); "
                        "host recursion: guest->host->guest shapes x causes x arrival moments x 2 engines; siblings: 2-3 concurrent calls on one / two instances x context relation x "
                        "shape x cause x 2 engines, each executed schedule also run through Watcher.v; imported loops: depth 0..2 x call / call_indirect / tail cycle x cause x 2 engines. "
                        "A case is non-trivial when it is a distinct program / (engine, shape, cause, arrival) / cause sequence / (engine, situation, code) / "
                        "(engine, shape, context relation, topology, cause)")
    if not proofs_ok and not any(not v.get("no_input") for v in ck.violations):
        ck.violation("proof-broken", {"kind": "proof-broken"}, getattr(ck, "proof_failure", {}), no_input=True)
    return ck.finish()
