"""Shared by the checks that compare the engines with the reference semantics W (coq/Wasm)."""
import json
from vcheck import *

TRAP_CODES = {"unreachable": 1, "div": 2, "oob": 3, "indirect": 4, "exhaust": 5}


def trap_code(t):
    if t in TRAP_CODES: return TRAP_CODES[t]
    if t.startswith("exit:"): return 7 + 100 * int(t[5:])
    if t.startswith("panic"): return 6
    return 0


def zl(xs): return "[" + "; ".join(str(int(x)) for x in xs) + "]"


def coq_obs(o):
    if o.get("any"): return "OAny"
    if o.get("trap"): return "OTrap %d" % trap_code(o["trap"])
    return "ORes " + zl(o.get("res") or [])


def coq_dcase(c, eo):
    calls = "; ".join("(%d%%nat, %s)" % (cl[0], zl(cl[1:])) for cl in c["calls"])
    obs = "; ".join(coq_obs(o) for o in eo["obs"])
    hlog = "; ".join("(%d, %s)" % (e[0], zl(e[1:])) for e in (eo.get("hlog") or []))
    mem = "; ".join("(%d, %d)" % (a, v) for a, v in (eo.get("mem") or []))
    hres = "; ".join(zl(ws) for ws in c["hres"])
    return ("{| d_store := %s;\n d_hres := [%s]; d_calls := [%s]; d_obs := [%s]; d_hlog := [%s]; d_globals := %s; d_mem := [%s]; d_pages := %d |}"
            % (c["store"], hres, calls, obs, hlog, zl(eo.get("globals") or []), mem, eo.get("pages") or 0))


def eval_dcases(name, items, shard=60, imports="Wasm.Numerics Wasm.Sem Wasm.Harness", fn="dmismatches"):
    """items: list of coq dcase strings. Returns (list of (index, code), error text or None)."""
    mism = []
    for s in range(0, len(items), shard):
        part = items[s:s + shard]
        v = ("From Coq Require Import ZArith List. Import ListNotations.\nFrom Verif Require Import %s.\nOpen Scope Z_scope.\n" % imports
             + "Definition cases := [\n" + ";\n".join(part) + "].\n"
             + "Definition M := Eval vm_compute in %s 0 cases.\nPrint M.\n" % fn)
        rc, o = coq_eval("%s_%d" % (name, s), v, timeout=900)
        lst = parse_zlist(o, "M")
        if rc != 0 or lst is None:
            return mism, "coq evaluation failed (rc %d): %s" % (rc, o[-1500:])
        for i in range(0, len(lst), 2):
            mism.append((s + lst[i], lst[i + 1]))
    return mism, None


def engines_agree(c):
    """oracle for C01: both engines produce the same projected observables (exhaustion excepted)."""
    a, b = c["engines"]["interp"], c["engines"]["compiler"]
    if a.get("err") or b.get("err"):
        return "engine error: interp=%s compiler=%s" % (a.get("err"), b.get("err"))
    for i, (x, y) in enumerate(zip(a["obs"], b["obs"])):
        if x != y:
            if "exhaust" in (x.get("trap"), y.get("trap")):
                return None  # the permitted divergence; later observations are not comparable
            return "call %d: interpreter %s, compiler %s" % (i, x, y)
    for k in ("hlog", "globals", "mem", "pages"):
        if a.get(k) != b.get(k):
            return "final %s differs: interpreter %s, compiler %s" % (k, str(a.get(k))[:200], str(b.get(k))[:200])
    return None
