"""C15 — WASI calls are safe for any argument values."""
import json, os, re, concurrent.futures
from vcheck import *

FILL = 0xA5
CTOR = {
    "args_get": "ArgsGet", "args_sizes_get": "ArgsSizesGet", "environ_get": "EnvironGet", "environ_sizes_get": "EnvironSizesGet",
    "clock_res_get": "ClockResGet", "clock_time_get": "ClockTimeGet", "fd_advise": "FdAdvise", "fd_allocate": "FdAllocate",
    "fd_close": "FdClose", "fd_datasync": "FdDatasync", "fd_fdstat_get": "FdFdstatGet", "fd_fdstat_set_flags": "FdFdstatSetFlags",
    "fd_fdstat_set_rights": "FdFdstatSetRights", "fd_filestat_get": "FdFilestatGet", "fd_filestat_set_size": "FdFilestatSetSize",
    "fd_filestat_set_times": "FdFilestatSetTimes", "fd_pread": "FdPread", "fd_prestat_get": "FdPrestatGet",
    "fd_prestat_dir_name": "FdPrestatDirName", "fd_pwrite": "FdPwrite", "fd_read": "FdRead", "fd_readdir": "FdReaddir",
    "fd_renumber": "FdRenumber", "fd_seek": "FdSeek", "fd_sync": "FdSync", "fd_tell": "FdTell", "fd_write": "FdWrite",
    "path_create_directory": "PathCreateDirectory", "path_filestat_get": "PathFilestatGet",
    "path_filestat_set_times": "PathFilestatSetTimes", "path_link": "PathLink", "path_open": "PathOpen",
    "path_readlink": "PathReadlink", "path_remove_directory": "PathRemoveDirectory", "path_rename": "PathRename",
    "path_symlink": "PathSymlink", "path_unlink_file": "PathUnlinkFile", "poll_oneoff": "PollOneoff", "proc_exit": "ProcExit",
    "proc_raise": "ProcRaise", "sched_yield": "SchedYield", "random_get": "RandomGet", "sock_accept": "SockAccept",
    "sock_recv": "SockRecv", "sock_send": "SockSend", "sock_shutdown": "SockShutdown",
}
# expected parameter types of the real host module (0x7f i32, 0x7e i64): a change of a signature breaks the roles assumed by the harness
I32, I64 = 0x7f, 0x7e
SIG = {
    "args_get": [I32] * 2, "args_sizes_get": [I32] * 2, "environ_get": [I32] * 2, "environ_sizes_get": [I32] * 2,
    "clock_res_get": [I32] * 2, "clock_time_get": [I32, I64, I32], "fd_advise": [I32, I64, I64, I32], "fd_allocate": [I32, I64, I64],
    "fd_close": [I32], "fd_datasync": [I32], "fd_fdstat_get": [I32] * 2, "fd_fdstat_set_flags": [I32] * 2,
    "fd_fdstat_set_rights": [I32, I64, I64], "fd_filestat_get": [I32] * 2, "fd_filestat_set_size": [I32, I64],
    "fd_filestat_set_times": [I32, I64, I64, I32], "fd_pread": [I32, I32, I32, I64, I32], "fd_prestat_get": [I32] * 2,
    "fd_prestat_dir_name": [I32] * 3, "fd_pwrite": [I32, I32, I32, I64, I32], "fd_read": [I32] * 4,
    "fd_readdir": [I32, I32, I32, I64, I32], "fd_renumber": [I32] * 2, "fd_seek": [I32, I64, I32, I32], "fd_sync": [I32],
    "fd_tell": [I32] * 2, "fd_write": [I32] * 4, "path_create_directory": [I32] * 3, "path_filestat_get": [I32] * 5,
    "path_filestat_set_times": [I32, I32, I32, I32, I64, I64, I32], "path_link": [I32] * 7,
    "path_open": [I32, I32, I32, I32, I32, I64, I64, I32, I32], "path_readlink": [I32] * 6, "path_remove_directory": [I32] * 3,
    "path_rename": [I32] * 6, "path_symlink": [I32] * 5, "path_unlink_file": [I32] * 3, "poll_oneoff": [I32] * 4,
    "proc_exit": [I32], "proc_raise": [I32], "sched_yield": [], "random_get": [I32] * 2, "sock_accept": [I32] * 3,
    "sock_recv": [I32] * 6, "sock_send": [I32] * 5, "sock_shutdown": [I32] * 2,
}
IOV_READ = {"fd_pread": (1, 2), "fd_read": (1, 2), "sock_recv": (1, 2)}
IOV_WRITE = {"fd_pwrite": (1, 2), "fd_write": (1, 2), "sock_send": (1, 2)}
EFAULT_W, ERRNO_MAX = 21, 76
# functions whose host operation can only fail in a few ways: other error numbers must be explained by the guards of the model
HOST_ERRNOS = {"fd_prestat_get": {8, 29}, "fd_prestat_dir_name": {8, 29}, "fd_fdstat_get": {8, 29}, "fd_filestat_get": {8, 29},
               "random_get": {29}, "fd_seek": {8, 28, 29, 31, 52}, "fd_tell": {8, 28, 29, 31, 52}, "fd_close": {8, 29}}


def errno_tables():
    """sys.Errno -> wasi errno, parsed from the regenerated Gen files (so the numbering follows the source)."""
    src = open(os.path.join(COQ, "Gen", "GenWasip1.v")).read()
    body = src[src.index("Definition ToErrno"):]
    pairs = re.findall(r"\(errno =\? (\d+)\) then\s+(\d+)", body)
    fwd = {int(a): int(b) for a, b in pairs}
    inv = {}
    for a, b in sorted(fwd.items()):
        if a != 0:
            inv.setdefault(b, a)
    return fwd, inv


class Pre:
    """guest memory before the call: placed bytes over the fill pattern"""
    def __init__(self, c):
        self.ms = c["ms"]
        self.b = {}
        for addr, hx in (c.get("placed") or []):
            for i, x in enumerate(bytes.fromhex(hx)):
                self.b[addr + i] = x

    def u(self, addr, n):
        if addr < 0 or addr + n > self.ms:
            return None
        return sum(self.b.get(addr + i, FILL) << (8 * i) for i in range(n))


def iovecs(pre, iovs, cnt):
    out = []
    n = min(cnt, max(0, (pre.ms - iovs) // 8) if iovs <= pre.ms else 0)
    for i in range(n):
        o, l = pre.u(iovs + 8 * i, 4), pre.u(iovs + 8 * i + 4, 4)
        if o is None or l is None:
            break
        out.append((o, l))
    return out


def overlaps(a, b):
    return a[1] > 0 and b[1] > 0 and a[0] < b[0] + b[1] and b[0] < a[0] + a[1]


def designated(c, pre):
    """output regions the signature designates (model-independent): list of (off, len), and an aliasing flag"""
    fn, a, ms = c["fn"], c["args"], c["ms"]
    argc, argsz = len(c["arglens"]), sum(l + 1 for l in c["arglens"])
    envc, envsz = len(c["envlens"]), sum(l + 1 for l in c["envlens"])
    R, alias = [], False
    if fn == "args_get": R = [(a[0], 4 * argc), (a[1], argsz)]
    elif fn == "environ_get": R = [(a[0], 4 * envc), (a[1], envsz)]
    elif fn in ("args_sizes_get", "environ_sizes_get"): R = [(a[0], 4), (a[1], 4)]
    elif fn == "clock_res_get": R = [(a[1], 8)]
    elif fn == "clock_time_get": R = [(a[2], 8)]
    elif fn == "fd_fdstat_get": R = [(a[1], 24)]
    elif fn == "fd_filestat_get": R = [(a[1], 64)]
    elif fn == "fd_prestat_get": R = [(a[1], 8)]
    elif fn == "fd_prestat_dir_name": R = [(a[1], a[2])]
    elif fn in ("fd_pwrite", "fd_pread"): R = [(a[4], 4)]
    elif fn in ("fd_write", "fd_read"): R = [(a[3], 4)]
    elif fn == "fd_readdir": R = [(a[1], a[2]), (a[4], 4)]
    elif fn == "fd_seek": R = [(a[3], 8)]
    elif fn == "fd_tell": R = [(a[1], 8)]
    elif fn == "path_filestat_get": R = [(a[4], 64)]
    elif fn == "path_open": R = [(a[8], 4)]
    elif fn == "path_readlink": R = [(a[3], a[4]), (a[5], 4)]
    elif fn == "poll_oneoff":
        R = [(a[1], 32 * a[2]), (a[3], 4)]
        # the subscriptions are only read once both regions were accepted; then writes to `out`/`nevents` may change later subscriptions
        if a[0] + 48 * a[2] <= ms and a[1] + 32 * a[2] <= ms and (
                overlaps((a[0], 48 * a[2]), (a[1], 32 * a[2])) or overlaps((a[0], 48 * a[2]), (a[3], 4))): alias = True
    elif fn == "random_get": R = [(a[0], a[1])]
    elif fn == "sock_accept": R = [(a[2], 4)]
    elif fn == "sock_recv": R = [(a[4], 4), (a[5], 2)]
    elif fn == "sock_send": R = [(a[4], 4)]
    if fn in IOV_READ:
        iovs, cnt = a[1], a[2]
        ent = iovecs(pre, iovs, max(cnt, 1) if fn == "sock_recv" else cnt)
        arr = (iovs, 8 * len(ent))
        for r in ent:
            if overlaps(r, arr): alias = True
        R += ent
    return R, alias


def merge(regs, ms):
    iv = sorted((max(0, o), min(ms, o + l)) for o, l in regs if l > 0 and o < ms)
    out = []
    for lo, hi in iv:
        if hi <= lo: continue
        if out and lo <= out[-1][1]: out[-1][1] = max(out[-1][1], hi)
        else: out.append([lo, hi])
    return out


def inside(diff, merged):
    for o, l in diff:
        if not any(lo <= o and o + l <= hi for lo, hi in merged):
            return (o, l)
    return None


def table_changes(c):
    key = lambda t: (t["pre"], t["dir"], t["namelen"], t["sock"])
    b = {t["fd"]: key(t) for t in (c["tbl"] or [])}
    a = {t["fd"]: key(t) for t in (c["tbl_after"] or [])}
    return sorted(fd for fd in set(a) | set(b) if a.get(fd) != b.get(fd)), b, a


def i32(v):
    v &= 0xffffffff
    return v - (1 << 32) if v >= 1 << 31 else v


def oracle(c):
    """The property on the implementation's observations alone. Returns (kind, text) of the first contradiction, or None."""
    fn, a, ms, res = c["fn"], c["args"], c["ms"], c["res"]
    if c["tag"] == "nomem":
        if res["kind"] not in ("errno", "exit"):
            return ("no-memory-guest-go-runtime-error", "guest without memory: %s -> %s" % (fn, res))
        return None
    if res["kind"] == "exit":
        if fn != "proc_exit" or res["errno"] != (a[0] & 0xffffffff):
            return ("undocumented-exit", "%s%s ended in exit %s" % (fn, a, res))
    elif res["kind"] == "errno":
        if fn == "proc_exit": return ("proc-exit-returned", "proc_exit returned")
        if res["errno"] > ERRNO_MAX: return ("bad-errno", "%s%s returned %d" % (fn, a, res["errno"]))
    elif res["kind"] in ("gopanic", "hostpanic"):
        return ("go-runtime-error", "%s%s: %s" % (fn, a, res.get("msg")))
    else:
        return ("undocumented-trap", "%s%s: %s" % (fn, a, res))
    pre = Pre(c)
    # time: a call may only wait for as long as the guest asked. Only poll_oneoff waits at all, and then for at most
    # the smallest relative clock timeout among its subscriptions (nothing when there is no clock subscription)
    slept = [x for x in (c.get("slept") or []) if x > 0]
    if slept:
        budget = 0
        if fn == "poll_oneoff" and a[2] * 48 <= ms and a[0] + a[2] * 48 <= ms:
            tos = []
            for i in range(a[2]):
                base = a[0] + 48 * i
                if pre.u(base + 8, 1) == 0 and pre.u(base + 40, 2) == 0:
                    t = pre.u(base + 24, 8)
                    tos.append(t if t < 1 << 63 else 0)
            budget = min(tos) if tos else 0
        if sum(slept) > budget:
            return ("sleeps-longer-than-asked", "%s%s slept %s ns; the guest's subscriptions allow at most %d ns%s" %
                    (fn, a, slept, budget, "" if fn != "poll_oneoff" else " (no relative clock subscription)" if budget == 0 else ""))
    R, alias = designated(c, pre)
    if not alias:
        bad = inside(c.get("diff") or [], merge(R, ms))
        if bad is not None:
            return ("write-outside-designated", "%s%s changed bytes [%d,+%d) outside %s (memory %d)" % (fn, a, bad[0], bad[1], R[:6], ms))
    for o, l in (c.get("diff") or []):
        if o + l > ms: return ("write-outside-memory", "%s%s diff %s" % (fn, a, (o, l)))
    if c["alloc"] > 65536 + 64 * ms:
        kind = "alloc-proportional-to-fd" if (fn == "fd_renumber" and c["tcap_after"] > c["tcap"]) else "alloc-unbounded"
        return (kind, "%s%s allocated %d bytes with %d bytes of guest memory (table capacity %d -> %d)" %
                (fn, a, c["alloc"], ms, c["tcap"], c["tcap_after"]))
    if not c["tbl_wf"]:
        return ("table-corrupt", "%s%s left the descriptor table ill-formed" % (fn, a))
    ch, b, af = table_changes(c)
    if res["kind"] == "exit":
        return None
    allowed = set()
    if fn == "fd_close": allowed = {i32(a[0])}
    elif fn == "fd_renumber": allowed = {i32(a[0]), i32(a[1])}
    elif fn in ("path_open", "sock_accept"):
        new = [fd for fd in ch if fd not in b]
        if len(new) <= 1 and res["errno"] == 0: allowed = set(new)
    if not set(ch) <= allowed:
        return ("table-changed", "%s%s -> %s changed descriptors %s (allowed %s)" % (fn, a, res, ch, sorted(allowed)))
    if res["errno"] != 0 and ch:
        return ("table-changed", "%s%s failed with %d but changed descriptors %s" % (fn, a, res["errno"], ch))
    return None


# ---------------------------------------------------------------------------------------------- Coq cases

def zl(xs): return "[" + "; ".join(str(x) for x in xs) + "]"
def zp(xs): return "[" + "; ".join("(%d, %d)" % tuple(x) for x in xs) + "]"
def cb(b): return "true" if b else "false"


def coq_case(c, inv):
    """returns the Coq term of the case, or (None, reason) when the case cannot be compared with the model"""
    fn, a, ms, res = c["fn"], c["args"], c["ms"], c["res"]
    if c["tag"] == "nomem": return None, "no-memory"
    pre = Pre(c)
    tbl = {t["fd"]: t for t in (c["tbl"] or [])}
    iovs = inp = 0
    need = []
    skip = None
    if fn in IOV_READ or fn in IOV_WRITE:
        iovs, cnt = a[1], a[2]
        stop = (cnt << 3) & 0xffffffff
        if iovs + stop <= ms: need.append((iovs, stop))
        if fn == "sock_recv": need.append((iovs, 8))
        t = tbl.get(i32(a[0]))
        if fn in ("sock_recv", "sock_send") and t is not None and t["sock"] == 2: skip = "socket-transfer-unobservable"
        if fn in IOV_READ:
            _, alias = designated(c, pre)
            if alias: skip = "aliasing"
    if fn == "poll_oneoff":
        inp, nsub = a[0], a[2]
        if nsub * 48 <= 0xffffffff and inp + nsub * 48 <= ms: need.append((inp, nsub * 48))
        if designated(c, pre)[1]: skip = "aliasing"
    if skip: return None, skip
    dd = {}
    for addr, hx in (c.get("placed") or []):          # later placements overwrite earlier ones
        bs = bytes.fromhex(hx)
        for lo, ln in need:
            s, e = max(addr, lo), min(addr + len(bs), lo + ln)
            for x in range(s, e):
                if fn == "poll_oneoff" and (x - lo) % 48 not in (8, 16, 17, 18, 19, 40, 41): continue
                dd[x] = bs[x - addr]
    d = sorted(dd.items())
    env = "{| e_args := %s; e_envs := %s; e_tbl := [%s]; e_tcap := %d; e_ndir := 8 |}" % (
        zl(c["arglens"]), zl(c["envlens"]),
        "; ".join("(%d, {| f_pre := %s; f_dir := %s; f_namelen := %d; f_sock := %d; f_nonblock := %s |})" %
                  (t["fd"], cb(t["pre"]), cb(t["dir"]), t["namelen"] if t["namelen"] != 0 or not (t["pre"] and t["dir"]) else 0, t["sock"], cb(t["nb"]))
                  for t in (c["tbl"] or [])), c["tcap"] // 64)
    call = CTOR[fn] + "".join(" %d" % x for x in a)
    if res["kind"] == "errno": ob = (0, res["errno"])
    elif res["kind"] == "exit": ob = (1, 0)
    elif res["kind"] in ("gopanic", "hostpanic"): ob = (2, 0)
    else: ob = (3, 0)
    o = res["errno"] if res["kind"] == "errno" else 0
    es = [(0, 0, 0)]
    if res["kind"] in ("gopanic", "hostpanic"):
        es = [(inv.get(52, 13), 0, 0), (inv.get(63, 19), 0, 0)]      # File.Utimens unsupported: ENOSYS / EPERM
    elif o not in (0, EFAULT_W) and o in HOST_ERRNOS.get(fn, {o}):
        s = inv.get(o, 8)
        es = [(s, 0, 0), (0, s, 0), (0, 0, s)]
        if fn == "fd_filestat_set_times": es += [(inv.get(52, 13), s, 0), (inv.get(63, 19), s, 0)]
    elif fn == "fd_filestat_set_times" and o == 0:
        es += [(inv.get(52, 13), 0, 0), (inv.get(63, 19), 0, 0)]
    ns = [0]
    if fn == "fd_readdir": ns = sorted({0, 24, a[2], c.get("outval", 0) & 0xffffffff} | {l for (o_, l) in (c.get("diff") or []) if o_ == a[1]})
    elif fn == "path_readlink": ns = sorted({0, 5, a[4], a[4] + 1, c.get("outval", 0) & 0xffffffff})
    elif fn == "poll_oneoff": ns = [0, 1]
    rw = [(r[1], r[2]) for r in c.get("log") or []]
    calls = [r[0] for r in c.get("log") or []]
    rws = [rw]
    if (fn in IOV_READ or fn in IOV_WRITE) and not rw:
        # stdio of the other direction and preopened directories answer without reaching the logging wrappers
        calls = [-1]
        if o not in (0, EFAULT_W):
            es = [(0, 0, 0)]
            rws = [[(0, inv.get(o, 8))], [(0, inv.get(52, 13))]]
    hcs = "; ".join("(%d, %d, %d, %d, %s)" % (e1, e2, e3, n, zp(r_)) for (e1, e2, e3) in es for n in ns for r_ in rws)
    diff = c.get("diff") or []
    chg = []
    if res["kind"] != "exit":
        ch, before, _ = table_changes(c)
        named = {i32(x) for x in a} if fn == "fd_renumber" else set()
        chg = sorted({fd if (fd in before or fd in named) else -1 for fd in ch})
    return "(%s, %d, %s, %d, %d, %s, [%s], (%d, %d), %s, %s, %s)" % (env, ms, zp(d), iovs, inp, call, hcs, ob[0], ob[1], zp(diff), zl(calls), zl(chg)), None


def eval_shard(args):
    name, terms = args
    v = ("From Verif Require Import Lib.GoInt Rt.MemInst Sys.WasiGuard.\nOpen Scope Z_scope.\n"
         "Definition cases : list case := [\n" + ";\n".join(terms) + "].\n"
         "Definition M := Eval vm_compute in mismatches 0 cases.\nPrint M.\n")
    rc, o = coq_eval(name, v)
    return rc, o, parse_zlist(o, "M")


def run(tier, seed):
    ck = Check("C15", tier, seed)
    ck.trusted += ["tools/go2coq (Go->Gallina: MemoryInstance.hasSize, wasip1.ToErrno and the wasip1/sys constants used by the guards)",
                   "hand transcription of the 46 argument skeletons in coq/Sys/WasiGuard.v (fs.go, poll.go, args.go, environ.go, clock.go, random.go, "
                   "sock.go, proc.go, wasi.go, internal/sys/fs.go Renumber/SockAccept/CloseFile, descriptor/table.go InsertAt), tied by the correspondence run",
                   "harness/c15 (proxy guest built with harness/common, logging stdio/FS wrappers, go build -overlay accessors of the descriptor table) and checks/c15.py (oracle, case conversion)"]
    ck.assumptions += ["what the host OS answers (errno of host file operations, bytes transferred, directory bytes) is universally quantified in the theorems and supplied from the observation in the correspondence run",
                       "DirentCache/maxDirents return at most buf_len bytes (C16's Dirent model); host path names are at most 4096 bytes; args/environ sizes fit 32 bits (checked by sys.NewContext)",
                       "heap growth is measured as runtime.MemStats.TotalAlloc deltas around each call; bound 64 KiB + 64 x memory size",
                       "socket transfers (sock_recv/sock_send on an accepted connection) are compared by the oracle only: their reader/writer calls are not observable"]
    proofs_ok = ck.proofs()
    n = 100 if tier == "quick" else 1500
    if not proofs_ok: n *= 2
    binp, log = build_harness("c15")
    if not binp:
        ck.violation("harness-build", {"kind": "build"}, {"log": log[-3000:]}, no_input=True)
        return ck.finish()
    # the whole run is capped: a descriptor table or buffer growing towards GiB kills the child, never the box
    cmd = "ulimit -v 6000000; exec %s -seed %d -n %d -compiler-every %d -corpus %s" % (
        binp, seed, n, 8, os.path.join(ROOT, "corpus", "C15", "fixed.json"))
    rc, outp = sh(["bash", "-c", cmd], timeout=3000)
    cases, sigs, nxt = [], None, None
    for ln in outp.split("\n"):
        if ln.startswith("{"):
            try: j = json.loads(ln)
            except ValueError: continue
            if "sigs" in j: sigs = j["sigs"]
            elif "fatal" in j:
                ck.violation("harness-crash", {"kind": "crash"}, {"fatal": j["fatal"]}, no_input=True)
                return ck.finish()
            elif "next" in j: nxt = j
            elif "fn" in j: cases.append(j)
    if rc != 0 or not cases:
        # the call announced last did not return: the process died in it (fatal runtime error such as out of memory under the cap, or a hang)
        ck.violation("harness-crash", {"kind": "crash", "fn": nxt["next"] if nxt else None},
                     {"rc": rc, "tail": outp[-3000:], "call": nxt}, no_input=nxt is None)
        return ck.finish()
    # signatures of the real module vs the roles assumed
    for fn, exp in SIG.items():
        got = (sigs or {}).get(fn)
        if got is None or list(got["params"] or []) != exp or got["roles"] != len(exp):
            ck.violation("signature-changed", {"kind": "signature-changed", "fn": fn}, {"expected": exp, "got": got}, no_input=True)
    for fn in (sigs or {}):
        if fn not in SIG:
            ck.violation("signature-changed", {"kind": "new-function", "fn": fn}, {"got": sigs[fn]}, no_input=True)
    ck.cases = len(cases)
    fwd, inv = errno_tables()
    dist = {"functions": {}, "result": {}, "errno": {}, "engine": {}, "memory_bytes": {}, "tag": {}, "not_compared": {}, "with_diff": 0,
            "table_sizes": {}}
    seen = set()
    for c in cases:
        dist["functions"][c["fn"]] = dist["functions"].get(c["fn"], 0) + 1
        dist["result"][c["res"]["kind"]] = dist["result"].get(c["res"]["kind"], 0) + 1
        if c["res"]["kind"] == "errno": dist["errno"][str(c["res"]["errno"])] = dist["errno"].get(str(c["res"]["errno"]), 0) + 1
        dist["engine"][c["eng"]] = dist["engine"].get(c["eng"], 0) + 1
        dist["memory_bytes"][str(c["ms"])] = dist["memory_bytes"].get(str(c["ms"]), 0) + 1
        dist["tag"][c["tag"]] = dist["tag"].get(c["tag"], 0) + 1
        dist["table_sizes"][str(len(c["tbl"]))] = dist["table_sizes"].get(str(len(c["tbl"])), 0) + 1
        if c.get("diff"): dist["with_diff"] += 1
        if c["tag"] != "prelude": seen.add(json.dumps([c["fn"], c["args"], c["ms"], [t["fd"] for t in c["tbl"]]]))
    ck.distinct = len(seen)
    ck.samples = [dict(fn=c["fn"], args=c["args"], memory=c["ms"], table=[t["fd"] for t in c["tbl"]], result=c["res"], diff=(c.get("diff") or [])[:4])
                  for c in cases[:400:57]]
    ck.extra["rule"] = ("each of the 46 functions called through the proxy guest with tuples from the boundary product of its pointers/lengths/counts/"
                        "descriptors/flags (all valid, one boundary parameter swept, random mixes) after short table-varying preludes, generated from VERIF_SEED; "
                        "non-trivial = not a prelude call; distinct by (function, arguments, memory size, descriptor set)")
    # model evaluation in shards, in parallel
    terms, idxs = [], []
    for i, c in enumerate(cases):
        t, why = coq_case(c, inv)
        if t is None:
            dist["not_compared"][why] = dist["not_compared"].get(why, 0) + 1
            continue
        terms.append(t); idxs.append(i)
    SH = 250
    shards = [("c15_%d_%d" % (seed, s), terms[s:s + SH]) for s in range(0, len(terms), SH)]
    mism = {}
    with concurrent.futures.ThreadPoolExecutor(max_workers=8) as ex:
        for k, (rc, o, lst) in enumerate(ex.map(eval_shard, shards)):
            if rc != 0 or lst is None:
                ck.violation("model-eval", {"kind": "model-eval"}, {"rc": rc, "out": o[-2000:]}, no_input=True)
                ck.dist = dist
                return ck.finish()
            for j in range(0, len(lst), 2):
                mism[idxs[k * SH + lst[j]]] = lst[j + 1]
    ck.extra["model_compared"] = len(terms)
    ck.extra["model_mismatches"] = len(mism)
    ck.dist = dist
    reported = {}
    for i, c in enumerate(cases):
        why = oracle(c)
        if why is None and i not in mism:
            continue
        fn = c["fn"]
        if why is not None:
            sig = {"kind": why[0], "fn": "any" if why[0].startswith("no-memory") else fn}
        else:
            sig = {"kind": "model-differs", "fn": fn}
        key = (sig["kind"], sig["fn"])
        reported[key] = reported.get(key, 0) + 1
        if reported[key] > 1:
            continue
        detail = {"oracle": why and why[1], "model_mismatch": i in mism,
                  "case": {k: c[k] for k in ("fn", "args", "eng", "ms", "tag", "tbl", "tcap", "res", "diff", "tbl_after", "tcap_after", "alloc", "log", "world", "seq")},
                  "placed": c.get("placed")}
        ck.violation(sig["kind"], sig, detail, no_input=(why is None))
    ck.extra["violation_classes"] = {"%s/%s" % k: v for k, v in reported.items()}
    if not proofs_ok and not any(not v["no_input"] for v in ck.violations):
        ck.violation("proof-broken", {"kind": "proof-broken"}, getattr(ck, "proof_failure", {}), no_input=True)
    return ck.finish()
