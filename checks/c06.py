"""C06 — traps, exits and host panics are contained and leave the runtime usable."""
import json
from vcheck import *
from wcommon import *
import c06x


def run(tier, seed):
    ck = Check("C06", tier, seed)
    ck.trusted += ["coq/Engine/CallEngine.v: hand transcription of callWithStack's deferred closure + dispatch loop and of callEngine.call/recoverOnCall; tied by reading execCtx.exitCode / len(stack), len(frames) from the real call engines after every call (overlay exports in harness/c06/x_*.go)", "coq/Wasm/Sem.v (host functions that return, panic, exit, re-enter), tied to both engines call by call", "harness/c06, generator, checks/c06.py"]
    ck.assumptions += ["after a guest exit the module is closed: the model is compared up to the exiting call and the oracle checks that every later call reports the same exit code",
                       "stack exhaustion is compared as a class (the engines' limits differ); native unwinding is exercised, not modelled"]
    proofs_ok = ck.proofs()
    n = 140 if tier == "quick" else 3000
    binp, log = build_harness("c06")
    if not binp:
        ck.violation("harness-build", {"kind": "build"}, {"log": log[-3000:]}, no_input=True)
        return ck.finish()
    nx = 70 if tier == "quick" else 700
    rc, out = sh([binp, "-seed", str(seed), "-n", str(n), "-nx", str(nx)], timeout=1200)
    lines = jlines(out)
    starts = [x for x in lines if x.get("kind") == "startfail"]
    xcases = [x for x in lines if x.get("kind") == "xlinked"]
    cases = [x for x in lines if x.get("kind") not in ("startfail", "xlinked")]
    if rc != 0 or not cases:
        ck.violation("process-crash", {"kind": "process-crash"}, {"rc": rc, "tail": out[-3000:]})
        return ck.finish()
    ck.cases = len(cases) * 2
    dist = {"calls": 0, "outcomes": {}, "histories_with_failure": 0, "calls_after_a_failure": 0, "model_out_of_fuel": 0}
    for c in cases:
        failed = False
        for o in c["engines"]["interp"].get("obs") or []:
            dist["calls"] += 1
            k = (o.get("trap") or "values").split(":")[0]
            dist["outcomes"][k] = dist["outcomes"].get(k, 0) + 1
            if failed: dist["calls_after_a_failure"] += 1
            if o.get("trap"): failed = True
        if failed: dist["histories_with_failure"] += 1
    ck.dist = dist
    ck.distinct = len(set(c["wasm"] + str(c["calls"]) for c in cases))
    ck.samples = [dict(calls=c["calls"], compiler=c["engines"]["compiler"].get("obs")) for c in cases[:3]]
    ck.extra["rule"] = ("generated programs with host imports that panic (three Go value kinds), exit (CloseWithExitCode + ExitError), propagate the exit of a nested helper instance (caller stays open) and re-enter the guest, plus unbounded recursion; "
                        "histories of 4-9 calls reusing the same api.Function objects on both engines; non-trivial = history contains a failing call followed by further calls")
    shown = set()
    def viol(kind, sig, detail, **kw):
        if kind in shown: return
        shown.add(kind); ck.violation(kind, sig, detail, **kw)
    # failing start functions: documented error, nothing of the half-made instance stays behind, the rest keeps working
    dist["start_function_failures"] = len(starts)
    want_err = {"trap": "trap:unreachable", "exit-self": "exit:7", "exit-lib": "exit:7", "panic": "panic:boom"}
    if len(starts) != 24:
        viol("startfail-missing", {"kind": "startfail-missing"}, {"got": len(starts)}, no_input=True)
    for sf in starts:
        why = []
        if sf["err"] != want_err[sf["how"]]: why.append("InstantiateModule returned error class %r, expected %r" % (sf["err"], want_err[sf["how"]]))
        if sf["returned_module_open"]: why.append("the module handed back together with the error is still open")
        if sf["registered"]: why.append("Runtime.Module(\"app\") still finds the failed instance (IsClosed=%s)" % sf["reg_closed"])
        if sf["retake"] != "ok" or sf["retake_res"] != 42: why.append("the name cannot be taken by a working module afterwards: %s (f() = %s)" % (sf["retake"], sf["retake_res"]))
        if sf["other_res"] != 42: why.append("an untouched instance no longer works: f() = %s" % sf["other_res"])
        if sf["lib_open"] != (sf["how"] != "exit-lib"): why.append("lib open=%s" % sf["lib_open"])
        if sf["second_err"] not in ("lib-closed", want_err[sf["how"]]): why.append("the same failing instantiation a second time: %r" % sf["second_err"])
        if why:
            viol("start-failure-" + sf["how"] + "-" + sf["mech"] + "-" + sf["engine"], {"kind": "start-failure", "how": sf["how"], "mech": sf["mech"], "engine": sf["engine"]},
                 {"oracle": why, "observed": sf, "scenario": "runtime with host module xenv (quit = close the CALLING module + exit error; boom = panic), instance lib (its quit calls xenv.quit), "
                  "instance other; then InstantiateWithConfig(app, name 'app') whose start function (%s) does: %s" % (sf["mech"], sf["how"])})
    for eng in ("interp", "compiler"):
        items, idx, cuts = [], [], []
        for i, c in enumerate(cases):
            eo = c["engines"][eng]
            if eo.get("err"):
                viol("escaped-" + eng, {"kind": "escaped", "engine": eng}, {"err": eo["err"], "case": c}); continue
            obs = eo["obs"]
            # oracle: documented error kinds only; the module is closed exactly by its own exit (host 11 with a
            # multiple of 4); from then on no call succeeds; an exit propagated from a nested instance (host 13)
            # leaves the module open and later calls are compared with the model like any other
            cut = eo.get("closed_at", -1)
            cut = None if cut is None or cut < 0 else cut
            for j, o in enumerate(obs):
                t = o.get("trap") or ""
                if t.startswith("other:"):
                    viol("undocumented-error", {"kind": "undocumented-error", "engine": eng}, {"call": j, "obs": o, "case": c})
                if cut is not None and j > cut and not t:
                    viol("call-after-exit", {"kind": "call-after-exit", "engine": eng}, {"call": j, "obs": o, "case": c})
            own_exit = any(e[0] == 11 and e[1] % 4 == 0 for e in (eo.get("hlog") or []))
            if (cut is not None) != own_exit or eo.get("closed") != own_exit:
                viol("closed-flag", {"kind": "closed-flag", "engine": eng}, {"closed": eo.get("closed"), "closed_at": cut, "own_exit_in_host_log": own_exit, "case": c})
            if cut is not None and not (obs[cut].get("trap") or "").startswith("exit:"):
                viol("closed-flag", {"kind": "closed-without-exit-error", "engine": eng}, {"closed_at": cut, "obs": obs[cut], "case": c})
            # model comparison: W does not model the closed flag (after an exit, re-entrant calls fail and successful calls
            # report the exit), so a history is compared up to and including its first exiting call; the final state
            # (host log, globals, memory) is compared only for histories without an exit
            cc, e2 = dict(c), dict(eo)
            if cut is not None:
                cc["calls"] = c["calls"][:cut + 1]; e2["obs"] = obs[:cut + 1]
            items.append("{| f_case := %s; f_reent := %d |}" % (coq_dcase(cc, e2), c["reent"])); idx.append(i); cuts.append(cut)
        mism, err = eval_dcases("c06_" + eng, items, fn="fmismatches")
        if err:
            viol("model-eval", {"kind": "model-eval"}, {"err": err}, no_input=True); break
        for k, code in mism:
            if code == -3:
                dist["model_out_of_fuel"] += 1; continue
            if code >= 1000 and cuts[k] is not None: continue
            viol("engine-vs-spec-" + eng, {"kind": "engine-vs-spec", "engine": eng},
                 {"code": code, "meaning": "i>=0 first differing call; 1000 host log; 1001 globals; 1002 memory; 1003 pages", "case": cases[idx[k]]})
    # ---- the call engines' call-boundary state (Engine/CallEngine.v): per api.Function object, the outcome classes of
    # its calls in order and the state read from the real call engine after each; the model replays the canonical
    # trace of every outcome class and must leave the same state (compiler: exit code; interpreter: empty stacks)
    ce_items, ce_idx, ie_items, ie_idx = [], [], [], []
    dist["call_engine_states_read"] = 0
    for i, c in enumerate(cases):
        for eng in ("compiler", "interp"):
            eo = c["engines"][eng]
            if eo.get("err") or not eo.get("ce"): continue
            per_fn = {}
            cut = eo.get("closed_at", -1)
            for j, (cl, o, st) in enumerate(zip(c["calls"], eo["obs"], eo["ce"])):
                if cut is not None and cut >= 0 and j > cut: break      # after the module is closed calls fail before reaching the engine
                t = o.get("trap") or ""
                cls = trap_code(t) if t else 0
                if t and cls == 0: continue
                per_fn.setdefault(cl[0], []).append((cls, st))
                dist["call_engine_states_read"] += 1
            for fn, seq in per_fn.items():
                if eng == "compiler":
                    ce_items.append("[" + "; ".join("(%d, %d)" % (cls, 0 if st[0] == 0 else 1) for cls, st in seq) + "]"); ce_idx.append((i, fn, seq))
                else:
                    ie_items.append("[" + "; ".join("(%d, %d)" % (st[0], st[1]) for cls, st in seq) + "]"); ie_idx.append((i, fn, seq))
    for name, items, idx, fn_ in (("c06_ce", ce_items, ce_idx, "ce_mismatches"), ("c06_ie", ie_items, ie_idx, "ie_mismatches")):
        if not items: continue
        mism, err = eval_dcases(name, items, shard=4000, imports="Engine.CallEngine", fn=fn_)
        if err:
            viol("model-eval", {"kind": "model-eval", "what": "call-engine"}, {"err": err}, no_input=True); continue
        for k, code in mism[:2]:
            ci, fn, seq = idx[k]
            viol("call-engine-state", {"kind": "call-engine-state", "engine": "compiler" if name == "c06_ce" else "interp"},
                 {"function": fn, "calls_on_this_function_object": [dict(outcome_class=cls, state_after=st) for cls, st in seq],
                  "first_differing_call_on_the_object": code,
                  "meaning": "compiler: state = [execCtx.exitCode, -1], must be 0 (ExitCodeOK) after every call; interpreter: [len(stack), len(frames)], must be [0, 0]; 1000+i: the model's outcome class of call i differs",
                  "case": cases[ci]})
    for c in cases:
        a, b = c["engines"]["interp"], c["engines"]["compiler"]
        if a.get("err") or b.get("err"): continue
        if [o for o in a["obs"]] != [o for o in b["obs"]]:
            viol("engines-differ", {"kind": "engines-differ"}, {"case": c})
        if a.get("other") != b.get("other"):
            viol("other-instance-differs", {"kind": "other-instance"}, {"case": c})
    c06x.xlinked_part(ck, xcases, viol, dist)
    if not proofs_ok and not ck.violations:
        ck.violation("proof-broken", {"kind": "proof-broken"}, getattr(ck, "proof_failure", {}), no_input=True)
    return ck.finish()
