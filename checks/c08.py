"""C08 — values cross the host/guest boundary unchanged."""
import json
from vcheck import *

KIND = {"u32": "KU32", "i32": "KI32", "u64": "KU64", "i64": "KI64", "f32": "KF32", "f64": "KF64", "ptr": "KPtr"}
VT = {"i32": "VI32", "i64": "VI64", "f32": "VF32", "f64": "VF64", "externref": "VExternref"}
M32, M64 = (1 << 32) - 1, (1 << 64) - 1


def is32(t): return t in ("i32", "f32")


def is_snan32(b): return (b >> 23) & 0xff == 0xff and (b & 0x7fffff) != 0 and not (b >> 22) & 1


def val_of_slot(k, s):
    """the Go value of kind k denoted by the canonical slot s"""
    if k == "i32": return s - (1 << 32) if s >> 31 else s
    if k == "i64": return s - (1 << 64) if s >> 63 else s
    return s


def slot_of_val(k, v):
    """the canonical (zero-extended) slot of a Go value"""
    if k == "i32": return v & M32
    if k == "i64": return v & M64
    return v


def observed(c, name, types):
    """result slots as the property sees them: the interpreter hands out (and relies on) zero-extended slots, so they are
    compared raw; the compiler's entry preamble stores only 4 bytes of a 32-bit result (documented: decode with api.Decode*)."""
    xs = c.get(name) or []
    if c["engine"] == "compiler":
        return [x & M32 if is32(t) else x for x, t in zip(xs, types)]
    return list(xs)


def z(v):
    """cheap numerals (Lib/CaseNum.v): Coq's decimal Z notation costs ~1 ms per 64-bit literal"""
    if v < 0:
        return "(zn %d)" % -v if -v < 1 << 62 else "(znh %d %d)" % ((-v) >> 32, (-v) & M32)
    return "(zi %d)" % v if v < 1 << 62 else "(zh %d %d)" % (v >> 32, v & M32)


def call_values(c):
    """the distinct boundary crossings of one call: (style, dir, kind, input, observed)"""
    if c.get("err"): return []
    pt, rt, pk, rk = c["pt"] or [], c["rt"] or [], c["pk"] or [], c["rk"] or []
    st = "Refl" if c["style"] == "reflect" else "Api"
    out = [(st, 0, k, a, s) for k, a, s in zip(pk, c["args"] or [], c["seen"] or [])]
    out += [(st, 1, k, v, g) for k, v, g in zip(rk, c["hret"] or [], observed(c, "got", rt))]
    if c["reent"]:
        out += [(st, 2, k, a, b) for k, a, b in zip(pk, c["args"] or [], observed(c, "back", pt))]
    return out


def coq_val(t): return "CVal %s %d %s %s %s" % (t[0], t[1], KIND[t[2]], z(t[3]), z(t[4]))


def coq_loc(x): return "LReg %d" % x[1] if x[0] == 0 else "LStack %d 8" % x[2]


def coq_abi(a):
    return "CAbi [%s] [%s] [%s] [%s] %d %d %d %d %d" % (
        "; ".join(VT[t] for t in a["pt"] or []), "; ".join(VT[t] for t in a["rt"] or []),
        "; ".join(coq_loc(x) for x in a["args"]), "; ".join(coq_loc(x) for x in a["rets"]),
        a["argstack"], a["retstack"], a["aligned"], a["gsa"], a["gsu"])


def oracle_call(c):
    """'bits out == bits in' on the implementation's observations alone. Returns a list of (where, index, kind, expected, observed)."""
    bad = []
    if c.get("err"):
        return [("error", 0, "", 0, c["err"][:300])]
    if c["calls"] != 1:
        return [("calls", 0, "", 1, c["calls"])]
    pt, rt, pk, rk = c["pt"] or [], c["rt"] or [], c["pk"] or [], c["rk"] or []
    args, seen, hret = c["args"] or [], c["seen"] or [], c["hret"] or []
    got, back = observed(c, "got", rt), observed(c, "back", pt)
    if len(seen) != len(args) or len(got) != len(hret) or (c["reent"] and len(back) != len(args)):
        return [("arity", 0, "", len(args), len(seen))]
    for i, (k, a, s) in enumerate(zip(pk, args, seen)):
        if val_of_slot(k, a) != s: bad.append(("param", i, k, val_of_slot(k, a), s))
    for j, (k, v, g) in enumerate(zip(rk, hret, got)):
        if slot_of_val(k, v) != g: bad.append(("result", j, k, slot_of_val(k, v), g))
    if c["reent"]:
        for i, (k, a, b) in enumerate(zip(pk, args, back)):
            if a != b: bad.append(("back", i, k, a, b))
    return bad


def only_snan_quieting(c, bad):
    if c["style"] != "reflect" or not bad: return False
    for where, i, k, exp, obs in bad:
        if k != "f32" or not isinstance(obs, int) or not is_snan32(exp) or obs != exp | 0x400000: return False
    return True


def oracle_abi(a):
    """pairwise disjoint locations, context pointers in rax/rbx, slots inside the reported areas"""
    for name, xs, size in (("args", a["args"], a["argstack"]), ("rets", a["rets"], a["retstack"])):
        regs = [x[1] for x in xs if x[0] == 0]
        offs = sorted(x[2] for x in xs if x[0] == 1)
        if len(set(regs)) != len(regs): return "%s: a register is assigned twice" % name
        for o, o2 in zip(offs, offs[1:] + [size]):
            if o + 8 > o2: return "%s: stack slots overlap or leave the area (%d, %d)" % (name, o, o2)
        if offs and offs[0] < 0: return "%s: negative offset" % name
    if [tuple(x[:2]) for x in a["args"][:2]] != [(0, 1), (0, 4)]: return "context pointers not in rax/rbx"
    if len(a["args"]) != 2 + len(a["pt"] or []) or len(a["rets"]) != len(a["rt"] or []): return "arity"
    return None


def run(tier, seed):
    ck = Check("C08", tier, seed)
    ck.trusted += ["tools/go2coq (api.EncodeI32/DecodeI32/EncodeU32/DecodeU32/EncodeI64/EncodeExternref/DecodeExternref regenerated from api/wasm.go)",
                   "hand transcription of wasm.callGoFunc (reflection marshalling per Go kind), of the float api helpers (bit reinterpretation) and of "
                   "FunctionABI.setABIArgs / amd64 register files in coq/Engine/HostCodec.v, each tied by the correspondence run",
                   "float32 values are modelled as moved bit-exactly by callGoFunc (reflect.Value.Convert between float32 kinds; F07 repaired); the pre-repair "
                   "float64 round trip survives only in a regression Example, and the harness replays fixed signalling-NaN witnesses on every run",
                   "harness/c08 (Go; its own plumbing is self-tested not to alter a signalling NaN) and checks/c08.py (case conversion, oracle)"]
    ck.assumptions += ["trampoline / entry-preamble machine code is exercised on amd64, not modelled instruction by instruction",
                       "callers pass canonical (api.Encode*) slots; 32-bit results are read through api.Decode* under the compiler "
                       "(its entry preamble leaves the upper half of a 32-bit result slot stale; the interpreter's slots are compared raw)",
                       "v128 is not part of any host function signature the builder accepts"]
    proofs_ok = ck.proofs()
    n, k = (800, 1) if tier == "quick" else (30000, 2)
    if not proofs_ok:
        n *= 2
    binp, log = build_harness("c08")
    if not binp:
        ck.violation("harness-build", {"kind": "build"}, {"log": log[-3000:]}, no_input=True)
        return ck.finish()
    rc, out = sh([binp, "-seed", str(seed), "-n", str(n), "-k", str(k)], timeout=3000)
    recs = jlines(out)
    calls = [r for r in recs if r["t"] == "call"]
    abis = [r for r in recs if r["t"] == "abi"]
    self_ok = any(r["t"] == "selftest" and r["ok"] for r in recs)
    if rc != 0 or not calls or not abis:
        ck.violation("harness-crash", {"kind": "crash"}, {"rc": rc, "tail": out[-3000:]}, no_input=False)
        return ck.finish()
    if not self_ok:
        ck.violation("harness-selftest", {"kind": "selftest"}, {"what": "the harness' own reflect plumbing altered a float32 bit pattern"}, no_input=True)
    values = {}
    for ci, c in enumerate(calls):
        for t in call_values(c):
            values.setdefault(t, ci)
    vlist = list(values)
    cases = abis + vlist
    ck.cases = len(abis) + len(calls)
    # ---- distribution
    dist = {"signatures": len(abis), "calls": len(calls), "engine": {}, "style": {}, "form": {}, "reentrant": 0, "reflect_ctx": {}, "arity_params": {},
            "arity_results": {}, "kinds": {}, "stack_args_sigs": 0, "stack_rets_sigs": 0, "odd_stack_slots_sigs": 0, "snan32_values": 0, "nan_values": 0,
            "negative_i32": 0, "compiler_result_upper_half_stale": 0, "compiler_host_slice_upper_half_stale": 0}
    def bump(d, k): d[k] = d.get(k, 0) + 1
    def bucket(n): return "0" if n == 0 else "1-6" if n <= 6 else "7-9" if n <= 9 else "10-16" if n <= 16 else "17-24"
    for a in abis:
        sa = sum(1 for x in a["args"] if x[0] == 1); sr = sum(1 for x in a["rets"] if x[0] == 1)
        dist["stack_args_sigs"] += sa > 0; dist["stack_rets_sigs"] += sr > 0; dist["odd_stack_slots_sigs"] += (sa + sr) % 2
        bump(dist["arity_params"], bucket(len(a["pt"] or []))); bump(dist["arity_results"], bucket(len(a["rt"] or [])))
    seen_keys = set()
    for c in calls:
        bump(dist["engine"], c["engine"]); bump(dist["style"], c["style"]); bump(dist["form"], c["form"]); dist["reentrant"] += c["reent"]
        if c["style"] == "reflect":
            bump(dist["reflect_ctx"], c["ctx"])
            dist["reflect_defined_types"] = dist.get("reflect_defined_types", 0) + (1 if c.get("defined") else 0)
        for kk in (c["pk"] or []) + (c["rk"] or []): bump(dist["kinds"], kk)
        for kk, v in list(zip(c["pk"] or [], c["args"] or [])) + [(kk, slot_of_val(kk, v)) for kk, v in zip(c["rk"] or [], c["hret"] or [])]:
            if kk == "f32" and is_snan32(v): dist["snan32_values"] += 1
            if (kk == "f32" and (v >> 23) & 0xff == 0xff and v & 0x7fffff) or (kk == "f64" and (v >> 52) & 0x7ff == 0x7ff and v & ((1 << 52) - 1)): dist["nan_values"] += 1
            if kk == "i32" and v >> 31: dist["negative_i32"] += 1
        if c["engine"] == "compiler":
            dist["compiler_result_upper_half_stale"] += sum(1 for x, t in zip(c.get("got") or [], c["rt"] or []) if is32(t) and x >> 32)
            dist["compiler_host_slice_upper_half_stale"] += sum(1 for x, t in zip(c.get("raw") or [], c["pt"] or []) if is32(t) and x >> 32)
        if (c["pt"] or c["rt"]):
            seen_keys.add(json.dumps([c["engine"], c["style"], c["ctx"], c["form"], c["reent"], c["pk"], c["rk"], c["args"], c["hret"]]))
    ck.dist = dist
    ck.distinct = len(seen_keys)
    ck.samples = [dict(engine=c["engine"], style=c["style"], form=c["form"], reent=c["reent"], pk=(c["pk"] or [])[:5], rk=(c["rk"] or [])[:5],
                       args=(c["args"] or [])[:5], seen=(c["seen"] or [])[:5], hret=(c["hret"] or [])[:5], got=(c.get("got") or [])[:5]) for c in calls[16:19]]
    ck.extra["rule"] = ("signatures (arity 0..24 over i32/i64/f32/f64/externref, dense around the 7-integer / 8-float register->stack cliffs) generated from "
                        "VERIF_SEED x definition style (WithFunc via reflect.MakeFunc typed functions, WithGoFunction, WithGoModuleFunction) x Call/CallWithStack x "
                        "re-entrancy, on both engines through an echo guest, plus FunctionABI.Init per signature; a call is non-trivial when the signature has at "
                        "least one parameter or result; distinct by (engine, style, form, re-entrancy, kinds, values)")
    # ---- model evaluated inside Coq
    mism = {}
    SH = 5000
    def eval_shard(s):
        shard = cases[s:s + SH]
        v = ("From Coq Require Import Uint63.\nFrom Verif Require Import Lib.GoInt Lib.CaseNum Engine.HostCodec.\nOpen Scope Z_scope.\n"
             "Definition cases : list ccase := [\n" + ";\n".join(coq_abi(c) if isinstance(c, dict) else coq_val(c) for c in shard) + "].\n"
             "Definition M := Eval vm_compute in mismatches 0 cases.\nPrint M.\n")
        rc, o = coq_eval("c08_%d" % s, v)
        return s, rc, o, parse_zlist(o, "M")
    from concurrent.futures import ThreadPoolExecutor
    with ThreadPoolExecutor(max_workers=8) as ex:
        results = list(ex.map(eval_shard, range(0, len(cases), SH)))
    for s, rc, o, lst in results:
        if rc != 0 or lst is None:
            ck.violation("model-eval", {"kind": "model-eval"}, {"rc": rc, "out": o[-2000:]}, no_input=True)
            return ck.finish()
        for i in range(0, len(lst), 2):
            mism[s + lst[i]] = lst[i + 1]
    ck.extra["model_mismatches"] = len(mism)
    # ---- oracle on every case, classification
    ck.extra["distinct_value_crossings_evaluated_in_coq"] = len(vlist)
    bad_values = {vlist[i - len(abis)] for i in mism if i >= len(abis)}
    reported = {}
    def report(sig, detail, no_input):
        key = json.dumps(sig, sort_keys=True)
        reported[key] = reported.get(key, 0) + 1
        if reported[key] == 1 and len(reported) <= 8:
            ck.violation(sig["kind"], sig, detail, no_input=no_input)
    for idx, a in enumerate(abis):
        d = mism.get(idx)
        why = oracle_abi(a)
        if why is None and d is None: continue
        report({"kind": "abi-overlap" if why else "abi-model-differs"}, {"case": a, "oracle": why, "model_diff_code": d}, why is None)
    for c in calls:
        bad = oracle_call(c)
        md = [t for t in call_values(c) if t in bad_values]
        if not bad and not md: continue
        if only_snan_quieting(c, bad):
            sig = {"kind": "f32-snan-quieted", "style": "reflect"}
        elif bad:
            other = [b for b in bad if not only_snan_quieting(c, [b])] or bad   # classify by the first failure that is not F07
            sig = {"kind": "property-fails", "style": c["style"], "engine": c["engine"], "where": other[0][0], "gokind": other[0][2]}
            bad = other + [b for b in bad if b not in other]
        else:
            sig = {"kind": "model-differs", "style": c["style"], "engine": c["engine"]}
        detail = {"case": c, "oracle": [dict(where=w, index=i, kind=k, expected=e, observed=o) for w, i, k, e, o in bad[:6]],
                  "model_differs_on": [dict(style=t[0], dir=t[1], kind=t[2], input=t[3], observed=t[4]) for t in md[:6]]}
        report(sig, detail, not bad)
    ck.extra["violation_classes"] = reported
    if not proofs_ok and not any(v["kind"] == "property-fails" for v in ck.violations):
        ck.violation("proof-broken", {"kind": "proof-broken"}, getattr(ck, "proof_failure", {}), no_input=True)
    return ck.finish()
