"""C03 — compilation is total and sound on arbitrary input bytes.

Proofs: coq/Properties/C03.v (LEB128 decoders/encoders, resource skeleton of binary.DecodeModule).
Tie:    (a) the real internal/leb128 functions vs coq/Wasm/Leb.v on every byte string of length <= 2
            (row checksums recomputed inside Coq) and on boundary/random strings up to 11 bytes;
        (b) binary.DecodeModule vs coq/Wasm/Decode.v (accept/reject and allocation lower bound) on valid-by-
            construction modules, structured mutations, random bytes and directed probes; CompileModule on
            both engines with time / TotalAlloc recorded against the input length;
        (c) every accepted module instantiated and its exports called on both engines in child processes
            under RLIMIT_AS and a watchdog.
Oracle: the property statement on the implementation's observations alone."""
import json, os, re, threading
from concurrent.futures import ThreadPoolExecutor
from vcheck import *

SITES = [(8, "locals"), (1, "export-vector"), (2, "name-map"), (4, "byte-buffer")]
INTERNAL = re.compile(r"runtime error|BUG|index out of range|nil pointer|invalid memory address|slice bounds out of range|nil map|makeslice|PANIC escaped")


# ----------------------------------------------------------------------------------------------
# (a) LEB128

def spec_leb(bs, bits, signed):
    """Reference decoder straight from the WebAssembly binary format (strict): returns (value, n) or None."""
    maxlen = (bits + 6) // 7
    v = 0
    for i, b in enumerate(bs[:maxlen]):
        v |= (b & 0x7f) << (7 * i)
        if b < 0x80:
            n = i + 1
            used = 7 * n
            if signed:
                if used >= bits:  # last group: the bits beyond `bits` must equal the sign bit
                    sign = (v >> (bits - 1)) & 1
                    extra = v >> bits
                    want = (1 << (used - bits)) - 1 if sign else 0
                    if extra != want:
                        return None
                    v &= (1 << bits) - 1
                    if sign: v -= 1 << bits
                else:
                    if b & 0x40: v -= 1 << used
            else:
                if v >> bits: return None
            return v, n
    return None


LEB_FUNCS = {0: ("DecodeUint32", 32, False, 5), 1: ("LoadUint32", 32, False, 5), 2: ("LoadUint64", 64, False, 10),
             3: ("DecodeInt32", 32, True, 5), 4: ("LoadInt32", 32, True, 5), 5: ("DecodeInt33AsInt64", 33, True, 5),
             6: ("DecodeInt64", 64, True, 10), 7: ("LoadInt64", 64, True, 10)}


def leb_oracle(c):
    """C03 on one LEB observation: a result is an error or (v, n) with n <= 5/10, n <= len, v in range;
    an encoding the specification accepts is decoded to the specified value."""
    name, bits, signed, maxlen = LEB_FUNCS[c["f"]]
    bs, v = c["bs"] if "bs" in c else [], int(c["v"])
    if c["cls"] == 0:
        lo, hi = (-(1 << (bits - 1)), 1 << (bits - 1)) if signed else (0, 1 << bits)
        if not (1 <= c["n"] <= maxlen and c["n"] <= len(bs) and lo <= v < hi):
            return "%s%s = (%d, %d): outside the specified range" % (name, bs, v, c["n"])
    ref = spec_leb(bs, bits, signed)
    if ref is not None and (c["cls"] != 0 or (v, c["n"]) != ref):
        return "%s%s: the specification decodes %s, the implementation returned class %d (%d, %d)" % (name, bs, ref, c["cls"], v, c["n"])
    return None


def enc_oracle(c):
    f = c["f"]
    bits, signed = {10: (32, False), 11: (64, False), 12: (32, True), 13: (64, True)}[f]
    ref = spec_leb(c["out"], bits, signed)
    v = int(c["v"])
    if ref is None or ref != (v, len(c["out"])):
        return "encoder %d(%d) = %s does not decode back (%s)" % (f, v, c["out"], ref)
    return None


def zl(xs): return "[" + "; ".join(str(int(x)) if int(x) >= 0 else "(%d)" % int(x) for x in xs) + "]"
def zz(v): v = int(v); return str(v) if v >= 0 else "(%d)" % v


def leb_part(ck, binp, tier, seed, dist):
    n = 300 if tier == "quick" else 3000
    rc, out = sh([binp, "-mode", "leb", "-seed", str(seed), "-nleb", str(n)], timeout=600)
    recs = jlines(out)
    rows = [r for r in recs if r["k"] == "rows"]
    cases = [r for r in recs if r["k"] in ("dec", "enc")]
    if rc != 0 or len(rows) != 8 or not cases:
        ck.violation("harness-crash", {"kind": "crash", "part": "leb"}, {"rc": rc, "tail": out[-2000:]})
        return
    dist["leb_exhaustive_strings"] = 8 * (1 + 256 + 65536)
    dist["leb_explicit_cases"] = len(cases)
    dist["_leb_cases"] = 8 * (1 + 256 + 65536) + len(cases)
    # Decode*/Load* variants share one Go body and one model: when their observations coincide only one is evaluated
    same = {1: 0, 4: 3, 7: 6}
    rowsof = {r["f"]: r for r in rows}
    skip = set()
    for f, g in same.items():
        if rowsof[f]["rows"] == rowsof[g]["rows"] and rowsof[f]["empty"] == rowsof[g]["empty"]:
            skip.add(f)
        else:
            ck.violation("leb-property-fails", {"kind": "leb-property-fails", "func": LEB_FUNCS[f][0]},
                         {"oracle": "%s and %s disagree on some byte string of length <= 2" % (LEB_FUNCS[f][0], LEB_FUNCS[g][0])})
    bykey = {}
    for c in cases:
        if c["k"] == "dec":
            bykey.setdefault((tuple(c.get("bs", [])), c["f"]), c)
    for c in cases:
        if c["k"] == "dec" and c["f"] in same:
            o = bykey.get((tuple(c.get("bs", [])), same[c["f"]]))
            if o and (o["cls"], o["v"], o["n"]) != (c["cls"], c["v"], c["n"]):
                ck.violation("leb-property-fails", {"kind": "leb-property-fails", "func": LEB_FUNCS[c["f"]][0]},
                             {"oracle": "reader and buffer variants disagree", "case": c, "other": o})
                break

    # exhaustive part: row checksums recomputed from the model inside Coq (one process per function)
    def rows_job(r):
        v = ("From Verif Require Import Lib.GoInt Wasm.Leb Wasm.LebCheck.\nOpen Scope Z_scope.\n"
             "Definition R := Eval vm_compute in leb_rows_mismatch %d %s %d.\nPrint R.\n" % (r["f"], zl(r["rows"]), r["empty"]))
        rc, o = coq_eval("c03_lebrows_%d" % r["f"], v, timeout=900)
        return r["f"], rc, o, parse_zlist(o, "R")

    explicit = [c for c in cases if not (c["k"] == "dec" and c["f"] in skip)]
    SH = 1200

    def cases_job(s):
        items = []
        for c in explicit[s:s + SH]:
            if c["k"] == "dec":
                items.append("CDec %d %s %d %s %d" % (c["f"], zl(c.get("bs", [])), c["cls"], zz(c["v"]), c["n"]))
            else:
                items.append("CEnc %d %s %s" % (c["f"], zz(c["v"]), zl(c["out"])))
        v = ("From Verif Require Import Lib.GoInt Wasm.Leb.\nOpen Scope Z_scope.\nDefinition cases := [\n" + ";\n".join(items) +
             "].\nDefinition M := Eval vm_compute in lmismatches 0 cases.\nPrint M.\n")
        rc, o = coq_eval("c03_leb_%d" % s, v, timeout=900)
        return s, rc, o, parse_zlist(o, "M")

    with ThreadPoolExecutor(max_workers=6) as ex:
        fr = [ex.submit(rows_job, r) for r in rows if r["f"] not in skip]
        fc = [ex.submit(cases_job, s) for s in range(0, len(explicit), SH)]
        rres = [f.result() for f in fr]
        cres = [f.result() for f in fc]
    bad_rows = []
    for f, rc, o, lst in rres:
        if rc != 0 or lst is None:
            ck.violation("model-eval", {"kind": "model-eval", "part": "leb-rows"}, {"rc": rc, "out": o[-2000:]}, no_input=True)
            return
        bad_rows += [(f, b0) for b0 in lst]
    mism = set()
    for s, rc, o, lst in cres:
        if rc != 0 or lst is None:
            ck.violation("model-eval", {"kind": "model-eval", "part": "leb"}, {"rc": rc, "out": o[-2000:]}, no_input=True)
            return
        mism |= {s + lst[i] for i in range(0, len(lst), 2)}
    allc = explicit
    if bad_rows:  # expand differing rows into explicit cases to name the byte string
        extra = []
        for f, b0 in bad_rows[:4]:
            if b0 < 0:
                continue
            rc, out2 = sh([binp, "-mode", "lebrow", "-f", str(f), "-b0", str(b0)], timeout=60)
            extra += jlines(out2)
        if extra:
            items = ["CDec %d %s %d %s %d" % (c["f"], zl(c.get("bs", [])), c["cls"], zz(c["v"]), c["n"]) for c in extra]
            v = ("From Verif Require Import Lib.GoInt Wasm.Leb.\nOpen Scope Z_scope.\nDefinition cases := [\n" + ";\n".join(items) +
                 "].\nDefinition M := Eval vm_compute in lmismatches 0 cases.\nPrint M.\n")
            rc, o = coq_eval("c03_leb_extra", v, timeout=900)
            lst = parse_zlist(o, "M") or []
            mism |= {len(allc) + lst[i] for i in range(0, len(lst), 2)}
            allc = allc + extra
    reported = set()
    for i, c in enumerate(allc):
        why = leb_oracle(c) if c["k"] == "dec" else enc_oracle(c)
        if why is None and i not in mism:
            continue
        fname = LEB_FUNCS[c["f"]][0] if c["k"] == "dec" else "Encode#%d" % c["f"]
        kind = "leb-property-fails" if why else "leb-model-differs"
        if (kind, fname) in reported:
            continue
        reported.add((kind, fname))
        ck.violation(kind, {"kind": kind, "func": fname}, {"case": c, "oracle": why, "model_differs": i in mism}, no_input=(why is None))
    if bad_rows and not reported:
        ck.violation("leb-model-differs", {"kind": "leb-model-differs", "func": "rows"}, {"rows": bad_rows[:20]}, no_input=True)
    dist["leb_model_mismatches"] = len(mism) + len(bad_rows)
    ck.samples.append({"leb": [dict(f=LEB_FUNCS[c["f"]][0], bs=c.get("bs"), cls=c["cls"], v=c["v"], n=c["n"]) for c in cases[:3] if c["k"] == "dec"]})


# ----------------------------------------------------------------------------------------------
# (b), (c) modules

def site_of(hotmask):
    for bit, name in SITES:
        if hotmask & bit:
            return name
    return None


def alloc_limit(n): return (1 << 20) + 4096 * n
def time_limit(n): return 200e6 + 50e3 * n


def modules_part(ck, binp, tier, seed, dist, scale):
    if tier == "quick":
        nv, nv2, nm, nr, par = 60, 100, 900, 400, 4
    else:
        nv, nv2, nm, nr, par = 1200, 4000, 36000, 12000, 6
    nv, nv2, nm, nr = nv * scale, nv2 * scale, nm * scale, nr * scale
    rc, out = sh([binp, "-mode", "run", "-seed", str(seed), "-nvalid", str(nv), "-nvalid2", str(nv2), "-nmut", str(nm), "-nrand", str(nr),
                  "-par", str(par), "-work", os.path.join(WORK, "cases")], timeout=3000 if tier == "quick" else 14000)
    inputs, res, died = {}, {}, {}
    between = []
    for ln in out.split("\n"):
        if not ln.startswith("{"):
            continue
        try:
            r = json.loads(ln)
        except ValueError:
            continue
        if r.get("ev") == "input": inputs[r["id"]] = r
        elif r.get("ev") == "res": res[r["id"]] = r
        elif r.get("ev") == "died": died[r["id"]] = r
        elif r.get("ev") == "died-between": between.append(r)
    if rc != 0 or not inputs or (len(res) + len(died)) < len(inputs) * 0.9:
        ck.violation("harness-crash", {"kind": "crash", "part": "modules"}, {"rc": rc, "inputs": len(inputs), "results": len(res), "died": len(died),
                                                                           "between": between[:3], "tail": out[-1500:]})
        return
    ids = sorted(inputs)
    ck.cases += len(ids) * 3
    # --- the model on every input: accept/reject, allocation lower bound, hot sites
    hots, maccept = {}, {}
    mism = {}

    def pcase(i):
        b = bytes.fromhex(inputs[i]["hex"])
        ws = "; ".join("%d%%uint63" % int.from_bytes(b[k:k + 7], "big") for k in range(0, len(b), 7))
        r = res.get(i)
        return "(%d, [%s]%%list, %s, %d)" % (len(b), ws, "true" if (r and r["dec"]["ok"]) else "false", r["dec"]["alloc"] if r else -1)

    def shard(s):
        part = ids[s:s + SH]
        v = ("From Coq Require Import Uint63.\nFrom Verif Require Import Lib.GoInt Wasm.Leb Wasm.Decode Wasm.DecodeCheck.\nOpen Scope Z_scope.\n"
             "Definition cases : list pcase := [\n" + ";\n".join(pcase(i) for i in part) +
             "].\nDefinition M := Eval vm_compute in eval_pcases cases.\nPrint M.\n")
        rc, o = coq_eval("c03_mod_%d" % s, v, timeout=1200)
        return part, rc, o, parse_zlist(o, "M")

    SH = 250
    with ThreadPoolExecutor(max_workers=4) as ex:
        outs = list(ex.map(shard, range(0, len(ids), SH)))
    for part, rc, o, m in outs:
        if rc != 0 or m is None or len(m) != len(part):
            ck.violation("model-eval", {"kind": "model-eval", "part": "modules"}, {"rc": rc, "out": o[-2000:]}, no_input=True)
            return
        for i, x in zip(part, m):
            hots[i] = x >> 8
            maccept[i] = bool(x & 16)
            if x & 15:
                mism[i] = x & 15
    # --- distribution
    d = {"class": {}, "mutations": {}, "decode_accepted": 0, "compile_accepted": 0, "ran": 0, "calls": 0, "outcomes": {}, "timeouts": 0,
         "died": len(died), "model_mismatches": len(mism), "other_errors": {}, "max_alloc_ratio": 0.0, "max_ms": 0.0, "run_skipped": 0}
    for i in ids:
        inp = inputs[i]
        d["class"][inp["class"]] = d["class"].get(inp["class"], 0) + 1
        if inp["class"] in ("mut", "probe"):
            k = re.sub(r"\(.*", "", (inp.get("mut") or "").replace("g2:", ""))
            d["mutations"][k] = d["mutations"].get(k, 0) + 1
        r = res.get(i)
        if not r: continue
        if r["dec"]["ok"]: d["decode_accepted"] += 1
        if all(r["comp"].get(e, {}).get("ok") for e in ("interp", "compiler")): d["compile_accepted"] += 1
        for e, ro in (r.get("run") or {}).items():
            if ro.get("skipped"): d["run_skipped"] += 1; continue
            d["ran"] += 1; d["calls"] += ro["calls"]; d["timeouts"] += ro.get("timeouts", 0)
            for k, n in (ro.get("outcomes") or {}).items():
                d["outcomes"][k] = d["outcomes"].get(k, 0) + n
            for t in ro.get("others") or []:
                t = re.sub(r"\d+", "N", t)[:90]
                d["other_errors"][t] = d["other_errors"].get(t, 0) + 1
        for m in [r["dec"]] + list(r["comp"].values()):
            d["max_alloc_ratio"] = max(d["max_alloc_ratio"], round(m["alloc"] / alloc_limit(r["len"]), 3))
            d["max_ms"] = max(d["max_ms"], round(m["ns"] / 1e6, 1))
    dist.update(d)
    ck.distinct += len({inputs[i]["hex"] for i in ids if inputs[i]["class"] != "rand" and i in res and res[i]["dec"]["ok"]})
    for i in ids[:3]:
        if i in res:
            ck.samples.append(dict(cls=inputs[i]["class"], mut=inputs[i].get("mut"), len=res[i]["len"], decode=res[i]["dec"]["ok"],
                                   compile={e: m["ok"] for e, m in res[i]["comp"].items()},
                                   run={e: ro.get("outcomes") for e, ro in (res[i].get("run") or {}).items()}, wasm_hex=inputs[i]["hex"][:120]))
    # --- oracle: the property on the observations
    seen = set()

    def report(kind, sig, detail, no_input=False, limit=1):
        key = json.dumps(sig, sort_keys=True)
        n = sum(1 for k in seen if k[0] == key)
        if n >= limit: return
        seen.add((key, n))
        ck.violation(kind, sig, detail, no_input=no_input)

    for i in ids:
        inp, r, dd = inputs[i], res.get(i), died.get(i)
        base = {"id": i, "class": inp["class"], "mutation": inp.get("mut"), "len": len(inp["hex"]) // 2,
                "wasm_hex": inp["hex"] if inp["class"].startswith("valid") else inp["hex"][:4000]}
        site = site_of(hots.get(i, 0))
        if dd:
            err = dd.get("stderr", "")
            cause = ("oom" if "out of memory" in err or "cannot allocate" in err else
                     "hang" if dd["how"].startswith("hang") else
                     "fault" if re.search(r"SIGSEGV|SIGBUS|SIGILL|unexpected signal|fatal error", err) else "exit")
            if cause == "oom" and dd["stage"].startswith("run") and re.search(r"MemoryInstance\)\.Grow|TableInstance\)\.Grow|NewMemoryInstance|NewTableInstance", err):
                ck.note("input %d: the guest asked for more memory than the child's address-space cap (%s) — not a violation" % (i, dd["stage"]))
                continue
            if cause in ("oom", "hang") and site and dd["stage"].startswith(("decode", "compile")):
                report("resource-amplification", {"kind": "resource-amplification", "site": site},
                       dict(base, how="child " + cause, stage=dd["stage"], died=dd))
            else:
                report("child-death", {"kind": "child-death", "cause": cause, "stage": re.sub(r"-.*", "", dd["stage"])}, dict(base, died=dd), limit=2)
            continue
        if not r:
            continue
        # totality: no panic
        for stage, m in [("decode", r["dec"])] + [("compile-" + e, m) for e, m in r["comp"].items()] + \
                        [("compile-through-a-runtime-whose-cache-was-closed-" + e, m) for e, m in (r.get("comp_closed") or {}).items()]:
            if m.get("panic"):
                what = re.sub(r"\d+", "N", re.sub(r"\[-\d+\]", "[negative]", m["panic"]))
                report("compile-panic", {"kind": "compile-panic", "func": m.get("panicfn", ""), "what": what},
                       dict(base, stage=stage, panic=m["panic"], at=m.get("panicat")), limit=1)
        # proportionality
        for stage, m in [("decode", r["dec"])] + [("compile-" + e, m) for e, m in r["comp"].items()]:
            how = []
            if m["alloc"] > alloc_limit(r["len"]): how.append("alloc %d bytes for %d input bytes (limit %d)" % (m["alloc"], r["len"], alloc_limit(r["len"])))
            if m["ns"] > time_limit(r["len"]): how.append("%.0f ms for %d input bytes (limit %.0f ms)" % (m["ns"] / 1e6, r["len"], time_limit(r["len"]) / 1e6))
            if how:
                report("resource-amplification", {"kind": "resource-amplification", "site": site or "unmodelled"}, dict(base, stage=stage, how=how, measured=m))
        # both engines take the same accept/reject decision, and decode-accept is implied by compile-accept
        ci, cc = r["comp"].get("interp", {}), r["comp"].get("compiler", {})
        if ci.get("ok") != cc.get("ok"):
            report("engines-differ-on-acceptance", {"kind": "engines-differ-on-acceptance"}, dict(base, interp=ci, compiler=cc))
        # valid by construction => accepted
        if inp["class"] in ("valid", "validx", "valid2") and not (ci.get("ok") and cc.get("ok")):
            report("valid-rejected", {"kind": "valid-rejected", "cause": "generated", "generator": inp["class"]}, dict(base, interp=ci, compiler=cc))
        # valid by construction => both engines compute the same results / trap classes (NaNs by class)
        if r.get("engdiff"):
            report("engines-differ", {"kind": "engines-differ", "generator": inp["class"]}, dict(base, diff=r["engdiff"], run=r.get("run")))
        if inp["class"] == "probe" and (inp.get("mut") or "").startswith("custom-empty-payload") and not (ci.get("ok") and cc.get("ok")):
            report("valid-rejected", {"kind": "valid-rejected", "cause": "empty-custom-section-at-end"}, dict(base, interp=ci, compiler=cc))
        # accepted => runs without an internal failure
        for e, ro in (r.get("run") or {}).items():
            if ro.get("internal"):
                report("internal-failure", {"kind": "internal-failure", "engine": e}, dict(base, engine=e, run=ro), limit=2)
        # model vs implementation
        if i in mism:
            code = mism[i]
            what = {1: "accept/reject of binary.DecodeModule differs from coq/Wasm/Decode.v", 2: "model out of fuel",
                    3: "the decoder allocated less than the model charges"}.get(code, str(code))
            report("model-differs", {"kind": "model-differs", "code": code}, dict(base, what=what, decode=r["dec"], model_accepts=maccept.get(i)), no_input=True, limit=2)
    for b in between[:1]:
        report("child-death", {"kind": "child-death", "cause": "between-inputs", "stage": "none"}, {"died": b})


def run(tier, seed):
    ck = Check("C03", tier, seed)
    ck.trusted += ["coq/Wasm/Leb.v, coq/Wasm/Decode.v: hand transcriptions of internal/leb128 and of the control/resource skeleton of internal/wasm/binary, "
                   "tied to the code by the correspondence runs (LEB: exhaustive on <= 2 bytes; DecodeModule: accept/reject on every generated input)",
                   "tools/go2coq for memorySizer / Memory.Validate used by the decoder model",
                   "harness/common generator (valid-by-construction modules), harness/c03 (mutations, child supervision), checks/c03.py (oracle)"]
    ck.assumptions += ["decoder model fixed to the default RuntimeConfig (CoreFeaturesV2, 65536 pages, DWARF on, custom sections not stored)",
                       "type soundness of the function validator is not proved; it is exercised by running every accepted module on both engines",
                       "allocation charges are lower bounds at the modelled make() sites; validation and engine compilation are measured, not modelled"]
    binp, log = build_harness("c03")
    if not binp:
        ck.proofs()
        ck.violation("harness-build", {"kind": "build"}, {"log": log[-3000:]}, no_input=True)
        return ck.finish()
    dist = {}
    # the LEB128 correspondence (CPU-bound Coq evaluations) runs beside the proof check and the module runs;
    # it only needs coq/Wasm/Leb*.vo, which it builds first
    ok0, lg = coq_make(["Wasm/LebCheck"])  # needs only Lib/GoInt and Wasm/Leb; built before the thread starts
    if not ok0:
        ck.violation("model-eval", {"kind": "model-eval", "part": "leb-build"}, {"log": lg[-2000:]}, no_input=True)
    lebt = threading.Thread(target=leb_part, args=(ck, binp, tier, seed, dist))
    if ok0:
        lebt.start()
    proofs_ok = ck.proofs()
    # the element sizes the allocation model charges are those of this build
    rc, out = sh([binp, "-mode", "sizes"], timeout=60)
    try:
        sizes = json.loads([l for l in out.split("\n") if l.startswith("{")][0])["sizes"]
    except Exception:
        sizes = None
    rc2, o = coq_eval("c03_sizes", "From Verif Require Import Lib.GoInt Wasm.Leb Wasm.Decode.\nDefinition S := Eval vm_compute in elem_sizes.\nPrint S.\n")
    if sizes is None or parse_zlist(o, "S") != sizes:
        ck.violation("model-differs", {"kind": "model-differs", "code": "elem-sizes"}, {"binary": sizes, "model": parse_zlist(o, "S")}, no_input=True)
    ok1, lg = coq_make(["Wasm/DecodeCheck"])
    if not ok1:
        ck.violation("model-eval", {"kind": "model-eval", "part": "decode-build"}, {"log": lg[-2000:]}, no_input=True)
    else:
        modules_part(ck, binp, tier, seed, dist, 2 if not proofs_ok else 1)
    if ok0:
        lebt.join()
    ck.cases += dist.pop("_leb_cases", 0)
    ck.dist = dist
    ck.extra["rule"] = ("LEB128: all byte strings of length <= 2 on the 8 decoders (checksums recomputed from the model in Coq) + boundary/random strings up to 11 bytes + encoders; "
                        "modules: generator programs (valid by construction, also with name/custom/data-count sections and padded sizes), a second by-construction-valid generator "
                        "for type/structure coverage (all value types, multi-value block types with parameters, tables, references, bulk memory, SIMD lanes; engines compared with "
                        "each other), 16 structured mutation operators, "
                        "random bytes, directed probes; each input decoded, compiled on both engines (time and TotalAlloc against length) and, when accepted, "
                        "instantiated and its exports called on both engines in a child under RLIMIT_AS; non-trivial = non-random inputs the decoder accepts, distinct by bytes")
    if not proofs_ok and not any(not v.get("no_input") for v in ck.violations):
        ck.violation("proof-broken", {"kind": "proof-broken"}, getattr(ck, "proof_failure", {}), no_input=True)
    return ck.finish()
