"""C02, direct stream B: the frontend's known-safe-bounds cache, observed while the REAL frontend lowers generated
functions, against Engine/Elide.v (inside Coq) and against the property (a textbook must-dataflow over the
emitted SSA, in Python)."""
import json
from vcheck import *
from c02_amode import eval_shards, cb

RET = 4294967295


def facts(fs): return [(f["v"], f["b"], f["a"]) for f in (fs or [])]


# ------------------------------------------------------------------------------------------------------------
# abstract graph of a traced lowering (input of the model)

def build_graph(tr):
    """returns dict(order, blocks: list of dict(ipreds, lpreds, sealed, trans, defs, events, lend, obs)) or raises"""
    steps = tr["steps"]
    dump = {b["id"]: b for b in tr["blocks"]}
    first = steps[0]["blk"] if steps else 0
    order = [first]
    info = {first: dict(ipreds=[], sealed=True, init=facts(tr.get("init0")), events=[], after=[], dec=[], snap=None)}
    dummy = [10 ** 6]
    for si, s in enumerate(steps):
        cur = info[s["blk"]]
        if s["kind"] == "access":
            a = s["addr"] if s["fresh"] else dummy[0] + si
            cur["events"].append("Access %d %d %d" % (s["v"], s["ceil"], a))
            cur["dec"].append((s["checks"] > 0, s["addr"], s["fresh"]))
            if s["checks"] not in (0, 1): raise ValueError("an access emitted %d bounds checks" % s["checks"])
            cur["after"].append(facts(s.get("cache")))
        elif s["kind"] in ("call", "grow"):
            cur["events"].append("Call" if s["kind"] == "call" else "Grow")
            cur["after"].append(facts(s.get("cache")))
        if s["switch"]:
            cur["snap"] = facts(s.get("snap"))
            if facts(s.get("end")) != (cur["after"][-1] if cur["after"] else cur["init"]):
                raise ValueError("cache changed between the last event of a block and its end")
            if s["after"] in info: raise ValueError("block %d became current twice" % s["after"])
            order.append(s["after"])
            info[s["after"]] = dict(ipreds=list(s.get("preds") or []), sealed=s["sealed"], init=facts(s.get("init")), events=[], after=[], dec=[], snap=None)
    last = order[-1]
    if info[last]["snap"] is None:   # the block current at the end of the function is never finalised
        info[last]["snap"] = sorted(info[last]["after"][-1] if info[last]["after"] else info[last]["init"])
    # final predecessor lists
    fpreds = {i: list(b["preds"]) for i, b in dump.items()}
    if RET in info and RET not in fpreds: fpreds[RET] = list(info[RET]["ipreds"])
    # blocks that were never current at an opcode boundary but lie on paths
    used = set(order) | {p for ps in fpreds.values() for p in ps}
    trans = [i for i in sorted(used) if i not in info]
    placed = list(order)
    pend = list(trans)
    while pend:
        prog = False
        for t in list(pend):
            ps = fpreds.get(t, [])
            if all(p in placed for p in ps):
                pos = max([placed.index(p) for p in ps], default=len(placed) - 1) + 1
                placed.insert(pos, t); pend.remove(t); prog = True
        if not prog:
            placed += pend; pend = []
    idx = {b: i for i, b in enumerate(placed)}
    # where the base values are defined
    vals = set()
    for b in info.values():
        for e in b["events"]:
            if e.startswith("Access"): vals.add(int(e.split()[1]))
        for st in [b["init"], b["snap"] or []] + b["after"]:
            for f in st: vals.add(f[0])
    defblk = {}
    for i, b in dump.items():
        for v in b["params"]:
            defblk[v] = i
        for ins in b["ins"]:
            if ins["ret"] >= 0: defblk[ins["ret"]] = i
    out = []
    for b in placed:
        if b in info:
            ip = [idx[p] for p in info[b]["ipreds"]]
            rest = list(fpreds.get(b, []))
            for p in info[b]["ipreds"]:
                if p in rest: rest.remove(p)
                else: raise ValueError("a predecessor seen at initialisation is not a final predecessor")
            d = dict(ipreds=ip, lpreds=[idx[p] for p in rest], sealed=info[b]["sealed"], trans=False, events=info[b]["events"],
                     obs=info[b], real=b)
        else:
            d = dict(ipreds=[idx[p] for p in fpreds.get(b, [])], lpreds=[], sealed=True, trans=True, events=[], obs=None, real=b)
        d["defs"] = sorted(v for v in vals if defblk.get(v) == b)
        d["lend"] = 0
        out.append(d)
    # loop regions: the smallest [h, e) that contains the late predecessors and is closed under predecessors
    for h, d in enumerate(out):
        if not d["lpreds"]: continue
        e = max(d["lpreds"]) + 1
        changed = True
        while changed:
            changed = False
            for y in range(h + 1, min(e, len(out))):
                for x in out[y]["ipreds"] + out[y]["lpreds"]:
                    if x >= e: e = x + 1; changed = True
        d["lend"] = e
    return out


def nl(xs): return "[" + "; ".join("%d%%nat" % x for x in xs) + "]"
def zl(xs): return "[" + "; ".join("%d" % x if x >= 0 else "(%d)" % x for x in xs) + "]"
def t3(f): return "(%d, %d, %s)" % (f[0], f[1], "%d" % f[2] if f[2] >= 0 else "(-1)")
def t3l(fs): return "[" + "; ".join(t3(f) for f in fs) + "]"


def coq_ecase(g):
    bs = ["mkB %s %s %s %s %s [%s] %d%%nat" % (nl(b["ipreds"]), nl(b["lpreds"]), cb(b["sealed"]), cb(b["trans"]), zl(b["defs"]), "; ".join(b["events"]), b["lend"])
          for b in g]
    obs = []
    for b in g:
        o = b["obs"]
        if o is None: continue
        obs.append("mkO %s [%s] %s [%s]" % (t3l(sorted(o["init"])), "; ".join(t3l(a) for a in o["after"]), t3l(o["snap"]),
                                            "; ".join("(%s, %d, %s)" % (cb(c), a, cb(f)) for c, a, f in o["dec"])))
    return "{| ec_cfg := [%s];\n   ec_obs := [%s] |}" % (";\n  ".join(bs), ";\n  ".join(obs))


# ------------------------------------------------------------------------------------------------------------
# the oracle: every access of the emitted SSA is covered, on EVERY path of the final graph (back edges included),
# by an earlier passed check of the same base value with a ceiling at least as large, and uses an absolute
# address computed after the last call / memory.grow on that path. Reads the SSA only.

def oracle(tr):
    dump = {b["id"]: b for b in tr["blocks"]}
    oob = tr["oob"]
    defs = {}
    for b in tr["blocks"]:
        for ins in b["ins"]:
            if ins["ret"] >= 0: defs[ins["ret"]] = ins
    EXT3264 = 32 << 8 | 64

    def base_of_ext(v):
        i = defs.get(v)
        if i and i["op"] == "UExtend" and i.get("k") == EXT3264: return i["args"][0]
        return None

    evs = {}
    n_access = n_check = 0
    for b in tr["blocks"]:
        es = []
        for ins in b["ins"]:
            op = ins["op"]
            if op == "ExitIfTrue" and ins.get("k", 0) == oob:
                cmp_ = defs.get(ins["args"][0])
                ok = False
                if cmp_ and cmp_["op"] == "Icmp":
                    s = defs.get(cmp_["args"][1])
                    if s and s["op"] == "Iadd":
                        base, k = base_of_ext(s["args"][0]), defs.get(s["args"][1])
                        if base is not None and k and k["op"] == "Iconst":
                            es.append(("check", base, k.get("k", 0))); ok = True; n_check += 1
                if not ok: return "a bounds check of an unrecognised form in blk%d" % b["id"], None
            elif op in ("Call", "CallIndirect"):
                es.append(("call",))
            elif op in ("Load", "Uload8", "Sload8", "Uload16", "Sload16", "Uload32", "Sload32", "Store", "Istore8", "Istore16", "Istore32"):
                p = defs.get(ins["args"][0])
                if p and p["op"] == "Iadd" and base_of_ext(p["args"][1]) is not None:
                    es.append(("access", base_of_ext(p["args"][1]), ins.get("k", 0) + ins["bits"] // 8, ins["args"][0])); n_access += 1
            if op == "Iadd" and base_of_ext(ins["args"][1]) is not None and defs.get(ins["args"][0], {}).get("op") != "UExtend":
                es.append(("addr", ins["ret"]))
        evs[b["id"]] = es
    TOP = None
    state = {i: TOP for i in dump}
    entry = tr["blocks"][0]["id"] if tr["blocks"] else 0

    def meet(a, b):
        if a is TOP: return b
        if b is TOP: return a
        return ({v: min(a[0][v], b[0][v]) for v in a[0] if v in b[0]}, a[1] & b[1])

    def flow(st, es, report=None):
        bounds, addrs = dict(st[0]), set(st[1])
        for e in es:
            if e[0] == "check": bounds[e[1]] = max(bounds.get(e[1], 0), e[2])
            elif e[0] == "call": addrs = set()
            elif e[0] == "addr": addrs.add(e[1])
            elif e[0] == "access" and report is not None:
                if e[2] > bounds.get(e[1], 0):
                    report.append("an access of base v%d needing %d bytes is covered up to %d only on some path" % (e[1], e[2], bounds.get(e[1], 0)))
                if e[3] not in addrs:
                    report.append("an access of base v%d uses the absolute address v%d computed before a call / memory.grow on some path" % (e[1], e[3]))
        return (bounds, frozenset(addrs))

    outs = {i: TOP for i in dump}
    changed = True
    rounds = 0
    while changed and rounds < 200:
        changed = False; rounds += 1
        for i, b in dump.items():
            if i == entry: st = ({}, frozenset())
            else:
                st = TOP
                for p in b["preds"]:
                    if p in outs: st = meet(st, outs[p])
                if st is TOP: continue
            state[i] = st
            o = flow(st, evs[i])
            if o != outs[i]:
                outs[i] = o; changed = True
    rep = []
    for i in dump:
        if state[i] is not TOP: flow(state[i], evs[i], rep)
    return (rep[0] if rep else None), dict(accesses=n_access, checks=n_check)


ELIDE_HEADER = ("From Coq Require Import ZArith List. Import ListNotations.\n"
                "From Verif Require Import Engine.Elide.\nOpen Scope Z_scope.\n")
CODES = {1: "the real cache contents differ from the model's (at a block boundary or after an event)",
         2: "a decision of memOpSetup differs (check emitted or not / which address value)", 3: "the graph violates wf_cfg (hypotheses of C02_elision_sound_cfg)"}


def run(ck, binp, seed, tier, viol):
    n = 1600 if tier == "quick" else 20000
    rc, out = sh([binp, "-mode", "elide", "-seed", str(seed), "-n", str(n)], timeout=900)
    lines = jlines(out)
    mods = {l["module"]: l["wasm"] for l in lines if "module" in l}
    cases = [l for l in lines if "id" in l]
    if rc != 0 or not cases:
        viol("elide-process-fault", {"kind": "process-fault", "stream": "elide"}, {"rc": rc, "tail": out[-3000:]})
        return 0, 0, {}, []
    dist = {"functions": len(cases), "blocks": 0, "transient_blocks": 0, "loop_headers_with_back_edges": 0, "joins(>=2 preds at init)": 0, "unsealed_at_init": 0,
            "accesses": 0, "checked": 0, "elided": 0, "elided_reusing_address": 0, "elided_recomputing_address": 0, "checked_reusing_address": 0,
            "calls+grows": 0, "facts_inherited_at_block_entry": 0, "features": {}}
    items, idx = [], []
    for c in cases:
        rep = lambda extra: dict(extra, body=c.get("body"), module_wasm=mods.get(c["mod"]), fn=c["fn"])
        if c.get("err"):
            viol("elide-frontend-error", {"kind": "frontend-error", "stream": "elide"}, rep({"err": c["err"]})); continue
        if not c["same_ssa"]:
            viol("elide-driver-differs", {"kind": "driver-differs", "stream": "elide"},
                 rep({"why": "the stepped lowering and LowerToSSA print different SSA: the overlay's copy of lowerBody is out of date"}), no_input=True); continue
        tr = c["trace"]
        for k, v in (c.get("features") or {}).items(): dist["features"][k] = dist["features"].get(k, 0) + v
        why, st = oracle(tr)
        if why:
            viol("elide-unsafe-access", {"kind": "elide-unsafe-access", "what": why.split(" v")[0][:40]}, rep({"why": why, "trace": tr}))
        try:
            g = build_graph(tr)
        except (ValueError, KeyError) as e:
            viol("elide-trace-unreadable", {"kind": "trace-unreadable", "stream": "elide"}, rep({"err": repr(e)}), no_input=True); continue
        for b in g:
            dist["blocks"] += 1
            if b["trans"]: dist["transient_blocks"] += 1; continue
            if b["lpreds"]: dist["loop_headers_with_back_edges"] += 1
            if len(b["ipreds"]) >= 2: dist["joins(>=2 preds at init)"] += 1
            if not b["sealed"]: dist["unsealed_at_init"] += 1
            dist["facts_inherited_at_block_entry"] += len(b["obs"]["init"])
            dist["calls+grows"] += sum(1 for e in b["events"] if not e.startswith("Access"))
            for chk, a, fresh in b["obs"]["dec"]:
                dist["accesses"] += 1
                if chk:
                    dist["checked"] += 1
                    if not fresh: dist["checked_reusing_address"] += 1
                else:
                    dist["elided"] += 1
                    dist["elided_recomputing_address" if fresh else "elided_reusing_address"] += 1
        if st and st["accesses"] != sum(len(b["obs"]["dec"]) for b in g if b["obs"]):
            viol("elide-trace-unreadable", {"kind": "trace-unreadable", "stream": "elide"}, rep({"err": "the SSA holds %d memory accesses, the steps saw %d" % (st["accesses"], sum(len(b["obs"]["dec"]) for b in g if b["obs"]))}), no_input=True)
        items.append(coq_ecase(g)); idx.append(c)
    mism, err = eval_shards("c02_elide", items, ELIDE_HEADER, "emismatches", shard=100)
    if err:
        viol("model-eval", {"kind": "model-eval", "stream": "elide"}, {"err": err}, no_input=True)
    for k, code in mism:
        c = idx[k]
        why, _ = oracle(c["trace"])
        viol("elide-differs-from-model", {"kind": "elide-differs-from-model", "code": code},
             {"code": code, "meaning": CODES.get(code), "oracle": why, "body": c.get("body"), "module_wasm": mods.get(c["mod"]), "fn": c["fn"], "coq": items[k], "trace": c["trace"]},
             no_input=not why)
    samples = [dict(stream="elide", body=c.get("body"), steps=[(s["blk"], s["kind"], s["v"], s["ceil"], s["checks"], s["addr"]) for s in c["trace"]["steps"] if s["kind"]][:12]) for c in cases[:2] if c.get("trace")]
    return len(cases), len(set(c.get("body") for c in cases)), dist, samples
