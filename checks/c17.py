"""C17 — read-only mounts (WithReadOnlyDirMount) and fs.FS mounts (WithFSMount) cannot be modified by the guest."""
import json, os
from vcheck import *

KIND = {"ro": "KRead", "os": "KAdaptOS", "map": "KAdaptMap"}
ERRNOS = {"EBADF", "EEXIST", "EINVAL", "EISDIR", "ELOOP", "ENOENT", "ENOSYS", "ENOTDIR", "ENOTEMPTY", "ENOTSUP",
          "EPERM", "EROFS", "EFAULT", "EACCES"}
MUTATING = {"write", "pwrite", "allocate", "setsize", "fdtimes", "setflags", "mkdir", "rmdir", "unlink", "rename",
            "link", "symlink", "pathtimes"}


FD_ARGS = {"open": (1,), "close": (1,), "write": (1,), "pwrite": (1,), "allocate": (1,), "setsize": (1,), "fdtimes": (1,),
           "setflags": (1,), "sync": (1,), "datasync": (1,), "mkdir": (1,), "rmdir": (1,), "unlink": (1,), "rename": (1, 3),
           "link": (1, 3), "symlink": (2,), "pathtimes": (1,), "read": (1,), "pread": (1,), "stat": (1,)}


LINKS = {}          # link path -> target path (filled from the harness' tree description)


def is_sym(path):
    """the path goes through (or names) a symbolic link of the tree: such cases are oracle-only (symlinks are not modelled)"""
    return isinstance(path, str) and any(path == l or path.startswith(l + "/") for l in LINKS)


def canon(path):
    """resolve the (single-level, relative) links of the tree in a path"""
    for _ in range(4):
        for l, t in LINKS.items():
            if path == l or path.startswith(l + "/"):
                comps = []
                for x in (os.path.dirname(l) + "/" + t + path[len(l):]).split("/"):
                    if x == "..": comps = comps[:-1]
                    elif x not in ("", "."): comps.append(x)
                path = "/".join(comps)
    return path


def coq_errno(name):
    if name == "0": return "0"
    if name in ERRNOS: return name
    return "9999"      # an errno the model never produces (or a trap): always a mismatch


def coq_str(s):
    return '"%s"' % s.replace('"', '""')


def coq_path(p):
    comps = [c for c in p.split("/") if c not in ("", ".")]
    return "[" + "; ".join(coq_str(c) for c in comps) + "]"


def zlist(xs):
    return "[" + "; ".join(str(int(x)) for x in xs) + "]"


def z(v):
    v = int(v)
    return "(%d)" % v if v < 0 else str(v)


def coq_tree(tree):
    ents = []
    for e in tree:
        if e.get("link"):
            continue            # symbolic links are not part of the model tree
        if e["dir"]:
            ents.append("(%s, NDir %d %d)" % (coq_path(e["path"]), e["mtime"], e["perm"]))
        else:
            ents.append("(%s, NFile %s %d %d)" % (coq_path(e["path"]), zlist(e["data"]), e["mtime"], e["perm"]))
    return "[" + ";\n  ".join(ents) + "]"


def s64(v):
    v = int(v) & (2 ** 64 - 1)
    return v - 2 ** 64 if v >= 2 ** 63 else v


def coq_op(op):
    k = op[0]
    op = list(op)
    for i in FD_ARGS.get(k, ()):
        op[i] = fd32(op[i])      # descriptors are i32 parameters of the guest function
    if k == "open": return "WPathOpen %s %s %s %s %s %s" % (z(op[1]), z(op[2]), z(op[3]), z(op[4]), z(op[5]), coq_path(op[6]))
    if k == "close": return "WFdClose %s" % z(op[1])
    if k == "write": return "WFdWrite %s %s" % (z(op[1]), zlist(op[2]))
    if k == "pwrite": return "WFdPwrite %s %s %s" % (z(op[1]), z(op[2]), zlist(op[3]))
    if k == "allocate": return "WFdAllocate %s %s %s" % (z(op[1]), z(op[2]), z(op[3]))
    if k == "setsize": return "WFdSetSize %s %s" % (z(op[1]), z(op[2]))
    if k == "fdtimes": return "WFdSetTimes %s %s %s %s" % (z(op[1]), z(s64(op[2])), z(s64(op[3])), z(op[4]))
    if k == "setflags": return "WFdSetFlags %s %s" % (z(op[1]), z(op[2]))
    if k == "sync": return "WFdSync %s" % z(op[1])
    if k == "datasync": return "WFdDatasync %s" % z(op[1])
    if k == "mkdir": return "WMkdir %s %s" % (z(op[1]), coq_path(op[2]))
    if k == "rmdir": return "WRmdir %s %s" % (z(op[1]), coq_path(op[2]))
    if k == "unlink": return "WUnlink %s %s" % (z(op[1]), coq_path(op[2]))
    if k == "rename": return "WRename %s %s %s %s" % (z(op[1]), coq_path(op[2]), z(op[3]), coq_path(op[4]))
    if k == "link": return "WLink %s %s %s %s" % (z(op[1]), coq_path(op[2]), z(op[3]), coq_path(op[4]))
    if k == "symlink": return "WSymlink %s %s %s" % (coq_str(op[1]), z(op[2]), coq_path(op[3]))
    if k == "pathtimes": return "WPathSetTimes %s %s %s %s %s %s" % (z(op[1]), z(op[2]), coq_path(op[3]), z(s64(op[4])), z(s64(op[5])), z(op[6]))
    if k == "read": return "WFdRead %s %s" % (z(op[1]), z(op[2]))
    if k == "pread": return "WFdPread %s %s %s" % (z(op[1]), z(op[2]), z(op[3]))
    if k == "stat": return "WPathStat %s %s" % (z(op[1]), coq_path(op[2]))
    raise ValueError(k)


def coq_obs(o):
    return "(%s, %s)" % (coq_errno(o["e"]), zlist(o.get("p") or []))


def fd32(v):
    """descriptor numbers are i32 parameters"""
    v = int(v) & 0xffffffff
    return v - 2 ** 32 if v >= 2 ** 31 else v


def replay(tree, c):
    """Replays the descriptor table from the implementation's own observations (no model): yields for every
    op the path behind its (first) descriptor, and checks read payloads against the tree's content."""
    content = {e["path"]: (None if e["dir"] else bytes(e["data"])) for e in tree if not e.get("link")}
    follow = c["kind"] != "map"      # fstest.MapFS (Go 1.23) serves a link entry as a file holding the target string
    if not follow:
        content.update({e["path"]: e["link"].encode() for e in tree if e.get("link")})
    fdmap, off = {3: ""}, {}
    info, why = [], None
    for j, (op, ob) in enumerate(zip(c["ops"], c["obs"])):
        k = op[0]
        fd = fd32(op[2]) if k == "symlink" else (fd32(op[1]) if len(op) > 1 and not isinstance(op[1], str) else None)
        info.append(fdmap.get(fd))
        if k == "open" and ob["e"] == "0":
            basep = fdmap.get(fd)
            comps = [x for x in ((basep or "") + "/" + op[6]).split("/") if x not in ("", ".")]
            fdmap[ob["p"][0]] = canon("/".join(comps)) if follow else "/".join(comps)
            off[ob["p"][0]] = 0
        elif k == "close" and ob["e"] == "0":
            fdmap.pop(fd, None)
        elif k in ("read", "pread") and ob["e"] == "0":
            p = fdmap.get(fd)
            data = content.get(p)
            if data is None:
                why = why or "op %d %s: read succeeded on %r which is not a file of the tree" % (j, op, p)
                continue
            if k == "read":
                want = data[off[fd]:off[fd] + op[2]]
                off[fd] += len(ob["p"] or [])
            else:
                want = data[op[2]:op[2] + op[3]]
            if bytes(ob["p"] or []) != want:
                why = why or "op %d %s on %r returned %s, the file holds %s there" % (j, op, p, ob["p"], list(want))
    return info, why


def seq_oracle(tree, c):
    """the property on the implementation's observations alone"""
    if c["mut"]:
        m = c["mut"][0]
        return "tree changed by op %d %s: %s" % (m["op"], c["ops"][m["op"]], m["diff"]), c["ops"][m["op"]][0]
    for op, ob in zip(c["ops"], c["obs"]):
        if ob["e"].startswith("TRAP"):
            return "host function trapped: %s %s" % (op, ob["e"]), op[0]
    info, why = replay(tree, c)
    if why:
        return why, "read"
    if c["name"] == "reads":
        isfile = {e["path"] for e in tree if not e["dir"] and not e.get("link")}
        for j, (op, ob) in enumerate(zip(c["ops"], c["obs"])):
            if op[0] == "open" and op[6] in isfile and ob["e"] != "0":
                return "op %d: opening %r for reading failed with %s" % (j, op[6], ob["e"]), "open"
            if op[0] in ("read", "pread", "stat") and ob["e"] != "0":
                return "op %d: %s failed with %s" % (j, op, ob["e"]), op[0]
    return None, None


def run(tier, seed):
    ck = Check("C17", tier, seed)
    ck.trusted += ["tools/go2coq (Go->Gallina translator) for wasi openFlags, sysfs toOsOpenFlag/withSyscallOflag and the O_*/E* constants",
                   "hand transcription of ReadFS/readFile, AdaptFS/fsFile, lazyDir and the WASI fs host functions in coq/Sys/ReadOnly.v, tied by the correspondence run",
                   "the host (Linux open/write/ftruncate/futimens/...) model of coq/Sys/ReadOnly.v: only its non-mutation on read-only descriptors and flags without O_CREAT/O_TRUNC is used by the theorems",
                   "harness/c17 (Go: proxy guest, recursive snapshot after every operation) and checks/c17.py (case conversion, oracle)"]
    ck.assumptions += ["an fs.FS implementation's Open does not modify the file system (os.DirFS and fstest.MapFS are the instances run)",
                       "Linux: open(2) without O_CREAT/O_TRUNC, and write(2)/ftruncate(2) on an O_RDONLY descriptor, change nothing (access times are not part of the snapshot)",
                       "paths are clean relative paths (path normalisation and escaping belong to C16)",
                       "symbolic links (to a file, to a directory, dangling) are present in every mounted tree and exercised with the full path_open product, every other mutating call and random sequences, but ORACLE-ONLY: the recursive snapshot (incl. link targets and newly appearing names) must not change; errnos on paths through links are not compared with the Coq model, whose host layer does not follow links"]
    proofs_ok = ck.proofs()
    if tier == "quick":
        args = ["-n", "25", "-len", "30", "-direct", "250"]
    else:
        args = ["-n", "1500", "-len", "40", "-direct", "20000", "-full"]
    binp, log = build_harness("c17")
    if not binp:
        ck.violation("harness-build", {"kind": "build"}, {"log": log[-3000:]}, no_input=True)
        return ck.finish()
    rc, out = sh([binp, "-seed", str(seed)] + args, timeout=3000)
    recs = jlines(out)
    if rc != 0 or len(recs) < 2 or recs[0].get("t") != "tree":
        ck.violation("harness-crash", {"kind": "crash"}, {"rc": rc, "tail": out[-3000:]}, no_input=False)
        return ck.finish()
    tree = recs[0]["tree"]
    LINKS.clear()
    LINKS.update({e["path"]: e["link"] for e in tree if e.get("link")})
    prods = [r for r in recs if r["t"] == "product"]
    dprods = [r for r in recs if r["t"] == "dproduct"]
    seqs = [r for r in recs if r["t"] == "seq"]
    directs = [r for r in recs if r["t"] == "direct"]
    header = ("From Coq Require Import String.\nFrom Verif Require Import Lib.GoInt Gen.GenC17Sys Sys.ReadOnly.\n"
              "Open Scope Z_scope.\nOpen Scope string_scope.\nDefinition t0 : tree :=\n  " + coq_tree(tree) + ".\n")

    dist = {"mount": {}, "path_open_product": 0, "sysfs_open_product": 0, "seq_ops": {}, "errnos": {}, "direct_ops": {},
            "engine": {}, "opens_succeeded": 0, "reads_with_data": 0}
    reported = set()

    def report(kind, sig, detail, no_input=False):
        key = json.dumps(sig, sort_keys=True)
        if key in reported:
            return
        reported.add(key)
        ck.violation(kind, sig, detail, no_input=no_input)

    # ---- 1. exhaustive products: model table vs run-length encoded observations, inside Coq ----
    v = header
    for i, p in enumerate(prods):
        if is_sym(p["path"]): continue
        rle = "[" + "; ".join("(%s, %d)" % (coq_errno(x["e"]), x["n"]) for x in p["rle"]) + "]"
        v += "Definition P%d := Eval vm_compute in product_mismatches %s t0 %s %s.\nPrint P%d.\n" % (i, KIND[p["kind"]], coq_path(p["path"]), rle, i)
    for i, p in enumerate(dprods):
        if is_sym(p["path"]): continue
        rle = "[" + "; ".join("(%d, %d)" % (x[0], x[1]) for x in p["rle"]) + "]"
        v += "Definition D%d := Eval vm_compute in dproduct_mismatches %s t0 %s %s.\nPrint D%d.\n" % (i, KIND[p["kind"]], coq_path(p["path"]), rle, i)
    rc, o = coq_eval("c17_products", v)
    model_ok = True
    if rc != 0:
        ck.violation("model-eval", {"kind": "model-eval"}, {"rc": rc, "out": o[-2000:]}, no_input=True)
        model_ok = False
    for name, lst in (("P", prods), ("D", dprods)):
        for i, p in enumerate(lst):
            dist["mount"][p["kind"]] = dist["mount"].get(p["kind"], 0) + p["count"]
            dist["path_open_product" if name == "P" else "sysfs_open_product"] += p["count"]
            for x in p["rle"]:
                en = x["e"] if name == "P" else "errno%d" % x[0]
                dist["errnos"][en] = dist["errnos"].get(en, 0) + (x["n"] if name == "P" else x[1])
            what = "path_open" if name == "P" else "FS.OpenFile"
            if p["mut"]:
                m = p["mut"][0]
                report("tree-mutated", {"kind": "tree-mutated", "mount": p["kind"], "op": what},
                       {"path": p["path"], "product_index": m["op"], "diff": m["diff"], "all": p["mut"][:8],
                        "order": "rights{0,2,64,66} x sums[1,8,2,4] x sums[1,16,8,4,2] x dirflags{0,1}" if name == "P" else "mode{0..3} + sums[16,4096,32,2048,1024,512,256,128,64,8,4]"})
            if is_sym(p["path"]):
                dist["oracle_only_symlink_cases"] = dist.get("oracle_only_symlink_cases", 0) + p["count"]
            elif model_ok:
                idxs = parse_zlist(o, "%s%d" % (name, i))
                if idxs is None:
                    ck.violation("model-eval", {"kind": "model-eval"}, {"out": o[-2000:]}, no_input=True)
                    model_ok = False
                elif idxs:
                    report("model-differs", {"kind": "model-differs", "mount": p["kind"], "op": what},
                           {"path": p["path"], "product_indices": idxs[:20], "n": len(idxs), "rle_head": p["rle"][:12]},
                           no_input=not p["mut"])

    # ---- 2. sequences ----
    coq_cases, back, coq_of = [], [], {}
    for ci, c in enumerate(seqs):
        dist["engine"][c["engine"]] = dist["engine"].get(c["engine"], 0) + 1
        dist["mount"][c["kind"]] = dist["mount"].get(c["kind"], 0) + len(c["ops"])
        if c["name"].startswith("sym"):
            dist["oracle_only_symlink_cases"] = dist.get("oracle_only_symlink_cases", 0) + len(c["ops"])
            for op, ob in zip(c["ops"], c["obs"]):
                dist["seq_ops"][op[0]] = dist["seq_ops"].get(op[0], 0) + 1
                dist["errnos"][ob["e"][:12]] = dist["errnos"].get(ob["e"][:12], 0) + 1
            continue
        info, _ = replay(tree, c)
        isdir = {e["path"] for e in tree if e["dir"]}
        ops, obs, idx = [], [], []
        for j, (op, ob) in enumerate(zip(c["ops"], c["obs"])):
            dist["seq_ops"][op[0]] = dist["seq_ops"].get(op[0], 0) + 1
            dist["errnos"][ob["e"][:12]] = dist["errnos"].get(ob["e"][:12], 0) + 1
            if op[0] == "open" and ob["e"] == "0": dist["opens_succeeded"] += 1
            if op[0] in ("read", "pread") and ob.get("p"): dist["reads_with_data"] += 1
            if op[0] == "allocate" and info[j] in isdir:
                continue    # st.Size of a directory is host specific (4096 on ext4, 0 in MapFS): not compared
            ops.append(coq_op(op)); obs.append(coq_obs(ob)); idx.append(j)
        coq_of[len(coq_cases)] = ci
        coq_cases.append("(%s, t0, [%s], [%s])" % (KIND[c["kind"]], ";\n ".join(ops), "; ".join(obs)))
        back.append(idx)
    mism = {}
    SH = 40
    for s in range(0, len(coq_cases), SH):
        v = header + "Definition cases : list case := [\n" + ";\n".join(coq_cases[s:s + SH]) + "].\n" \
            "Definition M := Eval vm_compute in mismatches 0 cases.\nPrint M.\n"
        rc, o = coq_eval("c17_seq_%d" % s, v)
        lst = parse_zlist(o, "M")
        if rc != 0 or lst is None:
            ck.violation("model-eval", {"kind": "model-eval"}, {"rc": rc, "out": o[-2000:]}, no_input=True)
            break
        for i in range(0, len(lst), 2):
            k = s + lst[i]
            mism[coq_of[k]] = back[k][lst[i + 1]] if 0 <= lst[i + 1] < len(back[k]) else -1
    for ci, c in enumerate(seqs):
        why, opname = seq_oracle(tree, c)
        j = mism.get(ci)
        if why is None and j is None:
            continue
        if why is not None:
            kind = "tree-mutated" if c["mut"] else "property-fails"
            report(kind, {"kind": kind, "mount": c["kind"], "op": opname},
                   {"oracle": why, "name": c["name"], "engine": c["engine"], "config": c.get("config"), "ops": c["ops"], "obs": c["obs"], "model_first_diff_op": j})
        else:
            op = c["ops"][j] if 0 <= j < len(c["ops"]) else None
            report("model-differs", {"kind": "model-differs", "mount": c["kind"], "op": op[0] if op else "?"},
                   {"name": c["name"], "engine": c["engine"], "config": c.get("config"), "op_index": j, "op": op, "impl": c["obs"][j] if op else None,
                    "ops": c["ops"][:j + 1], "obs": c["obs"][:j + 1]}, no_input=True)

    # ---- 3. direct sys.FS cases ----
    def coq_fop(op):
        k = op[3]
        if k == "none": return "None"
        if k == "write": return "(Some (FWrite 0 [1; 2; 3]))"
        if k == "pwrite": return "(Some (FPwrite %s [1; 2; 3]))" % z(op[4])
        if k == "truncate": return "(Some (FTruncate %s))" % z(op[4])
        if k == "sync": return "(Some FSync)"
        if k == "datasync": return "(Some FDatasync)"
        if k == "utimens": return "(Some (FUtimens %s %s))" % (z(op[4]), z(op[5]))
        raise ValueError(k)

    def coq_dop(op):
        k = op[0]
        if k == "dopen": return "DOpen %s %s %s" % (coq_path(op[1]), z(op[2]), coq_fop(op))
        if k == "mkdir": return "DFs (PMkdir %s %s)" % (coq_path(op[1]), z(op[2]))
        if k == "chmod": return "DFs (PChmod %s %s)" % (coq_path(op[1]), z(op[2]))
        if k == "rename": return "DFs (PRename %s %s)" % (coq_path(op[1]), coq_path(op[2]))
        if k == "rmdir": return "DFs (PRmdir %s)" % coq_path(op[1])
        if k == "link": return "DFs (PLink %s %s)" % (coq_path(op[1]), coq_path(op[2]))
        if k == "symlink": return "DFs (PSymlink %s %s)" % (coq_str(op[1]), coq_path(op[2]))
        if k == "unlink": return "DFs (PUnlink %s)" % coq_path(op[1])
        if k == "utimens": return "DFs (PUtimens %s %s %s)" % (coq_path(op[1]), z(op[2]), z(op[3]))
        raise ValueError(k)

    dm = {}
    SH = 400
    sym_directs = [d for d in directs if any(is_sym(a) for a in d["op"][1:])]
    mod_directs = [d for d in directs if not any(is_sym(a) for a in d["op"][1:])]
    dist["oracle_only_symlink_cases"] = dist.get("oracle_only_symlink_cases", 0) + len(sym_directs)
    for s in range(0, len(mod_directs), SH):
        shard = mod_directs[s:s + SH]
        v = header + "Definition cases : list dcase := [\n" + ";\n".join(
            "(%s, t0, %s, (%d, %d))" % (KIND[d["kind"]], coq_dop(d["op"]), d["e1"], d["e2"]) for d in shard) + "].\n" \
            "Definition M := Eval vm_compute in dmismatches 0 cases.\nPrint M.\n"
        rc, o = coq_eval("c17_direct_%d" % s, v)
        lst = parse_zlist(o, "M")
        if rc != 0 or lst is None:
            ck.violation("model-eval", {"kind": "model-eval"}, {"rc": rc, "out": o[-2000:]}, no_input=True)
            break
        for i in range(0, len(lst), 2):
            dm[s + lst[i]] = lst[i + 1]
    for di, d in enumerate(mod_directs + sym_directs):
        opn = d["op"][0] if d["op"][0] != "dopen" else "dopen+" + d["op"][3]
        dist["direct_ops"][opn] = dist["direct_ops"].get(opn, 0) + 1
        dist["mount"][d["kind"]] = dist["mount"].get(d["kind"], 0) + 1
        if d["mut"]:
            report("tree-mutated", {"kind": "tree-mutated", "mount": d["kind"], "op": "sysfs." + opn}, {"case": d})
        elif di in dm:
            report("model-differs", {"kind": "model-differs", "mount": d["kind"], "op": "sysfs." + opn},
                   {"case": d, "model_errno": dm[di]}, no_input=True)

    ck.cases = sum(p["count"] for p in prods + dprods) + sum(len(c["ops"]) for c in seqs) + len(directs)
    ck.distinct = sum(p["count"] for p in prods + dprods) + len({json.dumps([c["kind"], c["ops"]]) for c in seqs if len(c["ops"]) > 2}) \
        + len({json.dumps([d["kind"], d["op"]]) for d in directs})
    ck.dist = dist
    ck.samples = [dict(kind=p["kind"], path=p["path"], rle_head=p["rle"][:6]) for p in prods[:2]] + \
                 [dict(kind=c["kind"], name=c["name"], ops=c["ops"][:5], obs=c["obs"][:5]) for c in seqs[2:5]] + \
                 [dict(kind=d["kind"], op=d["op"], e1=d["e1"], e2=d["e2"]) for d in directs[:2]]
    ck.extra["rule"] = ("three mounts (WithReadOnlyDirMount over a real temp directory, WithFSMount over os.DirFS and over fstest.MapFS) driven through the "
                        "real WASI host functions by a proxy guest on both engines: the exhaustive product of path_open rights{0,R,W,RW} x 16 oflags x 32 fdflags x "
                        "2 lookup flags on several paths, every other mutating WASI call singly, read-back sequences and random sequences from VERIF_SEED "
                        "(incl. undefined flag/rights bits); plus sysfs.ReadFS/AdaptFS called directly with all 8192 values of the low 13 Oflag bits and random "
                        "method calls. After EVERY operation a recursive snapshot (names, types, sizes, content hashes, mtimes, permissions) must equal the baseline "
                        "(oracle); errnos, opened descriptors and read payloads are compared with the Coq model. distinct = product points + distinct sequences + distinct direct calls")
    if not proofs_ok and not any(v["kind"] in ("tree-mutated", "property-fails") for v in ck.violations):
        ck.violation("proof-broken", {"kind": "proof-broken"}, getattr(ck, "proof_failure", {}), no_input=True)
    return ck.finish()
