"""C06, linked failure histories (harness/c06/xlink.go): oracle on the observations alone and the replay through
Rt/Linking.v instantiate + W extended with closed flags (coq/Wasm/SemExit.v)."""
from vcheck import *
from wcommon import *
from c20link import zi, zl, lobs, inst_code


def bl(pairs):
    return "[" + "; ".join("(%d%%nat, %s)" % (p, "true" if b else "false") for p, b in pairs) + "]"


def coq_item(c, po, pn):
    acts, obs = [], []
    for a, s in zip(c["acts"], po["steps"]):
        if s.get("skip"): continue          # a call on a position whose instantiation failed: the embedder holds nothing to call
        if a["t"] == "inst":
            acts.append("LInst %s_m%d [%s]%%nat" % (pn, a["pos"], "; ".join(str(k) for k in (c["starts"][a["pos"]] or []))))
            r = "OInst %d" % inst_code(s["inst"])
        else:
            acts.append("LCall %d %d %s" % (a["pos"], a["fi"], zl(a["args"])))
            r = "OCall (%s)" % lobs(s)
        obs.append("{| xo_res := %s; xo_closed := %s; xo_named := %s |}" % (r, bl(s["closed"]), bl(s["named"])))
    hlog = "; ".join("(%d, %s)" % (e[0], zl(e[1:])) for e in (po.get("hlog") or []))
    gl = "; ".join("(%d%%nat, %d)" % (g[0], g[1]) for g in (po.get("globals") or []))
    return ("{| xc_hosts := %s_hosts; xc_acts := [%s];\n xc_obs := [%s];\n xc_hlog := [%s]; xc_globals := [%s] |}"
            % (pn, "; ".join(acts), ";\n  ".join(obs), hlog, gl))


def eval_xlinked(name, cases, shard=6, workers=6):
    """-> list of (case index, engine, code), error text. Identical observations of the two engines are evaluated once."""
    from concurrent.futures import ThreadPoolExecutor
    jobs = []
    for s in range(0, len(cases), shard):
        v = ("From Coq Require Import ZArith List Uint63. Import ListNotations.\n"
             "From Verif Require Import Lib.CaseNum Wasm.Numerics Wasm.Sem Wasm.Harness Rt.Linking Wasm.ListenerLink Wasm.SemExit.\nOpen Scope Z_scope.\n")
        items, where = [], []
        for gi, c in enumerate(cases[s:s + shard]):
            pn = "c%d" % gi
            v += "Definition %s_hosts : list hostsig := %s.\n" % (pn, c["hosts"])
            for p, m in enumerate(c["mods"]):
                if p: v += "Definition %s_m%d : modul := %s.\n" % (pn, p, m)
            seen = {}
            for eng in ("interp", "compiler"):
                po = c["engines"][eng]
                if po.get("err"): continue
                it = coq_item(c, po, pn)
                if it in seen:
                    where[seen[it]].append((s + gi, eng)); continue
                seen[it] = len(items)
                items.append(it); where.append([(s + gi, eng)])
        v += "Definition cases := [\n" + ";\n".join(items) + "].\nDefinition M := Eval vm_compute in xmismatches 0 cases.\nPrint M.\n"
        jobs.append(("%s_%d" % (name, s), v, where))
    out = []
    with ThreadPoolExecutor(max_workers=workers) as ex:
        results = list(ex.map(lambda j: coq_eval(j[0], j[1], timeout=900), jobs))
    for (nm, v, where), (rc, o) in zip(jobs, results):
        lst = parse_zlist(o, "M")
        if rc != 0 or lst is None:
            return out, "coq evaluation failed (rc %d): %s" % (rc, o[-1500:])
        for i in range(0, len(lst), 2):
            for w in where[lst[i]]:
                out.append(w + (lst[i + 1],))
    return out, None


def oracle(c, eng):
    """the property on the observations of one engine alone -> list of reasons"""
    po = c["engines"][eng]
    if po.get("err"): return ["engine error / panic escaped: " + po["err"]]
    why = []
    closed, held = {}, set()
    names = {}
    for k, (a, s) in enumerate(zip(c["acts"], po["steps"])):
        if s.get("skip"): continue
        t = s.get("trap") or ""
        res = s.get("inst") if a["t"] == "inst" else (t or "values")
        if res.startswith("other:"):
            why.append("step %d: undocumented error kind %r" % (k, res))
        if a["t"] == "call" and closed.get(a["pos"]) and not t:
            why.append("step %d: a call on the closed instance at position %d returned values %s" % (k, a["pos"], s.get("res")))
        if a["t"] == "inst" and s["inst"] == "ok": held.add(a["pos"])
        now = dict(s["closed"])
        newly = [p for p, b in now.items() if b and not closed.get(p)]
        reopened = [p for p, b in now.items() if not b and closed.get(p)]
        if reopened: why.append("step %d: closed instances are open again: %s" % (k, reopened))
        is_exit = "exit:" in res
        if newly and not is_exit:
            why.append("step %d (%s): instances %s were closed by a step that did not end in an exit error" % (k, res, newly))
        if len(newly) > 1:
            why.append("step %d: one exit closed several instances: %s" % (k, newly))
        if set(now) != held:
            why.append("step %d: closed flags reported for %s, instances held %s" % (k, sorted(now), sorted(held)))
        closed = now
        for p, b in s["named"]:
            want = p in held and not closed.get(p)
            if bool(b) != want:
                why.append("step %d: Runtime.Module(name of position %d) found=%s, but instantiated=%s closed=%s" % (k, p, bool(b), p in held, bool(closed.get(p))))
    return why[:4]


def xlinked_part(ck, xcases, viol, dist):
    ck.trusted += ["coq/Wasm/SemExit.v (closed flags on top of W: the caller of the last host call logged is closed; caller-specific host codes, checked per case by tags_ok), "
                   "tied to both engines step by step incl. IsClosed of every instance and Runtime.Module(name) of every name",
                   "harness/c06/xlink.go (copy of harness/c20/link.go's generator of linked programs, without listeners)"]
    d = {"histories": len(xcases), "steps": 0, "exits": 0, "start_failures": {}, "instances_closed": 0, "calls_on_closed_instance": 0,
         "calls_on_open_instance_after_an_exit": 0, "exits_closing_an_instance_other_than_the_entry": 0,
         "link_errors_after_close": 0, "histories_with_exit": 0, "outside_model": 0, "model_out_of_fuel": 0, "call_outcomes": {}}
    for c in xcases:
        po = c["engines"]["interp"]
        closed, seen_exit = {}, False
        for a, s in zip(c["acts"], po.get("steps") or []):
            if s.get("skip"): continue
            d["steps"] += 1
            t = s.get("trap") or ""
            if a["t"] == "inst":
                if s["inst"] == "link" and any(closed.values()): d["link_errors_after_close"] += 1
                elif s["inst"] != "ok":
                    k = s["inst"].split(":")[0]; d["start_failures"][k] = d["start_failures"].get(k, 0) + 1
                res = s["inst"]
            else:
                res = t
                k = (t or "values").split(":")[0]; d["call_outcomes"][k] = d["call_outcomes"].get(k, 0) + 1
                if closed.get(a["pos"]): d["calls_on_closed_instance"] += 1
                elif seen_exit: d["calls_on_open_instance_after_an_exit"] += 1
            now = dict(s["closed"])
            newly = [p for p, b in now.items() if b and not closed.get(p)]
            if "exit:" in res:
                d["exits"] += 1; seen_exit = True
                if a["t"] == "call" and newly and newly[0] != a["pos"]: d["exits_closing_an_instance_other_than_the_entry"] += 1
            d["instances_closed"] += len(newly)
            closed = now
        if seen_exit: d["histories_with_exit"] += 1
    dist["linked_failure_histories"] = d
    ck.cases += len(xcases) * 2
    ck.extra["rule"] += ("; linked failure histories: 2-3 guest modules (function imports, shared table) + host module (return / panic of three Go kinds / exit = "
                         "CloseWithExitCode on the CALLING module + ExitError / re-entry) + starter modules with start functions; every step on both engines "
                         "records the result class, IsClosed() of every instance and Runtime.Module(name) of every name, compared with SemExit.xlrun; "
                         "non-trivial = an exit closes an instance that is not the one the call entered through, followed by calls on every instance")
    for c in xcases:
        for eng in ("interp", "compiler"):
            why = oracle(c, eng)
            if why:
                viol("linked-failure-oracle-" + eng, {"kind": "linked-failure-oracle", "engine": eng}, {"oracle": why, "case": c})
        a, b = c["engines"]["interp"], c["engines"]["compiler"]
        if not a.get("err") and not b.get("err") and a["steps"] != b["steps"]:
            viol("linked-engines-differ", {"kind": "linked-engines-differ"}, {"case": c})
    mism, err = eval_xlinked("c06_xl", xcases)
    if err:
        viol("model-eval-linked", {"kind": "model-eval", "what": "linked"}, {"err": err}, no_input=True); return
    for ci, eng, code in mism:
        if code == -3: d["model_out_of_fuel"] += 1; continue
        if code == -4: d["outside_model"] += 1; continue
        c = xcases[ci]
        why = oracle(c, eng)
        meaning = ("3*i: result of executed step i differs; 3*i+1: IsClosed flags after step i; 3*i+2: name registrations after step i; "
                   "100000 host log; 100001 globals; 100002 caller tags inconsistent (model)")
        viol("linked-engine-vs-model-" + eng, {"kind": "linked-engine-vs-model", "engine": eng, "what": "flags" if 0 <= code < 100000 and code % 3 else "result" if code < 100000 else "final"},
             {"code": code, "meaning": meaning, "oracle": why, "case": c}, no_input=not why)
