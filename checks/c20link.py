"""C20, linked cases (several modules, start functions, failure paths at depth, listener subsets): oracles on the
observations alone and the replay through Rt/Linking.v + W (coq/Wasm/ListenerLink.v)."""
from vcheck import *
from wcommon import *


M32 = (1 << 32) - 1


def zi(v):
    """cheap numerals (Lib/CaseNum.v): Coq's decimal Z notation costs ~1 ms per 64-bit literal"""
    v = int(v)
    if v < 1000: return str(v)
    return "(zi %d)" % v if v < 1 << 62 else "(zh %d %d)" % (v >> 32, v & M32)


def zl(xs): return "[" + "; ".join(zi(x) for x in xs) + "]"


def lobs(o):
    if o.get("any"): return "OAny"
    if o.get("trap"): return "OTrap %d" % trap_code(o["trap"])
    return "ORes " + zl(o.get("res") or [])


def is_host(c, fa): return fa < c["nfuncs"][0]


def inst_code(s):
    if s == "ok": return 0
    if s == "link": return 20
    return 100000 + trap_code(s)


def executed(c, po, pn="c"):
    """(coq actions, coq observations) of one pass: a skipped instantiation keeps its position, a skipped call vanishes."""
    acts, obs = [], []
    for a, s in zip(c["acts"], po["steps"]):
        if a["t"] == "inst":
            if s.get("skip"):
                acts.append("LSkip"); obs.append("OSkip")
            else:
                acts.append("LInst %s_m%d [%s]%%nat" % (pn, a["pos"], "; ".join(str(k) for k in (c["starts"][a["pos"]] or []))))
                obs.append("OInst %d" % inst_code(s["inst"]))
        elif not s.get("skip"):
            acts.append("LCall %d %d %s" % (a["pos"], a["fi"], zl(a["args"])))
            obs.append("OCall (%s)" % lobs(s))
    return acts, obs


def addr_mask(c, po, mask):
    n = max([0] + [b + c["nfuncs"][p] for p, b in enumerate(po["bases"]) if b >= 0])
    out = [False] * n
    for p, b in enumerate(po["bases"]):
        if b < 0: continue
        for k in range(c["nfuncs"][p]):
            out[b + k] = bool(mask[p][k])
    return out


def all_mask(c): return [[True] * len(m) for m in c["mask"]]


def coq_item(c, po, mask, progname):
    acts, obs = executed(c, po, progname)
    ev = "; ".join("(%d, %d, %s)" % (e[0], e[1], zl(e[2:])) for e in (po.get("events") or []))
    hlog = "; ".join("(%d, %s)" % (e[0], zl(e[1:])) for e in (po.get("hlog") or []))
    gl = "; ".join("(%d%%nat, %d)" % (g[0], g[1]) for g in (po.get("globals") or []))
    m = "; ".join("true" if b else "false" for b in addr_mask(c, po, mask))
    return ("{| k_prog := {| p_hosts := %s_hosts; p_acts := [%s] |}; k_mask := [%s]; k_obs := [%s];\n k_events := [%s]; k_hlog := [%s]; k_globals := [%s] |}"
            % (progname, "; ".join(acts), m, "; ".join(obs), ev, hlog, gl))


def eval_linked(name, groups, shard=8, workers=6):
    """groups: list of (case, [(pass observations, mask)]) -> list of (group index, run index, code), error text.
    Identical items of one case (the other engine observed exactly the same) are evaluated once; shards run in parallel."""
    from concurrent.futures import ThreadPoolExecutor
    jobs = []
    for s in range(0, len(groups), shard):
        v = ("From Coq Require Import ZArith List Uint63. Import ListNotations.\n"
             "From Verif Require Import Lib.CaseNum Wasm.Numerics Wasm.Sem Wasm.Harness Rt.Linking Wasm.ListenerLink.\nOpen Scope Z_scope.\n")
        items, where = [], []
        for gi, (c, runs) in enumerate(groups[s:s + shard]):
            pn = "c%d" % gi
            v += "Definition %s_hosts : list hostsig := %s.\n" % (pn, c["hosts"])
            for p, m in enumerate(c["mods"]):
                if p: v += "Definition %s_m%d : modul := %s.\n" % (pn, p, m)
            seen = {}
            for ri, (po, mask) in enumerate(runs):
                it = coq_item(c, po, mask, pn)
                if it in seen:
                    where[seen[it]].append((s + gi, ri)); continue
                seen[it] = len(items)
                items.append(it); where.append([(s + gi, ri)])
        v += "Definition cases := [\n" + ";\n".join(items) + "].\nDefinition M := Eval vm_compute in lkmismatches 0 cases.\nPrint M.\n"
        jobs.append(("%s_%d" % (name, s), v, where))
    out = []
    with ThreadPoolExecutor(max_workers=workers) as ex:
        results = list(ex.map(lambda j: coq_eval(j[0], j[1], timeout=900), jobs))
    for (nm, v, where), (rc, o) in zip(jobs, results):
        lst = parse_zlist(o, "M")
        if rc != 0 or lst is None:
            return out, "coq evaluation failed (rc %d): %s" % (rc, o[-1500:])
        for i in range(0, len(lst), 2):
            for w in where[lst[i]]:
                out.append(w + (lst[i + 1],))
    return out, None


def chains(c, events):
    """per before-event of an all-listened stream: the call chain from the callee outward, as far as the innermost
    invocation reaches (a host function that called the guest back starts a new invocation: the iterator of wazero
    lists the frames of one api.Function.Call)."""
    st, out = [], []
    for e in events:
        if e[0] == 0:
            ch = [e[1]]
            for fa in reversed(st):
                if is_host(c, fa): break
                ch.append(fa)
            out.append((e[1], ch, list(st)))
            st.append(e[1])
        elif st:
            st.pop()
    return out


def bracket_why(events):
    st = []
    for e in events:
        if e[0] == 0:
            st.append(e[1])
        else:
            if not st or st[-1] != e[1]:
                return "closing event %s does not match open calls %s" % (e, st)
            st.pop()
    if st:
        return "before-events never closed: %s" % st
    return None


def oracle(c, eng):
    """the property on the observations of one engine alone. Returns list of (kind, why)."""
    bad = []
    po = c["engines"][eng]
    A, plain, B = po["A"], po["plain"], po.get("B")
    for pn, p in po.items():
        if p.get("err"):
            return [("engine-error", "%s: %s" % (pn, p["err"]))]
    for pn in ("A", "B"):
        p = po.get(pn)
        if p is None: continue
        why = bracket_why(p.get("events") or [])
        if why: bad.append(("not-bracketed", "pass %s: %s" % (pn, why)))
        # the guest's results are the same as without listeners
        if p["steps"] != plain["steps"] or (p.get("globals") or []) != (plain.get("globals") or []) or (p.get("hlog") or []) != (plain.get("hlog") or []):
            bad.append(("listener-changes-result", "pass %s: steps/globals/host log differ from the run without listeners" % pn))
    if plain.get("events"):
        bad.append(("events-without-listener", "%d events although no factory was installed" % len(plain["events"])))
    evA = A.get("events") or []
    if bracket_why(evA) is None:
        ch = chains(c, evA)
        for k, ((fa, want, _), got) in enumerate(zip(ch, A.get("iters") or [])):
            if got != want:
                bad.append(("stack-iterator", "pass A, before-event %d of function %d: iterator %s, call chain %s" % (k, fa, got, want))); break
        if B is not None and B["steps"] == A["steps"]:
            m = addr_mask(c, B, c["mask"])
            proj = [e for e in evA if e[1] < len(m) and m[e[1]]]
            if proj != (B.get("events") or []):
                bad.append(("subset-not-projection", "the events seen by the listener subset are not the all-listened stream restricted to it"))
            else:
                wantB = [w for (fa, w, _) in ch if fa < len(m) and m[fa]]
                for k, (want, got) in enumerate(zip(wantB, B.get("iters") or [])):
                    if got != want:
                        bad.append(("stack-iterator", "pass B (%s), before-event %d: iterator %s, call chain %s" % (c["mode"], k, got, want))); break
    return bad
