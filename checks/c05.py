"""C05 — numeric instructions compute the specified function (both engines, three operand-lowering paths,
compared inside Coq against the specification's definitions)."""
import json, os, re, time
from concurrent.futures import ThreadPoolExecutor
from vcheck import *

SLOTS = [("interp", "param"), ("interp", "const"), ("interp", "memory"), ("interp", "const-left"), ("interp", "const-right"),
         ("compiler", "param"), ("compiler", "const"), ("compiler", "memory"), ("compiler", "const-left"), ("compiler", "const-right")]
TRAPS = {-1: "integer divide by zero", -2: "integer overflow", -3: "invalid conversion to integer", -8: "go panic", -9: "other error"}

# per-tier harness parameters: (classes, crossed-core budget, random tuples, constant-mode calls, exhaustive 8-bit lanes)
TIERS = {
    "quick": dict(classes="int,float,simd,simdf", budget=120, rand=24, const=16, ext=70, ex8=False, combo=300, combocalls=8, famcap=90),
    "thorough": dict(classes="int,float,simd,simdf", budget=1200, rand=1500, const=200, ext=0, ex8=True, combo=3000, combocalls=24, famcap=0),
}


def where(sc):
    """label of one observation: engine/mode, plus the combo function it was made in"""
    s, combo = sc
    return "%s/%s" % SLOTS[s] + (" in " + combo if combo else "")


def fmt_obs(o):
    return TRAPS.get(o, "trap %d" % o) if o < 0 else hex(o)


def enc_val(v):
    if v < 0:
        return "9;%d" % -v
    limbs = []
    while v:
        limbs.append(v & (2 ** 62 - 1))
        v >>= 62
    return ";".join([str(len(limbs))] + [str(x) for x in limbs])


def coq_case(op, imm, args, obs):
    return ";".join([str(op), enc_val(imm), str(len(args))] + [enc_val(a) for a in args] + [str(len(obs))] + [enc_val(o) for o in obs])


def eval_shard(job):
    name, rows = job
    # literal lists are cut into chunks: one huge list literal overflows coqc's stack
    chunks, cur, n = [], [], 0
    for r in rows:
        cur.append(r)
        n += r.count(";") + 1
        if n > 6000:
            chunks.append(cur); cur, n = [], 0
    if cur:
        chunks.append(cur)
    v = ("From Verif Require Import Wasm.NumericsOps.\nFrom Coq Require Import ZArith List Uint63.\nImport ListNotations.\nOpen Scope uint63_scope.\n"
         + "".join("Definition c%d : list int := [\n%s].\n" % (i, ";\n".join(c)) for i, c in enumerate(chunks))
         + "Definition M := Eval vm_compute in mismatches_chunks [%s].\nPrint M.\n" % "; ".join("c%d" % i for i in range(len(chunks))))
    rc, o = coq_eval(name, v, timeout=1500)
    return rc, o, parse_zlist(o, "M")


def run(tier, seed):
    ck = Check("C05", tier, seed)
    ck.trusted += ["coq/Wasm/Numerics*.v: the specification's numeric definitions written from the WebAssembly core specification (integers on Z; floats through Flocq 4.1 Binary/Bits = IEEE-754)",
                   "harness/c05 (Go: module encoder, operand generators, trap classification) and checks/c05.py (case conversion)",
                   "the amd64 instruction sequences and the interpreter's Go float arithmetic are not modelled: their agreement with the specification rests on the differential run"]
    ck.assumptions += ["NaN results are compared by class: canonical NaN (either sign) when no operand is a non-canonical NaN, otherwise any arithmetic NaN",
                       "trap kinds follow the specification's test-suite: NaN -> invalid conversion, out of range -> integer overflow, /0 -> divide by zero",
                       "vector memory instructions (load/store lane, load splat/extend) belong to C02/C14, not C05"]
    proofs_ok = ck.proofs()
    t = dict(TIERS.get(tier, TIERS["quick"]))
    if os.environ.get("C05_CLASSES"):      # debugging aid: restrict the opcode classes
        t["classes"] = os.environ["C05_CLASSES"]
    if not proofs_ok:
        t["rand"] *= 2
    binp, log = build_harness("c05")
    if not binp:
        ck.violation("harness-build", {"kind": "build"}, {"log": log[-3000:]}, no_input=True)
        return ck.finish()
    cmd = [binp, "-seed", str(seed), "-classes", t["classes"], "-budget", str(t["budget"]), "-rand", str(t["rand"]), "-const", str(t["const"]), "-ext", str(t["ext"]),
           "-combo", str(t["combo"]), "-combocalls", str(t["combocalls"]), "-famcap", str(t["famcap"])]
    if t["ex8"]:
        cmd.append("-ex8")
    t0 = time.time()
    rc, out = sh(cmd, timeout=3000)
    ck.note("harness: %.1fs" % (time.time() - t0))
    fails, groups, names, combos = [], {}, {}, {}
    for ln in out.split("\n"):
        if not ln.startswith("{"):
            continue
        d = json.loads(ln)
        if "fail" in d:
            fails.append(d["fail"])
            continue
        key = (d["op"], d["imm"], tuple(d["a"]))
        names[d["op"]] = d["n"]
        g = groups.setdefault(key, {})
        combo = d.get("combo", "")
        if combo:
            combos[combo] = combos.get(combo, 0) + 1
        for slot, o in enumerate(d["r"]):
            if o is not None:
                g.setdefault(o, set()).add((slot, combo))
    if rc != 0 or not groups:
        ck.violation("harness-crash", {"kind": "crash"}, {"rc": rc, "fails": fails, "tail": out[-2000:]}, no_input=False)
        return ck.finish()
    # a batch module (valid: the other engine or the other batches run it) that an engine cannot compile / instantiate
    for eng in ("interp", "compiler"):
        fl = [f for f in fails if f.startswith(eng)]
        if fl:
            ck.violation("module-compile-failure", {"kind": "module-compile-failure", "engine": eng},
                         {"failures": fl, "note": "the batched module of single-instruction and combo functions failed to compile or instantiate on this engine; "
                                                  "the observations of the remaining modules are still compared below"})
    keys = list(groups.keys())
    obs_lists = [sorted(groups[k].keys()) for k in keys]
    ck.cases = sum(len(s) for g in groups.values() for s in g.values())
    ck.distinct = len(keys)
    per_op, traps, slots = {}, {}, {}
    for k, g in zip(keys, groups.values()):
        per_op[names[k[0]]] = per_op.get(names[k[0]], 0) + 1
        for o, ss in g.items():
            if o < 0:
                traps[TRAPS.get(o, str(o))] = traps.get(TRAPS.get(o, str(o)), 0) + 1
            for s, combo in ss:
                nm = "%s/%s" % SLOTS[s] + ("/combo" if combo else "")
                slots[nm] = slots.get(nm, 0) + 1
    fams = {}
    for cname in combos:
        fams[cname.split(":")[0]] = fams.get(cname.split(":")[0], 0) + 1
    ck.dist = {"operations": len(per_op), "tuples_per_op": per_op, "trap_outcomes": traps, "observations_per_engine_mode": slots,
               "combo_functions": len(combos), "combo_functions_per_family": fams}
    ck.samples = [dict(op=names[k[0]], imm=k[1], args=[hex(a) for a in k[2]], observed={fmt_obs(o): [where(sc) for sc in sorted(ss)] for o, ss in groups[k].items()})
                  for k in keys[:: max(1, len(keys) // 6)][:6]]
    ck.extra["rule"] = ("one exported function per (opcode, immediate, operand mode: parameters / constants / memory loads), both engines; operands: crossed boundary sets "
                        "(powers of two +-1, sign boundaries, shift counts 0..2*width, every float class, conversion and truncation boundaries, halves) plus random values from "
                        "VERIF_SEED; every distinct (op, imm, operands) tuple is evaluated once by vm_compute on the specification and compared with all observations "
                        "(bit-exact; NaN by class); distinct = distinct (op, imm, operands) tuples. Besides the single-instruction functions, 'combo' functions hold two or "
                        "three different instructions in one body (all unordered pairs - a seed-dependent sample of them in the quick tier - within each family sharing lowering "
                        "helpers or per-function backend state: vector shifts, saturating/min/max/avgr, extend/narrow/extmul, float min/max/pmin/pmax, sign ops, roundings, "
                        "trunc/trunc_sat, conversions, div/rem, scalar shifts/rotates, compares, constant-pool users, lane ops; plus random cross-family pairs and triples) "
                        "and return all results; every component is compared with the specification like a single instruction")
    # ---- evaluate the specification inside Coq, shards in parallel ----
    rows = [coq_case(k[0], k[1], k[2], ol) for k, ol in zip(keys, obs_lists)]
    # shards interleave the rows so that cheap (integer) and expensive (f64 div, vector) cases are spread evenly
    nsh = 16 if tier == "quick" else max(16, len(rows) // 6000)
    jobs = [("c05_%d" % s, rows[s::nsh]) for s in range(nsh)]
    t0 = time.time()
    with ThreadPoolExecutor(max_workers=16) as ex:
        results = list(ex.map(eval_shard, jobs))
    ck.note("coq evaluation of %d tuples in %d shards: %.1fs" % (len(rows), len(jobs), time.time() - t0))
    mism = []
    for (name, _), (rc, o, lst) in zip(jobs, results):
        base = int(name.split("_")[1])
        if rc != 0 or lst is None:
            ck.violation("model-eval", {"kind": "model-eval"}, {"rc": rc, "out": o[-2000:]}, no_input=True)
            return ck.finish()
        for i in range(0, len(lst), 2):
            mism.append((base + nsh * lst[i], lst[i + 1]))
    ck.extra["model_mismatches"] = len(mism)
    reported, todo = {}, []
    for idx, j in mism:
        k = keys[idx]
        o = obs_lists[idx][j]
        for s, combo in sorted(groups[k][o]):
            eng, mode = SLOTS[s]
            rk = (names[k[0]], eng, "combo" if combo else "single")
            reported[rk] = reported.get(rk, 0) + 1
            if reported[rk] > 2 or len(reported) > 40:
                continue
            todo.append((k, o, eng, mode, combo))
    # what the specification prescribes for the reported tuples (printed by Coq, attached to the replay file)
    expected = {}
    if todo:
        uniq = sorted({t[0] for t in todo})
        v = ("From Verif Require Import Wasm.NumericsOps.\nFrom Coq Require Import ZArith List.\nImport ListNotations.\nOpen Scope Z_scope.\n"
             + "".join("Definition E%d := Eval vm_compute in spec_op %d %d [%s].\nPrint E%d.\n" % (i, k[0], k[1], "; ".join(str(a) for a in k[2]), i)
                       for i, k in enumerate(uniq)))
        rc, o = coq_eval("c05_expected", v, timeout=600)
        for i, k in enumerate(uniq):
            m = re.search(r"E%d\s*=\s*(.*?)\s*:\s*res" % i, o, re.S)
            if m:
                txt = " ".join(m.group(1).split())
                txt = re.sub(r"\b(\d{4,})\b", lambda mm: hex(int(mm.group(1))), txt)
                expected[k] = txt
    for k, o, eng, mode, combo in todo:
        # where = "single": wrong in a function holding only this instruction; "combo": wrong inside a function that also holds other instructions
        sig = {"kind": "numeric-result-differs-from-spec", "op": names[k[0]], "engine": eng, "where": "combo" if combo else "single"}
        others = {fmt_obs(x): [where(sc) for sc in sorted(ss)] for x, ss in groups[k].items()}
        ck.violation(sig["kind"], sig, {"op": names[k[0]], "opid": k[0], "imm": k[1], "operands": [hex(a) for a in k[2]], "mode": mode,
                                        "function": combo or "single instruction", "instructions_in_body_order": combo.split(":", 1)[1].split("+") if combo else [names[k[0]]],
                                        "observed": fmt_obs(o), "specified": expected.get(k, "?"), "all_observations": others,
                                        "note": "the specification (coq/Wasm/Numerics*.v, evaluated by vm_compute) does not allow this outcome; "
                                                "RBits v = exactly v, RTrap 1/2/3 = divide by zero / integer overflow / invalid conversion, "
                                                "RNan w canon = a NaN (canonical if canon), RLanes = per lane"})
    ck.extra["mismatching_ops"] = {"%s/%s/%s" % k: v for k, v in reported.items()}
    if not proofs_ok and not ck.violations:
        ck.violation("proof-broken", {"kind": "proof-broken"}, getattr(ck, "proof_failure", {}), no_input=True)
    return ck.finish()
