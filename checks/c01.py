"""C01 — compiler and interpreter agree on every valid program (three-way with the reference semantics W)."""
import json
from vcheck import *
from wcommon import *


def run(tier, seed):
    ck = Check("C01", tier, seed)
    ck.trusted += ["coq/Wasm/Sem.v reference semantics (hand-written from the specification), tied to BOTH engines by differential runs",
                   "harness/common generator + encoder (valid-by-construction programs), harness/c01, checks/wcommon.py"]
    ck.assumptions += ["the SSA compiler, register allocator, encoder and native execution are exercised, not modelled",
                       "floats, SIMD, atomics, bulk memory, reference-type instructions are outside this generator (C05 covers numerics)"]
    proofs_ok = ck.proofs()
    n = 150 if tier == "quick" else 4000
    if not proofs_ok: n *= 2
    binp, log = build_harness("c01")
    if not binp:
        ck.violation("harness-build", {"kind": "build"}, {"log": log[-3000:]}, no_input=True)
        return ck.finish()
    rc, out = sh([binp, "-seed", str(seed), "-n", str(n)], timeout=1200)
    cases = [json.loads(l) for l in out.split("\n") if l.startswith("{")]
    if rc != 0 or not cases:
        ck.violation("harness-crash", {"kind": "crash"}, {"rc": rc, "tail": out[-3000:]})
        return ck.finish()
    ck.cases = len(cases) * 2
    dist = {"calls": 0, "outcomes": {}, "instr_total": 0, "model_out_of_fuel": 0}
    for c in cases:
        dist["instr_total"] += c["ninstr"]
        for o in (c["engines"]["interp"].get("obs") or []):
            dist["calls"] += 1
            k = o.get("trap") or "values"
            dist["outcomes"][k] = dist["outcomes"].get(k, 0) + 1
    ck.distinct = len(set(c["wasm"] for c in cases))
    ck.samples = [dict(calls=c["calls"], interp=c["engines"]["interp"].get("obs"), wasm_hex=c["wasm"][:160] + "...") for c in cases[:3]]
    ck.extra["rule"] = ("typed by-construction-valid programs (control flow, calls, indirect calls, memory, globals, host imports) from VERIF_SEED x 3-7 export calls "
                        "with boundary/random arguments; each program runs on interpreter, compiler and (inside Coq) the reference semantics; distinct by module bytes")
    # engine vs engine (the property itself)
    for c in cases:
        why = engines_agree(c)
        if why:
            ck.violation("engines-differ", {"kind": "engines-differ"}, {"why": why, "case": c})
            break
    # each engine vs W
    for eng in ("interp", "compiler"):
        items, idx = [], []
        for i, c in enumerate(cases):
            eo = c["engines"][eng]
            if eo.get("err"):
                ck.violation("engine-error", {"kind": "engine-error", "engine": eng}, {"err": eo["err"], "case": c})
                continue
            if any((o.get("trap") or "") == "exhaust" for o in eo["obs"]):
                continue
            items.append(coq_dcase(c, eo)); idx.append(i)
        mism, err = eval_dcases("c01_" + eng, items)
        if err:
            ck.violation("model-eval", {"kind": "model-eval"}, {"err": err}, no_input=True)
            break
        shown = 0
        for k, code in mism:
            if code == -3:
                dist["model_out_of_fuel"] += 1
                continue
            if shown < 2:
                ck.violation("engine-vs-spec", {"kind": "engine-vs-spec", "engine": eng},
                             {"code": code, "meaning": "index of first differing call; 1000 host log, 1001 globals, 1002 memory, 1003 pages", "case": cases[idx[k]]})
                shown += 1
    ck.dist = dist
    if not proofs_ok and not ck.violations:
        ck.violation("proof-broken", {"kind": "proof-broken"}, getattr(ck, "proof_failure", {}), no_input=True)
    return ck.finish()
