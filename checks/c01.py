"""C01 — compiler and interpreter agree on every valid program (three-way with the reference semantics W)."""
import json
from vcheck import *
from wcommon import *


def run(tier, seed):
    ck = Check("C01", tier, seed)
    ck.trusted += ["coq/Wasm/Sem.v reference semantics (hand-written from the specification), tied to BOTH engines by differential runs",
                   "harness/common generator + encoder (valid-by-construction programs), harness/c01, checks/wcommon.py"]
    ck.assumptions += ["the SSA compiler, register allocator, encoder and native execution are exercised, not modelled",
                       "floats, SIMD, bulk memory, reference-type instructions are outside the three-way generator (no model); they are covered engine-vs-engine by the typed-coverage stream (C05 covers numerics against the spec); atomics are not generated"]
    proofs_ok = ck.proofs()
    n = 150 if tier == "quick" else 4000
    if not proofs_ok: n *= 2
    binp, log = build_harness("c01")
    if not binp:
        ck.violation("harness-build", {"kind": "build"}, {"log": log[-3000:]}, no_input=True)
        return ck.finish()
    rc, out = sh([binp, "-seed", str(seed), "-n", str(n)], timeout=1200)
    cases = jlines(out)
    if rc != 0 or not cases:
        ck.violation("harness-crash", {"kind": "crash"}, {"rc": rc, "tail": out[-3000:]})
        return ck.finish()
    ck.cases = len(cases) * 2
    dist = {"calls": 0, "outcomes": {}, "instr_total": 0, "model_out_of_fuel": 0}
    for c in cases:
        dist["instr_total"] += c["ninstr"]
        for o in (c["engines"]["interp"].get("obs") or []):
            dist["calls"] += 1
            k = o.get("trap") or "values"
            dist["outcomes"][k] = dist["outcomes"].get(k, 0) + 1
    ck.distinct = len(set(c["wasm"] for c in cases))
    ck.samples = [dict(calls=c["calls"], interp=c["engines"]["interp"].get("obs"), wasm_hex=c["wasm"][:160] + "...") for c in cases[:3]]
    ck.extra["rule"] = ("typed by-construction-valid programs (control flow, calls, indirect calls, memory, globals, host imports) from VERIF_SEED x 3-7 export calls "
                        "with boundary/random arguments; each program runs on interpreter, compiler and (inside Coq) the reference semantics; distinct by module bytes")
    # engine vs engine (the property itself)
    for c in cases:
        why = engines_agree(c)
        if why:
            ck.violation("engines-differ", {"kind": "engines-differ"}, {"why": why, "case": c})
            break
    # each engine vs W
    for eng in ("interp", "compiler"):
        items, idx = [], []
        for i, c in enumerate(cases):
            eo = c["engines"][eng]
            if eo.get("err"):
                ck.violation("engine-error", {"kind": "engine-error", "engine": eng}, {"err": eo["err"], "case": c})
                continue
            if any((o.get("trap") or "") == "exhaust" for o in eo["obs"]):
                continue
            items.append(coq_dcase(c, eo)); idx.append(i)
        mism, err = eval_dcases("c01_" + eng, items)
        if err:
            ck.violation("model-eval", {"kind": "model-eval"}, {"err": err}, no_input=True)
            break
        shown = 0
        for k, code in mism:
            if code == -3:
                dist["model_out_of_fuel"] += 1
                continue
            if shown < 2:
                ck.violation("engine-vs-spec", {"kind": "engine-vs-spec", "engine": eng},
                             {"code": code, "meaning": "index of first differing call; 1000 host log, 1001 globals, 1002 memory, 1003 pages", "case": cases[idx[k]]})
                shown += 1
    typed_coverage_stream(ck, seed, 40 if tier == "quick" else 1500, dist)
    import c01_ssa   # SSA stream: the CFG-level passes of the optimizing compiler, validated by the verified checkers of Engine/SsaCfg.v
    c01_ssa.stream(ck, [{"wasm": h} for h in _TC_HEX[:20 if tier == "quick" else 400]] + cases, tier, seed, dist, engines_agree)
    ck.dist = dist
    if not proofs_ok and not ck.violations:
        ck.violation("proof-broken", {"kind": "proof-broken"}, getattr(ck, "proof_failure", {}), no_input=True)
    return ck.finish()


_TC_HEX = []


def typed_coverage_stream(ck, seed, n, dist):
    """Engine-vs-engine only (no model: W has integers only): modules of the type-coverage generator of harness/c03
    (every value type incl. f32/f64/v128/funcref/externref, block parameters, multi-value, tables, bulk memory, SIMD
    lanes), compiled, instantiated and called on both engines in capped child processes; any difference in results,
    trap class or final state is the property failing on that module."""
    binp, log = build_harness("c03")
    if not binp:
        ck.violation("harness-build", {"kind": "build", "harness": "c03"}, {"log": log[-2000:]}, no_input=True)
        return
    work = os.path.join(WORK, "c01_g2")
    os.makedirs(work, exist_ok=True)
    rc, out = sh([binp, "-mode", "run", "-seed", str(seed + 1000), "-nleb", "0", "-nvalid", "0", "-nvalid2", str(n), "-nmut", "0", "-nrand", "0",
                  "-probes=false", "-par", "6", "-work", work], timeout=2400)
    inputs, res = {}, {}
    for l in out.split("\n"):
        if not l.startswith("{"): continue
        try: d = json.loads(l)
        except ValueError: continue
        if d.get("ev") == "input": inputs[len(inputs)] = d
        elif d.get("ev") == "res": res[d["id"]] = d
    tc = {"modules": len(inputs), "ran": 0, "calls": 0, "outcomes": {}, "not_compiled": 0}
    dist["typed_coverage_stream"] = tc
    if rc != 0 or len(res) < len(inputs):
        missing = [i for i in inputs if i not in res][:3]
        ck.violation("engine-crash", {"kind": "child-death", "stream": "typed-coverage"},
                     {"rc": rc, "missing": [{"id": i, "wasm_hex": inputs[i]["hex"]} for i in missing], "tail": out[-1500:]})
        return
    shown = 0
    for i, r in sorted(res.items()):
        comp = r.get("comp") or {}
        if not (r["dec"]["ok"] and all(comp.get(e, {}).get("ok") for e in ("interp", "compiler"))):
            tc["not_compiled"] += 1
            if shown < 2:
                shown += 1
                ck.violation("valid-module-rejected", {"kind": "valid-module-rejected", "stream": "typed-coverage"},
                             {"id": i, "decode": r["dec"], "compile": comp, "wasm_hex": inputs[i]["hex"]})
            continue
        tc["ran"] += 1
        _TC_HEX.append(inputs[i]["hex"])   # also goes through the SSA stream (c01_ssa.py)
        ro = (r.get("run") or {}).get("interp") or {}
        tc["calls"] += ro.get("calls", 0)
        for k, v in (ro.get("outcomes") or {}).items():
            tc["outcomes"][k] = tc["outcomes"].get(k, 0) + v
        if r.get("engdiff") and shown < 2:
            shown += 1
            ck.violation("engines-differ", {"kind": "engines-differ", "stream": "typed-coverage"},
                         {"id": i, "diff": r["engdiff"], "run": r.get("run"), "wasm_hex": inputs[i]["hex"]})
    ck.cases += 2 * tc["ran"]


# ---------------------------------------------------------------------------------------------------------------
# Typed validation (appended; nothing above is changed). Every generated program is ALSO checked by the Coq type
# checker coq/Wasm/Validate.v inside the same Coq evaluation that runs the reference semantics for the interpreter:
# harness/c01t decodes each module's bytes (wazero's binary decoder + harness/common/typed.go) into the typed mirror
# term; Wasm/ValidateHarness.v checks (a) that its erasure is the store the generator printed and (b) that the
# checker accepts it, before running the case. A rejection means the 'valid by construction' generator or the
# checker is wrong: reported as `model-differs`. Soundness of the checker for W: Properties/C03.v
# (C03_validated_no_stuck), and C01_slot_machine_refines_spec uses it.
_base_coq_dcase, _base_eval_dcases, _BaseCheck = coq_dcase, eval_dcases, Check
_TYPED = {"viol": [], "validated": 0, "skipped": None, "cache": {}}


class _Item(str):
    pass


def coq_dcase(c, eo):
    it = _Item(_base_coq_dcase(c, eo))
    it.case = c
    return it


def _typed_terms(cases):
    """wasm hex -> {"funcs": coq term, "gt": coq term}; None when the c01t harness is unavailable."""
    todo = [c["wasm"] for c in cases if c["wasm"] not in _TYPED["cache"]]
    if todo:
        binp, log = build_harness("c01t")
        if not binp:
            _TYPED["skipped"] = "harness c01t does not build: " + log[-1500:]
            return None
        rc, out = sh([binp], timeout=300, inp="\n".join(todo) + "\n")
        outs = jlines(out)
        if rc != 0 or len(outs) != len(todo):
            _TYPED["skipped"] = "harness c01t failed (rc %d, %d of %d lines): %s" % (rc, len(outs), len(todo), out[-1500:])
            return None
        for w, o in zip(todo, outs):
            _TYPED["cache"][w] = o
    return _TYPED["cache"]


def eval_dcases(name, items, **kw):
    if name != "c01_interp" or kw or not all(isinstance(it, _Item) for it in items):
        return _base_eval_dcases(name, items, **kw)
    typed = _typed_terms([it.case for it in items])
    if typed is None:
        return _base_eval_dcases(name, items)
    vitems, bad = [], []
    for k, it in enumerate(items):
        t = typed[it.case["wasm"]]
        if t.get("err"):
            bad.append((k, t["err"]))
            vitems.append("{| v_case := %s; v_funcs := []; v_gt := [] |}" % it)   # -> 3001
        else:
            vitems.append("{| v_case := %s;\n v_funcs := %s; v_gt := %s |}" % (it, t["funcs"], t["gt"]))
    mism, err = _base_eval_dcases(name, vitems, shard=40, fn="vmismatches",
                                  imports="Wasm.Numerics Wasm.Sem Wasm.Harness Wasm.Validate Wasm.ValidateHarness")
    if err:
        return mism, err
    _TYPED["validated"] += len(items)
    keep = []
    errs = dict(bad)
    for k, code in mism:
        if code in (3000, 3001):
            _TYPED["validated"] -= 1
            _TYPED["viol"].append({"code": code,
                                   "meaning": "3000: Wasm/Validate.v rejects the generated program; 3001: the typed mirror decoded from the module bytes does not erase to the generator's Coq term",
                                   "decoder_error": errs.get(k), "case": items[k].case})
        else:
            keep.append((k, code))
    return keep, None


class Check(_BaseCheck):
    def finish(self, level="proof"):
        if self.pid == "C01":
            for v in _TYPED["viol"][:2]:
                self.violation("model-differs", {"kind": "model-differs", "what": "typed-validation", "code": v["code"]}, v)
            if _TYPED["skipped"]:
                self.violation("harness-build", {"kind": "build", "harness": "c01t"}, {"log": _TYPED["skipped"]}, no_input=True)
            if isinstance(self.dist, dict):
                self.dist["validated_by_coq_type_checker"] = _TYPED["validated"]
                self.dist["rejected_by_coq_type_checker"] = len(_TYPED["viol"])
            self.trusted.append("harness/c01t + harness/common/typed.go (typed mirror terms decoded from the module bytes); "
                                "coq/Wasm/Validate.v instr_eqb (syntactic comparison of the erasure with the generator's term)")
        return super().finish(level)
