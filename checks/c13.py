"""C13 — the on-disk compilation cache is deterministic and crash-safe.

Proofs: coq/Properties/C13.v (codec: round trip, every strict prefix rejected, other versions never accepted;
directory: crash safety of Add for every interleaving / crash point, failure path cleans up).
Tie (harness/c13):
  codec   the real serializeCompiledModule / deserializeCompiledModule (overlay export) on random records: bytes,
          the complete read, EVERY truncation length and version / byte-patch probes are re-computed by the model
          inside Coq (Rt.CacheCodec.mismatches);
  fs      child processes compiling through wazero.NewCompilationCacheWithDir: one per crash point of fileCache.Add
          (hooks of the `verif` build), injected write errors (RLIMIT_FSIZE), 2-3 concurrent processes on one key
          with hook crashes and SIGKILLs, three fresh processes per module (determinism), truncated / other-version /
          corrupted entries planted under the final name; every directory listing is compared with the state of
          Rt.CacheFs (fs_mismatches) and every planted entry with the codec model (p_mismatches).
Oracle (Python only, no model): a file under a final name always equals the entry of an undisturbed run and parses;
a later process always compiles and runs correctly; truncated / other-version / corrupted-code entries are never used.

Second part (checks/c13ext.py, coq/Rt/CacheExt.v, theorems C13_key_* .. C13_limit_* of coq/Properties/C13.v):
  settings  one binary under a lattice of settings (listener factory absent / on all / declining all / on subsets,
            close-on-context-done, CoreFeatures, capacity-from-max, memory limit, debug info, interpreter), every point cold
            in a directory of its own, then all points in several orders against ONE directory, a fresh process each: the same
            file name only for the same generated code, every warm process behaves (results, listener events, termination
            of a long loop under a deadline, rejection by the feature set) as the cold one, the directory grows by exactly
            the cold entry; the file names are re-computed from the model's key strings (real sha256 in Python) and the
            sequence loaded / compiled is compared with Rt.CacheExt.session inside Coq;
  damaged   the reader alone, one process per damaged entry under the 4 GB address-space limit: high bytes of the count, the
            code length and the source-map length (outcome, Go heap bytes of the call, length handed to mmap vs
            Rt.CacheExt.alloc_c); the whole runtime on entries damaged in one field each (magic, count, offsets, code length,
            checksum, flag), with trailing bytes, on a DIRECTORY under the final name, an unreadable entry (reader without
            privileges), a cache directory removed between runs and inside a run (Rt.CacheExt.d_mismatches);
  samekey   16 goroutines of ONE process compile the same binary at once through one runtime / one cache object / a cache
            object each, directory empty, warm, holding another version's entry, holding a truncated entry; plus many warm
            rounds on a module with 96 function types."""
import base64, json, os, shutil, tempfile
from concurrent.futures import ThreadPoolExecutor
from vcheck import *
import c13ext

VER = b"dev"          # version.GetWazeroVersion() of a harness build (main module, "(devel)" -> Default)
MAGIC = b"WAZEVO"
# the harness runs with a 4 GB address-space limit: a changed reader that believes a corrupted function count
# would otherwise allocate tens of gigabytes (the box has no swap)
LIMIT = (["prlimit", "--as=4000000000", "--"] if shutil.which("prlimit")
         else ["bash", "-c", 'ulimit -v 3906250; exec "$@"', "--"])
# used once when the harness dies before completing a single case (on a heavily loaded box the Go runtime itself can
# run out of address space under the 4 GB limit while it starts threads); a reader that allocates from a corrupted
# count still exceeds it
LIMIT2 = (["prlimit", "--as=12000000000", "--"] if shutil.which("prlimit")
          else ["bash", "-c", 'ulimit -v 11718750; exec "$@"', "--"])


# ------------------------------------------------------------------------------------------------
# independent reference used by the oracle only (not the Coq model): CRC-32C and an entry parser

def _crc_table():
    t = []
    for i in range(256):
        c = i
        for _ in range(8):
            c = (c >> 1) ^ 0x82F63B78 if c & 1 else c >> 1
        t.append(c)
    return t


_T = _crc_table()


def crc32c(b):
    c = 0xFFFFFFFF
    for x in b:
        c = _T[(c ^ x) & 0xFF] ^ (c >> 8)
    return c ^ 0xFFFFFFFF


def parse_entry(version, d):
    """What a reader of `version` must make of the bytes d, written from the format description in
    engine_cache.go's comments: 'ok' (+ fields, bytes used), 'stale', or 'error'."""
    h = 6 + 1 + len(version) + 4
    if len(d) < h or d[:6] != MAGIC:
        return ("error",)
    vl = d[6]
    if vl != len(version) or d[7:7 + vl] != version:
        return ("stale",)
    p = 7 + vl
    n = int.from_bytes(d[p:p + 4], "little"); p += 4
    if len(d) < p + 8 * n + 8:
        return ("error",)
    offs = [int.from_bytes(d[p + 8 * i:p + 8 * i + 8], "little") for i in range(n)]; p += 8 * n
    el = int.from_bytes(d[p:p + 8], "little"); p += 8
    if len(d) < p + el + 4 + 1:
        return ("error",)
    code = d[p:p + el]; p += el
    if int.from_bytes(d[p:p + 4], "little") != crc32c(code):
        return ("error",)
    p += 4
    flag = d[p]; p += 1
    sm = []
    if flag == 1:
        if len(d) < p + 8:
            return ("error",)
        l = int.from_bytes(d[p:p + 8], "little"); p += 8
        if len(d) < p + 16 * l:
            return ("error",)
        sm = [(int.from_bytes(d[p + 16 * i:p + 16 * i + 8], "little"), int.from_bytes(d[p + 16 * i + 8:p + 16 * i + 16], "little")) for i in range(l)]
        p += 16 * l
    return ("ok", dict(offs=offs, code=code, sm=sm), p)


# ------------------------------------------------------------------------------------------------
# Coq syntax

def zl(b): return "[" + "; ".join(str(x) for x in b) + "]"


def b64(s): return base64.b64decode(s or "")


def coq_cm(cm):
    return "{| cm_offsets := %s; cm_exec := %s; cm_sm_wasm := %s; cm_sm_exec := %s |}" % (
        "[" + "; ".join("(%d)" % o for o in cm["offs"]) + "]", zl(b64(cm["exec"])), zl(cm["smw"] or []), zl(cm["sme"] or []))


def coq_outcome(o):
    k = o["o"]
    if k == "ok": return "(Ok %s)" % coq_cm(o["cm"])
    return {"stale": "Stale", "error": "Error", "panic": "Panic"}[k]


def coq_vspec(v, w):
    if w == v: return "VSame"
    if len(w) == len(v):
        d = [(i, w[i]) for i in range(len(v)) if w[i] != v[i]]
        if len(d) <= 4: return "(VPatch [%s])" % "; ".join("(%d, %d)" % x for x in d)
    return "(VLit %s)" % zl(w)


def coq_pout(full, o):
    if o["o"] != "ok" or full["o"] != "ok": return "(PO %s)" % coq_outcome(o)
    a, b = full["cm"], o["cm"]
    same = lambda k: (a[k] or []) == (b[k] or [])
    if same("offs") and same("exec") and same("smw") and same("sme"): return "PSame"
    if same("exec") and same("smw") and same("sme"): return "(POffs [%s])" % "; ".join("(%d)" % x for x in b["offs"])
    if same("exec") and same("offs"): return "(PSm %s %s)" % (zl(b["smw"] or []), zl(b["sme"] or []))
    return "(PO %s)" % coq_outcome(o)


def coq_ccase(c):
    if not c["ser_ok"]:
        return "(%s, %s, None, Error, [], [])" % (zl(b64(c["v"])), coq_cm(c["cm"]))
    tr = []
    for k, ch in enumerate(c["truncs"]):
        if ch == "E": tr.append("OErr")
        elif ch == "S": tr.append("OSame")
        else: tr.append("OOther " + coq_outcome(c["truncx"][str(k)]))
    v = b64(c["v"])
    pr = ["(%s, [%s], %s, %s)" % (coq_vspec(v, b64(p["v"])), "; ".join("(%d, %d)" % (a, b) for a, b in p["patch"]), zl(b64(p["suffix"])),
                                   coq_pout(c["full"], p["out"])) for p in c["probes"]]
    return "(%s, %s, Some %s, %s,\n  [%s],\n  [%s])" % (zl(v), coq_cm(c["cm"]), zl(b64(c["ser"])), coq_outcome(c["full"]),
                                                         "; ".join(tr), ";\n   ".join(pr))


# ------------------------------------------------------------------------------------------------
# oracle: the property on the implementation's observations alone

def wellformed(c):
    cm = c["cm"]
    return (len(b64(c["v"])) < 256 and len(cm["smw"] or []) == len(cm["sme"] or []) and
            (len(b64(cm["exec"])) > 0 or not (cm["sme"] or [])))


def cm_key(cm):
    return json.dumps([cm["offs"], cm["exec"] or "", cm["smw"] or [], cm["sme"] or []])


def codec_oracle(c):
    """list of (class, text) contradictions of C13 in one codec case"""
    bad = []
    v = b64(c["v"])
    if not c["ser_ok"]:
        if wellformed(c):
            bad.append(("serialize-panic", "serializeCompiledModule panicked on a well-formed record: %s" % c.get("ser_panic")))
        return bad
    e = b64(c["ser"])
    nocode = len(b64(c["cm"]["exec"])) == 0
    if wellformed(c):
        if c["full"]["o"] != "ok" or cm_key(c["full"]["cm"]) != cm_key(c["cm"]):
            bad.append(("roundtrip", "reading back the complete entry gives %s" % json.dumps(c["full"])[:300]))
        ref = parse_entry(v, e)
        if ref[0] != "ok" or ref[2] != len(e):
            bad.append(("format", "the entry does not follow the documented layout: %s" % (ref[:1],)))
    for k, ch in enumerate(c["truncs"]):
        if ch == "E":
            continue
        o = c["full"] if ch == "S" else c["truncx"][str(k)]
        if o["o"] == "panic":
            bad.append(("truncation-panic", "entry cut to %d of %d bytes panics the reader" % (k, len(e))))
        elif o["o"] == "ok":
            # the one tolerated case: an entry without code cut inside its unread last 4 bytes gives the identical module
            if not (nocode and ch == "S" and k >= len(e) - 4):
                bad.append(("truncation-accepted", "entry cut to %d of %d bytes is accepted: %s" % (k, len(e), json.dumps(o)[:200])))
    for p in c["probes"]:
        w, o = p["what"], p["out"]["o"]
        if w.startswith("reader-version") or w in ("entry-version-byte", "entry-version-length"):
            if o not in ("stale", "error"):
                bad.append(("other-version-accepted", "%s: outcome %s" % (w, o)))
        elif w == "code-byte" and o not in ("error",):
            bad.append(("corrupt-code-accepted", "a changed code byte at %s gives %s" % (p["patch"], o)))
    return bad


def files_of(fs):
    fin = [(f["name"], b64(f["data"])) for f in fs if not f["name"].endswith(".tmp")]
    tmp = [(f["name"], b64(f["data"])) for f in fs if f["name"].endswith(".tmp")]
    return fin, tmp


def run_ok(r, want):
    return r["rc"] == 0 and r.get("out") and r["out"]["ok"] and r["out"]["res"] == want


def fs_oracle(ev, ref):
    """contradictions of C13 in one directory event; ref = (name, complete entry) from an uncrashed run"""
    bad = []
    name, entry = ref
    want = ev["want"]
    planted = ev["kind"] == "planted"
    for label, fs in (("after the crash", ev["files"]), ("after the next process", ev["files_after"])):
        if planted and label == "after the crash":
            continue
        fin, tmp = files_of(fs)
        for n, d in fin:
            if planted and label == "after the next process" and ev["after"]["rc"] == 3:
                continue  # reported, left in place: judged below
            if n != name:
                bad.append(("unexpected-name", "%s: file %s is neither the key's final name nor a temp file" % (label, n)))
            elif d != entry:
                why = "a strict prefix (%d of %d bytes)" % (len(d), len(entry)) if entry.startswith(d) else "different bytes"
                # tolerated: the code-less entry cut inside its unread tail, planted by the harness itself
                if not (planted and ev["what"] == "truncated"):
                    bad.append(("partial-entry-visible", "%s: the final name holds %s" % (label, why)))
            if parse_entry(VER, d)[0] != "ok" and not planted:
                bad.append(("invalid-entry-visible", "%s: the final name does not parse" % label))
        for n, d in tmp:
            if not n.startswith(name + "."):
                bad.append(("unexpected-name", "%s: temp file %s does not belong to the key" % (label, n)))
    a = ev.get("after")
    if ev["kind"] == "fail" and not run_ok(a, want):
        bad.append(("later-process-fails", "a later process using the directory did not compile and run correctly: %s" % json.dumps(a)[:400]))
    if ev["kind"] in ("crash", "conc"):
        for r, cr, kl in zip(ev["runs"], (ev.get("what") or ev.get("point") or "").split(",") if ev["kind"] == "conc" else [ev["point"]],
                             ev.get("kills") or [0] * len(ev["runs"])):
            crashed = cr not in ("", "none")
            if not crashed and not kl and not run_ok(r, want):
                bad.append(("wrong-result", "an undisturbed process failed or computed a wrong result: %s" % json.dumps(r)[:300]))
            if r["rc"] not in (0, 137, -9):
                bad.append(("wrong-result", "process ended with %s: %s" % (r["rc"], json.dumps(r)[:300])))
        if not run_ok(a, want):
            bad.append(("later-process-fails", "a later process using the directory did not compile and run correctly: %s" % json.dumps(a)[:400]))
    if planted:
        fin, _ = files_of(ev["files_after"])
        d_after = dict(fin).get(name)
        d_before = dict(files_of(ev["files"])[0]).get(name)
        if a["rc"] == 3 and a.get("out") and a["out"].get("stage") == "compile":
            pass                                            # reported
        elif run_ok(a, want) and d_after == entry:
            pass                                            # discarded (or complete) and compiled afresh
        elif run_ok(a, want) and not ev["has_fn"] and ev["what"] == "truncated" and ev["n"] >= len(entry) - 4 and d_after == d_before:
            pass                                            # code-less entry, only unread bytes missing
        else:
            bad.append(("bad-entry-used", "planted %s entry (n=%d): next process %s, final name now holds %s bytes" %
                        (ev["what"], ev["n"], json.dumps(a)[:300], None if d_after is None else len(d_after))))
    return bad


# ------------------------------------------------------------------------------------------------
# model cases for the directory events

FULL_ADD = 5  # create, write(all), sync, close, rename


def model_events(point, n, L):
    """steps of writer 0 up to the crash point, then its death"""
    steps = {"created": 1, "copy": 2, "copied": 2, "synced": 3, "closed": 4, "renamed": 5, "none": 5}[point]
    evs = ["EStep 0 %d" % (n if (i == 1 and point == "copy") else L if i == 1 else 7) for i in range(steps)]
    if point != "none":
        evs.append("ECrash 0")
    return evs


def coq_bytes_rel(d, entry, ename):
    if d == entry: return ename
    if entry.startswith(d): return "(firstn %d %s)" % (len(d), ename)
    return zl(d)


def coq_fcase(kind, ename, nwriters, evs, fs, entry):
    fin, tmp = files_of(fs)
    f = "None" if not fin else "(Some %s)" % coq_bytes_rel(fin[0][1], entry, ename)
    t = "[" + "; ".join(coq_bytes_rel(d, entry, ename) for _, d in tmp) + "]"
    return "(%d, [%s], [%s], %s, %s)" % (kind, "; ".join([ename] * nwriters), "; ".join(evs), f, t)


def point_class(ev):
    """crash point / disturbance of an event without its numbers (keeps the signatures few)"""
    if ev["kind"] == "conc":
        ks = sorted(set(x.split(":")[0] for x in (ev.get("what") or "").split(",") if x))
        if any(ev.get("kills") or []): ks.append("sigkill")
        return "+".join(ks) or "undisturbed"
    return ev.get("point") or ev.get("what")


def run(tier, seed):
    ck = Check("C13", tier, seed)
    ck.trusted += ["hand transcription of serializeCompiledModule/deserializeCompiledModule (coq/Rt/CacheCodec.v) and of fileCache.Add (coq/Rt/CacheFs.v), tied by the correspondence run",
                   "harness/c13 (Go, overlay export of the two codec functions), checks/c13.py (case conversion, oracle, CRC-32C and entry parser of the oracle)",
                   "POSIX semantics of the kernel: rename(2) is atomic, O_EXCL creation is exclusive, a killed process's completed writes persist",
                   "crash points are the verif-tagged hooks in internal/filecache (os.Exit at the named point) and SIGKILL at random times",
                   "hand transcription of Module.AssignModuleID / fileCacheKey (key strings), of the reader's two allocation requests and of the Get/deserialize/Delete/compile/Add sequence of engine.CompileModule (coq/Rt/CacheExt.v), tied by the settings / damaged streams; sha256 itself (Python hashlib) only enters as the hypothesis 'injective'",
                   "checks/c13ext.py (oracles of the second part)"]
    ck.assumptions += ["a crash is the death of the process (kill/exit), not a power failure: durability after power loss is modelled (fsync before rename, C13_crash_safe_fs states the final name only ever holds fsynced content) but cannot be exercised here",
                       "compiler determinism (same module => same bytes) is observed on three fresh processes per module, not proved",
                       "reader.Read on a regular file returns the full header unless the file is shorter",
                       "entries without code (modules with no local function): an entry cut inside its last 4 bytes is still accepted and yields the identical code-less module (C13_prefix_no_code_exact)",
                       "the hash is injective (hypothesis of the C13_key_* / C13_warm_* theorems); for binaries of different lengths the hashed string is ambiguous as a string (CacheExtP.id_pre_not_injective), the theorems speak about binaries of one length",
                       "the checksum covers the code only: function offsets, source map, a code length of zero and the count's high bytes are NOT protected (C13_limit_* theorems); what the real runtime does with such entries is reported under part=damaged-unprotected (outside the letter of the property text: printed as notes; C13_DAMAGED_AS_VIOLATIONS=1 turns them into VIOLATION lines)",
                       "debug info on/off shares the key: the entries differ in the source map only (the code is identical), whichever is written first stays"]
    proofs_ok = ck.proofs()
    if tier == "quick":
        ncodec, nmods, nconc, ncopies = 40, 4, 6, 2
    else:
        ncodec, nmods, nconc, ncopies = 600, 40, 24, 16
    binp, log = build_harness("c13")
    if not binp:
        ck.violation("harness-build", {"kind": "build"}, {"log": log[-3000:]}, no_input=True)
        return ck.finish()

    # ---------------------------------------------------------------- (a) codec
    cases = []
    per = 150  # records per harness process: bounds the mappings leaked by failed reads of the implementation
    for s in range(0, ncodec, per):
        def codec_run(limit):
            rc, out = sh(limit + [binp, "-mode", "codec", "-seed", str(seed * 1000 + s), "-n", str(min(per, ncodec - s))], timeout=1200)
            got = []
            for ln in out.split("\n"):
                if not ln.startswith("{"):
                    continue
                try: j = json.loads(ln)
                except ValueError: continue      # a line cut off by the death of the harness
                if j["kind"] == "codec": got.append(j)
                elif j["kind"] == "codec-extra" and j["idx"] == len(got) - 1: got[-1]["probes"] += j["probes"]
            return rc, out, got
        rc, out, got = codec_run(LIMIT)
        if rc != 0 and not got:
            ck.note("codec harness died before its first case under the 4 GB address-space limit; retried once under 12 GB")
            rc, out, got = codec_run(LIMIT2)
        cases += got
        if rc != 0 or not got:
            # the cases completed before the harness died are still judged below
            oom = "out of memory" in out or "cannot allocate" in out
            ck.violation("harness-crash", {"kind": "crash", "mode": "codec", "out_of_memory": oom},
                         {"rc": rc, "completed_cases": len(got), "why": "the reader tried to allocate beyond the 4 GB limit of the harness" if oom else "",
                          "tail": out[-3000:]})
            if not got:
                return ck.finish()
            break
    dist = {"records": len(cases), "serialize_panics": 0, "no_code": 0, "with_source_map": 0, "truncations": 0, "trunc_outcomes": {},
            "probes": {}, "version_len": {}, "crash_points": {}, "fs_events": {}}
    for c in cases:
        if not c["ser_ok"]:
            dist["serialize_panics"] += 1
            continue
        dist["no_code"] += int(not b64(c["cm"]["exec"]))
        dist["with_source_map"] += int(bool(c["cm"]["sme"]))
        dist["truncations"] += len(c["truncs"])
        for ch in c["truncs"]:
            dist["trunc_outcomes"][ch] = dist["trunc_outcomes"].get(ch, 0) + 1
        lv = len(b64(c["v"]))
        key = "0" if lv == 0 else "1-24" if lv < 25 else "255" if lv == 255 else ">=256"
        dist["version_len"][key] = dist["version_len"].get(key, 0) + 1
        for p in c["probes"]:
            k = p["what"] + ":" + p["out"]["o"]
            dist["probes"][k] = dist["probes"].get(k, 0) + 1
    nevals = sum(1 + len(c.get("truncs") or "") + len(c["probes"]) for c in cases)
    mism = {}
    SH = 10
    jobs = []
    for s in range(0, len(cases), SH):
        shard = cases[s:s + SH]
        v = ("From Verif Require Import Lib.GoInt Rt.CacheCodec.\nOpen Scope Z_scope.\n"
             "Definition cases : list ccase := [\n" + ";\n".join(coq_ccase(c) for c in shard) + "].\n"
             "Definition M := Eval vm_compute in mismatches 0 cases.\nPrint M.\n")
        jobs.append((s, "c13_codec_%d" % s, v))
    with ThreadPoolExecutor(max_workers=6) as ex:
        results = list(ex.map(lambda j: (j[0],) + coq_eval(j[1], j[2]), jobs))
    for s, rc, o in results:
        lst = parse_zlist(o, "M")
        if rc != 0 or lst is None:
            ck.violation("model-eval", {"kind": "model-eval", "part": "codec"}, {"rc": rc, "out": o[-2000:]}, no_input=True)
            return ck.finish()
        for i in range(0, len(lst), 2):
            mism[s + lst[i]] = lst[i + 1]
    reported = set()

    def report(kind, sig, detail, no_input=False):
        key = json.dumps(sig, sort_keys=True)
        if key in reported:
            return
        reported.add(key)
        ck.violation(kind, sig, detail, no_input=no_input)

    for idx, c in enumerate(cases):
        bad = codec_oracle(c)
        for cls, text in bad[:3]:
            report("property-fails", {"kind": "property-fails", "part": "codec", "class": cls},
                   {"oracle": text, "case": {k: c[k] for k in ("v", "cm", "ser", "full", "truncs")}, "model_diff": mism.get(idx)})
        if idx in mism and not bad:
            d = mism[idx]
            where = ("serialize bytes" if d == -2 else "complete entry" if d == -3 else "truncation count" if d == -4 else
                     "truncation to %d bytes" % d if d < 1000000 else "probe %s" % json.dumps(c["probes"][d - 1000000])[:400])
            cls = c["probes"][d - 1000000]["what"] if d >= 1000000 else where.split(" ")[0]
            report("model-differs", {"kind": "model-differs", "part": "codec", "class": cls},
                   {"where": where, "case": {k: c.get(k) for k in ("v", "cm", "ser", "full", "truncs", "truncx")}}, no_input=True)

    # ---------------------------------------------------------------- (d') many different modules, one process, concurrently
    base = tempfile.mkdtemp(prefix="c13m_", dir=WORK)
    try:
        kmods, workers, rounds = (96, 16, 3) if tier == "quick" else (256, 16, 20)
        rc, out = sh(LIMIT2 + [binp, "-mode", "many", "-seed", str(seed), "-dir", base, "-mods", str(kmods), "-conc", str(workers), "-n", str(rounds)], timeout=1500)
    finally:
        shutil.rmtree(base, ignore_errors=True)
    mevs = [e for e in jlines(out) if e.get("kind") == "many"]
    if rc != 0 or len(mevs) != rounds:
        ck.violation("harness-crash", {"kind": "crash", "mode": "many"}, {"rc": rc, "tail": out[-3000:]})
        return ck.finish()
    dist["many"] = {"rounds": rounds, "modules_per_round": kmods, "workers": workers, "entries_compared": sum(e["ref_files"] for e in mevs)}
    many_cases = sum(e["mods"] for e in mevs)
    for e in mevs:
        if e["diffs"] or e["extra_files"] or e["ref_files"] != e["got_files"]:
            report("property-fails", {"kind": "property-fails", "part": "many", "class": "nondeterministic-entry"},
                   {"oracle": "one process compiled %d different modules from %d goroutines into one cache directory: the directory differs from the one a sequential "
                              "compilation of the same modules produces (the entry of a module must depend on the module and the settings alone)" % (e["mods"], e["workers"]),
                    "event": e})
        if e["wrong_results"]:
            report("property-fails", {"kind": "property-fails", "part": "many", "class": "wrong-result"},
                   {"oracle": "a later runtime over the concurrently written directory computed a wrong result or failed: [module, expected, got]", "event": e})
        elif e["errs"]:
            report("property-fails", {"kind": "property-fails", "part": "many", "class": "compile-error"},
                   {"oracle": "compiling through the cache directory reported errors", "event": e})

    # ---------------------------------------------------------------- (b)-(e) directory
    base = tempfile.mkdtemp(prefix="c13_", dir=WORK)
    try:
        rc, out = sh(LIMIT + [binp, "-mode", "fs", "-seed", str(seed), "-dir", base, "-mods", str(nmods), "-conc", str(nconc), "-copies", str(ncopies)], timeout=3000)
    finally:
        shutil.rmtree(base, ignore_errors=True)
    evs = jlines(out)
    if rc != 0 or not evs:
        ck.violation("harness-crash", {"kind": "crash", "mode": "fs"}, {"rc": rc, "tail": out[-3000:]})
        return ck.finish()
    refs = {}
    ext_events = []
    fcases, fmeta, pcases, pmeta, defs = [], [], [], [], []
    for ev in evs:
        m = ev["mod"]
        dist["fs_events"][ev["kind"]] = dist["fs_events"].get(ev["kind"], 0) + 1
        if ev["kind"] == "ref":
            rf = [(f["name"], b64(f["data"])) for f in ev.get("refs") or []]
            okruns = all(run_ok(r, ev["want"]) for r in ev["runs"])
            if not okruns:
                report("property-fails", {"kind": "property-fails", "part": "fs", "class": "wrong-result"},
                       {"oracle": "an undisturbed fresh process failed or computed a wrong result", "event": ev})
            elif len(rf) != 3 or any(not d for _, d in rf) or len(set(rf)) != 1:
                report("property-fails", {"kind": "property-fails", "part": "fs", "class": "nondeterministic-entry"},
                       {"oracle": "three fresh processes compiling the same module produced different cache entries or names",
                        "names": [n for n, _ in rf], "lengths": [len(d) for _, d in rf], "event": ev})
            else:
                pe = parse_entry(VER, rf[0][1])
                if pe[0] != "ok" or pe[2] != len(rf[0][1]):
                    report("property-fails", {"kind": "property-fails", "part": "fs", "class": "invalid-entry-visible"},
                           {"oracle": "the entry of an undisturbed run does not parse", "event": ev})
                refs[m] = rf[0]
                defs.append("Definition e%d : bytes := %s." % (m, zl(rf[0][1])))
            continue
        if m not in refs:
            continue
        if ev["kind"] in ("damaged", "special"):
            ext_events.append(ev)      # judged by c13ext.fs_ext_part
            continue
        name, entry = refs[m]
        L, en = len(entry), "e%d" % m
        for cls, text in fs_oracle(ev, refs[m])[:3]:
            report("property-fails", {"kind": "property-fails", "part": "fs", "class": cls, "event": ev["kind"], "point": point_class(ev)},
                   {"oracle": text, "event": ev})
        if ev["kind"] == "crash":
            k = ev["point"] + (":%d" % ev["n"] if ev["point"] == "copy" else "")
            dist["crash_points"][ev["point"]] = dist["crash_points"].get(ev["point"], 0) + 1
            want_rc = 0 if ev["point"] == "none" else 137
            if ev["runs"][0]["rc"] != want_rc:
                report("model-differs", {"kind": "model-differs", "part": "fs", "class": "crash-point-not-reached", "point": ev["point"]},
                       {"why": "the process did not end at the crash point (exit %s, expected %s): Add no longer passes this step" % (ev["runs"][0]["rc"], want_rc), "event": ev},
                       no_input=True)
            me = model_events(ev["point"], ev["n"], L)
            fcases.append(coq_fcase(0, en, 2, me, ev["files"], entry)); fmeta.append((ev, "after the crash"))
            # the later process: a hit when the final name is there, a complete Add otherwise
            if ev["point"] not in ("renamed", "none"):
                me = me + ["EStep 1 %d" % (L if i == 1 else 8) for i in range(FULL_ADD)]
            fcases.append(coq_fcase(0, en, 2, me, ev["files_after"], entry)); fmeta.append((ev, "after the next process"))
        elif ev["kind"] == "fail":
            dist["crash_points"]["write-error"] = dist["crash_points"].get("write-error", 0) + 1
            r = ev["runs"][0]
            if not (r["rc"] == 3 and r.get("out") and r["out"].get("stage") == "compile"):
                report("model-differs", {"kind": "model-differs", "part": "fs", "class": "write-error-not-reported"},
                       {"why": "a write error inside Add (file size limit %d) was not returned by CompileModule" % ev["n"], "event": ev}, no_input=True)
            me = ["EStep 0 7"] + (["EStep 0 %d" % ev["n"]] if ev["n"] > 0 else []) + ["EFail 0"]
            fcases.append(coq_fcase(0, en, 2, me, ev["files"], entry)); fmeta.append((ev, "after the failed Add"))
            me = me + ["EStep 1 %d" % (L if i == 1 else 8) for i in range(FULL_ADD)]
            fcases.append(coq_fcase(0, en, 2, me, ev["files_after"], entry)); fmeta.append((ev, "after the next process"))
        elif ev["kind"] == "conc":
            np_ = len(ev["runs"])
            disturbed = any(x for x in (ev.get("what") or "").split(",")) or any(ev.get("kills") or [])
            if disturbed:
                fcases.append(coq_fcase(1, en, np_, [], ev["files"], entry)); fmeta.append((ev, "after the concurrent processes"))
                fcases.append(coq_fcase(1, en, np_, [], ev["files_after"], entry)); fmeta.append((ev, "after the next process"))
            else:
                me = ["EStep %d %d" % (w, L if i == 1 else 20 + w) for w in range(np_) for i in range(FULL_ADD)]
                fcases.append(coq_fcase(0, en, np_, me, ev["files"], entry)); fmeta.append((ev, "after the concurrent processes"))
        elif ev["kind"] == "planted":
            fin, _ = files_of(ev["files"])
            fin2, _ = files_of(ev["files_after"])
            d0 = dict(fin).get(name, b"")
            d1 = dict(fin2).get(name)
            a = ev["after"]
            if a["rc"] == 3 and a.get("out") and a["out"].get("stage") == "compile" and d1 == d0: cl = 2
            elif run_ok(a, ev["want"]) and d1 == d0 and d0 != entry: cl = 0
            elif run_ok(a, ev["want"]) and d1 == entry: cl = 1 if d0 != entry else 0
            elif a["rc"] not in (0, 3): cl = 3
            else: cl = 9
            if ev["what"] == "truncated": inp = "(firstn %d %s)" % (ev["n"], en)
            else:
                diff = [(i, d0[i]) for i in range(min(len(d0), L)) if d0[i] != entry[i]]
                inp = "(apply_patches %s [%s])" % (en, "; ".join("(%d, %d)" % x for x in diff))
            pcases.append("(%s, %s, %d)" % (zl(VER), inp, cl)); pmeta.append(ev)
    head = "From Verif Require Import Lib.GoInt Rt.CacheCodec Rt.CacheFs.\nOpen Scope Z_scope.\n" + "\n".join(defs) + "\n"
    for s in range(0, len(fcases), 300):
        v = head + ("Definition cases : list fcase := [\n" + ";\n".join(fcases[s:s + 300]) + "].\n"
                    "Definition M := Eval vm_compute in fs_mismatches 0 cases.\nPrint M.\n")
        rc, o = coq_eval("c13_fs_%d" % s, v)
        lst = parse_zlist(o, "M")
        if rc != 0 or lst is None:
            ck.violation("model-eval", {"kind": "model-eval", "part": "fs"}, {"rc": rc, "out": o[-2000:]}, no_input=True)
            return ck.finish()
        for i in range(0, len(lst), 2):
            ev, label = fmeta[s + lst[i]]
            code = {1: "final name differs from the model's state", 2: "temp files differ from the model's state",
                    3: "final name holds something no writer wrote completely", 4: "a temp file is not a prefix of a writer's content"}.get(lst[i + 1], str(lst[i + 1]))
            report("model-differs", {"kind": "model-differs", "part": "fs", "class": "directory-state", "event": ev["kind"],
                                     "point": point_class(ev), "code": lst[i + 1]},
                   {"where": label, "why": code, "event": ev}, no_input=not any(fs_oracle(ev, refs[ev["mod"]])))
    if pcases:
        v = head + ("Definition cases : list pcase := [\n" + ";\n".join(pcases) + "].\n"
                    "Definition M := Eval vm_compute in p_mismatches 0 cases.\nPrint M.\n")
        rc, o = coq_eval("c13_planted", v)
        lst = parse_zlist(o, "M")
        if rc != 0 or lst is None:
            ck.violation("model-eval", {"kind": "model-eval", "part": "planted"}, {"rc": rc, "out": o[-2000:]}, no_input=True)
            return ck.finish()
        for i in range(0, len(lst), 2):
            ev = pmeta[lst[i]]
            report("model-differs", {"kind": "model-differs", "part": "planted", "class": ev["what"], "model_class": lst[i + 1]},
                   {"why": "a planted entry was treated differently from the model (0 used, 1 discarded+recompiled, 2 reported, 3 panic; model says %d)" % lst[i + 1],
                    "event": ev}, no_input=not any(fs_oracle(ev, refs[ev["mod"]])))
    # ---------------------------------------------------------------- second part (checks/c13ext.py)
    ext_cases = c13ext.fs_ext_part(ck, report, dist, refs, ext_events, head)
    ext_cases += c13ext.settings_part(ck, report, dist, binp, tier, seed)
    ext_cases += c13ext.damaged_part(ck, report, dist, binp, tier, seed)
    ext_cases += c13ext.samekey_part(ck, report, dist, binp, tier, seed)
    ck.cases = nevals + len(fcases) + len(pcases) + many_cases + ext_cases
    seen = set()
    for c in cases:
        if c["ser_ok"]:
            seen.add(c["ser"])
    ck.distinct = len(seen) + len(fcases) + len(pcases)
    ck.dist = dist
    ck.samples = [dict(version=b64(c["v"]).decode("latin1")[:30], cm=c["cm"], entry_len=len(b64(c["ser"])), truncs=c["truncs"][:40] + "...",
                       probes=len(c["probes"])) for c in cases[:3] if c["ser_ok"]]
    ck.samples += [dict(kind=e["kind"], mod=e["mod"], point=e.get("point") or e.get("what"), n=e["n"], rcs=[r["rc"] for r in e["runs"]],
                        files=[(f["name"][-14:], len(b64(f["data"]))) for f in e["files"]]) for e in evs if e["kind"] in ("crash", "conc")][:4]
    ck.extra["rule"] = ("codec: random compiledModule records (versions of length 0..300, offsets incl. int64 boundaries, code 0..64 bytes, source map on/off, "
                        "ill-formed source maps) from VERIF_SEED; each record = 1 serialize + 1 complete read + one read per truncation length + one per probe; "
                        "distinct = distinct entries; directory: per generated module 3 fresh processes (determinism), 11 crash points each followed by a fresh process, "
                        "concurrent rounds (2-3 processes, hook crashes, SIGKILLs), planted truncated/other-version/corrupted entries; each listing is one case; "
                        "second part: per generated module 13 (thorough 19) settings x (cold + 3 (6) orders) fresh processes, each process one case; damaged entries: one reader "
                        "process per changed byte; one later process per entry damaged in one field / special file; one case per round of 16 (32) goroutines on one key")
    ck.extra["model_mismatches"] = len([1 for v_ in ck.violations if v_["kind"] == "model-differs"])
    if not proofs_ok and not any(v_["kind"] == "property-fails" for v_ in ck.violations):
        ck.violation("proof-broken", {"kind": "proof-broken"}, getattr(ck, "proof_failure", {}), no_input=True)
    return ck.finish()
