"""C09 — closing and collecting modules never endangers live ones."""
import json, os, re
from vcheck import *

F08_SIG = {"kind": "dangling-funcref-private-table", "witness": "F08"}
F08B_SIG = {"kind": "dangling-funcref-imported-global", "witness": "F08b"}
MEMFREE_SIG = {"kind": "shared-memory-freed-on-close", "witness": "MEMFREE"}
ORDINARY = ("e:exit:", "e:refused", "e:nohandle")


def pairs(l): return "[" + "; ".join("(%d, %d)" % (a, b) for a, b in (l or [])) + "]"


def nimprec(q): return len(q.get("impf") or []) + len(q.get("imps") or []) + len(q.get("impa") or [])


def coq_mod(mods, m):
    impf = list(m.get("impf") or [])
    for (m2, _t) in (m.get("imps") or []) + (m.get("impa") or []):
        # an imported store function / memory accessor is a function record of m2: any own record has the same code owner
        impf.append([m2, nimprec(mods[m2])])
    return "mkM %s %s %d %d %d %d %d [%s] 0 []" % (pairs(impf), pairs(m.get("impt")), m["nfun"], m["nexp"], m["npriv"], m["nglob"], m["size"],
                                                   "; ".join("(%d, %d, %d)" % tuple(e) for e in (m.get("elems") or [])))


def ntab(m): return len(m.get("impt") or []) + m["nexp"] + m["npriv"]


def coq_op(h, o):
    k, a = o[0], list(o[1:])
    mods = h["mods"]
    def sl(m, t, kk): return 0 if t >= ntab(mods[m]) else kk      # a global has one slot whatever index the call passes
    if k in ("ind", "set", "clr", "leavei"): a[2] = sl(a[0], a[1], a[2])
    if k == "cp": a[2], a[4] = sl(a[0], a[1], a[2]), sl(a[0], a[3], a[4])
    if k == "fil": return "HSetRef %d %d %d %d" % tuple(a)          # table.fill of one slot
    if k == "cpc": return "HCopy %d %d %d %d %d" % tuple(a)         # table.copy of one slot
    if k == "grw": return "HGrow %d %d %d" % tuple(a)               # table.grow by one slot
    if k == "compile": return "HCompile %d" % a[0]
    if k == "inst": return "HInst %d" % a[0]
    if k == "call": return "HCallExport %d %d" % (a[0], a[1])
    if k == "ind": return "HCallInd %d %d %d" % tuple(a)
    if k == "set": return "HSetRef %d %d %d %d" % tuple(a)
    if k == "cp": return "HCopy %d %d %d %d %d" % tuple(a)
    if k == "clr": return "HClear %d %d %d" % tuple(a)
    if k == "pass":
        m2, t = h["mods"][a[0]]["imps"][a[2]]
        return "HPass %d %d %d %d %d" % (a[0], a[1], m2, t, sl(m2, t, a[3]))
    if k == "enter": return "HEnter %d" % a[0]
    # shared memory / global accessors: an exported call of own code, or of the wrapper of an imported accessor (the
    # record of that import); the host's api.Memory access is no call at all (own record: never dangling while held)
    def accrec(m, p): return nimprec(mods[m]) if p < 0 else len(mods[m].get("impf") or []) + len(mods[m].get("imps") or []) + p
    if k == "mu": return "HCallExport %d %d" % (a[0], accrec(a[0], a[1]))
    if k == "mh": return "HCallExport %d %d" % (a[0], nimprec(mods[a[0]]))
    if k == "leavem": return "HLeaveRec %d %d" % (a[0], accrec(a[0], a[1]))
    if k == "leaver": return "HLeaveRec %d %d" % tuple(a)
    if k == "leavei": return "HLeaveInd %d %d %d" % tuple(a)
    if k == "closemod": return "HCloseMod %d" % a[0]
    if k == "closecm": return "HCloseCompiled %d" % a[0]
    if k == "dropmod": return "HDropMod %d" % a[0]
    if k == "dropcm": return "HDropCompiled %d" % a[0]
    return {"closecache": "HCloseCache", "closert": "HCloseRuntime", "droprt": "HDropRuntime", "dropcache": "HDropCache", "gc": "HGc"}[k]


def coq_case(h):
    return "(%s, [%s], [%s])" % ("true" if h["cached"] else "false", "; ".join(coq_mod(h["mods"], m) for m in h["mods"]),
                                 "; ".join(coq_op(h, o) for o in h["ops"]))


def parse_zlistlist(out, ident):
    m = re.search(re.escape(ident) + r"\s*=\s*(\[.*\])\s*:\s*list", out, re.S)
    if not m: return None
    body = re.sub(r"%[A-Za-z]+", "", m.group(1)).replace("\n", " ").strip()
    inner = body[1:-1]
    return [[int(x) for x in re.findall(r"-?\d+", g)] for g in re.findall(r"\[([^\[\]]*)\]", inner)]


def classify(hs):
    """predictions of the Coq model, one list per history"""
    preds = []
    SH = 60
    for s in range(0, len(hs), SH):
        v = ("From Verif Require Import Engine.Lifetime.\nFrom Coq Require Import List ZArith.\nImport ListNotations.\n"
             "Definition cases : list hcase := [\n" + ";\n".join(coq_case(h) for h in hs[s:s + SH]) + "].\n"
             "Definition M := Eval vm_compute in map classify cases.\nPrint M.\n")
        rc, o = coq_eval("c09_%d" % s, v)
        l = parse_zlistlist(o, "M")
        if rc != 0 or l is None or len(l) != len(hs[s:s + SH]):
            return None, o
        preds += l
    return preds, ""


# ---- shared memories: coq/Engine/LifetimeMem.v ----
AK = ["KSize", "KLoad", "KStore", "KGrow", "KGGet", "KGSet", "KGrowSt"]


def has_mem(h): return any(m.get("mem") or m.get("impm") or m.get("gi") or m.get("impgi") or m.get("impa") for m in h["mods"])


def coq_mmod(m):
    def src(own, imp): return "SOwn" if own else ("(SImp %d)" % imp[0] if imp else "SNone")
    return "mkMM %s false 4 %s [%s]" % (src(m.get("mem"), m.get("impm")), src(m.get("gi"), m.get("impgi")),
                                        "; ".join("(%d%%nat, %s)" % (j, AK[k]) for j, k in (m.get("impa") or [])))


def coq_mop(h, i, o, pred):
    k, a = o[0], list(o[1:])
    def path(p): return "None" if p < 0 else "(Some %d%%nat)" % p
    if k == "inst": return "MInst %d" % a[0] if pred[i] == 0 else "MNop"       # whether an instantiation succeeds: Lifetime.classify
    if k == "closemod": return "MClose %d" % a[0]
    if k == "closert": return "MCloseAll" if pred[i] == 0 else "MNop"          # not performed once the runtime handle is dropped
    if k == "dropmod": return "MDrop %d" % a[0]
    if k == "gc": return "MGc"
    if k == "enter": return "MEnter %d" % a[0]
    if k in ("leaver", "leavei"): return "MLeave None KSize 0 0"               # the call in flight ends; no memory access
    if k == "leavem": return "MLeave %s %s %d %d" % (path(a[1]), AK[a[2]], a[3], a[4])
    if k == "mu": return "MUse %d %s %s %d %d" % (a[0], path(a[1]), AK[a[2]], a[3], a[4])
    if k == "mh": return "MHost %d %s %d %d" % (a[0], AK[a[1]], a[2], a[3])
    return "MNop"


def mclassify(hs):
    """LifetimeMem.mclassify: one (class, value) pair per step of every history with a shared memory / global"""
    res = {}
    todo = [h for h in hs if has_mem(h)]
    SH = 60
    for s in range(0, len(todo), SH):
        part = todo[s:s + SH]
        v = ("From Verif Require Import Engine.Lifetime Engine.LifetimeMem.\nFrom Coq Require Import List ZArith.\nImport ListNotations.\nOpen Scope Z_scope.\n"
             "Definition cases : list mcase := [\n" +
             ";\n".join("([%s], [%s])" % ("; ".join(coq_mmod(m) for m in h["mods"]),
                                           "; ".join(coq_mop(h, i, o, h["pred"]) for i, o in enumerate(h["ops"]))) for h in part) + "].\n"
             "Definition M := Eval vm_compute in map mclassify cases.\nPrint M.\n")
        rc, o = coq_eval("c09m_%d" % s, v)
        m = re.search(r"M\s*=\s*(\[.*\])\s*:\s*list", o, re.S)
        if rc != 0 or not m:
            return None, o
        body = re.sub(r"%[A-Za-z]+", "", m.group(1)).replace("\n", " ")
        groups = re.findall(r"\[((?:\s*\(\s*-?\d+\s*,\s*-?\d+\s*\)\s*;?)*)\s*\]", body[1:-1])
        if len(groups) != len(part):
            return None, o
        for h, g in zip(part, groups):
            l = [(int(x), int(y)) for x, y in re.findall(r"\(\s*(-?\d+)\s*,\s*(-?\d+)\s*\)", g)]
            if len(l) != len(h["ops"]):
                return None, o
            res[h["id"]] = l
    return res, ""


def mem_agrees(pred, a):
    """does the engine's observation `a` agree with LifetimeMem's (class, value)?"""
    cls, val = pred
    if a.startswith("v:"): return cls == 0 and a == "v:%d" % val
    if a == "ok": return cls == 4
    if a == "e:oob": return cls == 3
    if a.startswith(ORDINARY): return cls == 1
    return False


def mem_symptom(a, b):
    if a == "e:oob": return "out-of-bounds for an address the twin can access"
    if a == "v:1515870810": return "read of a freed, re-used buffer (0x5a5a5a5a churn pattern)"
    if a.startswith("v:") and b.startswith("v:"): return "stale value / stale size"
    return "other"


def mem_dist(h, obs, dist):
    """distribution counters of one executed history (observations of one engine)"""
    mods = h["mods"]
    def root(m):
        while not mods[m].get("mem") and mods[m].get("impm"): m = mods[m]["impm"][0]
        return m if mods[m].get("mem") else None
    gen = [0] * len(mods); closed = set(); bound = {}; held = [False] * len(mods); rt = True
    def definer_closed(m):       # the instance defining the memory that instance m (as bound at its instantiation) uses
        b = bound.get(m)
        if b is None: return False
        r = b["root"]
        return r is not None and r in closed
    for i, o in enumerate(h["ops"][:len(obs)]):
        k, a = o[0], o[1:]
        if k == "inst" and obs[i] == "ok":
            m = a[0]; gen[m] += 1; held[m] = True
            src = mods[m].get("impm")
            if mods[m].get("mem"): r = (m, gen[m])
            elif src and bound.get(src[0]): r = bound[src[0]]["root"]
            else: r = None
            bound[m] = {"root": r, "self": (m, gen[m]),
                        "acc": [(bound.get(j) or {}).get("self") for j, _ in (mods[m].get("impa") or [])],
                        "accroot": [(bound.get(j) or {}).get("root") for j, _ in (mods[m].get("impa") or [])]}
        elif k == "closemod" and held[a[0]] and bound.get(a[0]): closed.add(bound[a[0]]["self"])
        elif k == "closert" and rt:
            for b in bound.values(): closed.add(b["self"])
        elif k == "droprt": rt = False
        elif k == "dropmod": held[a[0]] = False
        elif k in ("mu", "leavem", "mh") and not obs[i].startswith("e:nohandle"):
            m = a[0]; b = bound.get(m) or {}
            if k == "mh": p, kind, n = -1, a[1], a[2]
            else: p, kind, n = a[1], a[2], a[3]
            dist["mem_ops"] += 1
            if k == "leavem": dist["mem_in_flight_leaves"] += 1
            if k == "mh" and kind == 3: dist["host_grows"] += 1
            r = (b.get("accroot") or [None])[p] if p >= 0 and p < len(b.get("accroot") or []) else b.get("root")
            if kind in (3, 6) and n > 0 and r in closed and (obs[i].startswith("v:") and obs[i] != "v:4294967295" or obs[i].startswith("e:exit")):
                dist["grows_after_definer_closed"] += 1
            if kind < 4 or kind == 6:
                via = (b.get("acc") or [None])[p] if p >= 0 and p < len(b.get("acc") or []) else (b.get("self") if k != "mh" else None)
                if via in closed and via == r:
                    dist["uses_through_closed_definer"] += 1
                elif via in closed:
                    dist["uses_through_closed_importer"] += 1


def cut_of(h, p):
    """index of the first step that must not be executed (first dangling use; the enclosing in-flight block as a whole)"""
    ent = None
    for i, o in enumerate(h["ops"]):
        if o[0] == "enter": ent = i
        if p[i] == 2: return ent if ent is not None else i
        if o[0].startswith("leave"): ent = None
    return -1


def run(tier, seed):
    ck = Check("C09", tier, seed)
    ck.trusted += ["coq/Engine/Lifetime.v: hand-written heap-graph model (objects, visible/raw edges, instantiate/close/drop/gc); its visible edges were read off "
                   "wazevo/module_engine.go (parent, importedFunctions[i].me, localFunctionInstances), wazevo/engine.go (compiledModules, executables finalizer), interpreter.go, "
                   "wasm/store.go (moduleList, resolveImports), wasm/table.go (involvingModuleInstances) and are tied to the code only by the correspondence run",
                   "coq/Engine/LifetimeMem.v: hand-written model of shared memories/globals (memory = current buffer + size, grow = new buffer, per-instance cached views refreshed by the grow "
                   "notification, collector frees every buffer that is not the current buffer of a retained memory); read off wasm/memory.go Grow (ownerModuleEngine.MemoryGrown), "
                   "wazevo/module_engine.go putLocalMemory / ResolveImportedMemory (only the definer caches base+length; importers go through the MemoryInstance) and tied to the code by the correspondence run: "
                   "every value / trap / ordinary error of every memory step on both engines equals LifetimeMem.mclassify's",
                   "Go's collector, finalizers and munmap are runtime behaviour: exercised with forced collections in supervised child processes, not modelled beyond `gc`",
                   "harness/c09 (Go: wasm encoder, history generator, child supervision, twin runtime, heap churn) and checks/c09.py (case conversion, oracle)"]
    ck.assumptions += ["the model's gc is the most aggressive collector (everything not visibly reachable from host handles and in-flight calls); the real collector may keep more, which can hide but never cause a dangling use",
                       "where the engines differ the model keeps the fewer visible edges (wazevo function records have no pointer to their instance, the interpreter's GlobalInstance none to its engine)",
                       "a closed instance still executes (wazero consults Closed only when an exported call returns): modelled so; its results are compared as 'ordinary error'",
                       "compiling after the engine behind a closed CompilationCache is not exercised (the compiler engine panics there: reported separately); shared memories and i32 globals are modelled by Engine/LifetimeMem.v (one memory per module, word accesses at non-overlapping addresses, maximum 4 pages); "
                       "exported/imported funcref globals are modelled and proved about but appear in the run only as the fixed F08b witness",
                       "F08-class histories (a funcref placed by parameter into a holder that does not track its definer) are cut before the dangling use; the canonical F08 and F08b witnesses are executed in their own children"]
    proofs_ok = ck.proofs()
    n = 32 if tier == "quick" else 800
    binp, log = build_harness("c09")
    if not binp:
        ck.violation("harness-build", {"kind": "build"}, {"log": log[-3000:]}, no_input=True)
        return ck.finish()
    rc, out = sh([binp, "-gen", "-seed", str(seed), "-n", str(n)], timeout=120)
    hs = [json.loads(l) for l in out.split("\n") if l.startswith("{")]
    if rc != 0 or len(hs) < n + 10:
        ck.violation("harness-crash", {"kind": "gen"}, {"rc": rc, "tail": out[-2000:]}, no_input=True)
        return ck.finish()
    # minimized regression histories are replayed first
    cdir = os.path.join(ROOT, "corpus", "C09")
    corpus = []
    if os.path.isdir(cdir):
        for fn in sorted(os.listdir(cdir)):
            for l in open(os.path.join(cdir, fn)):
                if l.startswith("{"):
                    h = json.loads(l); h["id"] = 100000 + len(corpus); h["corpus"] = fn; h.pop("note", None); corpus.append(h)
    hs = corpus + hs
    for h in hs:
        h["ops"] = h.get("ops") or []; h["mods"] = h.get("mods") or []
    modelled = [h for h in hs if not h.get("probe")]
    preds, err = classify(modelled)
    if preds is not None:
        it = iter(preds); preds = [([] if h.get("probe") else next(it)) for h in hs]
    if preds is None:
        ck.violation("model-eval", {"kind": "model-eval"}, {"out": err[-3000:]}, no_input=True)
        return ck.finish()
    dist = {"histories": len(hs), "model_safe": 0, "model_F08_class": 0, "ops": {}, "pred": {0: 0, 1: 0, 2: 0}, "steps_executed": 0,
            "obs": {"same_as_twin": 0, "ordinary_error": 0}, "in_flight_blocks": 0,
            "shared_memory": {"histories_with_shared_memory": 0, "histories_with_shared_global": 0, "mem_ops": 0, "host_grows": 0,
                              "grows_after_definer_closed": 0, "uses_through_closed_definer": 0, "uses_through_closed_importer": 0,
                              "mem_in_flight_leaves": 0, "mem_steps_compared_with_model": 0,
                              "model_class": {"value": 0, "ordinary_error": 0, "trap_oob": 0, "no_result": 0, "freed": 0}}}
    md = dist["shared_memory"]
    for h, p in zip(hs, preds):
        h["pred"] = p
        if not h.get("witness"):
            h["cut"] = cut_of(h, p)
            dist["model_safe" if h["cut"] < 0 else "model_F08_class"] += 1
            for o in h["ops"]:
                dist["ops"][o[0]] = dist["ops"].get(o[0], 0) + 1
                if o[0] == "enter": dist["in_flight_blocks"] += 1
        for x in p: dist["pred"][x] += 1
    for h in hs:
        if any(m.get("mem") or m.get("impm") for m in h["mods"]): md["histories_with_shared_memory"] += 1
        if any(m.get("gi") or m.get("impgi") for m in h["mods"]): md["histories_with_shared_global"] += 1
    mpreds, err = mclassify([h for h in hs if not h.get("probe") and not h.get("witness")])
    if mpreds is None:
        ck.violation("model-eval", {"kind": "model-eval", "model": "LifetimeMem"}, {"out": err[-3000:]}, no_input=True)
        return ck.finish()
    runf = os.path.join(WORK, "cases", "c09_run_%d.jsonl" % seed)
    with open(runf, "w") as f:
        for h in hs:
            f.write(json.dumps({k: v for k, v in h.items() if k != "pred"}) + "\n")
    rc, out = sh([binp, "-run", runf, "-par", "12", "-timeout", "60s"], timeout=3000)
    res = [json.loads(l) for l in out.split("\n") if l.startswith("{")]
    if rc != 0 or len(res) != 2 * len(hs):
        ck.violation("harness-crash", {"kind": "run"}, {"rc": rc, "tail": out[-3000:]}, no_input=True)
        return ck.finish()
    byid = {h["id"]: h for h in hs}
    ck.cases = len(res)
    shown = set()
    def viol(kind, sig, detail, **kw):
        key = (kind, sig.get("engine"))
        if key in shown: return
        shown.add(key); ck.violation(kind, sig, detail, **kw)
    f08 = {}
    nontrivial = set()
    for r in res:
        h = byid[r["id"]]; p = h["pred"]; eng = r["engine"]
        if h.get("witness"):
            key = (h["witness"], "%s/%s%s" % (eng, "cached" if h["cached"] else "uncached", "/no-churn" if h.get("nochurn") else ""))
            if h["witness"] == "MEMFREE": key = (h["witness"], "%s/%s" % (eng, h["probe"]))
            if r.get("crash"):
                f08[key] = "crash at step %d: %s" % (r["step"], r["crash"])
            elif r["obs"][-1] != r["twin"][-1]:
                f08[key] = ("%s returned %s, twin %s" % ("load" if h["witness"] == "MEMFREE" else "call_indirect", r["obs"][-1], r["twin"][-1])) + \
                           ("; Close: %s" % r["obs"][2] if h["witness"] == "MEMFREE" else "")
            else:
                f08[key] = None
            continue
        brief = {"id": h["id"], "engine": eng, "cached": h["cached"], "mods": h["mods"], "ops": h["ops"], "cut": h["cut"], "pred": p}
        if r.get("crash"):
            kind = "child-timeout" if r["crash"] == "timeout" else "child-crash"
            viol(kind, {"kind": kind, "engine": eng}, {"step": r["step"], "op": h["ops"][r["step"]] if 0 <= r["step"] < len(h["ops"]) else None,
                                                        "crash": r["crash"], "tail": r.get("tail", "")[:1500], "history": brief})
            continue
        obs, twin = r["obs"], r["twin"]
        mp = mpreds.get(h["id"])
        if mp and eng == "compiler": mem_dist(h, obs, md)
        seen_close = seen_gc = False
        for i, (a, b) in enumerate(zip(obs, twin)):
            k = h["ops"][i][0]
            dist["steps_executed"] += 1
            if k.startswith("close") or k.startswith("drop"): seen_close = True
            if k == "gc" and seen_close: seen_gc = True
            if seen_gc and a.startswith("v:"): nontrivial.add(h["id"])
            ordinary = a.startswith(ORDINARY)
            # the property on the observations alone: same as the twin, or an ordinary error
            if a != b and not ordinary:
                if k in ("mu", "mh", "leavem"):
                    md.setdefault("diverging_steps", {}).setdefault(eng, 0); md["diverging_steps"][eng] += 1
                    md.setdefault("diverging_histories", {}).setdefault(eng, [])
                    if h["id"] not in md["diverging_histories"][eng]: md["diverging_histories"][eng].append(h["id"])
                    # a use of a shared memory / global through some path differs from the twin that made the same calls without the closes
                    viol("shared-memory-diverges", {"kind": "shared-memory-diverges", "engine": eng},
                         {"step": i, "op": h["ops"][i], "obs": a, "twin": b, "symptom": mem_symptom(a, b),
                          "model": mp[i] if mp else None, "history": brief})
                else:
                    viol("twin-diff", {"kind": "twin-diff", "engine": eng}, {"step": i, "op": h["ops"][i], "obs": a, "twin": b, "history": brief})
                continue
            if a == b and not ordinary: dist["obs"]["same_as_twin"] += 1
            if ordinary: dist["obs"]["ordinary_error"] += 1
            # LifetimeMem agreement: the value / trap / ordinary error of every memory step is the one the model computes
            if mp and k in ("mu", "mh", "leavem"):
                md["mem_steps_compared_with_model"] += 1
                md["model_class"][{0: "value", 1: "ordinary_error", 2: "freed", 3: "trap_oob", 4: "no_result"}[mp[i][0]]] += 1
                if not mem_agrees(mp[i], a):
                    viol("model-differs", {"kind": "model-differs", "engine": eng, "model": "LifetimeMem"},
                         {"step": i, "op": h["ops"][i], "obs": a, "twin": b, "pred": mp[i], "history": brief}, no_input=True)
            # model agreement (closes, drops and collections have no result to predict)
            if k.startswith(("close", "drop")) or k in ("gc", "enter", "mh"): continue
            if p[i] == 0 and a != b:
                viol("model-differs", {"kind": "model-differs", "engine": eng}, {"step": i, "op": h["ops"][i], "obs": a, "twin": b, "pred": 0, "history": brief}, no_input=True)
            elif p[i] == 1 and not ordinary and not (a == b and a.startswith("e:")):
                viol("model-differs", {"kind": "model-differs", "engine": eng}, {"step": i, "op": h["ops"][i], "obs": a, "twin": b, "pred": 1, "history": brief}, no_input=True)
    ck.distinct = len(nontrivial)
    ck.dist = dist
    ck.samples = [dict(ops=h["ops"][:14], pred=h["pred"][:14], cut=h.get("cut")) for h in hs[:3]]
    ck.extra["rule"] = ("histories generated from VERIF_SEED over 2-4 modules (exporter of functions and a table; importers with private tables / funcref globals; "
                        "store-by-parameter imports; in two of three graphs a shared memory and a shared mutable i32 global: defined+exported by one module, imported (and re-exported) by later ones "
                        "together with accessor functions msize/mload/mstore/mgrow/gget/gset of earlier modules; ops: use through own code / through an imported accessor of a possibly closed instance / by the host "
                        "(api.Memory Size, Read, Write, Grow), grow after the definer is closed, in-flight continuations into memory code; 9 fixed closed-definer-then-grow histories), classified by the Coq model (vm_compute of Lifetime.classify), each executed on both engines in its own supervised "
                        "child process next to a twin runtime in which nothing is closed; every memory step is also compared with the value computed by LifetimeMem.mclassify (vm_compute); non-trivial = a call returns a value after a close/drop followed by a forced collection")
    WIT = {"F08": (F08_SIG, "instantiate B; instantiate P importing B.st0; P.pass(ref.func P.f) -> B's private table; close P and its compiled module; drop; gc; B.call_indirect",
                   "Lifetime.classify predicts 2 (dereferences a collected record) at the last step; theorem C09_private_table_refuted"),
           "F08b": (F08B_SIG, "A exports a mutable funcref global g; B imports it and does global.set g (ref.func B.f); close B and its compiled module; drop; gc; A: table.set 0 (global.get g); call_indirect",
                    "same class (a holder that does not track the definer: globals have no involvingModuleInstances); not generated in histories, fixed witness only"),
           "MEMFREE": (MEMFREE_SIG, "experimental.WithMemoryAllocator (allocator backed by Go slices whose Free poisons the buffer with 0xdd); A defines+exports a memory, B imports it; A.store(8,111); "
                       "close the IMPORTER B (alloc-importer) or the DEFINER A (alloc-definer); the other, live instance calls load(8)",
                       "LifetimeMem under policy user_allocator (close frees the buffer of the memory the instance is bound to) predicts OFreed at the last step; theorem C09_allocator_close_frees_shared_memory_refuted; "
                       "code: ModuleInstance.ensureResourcesClosed calls m.MemoryInstance.expBuffer.Free() although m.MemoryInstance may be imported / still imported by others")}
    for w, (sig, what, model) in WIT.items():
        rep = {k[1]: v for k, v in sorted(f08.items()) if k[0] == w}
        ck.extra[w + "_witness"] = rep
        if any(v for v in rep.values()):
            ck.violation(sig["kind"], dict(sig), {"witness": what, "model": model, "observed": rep})
        else:
            ck.note("%s witness did NOT reproduce on either engine in this run: %s" % (w, json.dumps(rep)))
        for k, v in rep.items():
            if v is None: ck.note("%s witness not observed on %s (dangling memory not reused / still mapped in this run)" % (w, k))
    if not proofs_ok and not [v for v in ck.violations if v["kind"] not in ("dangling-funcref-private-table", "dangling-funcref-imported-global", "shared-memory-freed-on-close")]:
        ck.violation("proof-broken", {"kind": "proof-broken"}, getattr(ck, "proof_failure", {}), no_input=True)
    return ck.finish()
