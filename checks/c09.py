"""C09 — closing and collecting modules never endangers live ones."""
import json, os, re
from vcheck import *

F08_SIG = {"kind": "dangling-funcref-private-table", "witness": "F08"}
F08B_SIG = {"kind": "dangling-funcref-imported-global", "witness": "F08b"}
ORDINARY = ("e:exit:", "e:refused", "e:nohandle")


def pairs(l): return "[" + "; ".join("(%d, %d)" % (a, b) for a, b in (l or [])) + "]"


def coq_mod(mods, m):
    impf = list(m.get("impf") or [])
    for (m2, _t) in (m.get("imps") or []):
        # an imported store function is a function record of m2: any own record has the same code owner
        q = mods[m2]
        impf.append([m2, len(q.get("impf") or []) + len(q.get("imps") or [])])
    return "mkM %s %s %d %d %d %d %d [%s] 0 []" % (pairs(impf), pairs(m.get("impt")), m["nfun"], m["nexp"], m["npriv"], m["nglob"], m["size"],
                                                   "; ".join("(%d, %d, %d)" % tuple(e) for e in (m.get("elems") or [])))


def ntab(m): return len(m.get("impt") or []) + m["nexp"] + m["npriv"]


def coq_op(h, o):
    k, a = o[0], list(o[1:])
    mods = h["mods"]
    def sl(m, t, kk): return 0 if t >= ntab(mods[m]) else kk      # a global has one slot whatever index the call passes
    if k in ("ind", "set", "clr", "leavei"): a[2] = sl(a[0], a[1], a[2])
    if k == "cp": a[2], a[4] = sl(a[0], a[1], a[2]), sl(a[0], a[3], a[4])
    if k == "fil": return "HSetRef %d %d %d %d" % tuple(a)          # table.fill of one slot
    if k == "cpc": return "HCopy %d %d %d %d %d" % tuple(a)         # table.copy of one slot
    if k == "grw": return "HGrow %d %d %d" % tuple(a)               # table.grow by one slot
    if k == "compile": return "HCompile %d" % a[0]
    if k == "inst": return "HInst %d" % a[0]
    if k == "call": return "HCallExport %d %d" % (a[0], a[1])
    if k == "ind": return "HCallInd %d %d %d" % tuple(a)
    if k == "set": return "HSetRef %d %d %d %d" % tuple(a)
    if k == "cp": return "HCopy %d %d %d %d %d" % tuple(a)
    if k == "clr": return "HClear %d %d %d" % tuple(a)
    if k == "pass":
        m2, t = h["mods"][a[0]]["imps"][a[2]]
        return "HPass %d %d %d %d %d" % (a[0], a[1], m2, t, sl(m2, t, a[3]))
    if k == "enter": return "HEnter %d" % a[0]
    if k == "leaver": return "HLeaveRec %d %d" % tuple(a)
    if k == "leavei": return "HLeaveInd %d %d %d" % tuple(a)
    if k == "closemod": return "HCloseMod %d" % a[0]
    if k == "closecm": return "HCloseCompiled %d" % a[0]
    if k == "dropmod": return "HDropMod %d" % a[0]
    if k == "dropcm": return "HDropCompiled %d" % a[0]
    return {"closecache": "HCloseCache", "closert": "HCloseRuntime", "droprt": "HDropRuntime", "dropcache": "HDropCache", "gc": "HGc"}[k]


def coq_case(h):
    return "(%s, [%s], [%s])" % ("true" if h["cached"] else "false", "; ".join(coq_mod(h["mods"], m) for m in h["mods"]),
                                 "; ".join(coq_op(h, o) for o in h["ops"]))


def parse_zlistlist(out, ident):
    m = re.search(re.escape(ident) + r"\s*=\s*(\[.*\])\s*:\s*list", out, re.S)
    if not m: return None
    body = re.sub(r"%[A-Za-z]+", "", m.group(1)).replace("\n", " ").strip()
    inner = body[1:-1]
    return [[int(x) for x in re.findall(r"-?\d+", g)] for g in re.findall(r"\[([^\[\]]*)\]", inner)]


def classify(hs):
    """predictions of the Coq model, one list per history"""
    preds = []
    SH = 60
    for s in range(0, len(hs), SH):
        v = ("From Verif Require Import Engine.Lifetime.\nFrom Coq Require Import List ZArith.\nImport ListNotations.\n"
             "Definition cases : list hcase := [\n" + ";\n".join(coq_case(h) for h in hs[s:s + SH]) + "].\n"
             "Definition M := Eval vm_compute in map classify cases.\nPrint M.\n")
        rc, o = coq_eval("c09_%d" % s, v)
        l = parse_zlistlist(o, "M")
        if rc != 0 or l is None or len(l) != len(hs[s:s + SH]):
            return None, o
        preds += l
    return preds, ""


def cut_of(h, p):
    """index of the first step that must not be executed (first dangling use; the enclosing in-flight block as a whole)"""
    ent = None
    for i, o in enumerate(h["ops"]):
        if o[0] == "enter": ent = i
        if p[i] == 2: return ent if ent is not None else i
        if o[0].startswith("leave"): ent = None
    return -1


def run(tier, seed):
    ck = Check("C09", tier, seed)
    ck.trusted += ["coq/Engine/Lifetime.v: hand-written heap-graph model (objects, visible/raw edges, instantiate/close/drop/gc); its visible edges were read off "
                   "wazevo/module_engine.go (parent, importedFunctions[i].me, localFunctionInstances), wazevo/engine.go (compiledModules, executables finalizer), interpreter.go, "
                   "wasm/store.go (moduleList, resolveImports), wasm/table.go (involvingModuleInstances) and are tied to the code only by the correspondence run",
                   "Go's collector, finalizers and munmap are runtime behaviour: exercised with forced collections in supervised child processes, not modelled beyond `gc`",
                   "harness/c09 (Go: wasm encoder, history generator, child supervision, twin runtime, heap churn) and checks/c09.py (case conversion, oracle)"]
    ck.assumptions += ["the model's gc is the most aggressive collector (everything not visibly reachable from host handles and in-flight calls); the real collector may keep more, which can hide but never cause a dangling use",
                       "where the engines differ the model keeps the fewer visible edges (wazevo function records have no pointer to their instance, the interpreter's GlobalInstance none to its engine)",
                       "a closed instance still executes (wazero consults Closed only when an exported call returns): modelled so; its results are compared as 'ordinary error'",
                       "compiling after the engine behind a closed CompilationCache is not exercised (the compiler engine panics there: reported separately); memories are not part of the histories; "
                       "exported/imported funcref globals are modelled and proved about but appear in the run only as the fixed F08b witness",
                       "F08-class histories (a funcref placed by parameter into a holder that does not track its definer) are cut before the dangling use; the canonical F08 and F08b witnesses are executed in their own children"]
    proofs_ok = ck.proofs()
    n = 32 if tier == "quick" else 800
    binp, log = build_harness("c09")
    if not binp:
        ck.violation("harness-build", {"kind": "build"}, {"log": log[-3000:]}, no_input=True)
        return ck.finish()
    rc, out = sh([binp, "-gen", "-seed", str(seed), "-n", str(n)], timeout=120)
    hs = [json.loads(l) for l in out.split("\n") if l.startswith("{")]
    if rc != 0 or len(hs) < n + 8:
        ck.violation("harness-crash", {"kind": "gen"}, {"rc": rc, "tail": out[-2000:]}, no_input=True)
        return ck.finish()
    # minimized regression histories are replayed first
    cdir = os.path.join(ROOT, "corpus", "C09")
    corpus = []
    if os.path.isdir(cdir):
        for fn in sorted(os.listdir(cdir)):
            for l in open(os.path.join(cdir, fn)):
                if l.startswith("{"):
                    h = json.loads(l); h["id"] = 100000 + len(corpus); h["corpus"] = fn; h.pop("note", None); corpus.append(h)
    hs = corpus + hs
    for h in hs:
        h["ops"] = h.get("ops") or []; h["mods"] = h.get("mods") or []
    modelled = [h for h in hs if not h.get("probe")]
    preds, err = classify(modelled)
    if preds is not None:
        it = iter(preds); preds = [([] if h.get("probe") else next(it)) for h in hs]
    if preds is None:
        ck.violation("model-eval", {"kind": "model-eval"}, {"out": err[-3000:]}, no_input=True)
        return ck.finish()
    dist = {"histories": len(hs), "model_safe": 0, "model_F08_class": 0, "ops": {}, "pred": {0: 0, 1: 0, 2: 0}, "steps_executed": 0,
            "obs": {"same_as_twin": 0, "ordinary_error": 0}, "in_flight_blocks": 0}
    for h, p in zip(hs, preds):
        h["pred"] = p
        if not h.get("witness"):
            h["cut"] = cut_of(h, p)
            dist["model_safe" if h["cut"] < 0 else "model_F08_class"] += 1
            for o in h["ops"]:
                dist["ops"][o[0]] = dist["ops"].get(o[0], 0) + 1
                if o[0] == "enter": dist["in_flight_blocks"] += 1
        for x in p: dist["pred"][x] += 1
    runf = os.path.join(WORK, "cases", "c09_run_%d.jsonl" % seed)
    with open(runf, "w") as f:
        for h in hs:
            f.write(json.dumps({k: v for k, v in h.items() if k != "pred"}) + "\n")
    rc, out = sh([binp, "-run", runf, "-par", "12", "-timeout", "60s"], timeout=3000)
    res = [json.loads(l) for l in out.split("\n") if l.startswith("{")]
    if rc != 0 or len(res) != 2 * len(hs):
        ck.violation("harness-crash", {"kind": "run"}, {"rc": rc, "tail": out[-3000:]}, no_input=True)
        return ck.finish()
    byid = {h["id"]: h for h in hs}
    ck.cases = len(res)
    shown = set()
    def viol(kind, sig, detail, **kw):
        key = (kind, sig.get("engine"))
        if key in shown: return
        shown.add(key); ck.violation(kind, sig, detail, **kw)
    f08 = {}
    nontrivial = set()
    for r in res:
        h = byid[r["id"]]; p = h["pred"]; eng = r["engine"]
        if h.get("witness"):
            key = (h["witness"], "%s/%s%s" % (eng, "cached" if h["cached"] else "uncached", "/no-churn" if h.get("nochurn") else ""))
            if r.get("crash"):
                f08[key] = "crash at step %d: %s" % (r["step"], r["crash"])
            elif r["obs"][-1] != r["twin"][-1]:
                f08[key] = "call_indirect returned %s, twin %s" % (r["obs"][-1], r["twin"][-1])
            else:
                f08[key] = None
            continue
        brief = {"id": h["id"], "engine": eng, "cached": h["cached"], "mods": h["mods"], "ops": h["ops"], "cut": h["cut"], "pred": p}
        if r.get("crash"):
            kind = "child-timeout" if r["crash"] == "timeout" else "child-crash"
            viol(kind, {"kind": kind, "engine": eng}, {"step": r["step"], "op": h["ops"][r["step"]] if 0 <= r["step"] < len(h["ops"]) else None,
                                                        "crash": r["crash"], "tail": r.get("tail", "")[:1500], "history": brief})
            continue
        obs, twin = r["obs"], r["twin"]
        seen_close = seen_gc = False
        for i, (a, b) in enumerate(zip(obs, twin)):
            k = h["ops"][i][0]
            dist["steps_executed"] += 1
            if k.startswith("close") or k.startswith("drop"): seen_close = True
            if k == "gc" and seen_close: seen_gc = True
            if seen_gc and a.startswith("v:"): nontrivial.add(h["id"])
            ordinary = a.startswith(ORDINARY)
            # the property on the observations alone: same as the twin, or an ordinary error
            if a != b and not ordinary:
                viol("twin-diff", {"kind": "twin-diff", "engine": eng}, {"step": i, "op": h["ops"][i], "obs": a, "twin": b, "history": brief})
                continue
            if a == b and not ordinary: dist["obs"]["same_as_twin"] += 1
            if ordinary: dist["obs"]["ordinary_error"] += 1
            # model agreement (closes, drops and collections have no result to predict)
            if k.startswith(("close", "drop")) or k in ("gc", "enter"): continue
            if p[i] == 0 and a != b:
                viol("model-differs", {"kind": "model-differs", "engine": eng}, {"step": i, "op": h["ops"][i], "obs": a, "twin": b, "pred": 0, "history": brief}, no_input=True)
            elif p[i] == 1 and not ordinary and not (a == b and a.startswith("e:")):
                viol("model-differs", {"kind": "model-differs", "engine": eng}, {"step": i, "op": h["ops"][i], "obs": a, "twin": b, "pred": 1, "history": brief}, no_input=True)
    ck.distinct = len(nontrivial)
    ck.dist = dist
    ck.samples = [dict(ops=h["ops"][:14], pred=h["pred"][:14], cut=h.get("cut")) for h in hs[:3]]
    ck.extra["rule"] = ("histories generated from VERIF_SEED over 2-4 modules (exporter of functions and a table; importers with private tables / funcref globals; "
                        "store-by-parameter imports), classified by the Coq model (vm_compute of Lifetime.classify), each executed on both engines in its own supervised "
                        "child process next to a twin runtime in which nothing is closed; non-trivial = a call returns a value after a close/drop followed by a forced collection")
    WIT = {"F08": (F08_SIG, "instantiate B; instantiate P importing B.st0; P.pass(ref.func P.f) -> B's private table; close P and its compiled module; drop; gc; B.call_indirect",
                   "Lifetime.classify predicts 2 (dereferences a collected record) at the last step; theorem C09_private_table_refuted"),
           "F08b": (F08B_SIG, "A exports a mutable funcref global g; B imports it and does global.set g (ref.func B.f); close B and its compiled module; drop; gc; A: table.set 0 (global.get g); call_indirect",
                    "same class (a holder that does not track the definer: globals have no involvingModuleInstances); not generated in histories, fixed witness only")}
    for w, (sig, what, model) in WIT.items():
        rep = {k[1]: v for k, v in sorted(f08.items()) if k[0] == w}
        ck.extra[w + "_witness"] = rep
        if any(v for v in rep.values()):
            ck.violation(sig["kind"], dict(sig), {"witness": what, "model": model, "observed": rep})
        else:
            ck.note("%s witness did NOT reproduce on either engine in this run: %s" % (w, json.dumps(rep)))
        for k, v in rep.items():
            if v is None: ck.note("%s witness not observed on %s (dangling memory not reused / still mapped in this run)" % (w, k))
    if not proofs_ok and not [v for v in ck.violations if v["kind"] not in ("dangling-funcref-private-table", "dangling-funcref-imported-global")]:
        ck.violation("proof-broken", {"kind": "proof-broken"}, getattr(ck, "proof_failure", {}), no_input=True)
    return ck.finish()
