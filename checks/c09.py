"""C09 — closing and collecting modules never endangers live ones."""
import json, os, re
from vcheck import *

F08_SIG = {"kind": "dangling-funcref-private-table", "witness": "F08"}
F08B_SIG = {"kind": "dangling-funcref-imported-global", "witness": "F08b"}
MEMFREE_SIG = {"kind": "shared-memory-freed-on-close", "witness": "MEMFREE"}
GIMM_SIG = {"kind": "dangling-funcref-imported-global-no-engine-edge", "witness": "GIMM"}
ENGINES = ("interp", "compiler")
ORDINARY = ("e:exit:", "e:refused", "e:nohandle")


def pairs(l): return "[" + "; ".join("(%d, %d)" % (a, b) for a, b in (l or [])) + "]"


def nimprec(q): return len(q.get("impf") or []) + len(q.get("imps") or []) + len(q.get("impa") or [])


def ntab(m): return len(m.get("impt") or []) + m["nexp"] + m["npriv"]
def exp_holder(m, e): return ntab(m) + m["nglob"] + e
def imp_holder(m, q): return ntab(m) + m["nglob"] + len(m.get("expg") or []) + q
def nhold(m): return imp_holder(m, len(m.get("impg") or []))


def coq_mod(mods, m, eng):
    """eng: wazevo's module engine owns the globals (buildGlobals sets GlobalInstance.Me), the interpreter's does not"""
    impf = list(m.get("impf") or [])
    for (m2, _t) in (m.get("imps") or []) + (m.get("impa") or []):
        # an imported store function / memory accessor is a function record of m2: any own record has the same code owner
        impf.append([m2, nimprec(mods[m2])])
    me = "true" if eng == "compiler" else "false"
    def ginit(x): return "GNull" if x == -1 else ("(GFunc %d)" % (nimprec(m) + x) if x >= 0 else "(GGet %d)" % (-2 - x))
    expg = "; ".join("mkG %s %s %s" % ("true" if mut else "false", ginit(init), me) for mut, init in (m.get("expg") or []))
    impg = [(j, exp_holder(mods[j], e)) for j, e in (m.get("impg") or [])]
    gel = "; ".join("(%d, %d, %d)" % (t, k, imp_holder(m, q)) for t, k, q in (m.get("gelems") or []))
    return "mkM %s %s %d %d %d %d %d [%s] [%s] %s [%s]" % (pairs(impf), pairs(m.get("impt")), m["nfun"], m["nexp"], m["npriv"], m["nglob"], m["size"],
                                                          "; ".join("(%d, %d, %d)" % tuple(e) for e in (m.get("elems") or [])), expg, pairs(impg), gel)

TINY = "mkM [] [] 1 0 0 0 4 [] [] [] []"      # the unrelated module of the "xc" steps: index len(mods)


def coq_op(h, o):
    """the model operations of one step (a list: an "xc" step is n compile/instantiate/close/drop rounds of the tiny module)"""
    k, a = o[0], list(o[1:])
    mods = h["mods"]
    if k == "xc":
        T = len(mods)
        return ["HCompile %d" % T, "HInst %d" % T, "HCloseMod %d" % T, "HCloseCompiled %d" % T, "HDropMod %d" % T, "HDropCompiled %d" % T] * a[0] + ["HGc"]
    if k == "gc": return ["HGc"]
    # Go's collector may run at any moment (and the harness forces it after every close and drop): the model collects after
    # EVERY step - the most aggressive collector; garbage never becomes reachable again, so nothing is lost
    return [coq_op1(h, o), "HGc"]


def coq_op1(h, o):
    k, a = o[0], list(o[1:])
    mods = h["mods"]
    def sl(m, t, kk): return 0 if t >= ntab(mods[m]) else kk      # a global has one slot whatever index the call passes
    if k in ("ind", "set", "clr", "leavei"): a[2] = sl(a[0], a[1], a[2])
    if k == "cp": a[2], a[4] = sl(a[0], a[1], a[2]), sl(a[0], a[3], a[4])
    if k == "fil": return "HSetRef %d %d %d %d" % tuple(a)          # table.fill of one slot
    if k == "cpc": return "HCopy %d %d %d %d %d" % tuple(a)         # table.copy of one slot
    if k == "grw": return "HGrow %d %d %d" % tuple(a)               # table.grow by one slot
    if k == "compile": return "HCompile %d" % a[0]
    if k == "inst": return "HInst %d" % a[0]
    if k == "call": return "HCallExport %d %d" % (a[0], a[1])
    if k == "ind": return "HCallInd %d %d %d" % tuple(a)
    if k == "set": return "HSetRef %d %d %d %d" % tuple(a)
    if k == "cp": return "HCopy %d %d %d %d %d" % tuple(a)
    if k == "clr": return "HClear %d %d %d" % tuple(a)
    if k == "pass":
        m2, t = h["mods"][a[0]]["imps"][a[2]]
        return "HPass %d %d %d %d %d" % (a[0], a[1], m2, t, sl(m2, t, a[3]))
    if k == "gp":
        m2, t = h["mods"][a[0]]["imps"][a[2]]
        return "HPassVal %d %d 0 %d %d %d" % (a[0], a[1], m2, t, sl(m2, t, a[3]))
    if k == "enter": return "HEnter %d" % a[0]
    # shared memory / global accessors: an exported call of own code, or of the wrapper of an imported accessor (the
    # record of that import); the host's api.Memory access is no call at all (own record: never dangling while held)
    def accrec(m, p): return nimprec(mods[m]) if p < 0 else len(mods[m].get("impf") or []) + len(mods[m].get("imps") or []) + p
    if k == "mu": return "HCallExport %d %d" % (a[0], accrec(a[0], a[1]))
    if k == "mh": return "HCallExport %d %d" % (a[0], nimprec(mods[a[0]]))
    if k == "leavem": return "HLeaveRec %d %d" % (a[0], accrec(a[0], a[1]))
    if k == "leaver": return "HLeaveRec %d %d" % tuple(a)
    if k == "leavei": return "HLeaveInd %d %d %d" % tuple(a)
    if k == "closemod": return "HCloseMod %d" % a[0]
    if k == "closecm": return "HCloseCompiled %d" % a[0]
    if k == "dropmod": return "HDropMod %d" % a[0]
    if k == "dropcm": return "HDropCompiled %d" % a[0]
    return {"closecache": "HCloseCache", "closert": "HCloseRuntime", "droprt": "HDropRuntime", "dropcache": "HDropCache", "gc": "HGc"}[k]


def coq_case(h, eng):
    return "(%s, [%s], [%s])" % ("true" if h["cached"] else "false", "; ".join([coq_mod(h["mods"], m, eng) for m in h["mods"]] + [TINY]),
                                 "; ".join(x for o in h["ops"] for x in coq_op(h, o)))


def parse_zlistlist(out, ident):
    m = re.search(re.escape(ident) + r"\s*=\s*(\[.*\])\s*:\s*list", out, re.S)
    if not m: return None
    body = re.sub(r"%[A-Za-z]+", "", m.group(1)).replace("\n", " ").strip()
    inner = body[1:-1]
    return [[int(x) for x in re.findall(r"-?\d+", g)] for g in re.findall(r"\[([^\[\]]*)\]", inner)]


def classify(hs, eng):
    """predictions of the Coq model for one engine, one list (one entry per step) per history"""
    preds = []
    SH = 60
    for s in range(0, len(hs), SH):
        part = hs[s:s + SH]
        v = ("From Verif Require Import Engine.Lifetime.\nFrom Coq Require Import List ZArith.\nImport ListNotations.\n"
             "Definition cases : list hcase := [\n" + ";\n".join(coq_case(h, eng) for h in part) + "].\n"
             "Definition M := Eval vm_compute in map classify cases.\nPrint M.\n")
        rc, o = coq_eval("c09_%s_%d" % (eng, s), v)
        l = parse_zlistlist(o, "M")
        if rc != 0 or l is None or len(l) != len(part):
            return None, o
        for h, flat in zip(part, l):
            # regroup: the prediction of a step is that of its first model operation (an "xc" step: its first compilation)
            out, i = [], 0
            for op in h["ops"]:
                n = len(coq_op(h, op))
                out.append(flat[i] if n else 0); i += n
            if i != len(flat):
                return None, o
            preds.append(out)
    return preds, ""


# ---- shared memories: coq/Engine/LifetimeMem.v ----
AK = ["KSize", "KLoad", "KStore", "KGrow", "KGGet", "KGSet", "KGrowSt"]


def has_mem(h): return any(m.get("mem") or m.get("impm") or m.get("gi") or m.get("impgi") or m.get("impa") for m in h["mods"])


def coq_mmod(m):
    def src(own, imp): return "SOwn" if own else ("(SImp %d)" % imp[0] if imp else "SNone")
    return "mkMM %s false 4 %s [%s]" % (src(m.get("mem"), m.get("impm")), src(m.get("gi"), m.get("impgi")),
                                        "; ".join("(%d%%nat, %s)" % (j, AK[k]) for j, k in (m.get("impa") or [])))


def coq_mop(h, i, o, pred):
    k, a = o[0], list(o[1:])
    def path(p): return "None" if p < 0 else "(Some %d%%nat)" % p
    if k == "inst": return "MInst %d" % a[0] if pred[i] == 0 else "MNop"       # whether an instantiation succeeds: Lifetime.classify
    if k == "closemod": return "MClose %d" % a[0]
    if k == "closert": return "MCloseAll" if pred[i] == 0 else "MNop"          # not performed once the runtime handle is dropped
    if k == "dropmod": return "MDrop %d" % a[0]
    if k == "gc": return "MGc"
    if k == "enter": return "MEnter %d" % a[0]
    if k in ("leaver", "leavei"): return "MLeave None KSize 0 0"               # the call in flight ends; no memory access
    if k == "leavem": return "MLeave %s %s %d %d" % (path(a[1]), AK[a[2]], a[3], a[4])
    if k == "mu": return "MUse %d %s %s %d %d" % (a[0], path(a[1]), AK[a[2]], a[3], a[4])
    if k == "mh": return "MHost %d %s %d %d" % (a[0], AK[a[1]], a[2], a[3])
    return "MNop"


def mclassify(hs):
    """LifetimeMem.mclassify: one (class, value) pair per step of every history with a shared memory / global"""
    res = {}
    todo = [h for h in hs if has_mem(h)]
    SH = 60
    for s in range(0, len(todo), SH):
        part = todo[s:s + SH]
        v = ("From Verif Require Import Engine.Lifetime Engine.LifetimeMem.\nFrom Coq Require Import List ZArith.\nImport ListNotations.\nOpen Scope Z_scope.\n"
             "Definition cases : list mcase := [\n" +
             ";\n".join("([%s], [%s])" % ("; ".join(coq_mmod(m) for m in h["mods"]),
                                           "; ".join(coq_mop(h, i, o, h["predm"]) for i, o in enumerate(h["ops"]))) for h in part) + "].\n"
             "Definition M := Eval vm_compute in map mclassify cases.\nPrint M.\n")
        rc, o = coq_eval("c09m_%d" % s, v)
        m = re.search(r"M\s*=\s*(\[.*\])\s*:\s*list", o, re.S)
        if rc != 0 or not m:
            return None, o
        body = re.sub(r"%[A-Za-z]+", "", m.group(1)).replace("\n", " ")
        groups = re.findall(r"\[((?:\s*\(\s*-?\d+\s*,\s*-?\d+\s*\)\s*;?)*)\s*\]", body[1:-1])
        if len(groups) != len(part):
            return None, o
        for h, g in zip(part, groups):
            l = [(int(x), int(y)) for x, y in re.findall(r"\(\s*(-?\d+)\s*,\s*(-?\d+)\s*\)", g)]
            if len(l) != len(h["ops"]):
                return None, o
            res[h["id"]] = l
    return res, ""


def mem_agrees(pred, a):
    """does the engine's observation `a` agree with LifetimeMem's (class, value)?"""
    cls, val = pred
    if a.startswith("v:"): return cls == 0 and a == "v:%d" % val
    if a == "ok": return cls == 4
    if a == "e:oob": return cls == 3
    if a.startswith(ORDINARY): return cls == 1
    return False


def mem_symptom(a, b):
    if a == "e:oob": return "out-of-bounds for an address the twin can access"
    if a == "v:1515870810": return "read of a freed, re-used buffer (0x5a5a5a5a churn pattern)"
    if a.startswith("v:") and b.startswith("v:"): return "stale value / stale size"
    return "other"


def mem_dist(h, obs, dist):
    """distribution counters of one executed history (observations of one engine)"""
    mods = h["mods"]
    def root(m):
        while not mods[m].get("mem") and mods[m].get("impm"): m = mods[m]["impm"][0]
        return m if mods[m].get("mem") else None
    gen = [0] * len(mods); closed = set(); bound = {}; held = [False] * len(mods); rt = True
    def definer_closed(m):       # the instance defining the memory that instance m (as bound at its instantiation) uses
        b = bound.get(m)
        if b is None: return False
        r = b["root"]
        return r is not None and r in closed
    for i, o in enumerate(h["ops"][:len(obs)]):
        k, a = o[0], o[1:]
        if k == "inst" and obs[i] == "ok":
            m = a[0]; gen[m] += 1; held[m] = True
            src = mods[m].get("impm")
            if mods[m].get("mem"): r = (m, gen[m])
            elif src and bound.get(src[0]): r = bound[src[0]]["root"]
            else: r = None
            bound[m] = {"root": r, "self": (m, gen[m]),
                        "acc": [(bound.get(j) or {}).get("self") for j, _ in (mods[m].get("impa") or [])],
                        "accroot": [(bound.get(j) or {}).get("root") for j, _ in (mods[m].get("impa") or [])]}
        elif k == "closemod" and held[a[0]] and bound.get(a[0]): closed.add(bound[a[0]]["self"])
        elif k == "closert" and rt:
            for b in bound.values(): closed.add(b["self"])
        elif k == "droprt": rt = False
        elif k == "dropmod": held[a[0]] = False
        elif k in ("mu", "leavem", "mh") and not obs[i].startswith("e:nohandle"):
            m = a[0]; b = bound.get(m) or {}
            if k == "mh": p, kind, n = -1, a[1], a[2]
            else: p, kind, n = a[1], a[2], a[3]
            dist["mem_ops"] += 1
            if k == "leavem": dist["mem_in_flight_leaves"] += 1
            if k == "mh" and kind == 3: dist["host_grows"] += 1
            r = (b.get("accroot") or [None])[p] if p >= 0 and p < len(b.get("accroot") or []) else b.get("root")
            if kind in (3, 6) and n > 0 and r in closed and (obs[i].startswith("v:") and obs[i] != "v:4294967295" or obs[i].startswith("e:exit")):
                dist["grows_after_definer_closed"] += 1
            if kind < 4 or kind == 6:
                via = (b.get("acc") or [None])[p] if p >= 0 and p < len(b.get("acc") or []) else (b.get("self") if k != "mh" else None)
                if via in closed and via == r:
                    dist["uses_through_closed_definer"] += 1
                elif via in closed:
                    dist["uses_through_closed_importer"] += 1


def glob_dist(h, obs, gd):
    """distribution counters for exported/imported funcref globals of one executed history (compiler observations):
    reads of an imported global by an importer whose exporter (as bound at the importer's instantiation) has been closed,
    its compiled module closed, both handles dropped, and a collection forced since"""
    mods = h["mods"]
    gen = [0] * len(mods); held = [False] * len(mods); cmheld = [False] * len(mods)
    state = {}            # (m, gen) -> dict(closed, cmclosed, dropped, cmdropped, gc)
    bound = {}            # importer m -> [(exporter, gen)] per ImpG
    cur_cm = [None] * len(mods)   # compiled module generation a module's instances come from
    cmgen = [0] * len(mods); cmstate = {}
    rt = True
    def gone(key):
        st = state.get(key)
        return bool(st and st["closed"] and st["dropped"] and st["gc"] and cmstate.get(st["cm"], {}).get("gone_gc"))
    for i, o in enumerate(h["ops"][:len(obs)]):
        k, a = o[0], o[1:]
        if k == "compile" and obs[i] == "ok":
            m = a[0]
            if cur_cm[m] is not None: cmstate[cur_cm[m]]["dropped"] = True
            cmgen[m] += 1; cur_cm[m] = (m, cmgen[m]); cmstate[cur_cm[m]] = {"closed": False, "dropped": False, "gone_gc": False}
        elif k == "inst" and obs[i] == "ok":
            m = a[0]
            if held[m] and (m, gen[m]) in state: state[(m, gen[m])]["dropped"] = True
            gen[m] += 1; held[m] = True
            state[(m, gen[m])] = {"closed": False, "dropped": False, "gc": False, "cm": cur_cm[m]}
            bound[m] = [(j, gen[j]) for j, _e in (mods[m].get("impg") or [])]
        elif k == "closemod" and held[a[0]]: state[(a[0], gen[a[0]])]["closed"] = True
        elif k == "closert" and rt:
            for st in state.values(): st["closed"] = True
        elif k == "droprt": rt = False
        elif k == "dropmod":
            if held[a[0]]: state[(a[0], gen[a[0]])]["dropped"] = True
            held[a[0]] = False
        elif k == "closecm" and cur_cm[a[0]] is not None: cmstate[cur_cm[a[0]]]["closed"] = True
        elif k == "dropcm":
            if cur_cm[a[0]] is not None: cmstate[cur_cm[a[0]]]["dropped"] = True
            cur_cm[a[0]] = None
        elif k == "gc":
            for st in state.values():
                if st["closed"] and st["dropped"]: st["gc"] = True
            for st in cmstate.values():
                if st["closed"] and st["dropped"]: st["gone_gc"] = True
        elif k == "xc" and obs[i] == "ok":
            gd["extra_compile_steps_executed"] += 1; gd["extra_modules_compiled"] += a[0]
        elif k in ("ind", "leavei", "cp", "gp") and (obs[i].startswith("v:") or obs[i] == "ok"):
            m, t = a[0], a[1]
            q = t - imp_holder(mods[m], 0)
            if 0 <= q < len(mods[m].get("impg") or []) and q < len(bound.get(m) or []):
                gd["reads_of_imported_global"] += 1
                if gone(bound[m][q]):
                    gd["reads_after_exporter_closed_dropped_collected"] += 1
                    if mods[m].get("gonly"): gd["reads_after_exporter_collected_by_global_only_importer"] += 1


def cut_of(h, p):
    """index of the first step that must not be executed (first dangling use; the enclosing in-flight block as a whole)"""
    ent = None
    for i, o in enumerate(h["ops"]):
        if o[0] == "enter": ent = i
        if p[i] == 2: return ent if ent is not None else i
        if o[0].startswith("leave"): ent = None
    return -1


def run(tier, seed):
    ck = Check("C09", tier, seed)
    ck.trusted += ["coq/Engine/Lifetime.v: hand-written heap-graph model (objects, visible/raw edges, instantiate/close/drop/gc); its visible edges were read off "
                   "wazevo/module_engine.go (parent, importedFunctions[i].me, localFunctionInstances), wazevo/engine.go (compiledModules, executables finalizer), interpreter.go, "
                   "wasm/store.go (moduleList, resolveImports), wasm/table.go (involvingModuleInstances) and are tied to the code only by the correspondence run",
                   "coq/Engine/LifetimeMem.v: hand-written model of shared memories/globals (memory = current buffer + size, grow = new buffer, per-instance cached views refreshed by the grow "
                   "notification, collector frees every buffer that is not the current buffer of a retained memory); read off wasm/memory.go Grow (ownerModuleEngine.MemoryGrown), "
                   "wazevo/module_engine.go putLocalMemory / ResolveImportedMemory (only the definer caches base+length; importers go through the MemoryInstance) and tied to the code by the correspondence run: "
                   "every value / trap / ordinary error of every memory step on both engines equals LifetimeMem.mclassify's",
                   "Go's collector, finalizers and munmap are runtime behaviour: exercised with forced collections in supervised child processes, not modelled beyond `gc`",
                   "harness/c09 (Go: wasm encoder, history generator, child supervision, twin runtime, heap churn) and checks/c09.py (case conversion, oracle)"]
    ck.assumptions += ["the model's gc is the most aggressive collector (everything not visibly reachable from host handles and in-flight calls); the real collector may keep more, which can hide but never cause a dangling use",
                       "where the engines differ the model keeps the fewer visible edges (wazevo function records have no pointer to their instance); the one edge that is a parameter is GlobalInstance.Me "
                       "(exported global object -> its exporter's module engine): histories are classified twice, with the edge for the compiler (wazevo owns the globals) and without it for the interpreter, and cut per engine",
                       "a closed instance still executes (wazero consults Closed only when an exported call returns): modelled so; its results are compared as 'ordinary error'",
                       "compiling after the engine behind a closed CompilationCache is not exercised (the compiler engine panics there: reported separately); shared memories and i32 globals are modelled by Engine/LifetimeMem.v (one memory per module, word accesses at non-overlapping addresses, maximum 4 pages); "
                       "exported/imported funcref globals (immutable and mutable, initialised with ref.func / ref.null / global.get, element items global.get, global-only importers) are generated; "
                       "the engine keeps closed compiled modules reachable from vacated slots of sortedCompiledModules until later compilations overwrite them (a leak that hides dangling code): 'xc' steps compile further unrelated modules",
                       "F08-class histories (a funcref placed by parameter into a holder that does not track its definer) are cut before the dangling use; the canonical F08 and F08b witnesses are executed in their own children"]
    proofs_ok = ck.proofs()
    n = 32 if tier == "quick" else 800
    binp, log = build_harness("c09")
    if not binp:
        ck.violation("harness-build", {"kind": "build"}, {"log": log[-3000:]}, no_input=True)
        return ck.finish()
    rc, out = sh([binp, "-gen", "-seed", str(seed), "-n", str(n)], timeout=120)
    hs = [json.loads(l) for l in out.split("\n") if l.startswith("{")]
    if rc != 0 or len(hs) < n + 10:
        ck.violation("harness-crash", {"kind": "gen"}, {"rc": rc, "tail": out[-2000:]}, no_input=True)
        return ck.finish()
    # minimized regression histories are replayed first
    cdir = os.path.join(ROOT, "corpus", "C09")
    corpus = []
    if os.path.isdir(cdir):
        for fn in sorted(os.listdir(cdir)):
            for l in open(os.path.join(cdir, fn)):
                if l.startswith("{"):
                    h = json.loads(l); h["id"] = 100000 + len(corpus); h["corpus"] = fn; h.pop("note", None); corpus.append(h)
    hs = corpus + hs
    for h in hs:
        h["ops"] = h.get("ops") or []; h["mods"] = h.get("mods") or []
    modelled = [h for h in hs if not h.get("probe")]
    for h in hs: h["pred"] = {}
    for eng in ENGINES:
        preds, err = classify(modelled, eng)
        if preds is None:
            ck.violation("model-eval", {"kind": "model-eval", "engine": eng}, {"out": err[-3000:]}, no_input=True)
            return ck.finish()
        it = iter(preds)
        for h in hs: h["pred"][eng] = [] if h.get("probe") else next(it)
    dist = {"histories": len(hs), "model_safe": 0, "model_F08_class": 0, "ops": {}, "pred": {0: 0, 1: 0, 2: 0}, "steps_executed": 0,
            "obs": {"same_as_twin": 0, "ordinary_error": 0}, "in_flight_blocks": 0,
            "shared_memory": {"histories_with_shared_memory": 0, "histories_with_shared_global": 0, "mem_ops": 0, "host_grows": 0,
                              "grows_after_definer_closed": 0, "uses_through_closed_definer": 0, "uses_through_closed_importer": 0,
                              "mem_in_flight_leaves": 0, "mem_steps_compared_with_model": 0,
                              "model_class": {"value": 0, "ordinary_error": 0, "trap_oob": 0, "no_result": 0, "freed": 0}},
            "funcref_globals": {"histories_with_exported_immutable_funcref_global": 0, "histories_with_exported_mutable_funcref_global": 0,
                                "histories_with_imported_funcref_global": 0, "histories_with_global_only_importer": 0,
                                "histories_with_global_get_element_items_or_initialisers": 0, "histories_with_extra_compile_steps": 0,
                                "extra_compile_steps_executed": 0, "extra_modules_compiled": 0, "reads_of_imported_global": 0,
                                "reads_after_exporter_closed_dropped_collected": 0, "reads_after_exporter_collected_by_global_only_importer": 0,
                                "model_safe_on_compiler_but_dangling_on_interpreter": 0}}
    md = dist["shared_memory"]; gd = dist["funcref_globals"]
    for h in hs:
        p = h["pred"]["compiler"]
        h["cut"] = -1
        if not h.get("witness"):
            # the engines differ in one edge of the model (GlobalInstance.Me): a history is cut per engine
            h["cuts"] = {eng: cut_of(h, h["pred"][eng]) for eng in ENGINES}
            dist["model_safe" if h["cuts"]["compiler"] < 0 else "model_F08_class"] += 1
            if h["cuts"]["compiler"] < 0 and h["cuts"]["interp"] >= 0: gd["model_safe_on_compiler_but_dangling_on_interpreter"] += 1
            for o in h["ops"]:
                dist["ops"][o[0]] = dist["ops"].get(o[0], 0) + 1
                if o[0] == "enter": dist["in_flight_blocks"] += 1
            if any(not mut for m in h["mods"] for mut, _i in (m.get("expg") or [])): gd["histories_with_exported_immutable_funcref_global"] += 1
            if any(mut for m in h["mods"] for mut, _i in (m.get("expg") or [])): gd["histories_with_exported_mutable_funcref_global"] += 1
            if any(m.get("impg") for m in h["mods"]): gd["histories_with_imported_funcref_global"] += 1
            if any(m.get("gonly") for m in h["mods"]): gd["histories_with_global_only_importer"] += 1
            if any(m.get("gelems") or any(i <= -2 for _m, i in (m.get("expg") or [])) for m in h["mods"]): gd["histories_with_global_get_element_items_or_initialisers"] += 1
            if any(o[0] == "xc" for o in h["ops"]): gd["histories_with_extra_compile_steps"] += 1
        elif h["witness"] == "GIMM":
            h["cuts"] = {"compiler": cut_of(h, h["pred"]["compiler"])}    # interpreter: uncut (the witness of the finding)
        for x in p: dist["pred"][x] += 1
    for h in hs:
        if any(m.get("mem") or m.get("impm") for m in h["mods"]): md["histories_with_shared_memory"] += 1
        if any(m.get("gi") or m.get("impgi") for m in h["mods"]): md["histories_with_shared_global"] += 1
    for h in hs: h["predm"] = h["pred"]["compiler"]      # whether an instantiation succeeds does not depend on the engine
    mpreds, err = mclassify([h for h in hs if not h.get("probe") and not h.get("witness")])
    if mpreds is None:
        ck.violation("model-eval", {"kind": "model-eval", "model": "LifetimeMem"}, {"out": err[-3000:]}, no_input=True)
        return ck.finish()
    runf = os.path.join(WORK, "cases", "c09_run_%d.jsonl" % seed)
    with open(runf, "w") as f:
        for h in hs:
            f.write(json.dumps({k: v for k, v in h.items() if k not in ("pred", "predm")}) + "\n")
    rc, out = sh([binp, "-run", runf, "-par", "12", "-timeout", "60s"], timeout=3000)
    res = [json.loads(l) for l in out.split("\n") if l.startswith("{")]
    if rc != 0 or len(res) != 2 * len(hs):
        ck.violation("harness-crash", {"kind": "run"}, {"rc": rc, "tail": out[-3000:]}, no_input=True)
        return ck.finish()
    byid = {h["id"]: h for h in hs}
    ck.cases = len(res)
    shown = set()
    failing = {}
    def viol(kind, sig, detail, **kw):
        key = (kind, sig.get("engine"))
        hid = (detail.get("history") or {}).get("id")
        l = failing.setdefault("%s/%s" % (kind, sig.get("engine")), [])
        if hid is not None and hid not in l and len(l) < 40: l.append(hid)
        if key in shown: return
        shown.add(key); ck.violation(kind, sig, detail, **kw)
    f08 = {}
    nontrivial = set()
    for r in res:
        h = byid[r["id"]]; eng = r["engine"]; p = h["pred"][eng]
        # GIMM on the compiler is an ordinary model-safe history; on the interpreter it is the witness of a finding
        if h.get("witness") and not (h["witness"] == "GIMM" and eng == "compiler"):
            key = (h["witness"], "%s/%s%s" % (eng, "cached" if h["cached"] else "uncached", "/no-churn" if h.get("nochurn") else ""))
            if h["witness"] == "MEMFREE": key = (h["witness"], "%s/%s" % (eng, h["probe"]))
            if r.get("crash"):
                f08[key] = "crash at step %d: %s" % (r["step"], r["crash"])
            elif h["witness"] == "GIMM":
                bad = [(i, a, b) for i, (a, b) in enumerate(zip(r["obs"], r["twin"])) if a != b and not a.startswith(ORDINARY)]
                f08[key] = ("step %d %s returned %s, twin %s" % (bad[0][0], json.dumps(h["ops"][bad[0][0]]), bad[0][1], bad[0][2])) if bad else None
            elif r["obs"][-1] != r["twin"][-1]:
                f08[key] = ("%s returned %s, twin %s" % ("load" if h["witness"] == "MEMFREE" else "call_indirect", r["obs"][-1], r["twin"][-1])) + \
                           ("; Close: %s" % r["obs"][2] if h["witness"] == "MEMFREE" else "")
            else:
                f08[key] = None
            continue
        brief = {"id": h["id"], "engine": eng, "cached": h["cached"], "mods": h["mods"], "ops": h["ops"], "cut": (h.get("cuts") or {}).get(eng, -1), "pred": p}
        if r.get("crash"):
            kind = "child-timeout" if r["crash"] == "timeout" else "child-crash"
            viol(kind, {"kind": kind, "engine": eng}, {"step": r["step"], "op": h["ops"][r["step"]] if 0 <= r["step"] < len(h["ops"]) else None,
                                                        "crash": r["crash"], "tail": r.get("tail", "")[:1500], "history": brief})
            continue
        obs, twin = r["obs"], r["twin"]
        mp = mpreds.get(h["id"])
        if mp and eng == "compiler": mem_dist(h, obs, md)
        if eng == "compiler" and not h.get("witness"): glob_dist(h, obs, gd)
        seen_close = seen_gc = False
        for i, (a, b) in enumerate(zip(obs, twin)):
            k = h["ops"][i][0]
            dist["steps_executed"] += 1
            if k.startswith("close") or k.startswith("drop"): seen_close = True
            if k == "gc" and seen_close: seen_gc = True
            if seen_gc and a.startswith("v:"): nontrivial.add(h["id"])
            ordinary = a.startswith(ORDINARY)
            # the property on the observations alone: same as the twin, or an ordinary error
            if a != b and not ordinary:
                if k in ("mu", "mh", "leavem"):
                    md.setdefault("diverging_steps", {}).setdefault(eng, 0); md["diverging_steps"][eng] += 1
                    md.setdefault("diverging_histories", {}).setdefault(eng, [])
                    if h["id"] not in md["diverging_histories"][eng]: md["diverging_histories"][eng].append(h["id"])
                    # a use of a shared memory / global through some path differs from the twin that made the same calls without the closes
                    viol("shared-memory-diverges", {"kind": "shared-memory-diverges", "engine": eng},
                         {"step": i, "op": h["ops"][i], "obs": a, "twin": b, "symptom": mem_symptom(a, b),
                          "model": mp[i] if mp else None, "history": brief})
                else:
                    viol("twin-diff", {"kind": "twin-diff", "engine": eng}, {"step": i, "op": h["ops"][i], "obs": a, "twin": b, "history": brief})
                continue
            if a == b and not ordinary: dist["obs"]["same_as_twin"] += 1
            if ordinary: dist["obs"]["ordinary_error"] += 1
            # LifetimeMem agreement: the value / trap / ordinary error of every memory step is the one the model computes
            if mp and k in ("mu", "mh", "leavem"):
                md["mem_steps_compared_with_model"] += 1
                md["model_class"][{0: "value", 1: "ordinary_error", 2: "freed", 3: "trap_oob", 4: "no_result"}[mp[i][0]]] += 1
                if not mem_agrees(mp[i], a):
                    viol("model-differs", {"kind": "model-differs", "engine": eng, "model": "LifetimeMem"},
                         {"step": i, "op": h["ops"][i], "obs": a, "twin": b, "pred": mp[i], "history": brief}, no_input=True)
            # model agreement (closes, drops and collections have no result to predict)
            if k.startswith(("close", "drop")) or k in ("gc", "enter", "mh"): continue
            if p[i] == 0 and a != b:
                viol("model-differs", {"kind": "model-differs", "engine": eng}, {"step": i, "op": h["ops"][i], "obs": a, "twin": b, "pred": 0, "history": brief}, no_input=True)
            elif p[i] == 1 and not ordinary and not (a == b and a.startswith("e:")):
                viol("model-differs", {"kind": "model-differs", "engine": eng}, {"step": i, "op": h["ops"][i], "obs": a, "twin": b, "pred": 1, "history": brief}, no_input=True)
    ck.distinct = len(nontrivial)
    if failing: dist["failing_histories"] = failing      # ids of all histories behind the (deduplicated) violations
    ck.dist = dist
    ck.samples = [dict(ops=h["ops"][:14], pred=h["pred"]["compiler"][:14], cuts=h.get("cuts")) for h in hs[:3]]
    ck.extra["rule"] = ("histories generated from VERIF_SEED over 2-4 modules (exporter of functions and a table; importers with private tables / funcref globals; exported funcref globals, immutable "
                        "(ref.func / ref.null / global.get of an imported one) and mutable, imported by later modules - in two of five cases as their ONLY import - read by call_indirect, copied into tables / globals, "
                        "handed on by parameter, used by element items and initialisers `global.get g`; 'xc' steps compile+instantiate+close further unrelated modules; 8 fixed global-only-importer histories; "
                        "store-by-parameter imports; in two of three graphs a shared memory and a shared mutable i32 global: defined+exported by one module, imported (and re-exported) by later ones "
                        "together with accessor functions msize/mload/mstore/mgrow/gget/gset of earlier modules; ops: use through own code / through an imported accessor of a possibly closed instance / by the host "
                        "(api.Memory Size, Read, Write, Grow), grow after the definer is closed, in-flight continuations into memory code; 9 fixed closed-definer-then-grow histories), classified by the Coq model (vm_compute of Lifetime.classify), each executed on both engines in its own supervised "
                        "child process next to a twin runtime in which nothing is closed; every memory step is also compared with the value computed by LifetimeMem.mclassify (vm_compute); non-trivial = a call returns a value after a close/drop followed by a forced collection")
    WIT = {"F08": (F08_SIG, "instantiate B; instantiate P importing B.st0; P.pass(ref.func P.f) -> B's private table; close P and its compiled module; drop; gc; B.call_indirect",
                   "Lifetime.classify predicts 2 (dereferences a collected record) at the last step; theorem C09_private_table_refuted"),
           "F08b": (F08B_SIG, "A exports a mutable funcref global g; B imports it and does global.set g (ref.func B.f); close B and its compiled module; drop; gc; A: table.set 0 (global.get g); call_indirect",
                    "same class (a holder that does not track the definer: globals have no involvingModuleInstances); not generated in histories, fixed witness only"),
           "MEMFREE": (MEMFREE_SIG, "experimental.WithMemoryAllocator (allocator backed by Go slices whose Free poisons the buffer with 0xdd); A defines+exports a memory, B imports it; A.store(8,111); "
                       "close the IMPORTER B (alloc-importer) or the DEFINER A (alloc-definer), or let a further importer FAIL to instantiate on a taken name (alloc-dupfail: after B was closed; alloc-dupfail-live: before B is closed); the other, live instance calls load(8)",
                       "LifetimeMem under policy user_allocator (close frees the buffer of the memory the instance is bound to) predicts OFreed at the last step; theorem C09_allocator_close_frees_shared_memory_refuted; "
                       "code: ModuleInstance.ensureResourcesClosed calls m.MemoryInstance.expBuffer.Free() although m.MemoryInstance may be imported / still imported by others"),
           "GIMM": (GIMM_SIG, "INTERPRETER: A exports an IMMUTABLE funcref global g = ref.func A.f; M imports g and nothing else from A (element item `global.get g`, private global initialised with `global.get g`, "
                    "table.set 0 (global.get g)); close A and its compiled module; drop both handles; one more unrelated compile+instantiate; gc; M: call_indirect through g and through the copies",
                    "Lifetime.classify with g_me = false (the interpreter's module engine does not own the globals: buildGlobals leaves GlobalInstance.Me nil, so nothing leads from the importer to the exporter's "
                    "module engine and its function records) predicts 2 at the first use after the collection; theorem C09_immutable_global_without_edge_refuted; with g_me = true (wazevo) the same history is safe "
                    "(C09_immutable_global_import_keeps_definer) and is executed as an ordinary model-safe history on the compiler")}
    for w, (sig, what, model) in WIT.items():
        rep = {k[1]: v for k, v in sorted(f08.items()) if k[0] == w}
        ck.extra[w + "_witness"] = rep
        if any(v for v in rep.values()):
            ck.violation(sig["kind"], dict(sig), {"witness": what, "model": model, "observed": rep})
        else:
            ck.note("%s witness did NOT reproduce on either engine in this run: %s" % (w, json.dumps(rep)))
        for k, v in rep.items():
            if v is None: ck.note("%s witness not observed on %s (dangling memory not reused / still mapped in this run)" % (w, k))
    if not proofs_ok and not [v for v in ck.violations if v["kind"] not in ("dangling-funcref-private-table", "dangling-funcref-imported-global", "shared-memory-freed-on-close", GIMM_SIG["kind"])]:
        ck.violation("proof-broken", {"kind": "proof-broken"}, getattr(ck, "proof_failure", {}), no_input=True)
    return ck.finish()
