"""C02 stream "top4g": accesses at the top of a 65536-page memory on the interpreter (the compiler cannot hold a memory
of exactly 4 GiB: open finding F12), judged by the byte-level statement of the specification (oracle only: the same
rule as Engine/Access.v access_ok / load_bytes / store_bytes, restated here over the known memory image)."""
import json
from vcheck import *

TOP = 1 << 32
TAIL0 = TOP - 64


def mem(a):
    return 0x40 + (a - TAIL0) if a >= TAIL0 else 0


def le(a, n):
    return sum(mem(a + i) << (8 * i) for i in range(n))


def sext(v, bits, to):
    if v >> (bits - 1): v -= 1 << bits
    return v & ((1 << to) - 1)


STORE_BYTES = {"i32.store": (0xa1a1a1a1).to_bytes(4, "little"), "i64.store": ((-0x4d4c4b4a49484746) & (2**64 - 1)).to_bytes(8, "little"),
               "i32.store8": (0xa1a1a1a1).to_bytes(4, "little")[:1], "i64.store32": ((-0x4d4c4b4a49484746) & (2**64 - 1)).to_bytes(8, "little")[:4],
               "v128.store": bytes(range(0xc0, 0xd0))}


def expect_load(op, ea):
    if op == "i32.load": return [le(ea, 4)]
    if op == "i64.load": return [le(ea, 8)]
    if op == "i32.load8_u": return [le(ea, 1)]
    if op == "i32.load16_s": return [sext(le(ea, 2), 16, 32)]
    if op == "i64.load32_u": return [le(ea, 4)]
    if op == "i64.load16_u": return [le(ea, 2)]
    if op == "v128.load": return [le(ea, 8), le(ea + 8, 8)]
    if op == "v128.load8x8_u":
        return [sum(mem(ea + i) << (16 * i) for i in range(4)), sum(mem(ea + 4 + i) << (16 * i) for i in range(4))]
    if op == "v128.load32x2_s": return [sext(le(ea, 4), 32, 64), sext(le(ea + 4, 4), 32, 64)]
    if op == "v128.load8_splat":
        b = mem(ea); v = sum(b << (8 * i) for i in range(8)); return [v, v]
    if op == "v128.load64_splat": return [le(ea, 8), le(ea, 8)]
    if op == "v128.load32_zero": return [le(ea, 4), 0]
    if op == "v128.load64_zero": return [le(ea, 8), 0]
    raise ValueError(op)


def run(ck, binp, seed, tier, viol):
    rc, out = sh([binp, "-mode", "top4g", "-seed", str(seed)], timeout=900)
    cases = jlines(out, '{"k":"top4g"')
    dist = {"calls": len(cases), "in_bounds": 0, "out_of_bounds": 0, "at_last_position": 0, "ea_beyond_32_bits": 0, "ops": {}}
    if rc != 0 or not cases:
        viol("process-fault", {"kind": "process-fault", "stream": "top4g"}, {"rc": rc, "tail": out[-2000:]})
        return 0, 0, dist, []
    clean = bytes(0x40 + i for i in range(64)).hex()
    for c in cases:
        ea = c["base"] + c["off"]; w = c["width"]; ok = ea + w <= TOP
        dist["ops"][c["op"]] = dist["ops"].get(c["op"], 0) + 1
        dist["in_bounds" if ok else "out_of_bounds"] += 1
        dist["at_last_position"] += ea + w == TOP
        dist["ea_beyond_32_bits"] += ea >= TOP
        why = None
        if not ok:
            if c.get("trap") != "oob": why = "effective address %#x + %d exceeds the 4 GiB memory: must trap out of bounds, got %s" % (ea, w, c.get("trap") or c.get("res"))
            elif c["tail"] != clean: why = "a trapping access changed memory"
        elif c.get("trap"):
            why = "in-bounds access (ea %#x, width %d) trapped: %s" % (ea, w, c["trap"])
        elif c["store"]:
            img = bytearray(bytes.fromhex(clean))
            for i, b in enumerate(STORE_BYTES[c["op"]][:w]):
                a = ea + i
                if a >= TAIL0: img[a - TAIL0] = b
            if c["tail"] != img.hex(): why = "store changed other bytes than [ea, ea+width) or wrote other values"
        else:
            exp = expect_load(c["op"], ea)
            if [int(x) for x in c["res"]] != exp: why = "load returned %s, the addressed bytes are %s" % ([hex(x) for x in c["res"]], [hex(x) for x in exp])
        if why:
            viol("access-at-4GiB", {"kind": "access-at-4GiB", "engine": "interp", "op": c["op"]}, {"oracle": why, "case": c})
    return len(cases), len({(c["op"], c["base"], c["off"]) for c in cases}), dist, cases[:2]
