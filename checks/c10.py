"""C10 — module lifecycle and name registry are linearizable."""
import json, os, re, time
from vcheck import *

F10_SIG = {"kind": "close-window", "witness": "F10"}
RTWIN_SIG = {"kind": "rt-close-window", "witness": "flag-before-sweep"}
LOST_SIG = {"kind": "notify-lost", "witness": "attach-after-register"}
ENGCLOSE_SIG = {"kind": "data-race", "site": "interpreter-engine-close"}
PANIC_SIG = {"kind": "panic-during-runtime-close", "panic": "nil-map"}


# ------------------------------------------------------------------------------------------ conversion to Coq
def coq_bool(b): return "true" if b else "false"


def coq_op(o):
    k = o[0]
    if k == "inst": return "OInst %s %d %d" % (coq_bool(o[1] == 1), o[2], o[3])
    if k == "look": return "OLook %d" % o[1]
    if k == "close": return "OClose %d %d" % (o[1], o[2])
    if k == "isclosed": return "OIsClosed %d" % o[1]
    if k == "rtclose": return "ORtClose %d" % o[1]
    if k == "compile": return "OCompile %s" % coq_bool(o[1] == 1)
    raise ValueError(o)


def coq_ret(r):
    k = r[0]
    if k == "ok": return "ROk"
    if k == "dup": return "RErrDup"
    if k == "closed": return "RErrClosed"
    if k == "look": return "RLook None" if r[1] < 0 else "RLook (Some %d)" % r[1]
    if k == "exit": return "RExit None" if r[1] < 0 else "RExit (Some %d)" % r[1]
    if k == "panic": return "RPanic"
    return None  # other: not representable -> reported as unexpected-result


def coq_list(xs): return "[" + "; ".join(xs) + "]"


def coq_event(e):
    return "{| e_thr := %d; e_op := %s; e_ret := %s; e_inv := %d; e_res := %d |}" % (
        e["thr"], coq_op(e["op"]), coq_ret(e["ret"]), e["inv"], e["res"])


def representable(rets): return all(coq_ret(r) is not None for r in rets)


# ------------------------------------------------------------------------------------------ oracle: the property itself
class Spec:
    """the atomic registry of the property statement (independent of the Coq model)"""
    __slots__ = ("names", "open", "exits", "closed")

    def __init__(self):
        self.names, self.open, self.exits, self.closed = {}, set(), {}, False

    def key(self):
        return (tuple(sorted(self.names.items())), tuple(sorted(self.open)), tuple(sorted(self.exits.items())), self.closed)

    def copy(self):
        s = Spec()
        s.names, s.open, s.exits, s.closed = dict(self.names), set(self.open), dict(self.exits), self.closed
        return s

    def step(self, op):
        k = op[0]
        if k == "inst":
            _, host, n, i = op
            if self.closed: return ["closed"]
            if n != 0 and n in self.names: return ["dup"]
            if n != 0: self.names[n] = i
            self.open.add(i)
            return ["ok"]
        if k == "look":
            return ["look", self.names.get(op[1], -1) if op[1] != 0 else -1]
        if k == "close":
            i = op[1]
            if i in self.open:
                self.open.discard(i)
                self.exits[i] = op[2]
                for n in [n for n, j in self.names.items() if j == i]: del self.names[n]
            return ["ok"]
        if k == "isclosed":
            return ["exit", self.exits.get(op[1], -1)]
        if k == "rtclose":
            if not self.closed:
                for i in self.open: self.exits[i] = op[1]
                self.open, self.names, self.closed = set(), {}, True
            return ["ok"]
        if k == "compile":
            return ["closed"] if self.closed else ["ok"]
        raise ValueError(op)


def oracle_seq(ops, rets):
    s = Spec()
    for j, (o, r) in enumerate(zip(ops, rets)):
        want = s.step(o)
        if want != r:
            return "op %d %s returned %s, the atomic registry returns %s" % (j, o, r, want)
    return None


def oracle_lin(events):
    """is there a total order consistent with real time that the atomic registry explains? (memoised search)"""
    n = len(events)
    if n > 40: return None
    before = [0] * n  # bitmask of events that must precede i
    for i, e in enumerate(events):
        for j, f in enumerate(events):
            if i != j and f["res"] < e["inv"]: before[i] |= 1 << j
    seen = set()

    def go(done, s):
        if done == (1 << n) - 1: return True
        k = (done, s.key())
        if k in seen: return False
        seen.add(k)
        for i in range(n):
            if done >> i & 1 or before[i] & ~done: continue
            t = s.copy()
            if t.step(events[i]["op"]) == events[i]["ret"] and go(done | 1 << i, t): return True
        return False
    return go(0, Spec())


class CoqSpec:
    """exact port of Registry.spec_step / rspec_step; used only to find linearization HINTS that Coq then checks"""
    __slots__ = ("names", "open", "exits", "closed", "pend", "rtpend")

    def __init__(self):
        self.names, self.open, self.exits, self.closed, self.pend, self.rtpend = {}, set(), {}, False, {}, None

    def key(self):
        return (tuple(sorted(self.names.items())), tuple(sorted(self.open)), tuple(sorted(self.exits.items())), self.closed,
                tuple(sorted(self.pend.items())), self.rtpend)

    def copy(self):
        s = CoqSpec()
        s.names, s.open, s.exits, s.closed = dict(self.names), set(self.open), dict(self.exits), self.closed
        s.pend, s.rtpend = dict(self.pend), self.rtpend
        return s

    def unlink(self, i):
        for n in [n for n, j in self.names.items() if j == i]: del self.names[n]

    def step(self, op):
        k = op[0]
        if k == "inst":
            _, host, n, i = op
            if self.closed: return ["closed"]
            if n != 0 and n in self.names:
                self.exits[i] = 0
                return ["dup"]
            if n != 0: self.names[n] = i
            self.open.add(i)
            return ["ok"]
        if k == "look": return ["look", self.names.get(op[1], -1) if op[1] != 0 else -1]
        if k == "close":
            i = op[1]
            if i not in self.exits:
                self.unlink(i); self.open.discard(i); self.exits[i] = op[2]
            return ["ok"]
        if k == "isclosed": return ["exit", self.exits.get(op[1], -1)]
        if k == "rtclose":
            if not self.closed:
                for i in self.open: self.exits[i] = op[1]
                self.open, self.names, self.closed = set(), {}, True
            return ["ok"]
        if k == "compile": return ["closed"] if self.closed else ["ok"]
        raise ValueError(op)

    def rstep(self, half, eid, op):
        """returns the result to compare (None = no comparison), or "reject" """
        k = op[0]
        if half == "whole": return self.step(op)
        if isinstance(half, tuple):   # ("sweep", i): the pending Runtime.Close closes module i on its own (RegistrySweep.rspec_step2)
            i = half[1]
            if self.rtpend is not None and self.rtpend[0] == eid and i in self.open:
                self.open.discard(i); self.exits[i] = self.rtpend[1]
            return None
        if k == "close":
            i = op[1]
            if half == "mark":
                if i not in self.exits:
                    self.open.discard(i); self.exits[i] = op[2]; self.pend[i] = eid
                return None
            if i not in self.exits: return "reject"
            if self.pend.get(i) == eid:
                self.unlink(i); del self.pend[i]
            return ["ok"]
        if k == "rtclose":
            if half == "mark":
                if not self.closed: self.closed, self.rtpend = True, (eid, op[1])
                return None
            if not self.closed: return "reject"
            if self.rtpend is not None and self.rtpend[0] == eid:
                for i in self.open: self.exits[i] = self.rtpend[1]
                self.open, self.names, self.rtpend = set(), {}, None
            return ["ok"]
        raise ValueError((half, op))


def split_events(events, rt_relaxed):
    items = []
    for j, e in enumerate(events):
        k = e["op"][0]
        if k == "close" or (k == "rtclose" and rt_relaxed): items += [("mark", j), ("finish", j)]
        else: items.append(("whole", j))
    return items


def split_events2(events, insts):
    """RegistrySweep.split_events2: a Runtime.Close is mark, one sweep step per instance, finish"""
    items = []
    for j, e in enumerate(events):
        k = e["op"][0]
        if k == "close": items += [("mark", j), ("finish", j)]
        elif k == "rtclose": items += [("mark", j)] + [(("sweep", i), j) for i in insts] + [("finish", j)]
        else: items.append(("whole", j))
    return items


def search(events, items):
    """an order of the (pseudo) events consistent with real time that CoqSpec explains, or None"""
    n = len(items)
    before = [0] * n
    for a, (_, i) in enumerate(items):
        for b, (_, j) in enumerate(items):
            if a != b and events[j]["res"] < events[i]["inv"]: before[a] |= 1 << b
    seen = set()

    def go(done, s, acc):
        if done == (1 << n) - 1: return acc
        k = (done, s.key())
        if k in seen: return None
        seen.add(k)
        for a in range(n):
            if done >> a & 1 or before[a] & ~done: continue
            half, j = items[a]
            t = s.copy()
            r = t.rstep(half, j, events[j]["op"])
            if r == "reject" or (r is not None and r != events[j]["ret"]): continue
            res = go(done | 1 << a, t, acc + [a])
            if res is not None: return res
        return None
    return go(0, CoqSpec(), [])


def oracle_counters(events, counters):
    """closing releases an instance's resources and fires its notification exactly once"""
    ok_inst = {e["op"][3] for e in events if e["op"][0] == "inst" and e["ret"] == ["ok"]}
    probs = []
    for i, nn, nf, nopen, closed in (x[:5] for x in counters):
        if nn > 1: probs.append(("notified-twice", "instance %d notified %d times" % (i, nn)))
        if nf != 99 and nf > max(nopen, 1): probs.append(("fs-closed-twice", "instance %d: fs closed %d times" % (i, nf)))
        if nf != 99 and nf > 1: probs.append(("fs-closed-twice", "instance %d: fs closed %d times" % (i, nf)))
        if closed == 1:
            if nf != 99 and nf != nopen: probs.append(("resources-not-released", "instance %d closed, fs opened %d closed %d" % (i, nopen, nf)))
            if i in ok_inst and nn == 0: probs.append(("notify-lost", "instance %d closed without notification" % i))
        elif closed == 0:
            if nn != 0 or (nf != 99 and nf != 0):
                probs.append(("closed-resources-of-open-instance", "instance %d open, notified %d fs closed %d" % (i, nn, nf)))
    return probs


def oracle_listed(events, counters):
    """at rest, the store's module list holds exactly the open modules it handed out: closing (by the module's own Close or by
    Runtime.Close) unlinks the instance — anonymous ones too, which no name index would otherwise reveal"""
    ok_inst = {e["op"][3]: e["op"] for e in events if e["op"][0] == "inst" and e["ret"] == ["ok"]}
    probs = []
    for x in counters:
        if len(x) < 6 or x[5] < 0: continue
        i, closed, listed = x[0], x[4], x[5]
        want = 1 if (i in ok_inst and closed == 0) else 0
        if listed != want:
            op = ok_inst.get(i)
            who = dict(anonymous=bool(op and op[2] == 0), host=bool(op and op[1] == 1))
            kind = "closed-instance-still-listed" if listed == 1 else "open-instance-not-listed"
            probs.append((kind, who, "instance %d: %s, closed word %s, but %s in Store.moduleList at the end" % (
                i, "handed out" if i in ok_inst else "never handed out", "set" if closed == 1 else "clear", "linked" if listed == 1 else "not linked")))
    return probs


def oracle_rtclose(events, counters):
    """the property, directly: once Runtime.Close has returned every module ever handed out is closed, and every compile /
    instantiate request that comes back after that failed or handed out a closed module.
    A Close that loses the flag CAS returns before the winner's sweep (F33), so "Close has returned" is taken as: every
    Runtime.Close that was invoked before the first one returned has returned (the winner is one of them)."""
    rts = [e for e in events if e["op"][0] == "rtclose" and e["ret"] == ["ok"]]
    if not rts: return []
    first = min(e["res"] for e in rts)
    T = max(e["res"] for e in rts if e["inv"] < first)
    end_closed = {x[0]: x[4] for x in counters}
    probs = []
    for e in events:
        k = e["op"][0]
        if k == "inst":
            host, n, i = e["op"][1] == 1, e["op"][2], e["op"][3]
            who = dict(anonymous=(n == 0), host=host)
            if e["ret"] == ["ok"]:
                obs = e.get("obs")
                if obs and obs[0] > T and obs[1] == 1:
                    probs.append(("open-module-after-runtime-close", who,
                                  "instantiate of instance %d returned an OPEN module (IsClosed() false at tick %d) after Runtime.Close had returned (tick %d)" % (i, obs[0], T)))
                elif end_closed.get(i) == 0:
                    probs.append(("open-module-after-runtime-close", who,
                                  "instance %d was handed out by InstantiateModule and is still open at the end of the history, after Runtime.Close returned (tick %d)" % (i, T)))
            if e["inv"] > first and e["ret"][0] in ("ok", "dup"):
                probs.append(("request-after-runtime-close-not-refused", who,
                              "instantiate invoked at tick %d, after a Runtime.Close returned (tick %d), returned %s" % (e["inv"], first, e["ret"])))
        elif k == "compile" and e["inv"] > first and e["ret"] == ["ok"]:
            probs.append(("request-after-runtime-close-not-refused", dict(anonymous=False, host=e["op"][1] == 1),
                          "compile invoked at tick %d, after a Runtime.Close returned (tick %d), succeeded" % (e["inv"], first)))
    return probs


def walk_schedule(c):
    """follow a forced schedule through its yield points. Returns (blocks, windows): the same schedule for the step model
    (thread, number of steps; 0 = finish the operation) or None when a point is not mapped, and for every Runtime.Close the
    position of every other thread's instantiate at that moment [(window, anonymous, host)]."""
    prog = c["prog"]
    if c.get("blocks"):   # user code inside InstantiateModule closed the runtime: the harness names the window itself
        return [tuple(b) for b in c["blocks"]], [(c["window"], prog[0][0][2] == 0, prog[0][0][1] == 1)]
    pos = [("idle", 0) for _ in prog]
    blocks, windows, ok = [], [], not c.get("has_skip") and not c.get("deadlock")
    for k, p in zip(c["sched"], c["points"]):
        at, oi = pos[k]
        if oi >= len(prog[k]): return None, windows
        op = prog[k][oi]
        if op[0] == "rtclose" and at == "idle":
            for j, (atj, oj) in enumerate(pos):
                if j == k or oj >= len(prog[j]) or prog[j][oj][0] != "inst": continue
                win = {"idle": None, "instantiate:before-register": "built", "attach": "registered"}.get(atj)
                if win: windows.append((win, prog[j][oj][2] == 0, prog[j][oj][1] == 1))
        if p in ("done", "op"):
            blocks.append((k, 0)); pos[k] = ("idle", oi + 1)
        elif p == "instantiate:before-register" and at == "idle" and op[0] == "inst":
            blocks.append((k, 5 if op[1] == 1 else 3)); pos[k] = (p, oi)   # invocation, [failIfClosed, type ids,] failIfClosed, build
        elif p == "attach" and at == "instantiate:before-register":
            blocks.append((k, 1)); pos[k] = (p, oi)                        # registerModule succeeded
        elif p == "close:after-cas" and at == "idle" and op[0] == "close":
            blocks.append((k, 2)); pos[k] = (p, oi)                        # invocation, CAS won
        elif p == "close:after-cas" and at == "instantiate:before-register":
            blocks.append((k, 2)); pos[k] = (p, oi)                        # registerModule refused, CAS of the new instance
        elif p == "compile:listeners" and at == "idle" and op[0] == "compile" and op[1] == 1:
            blocks.append((k, 2)); pos[k] = (p, oi)                        # invocation, failIfClosed
        else:
            ok = False; pos[k] = (p, oi)
    return (blocks if ok else None), windows


# ------------------------------------------------------------------------------------------ the check
def par_eval(jobs, workers=4):
    """coq_eval for several generated files at once: jobs = [(name, text, timeout)] -> [(rc, output)] in order"""
    from concurrent.futures import ThreadPoolExecutor
    if len(jobs) <= 1: return [coq_eval(*j) for j in jobs]
    with ThreadPoolExecutor(max_workers=workers) as ex:
        return list(ex.map(lambda j: coq_eval(*j), jobs))


HDR = "From Coq Require Import List ZArith.\nFrom Verif Require Import Rt.Registry Rt.RegistryAnon.\nImport ListNotations.\n"


def parse_lines(out):
    """JSON lines of a harness; a line damaged by interleaved stderr output (race detector reports) is skipped."""
    got = []
    for ln in out.split("\n"):
        if not ln.startswith("{"): continue
        try: got.append(json.loads(ln))
        except ValueError: continue
    return got


def run(tier, seed):
    ck = Check("C10", tier, seed)
    ck.trusted += ["hand transcription of store.go/store_module_list.go/module_instance.go/runtime.go/builder.go into atomic steps (coq/Rt/Registry.v), tied by the correspondence runs",
                   "sequential-consistency abstraction of sync.RWMutex / atomic.Uint64 (guarded by a -race run of the concurrent histories when cgo is available)",
                   "harness/c10 (Go: logical clocks, yield-point scheduler through wasm.VerifYieldHook and a yielding context; read-only overlay exports VerifUnwrap / VerifStore / Store.VerifListed) and checks/c10.py (conversion, oracles, mapping of yield points to model steps for the schedule replay)"]
    ck.assumptions += ["modules without imports and without start functions, except the user-code window family (start-section function / _start export calling a host function that closes the runtime); interpreter engine in the harness",
                       "host modules are always named (wasm.NewHostModule rejects the empty name): anonymous = binary modules (WithName(\"\"), no name at all, name section overridden by WithName(\"\"))",
                       "a _start export that finds its module closed with a NON-zero exit code makes InstantiateModule return that exit error together with the closed module: outside the registry's result alphabet, exercised only with Runtime.Close (exit code 0)",
                       "linearizability theorem is bounded (C10_linearizable_partial_bounded_3ops: 302 programs, <=3 operations, one name) and restricted to close-atomic, panic-free schedules: F10 and the nil-type-id-map panic are open findings",
                       "open findings replayed on the real code on every run: F10 close window, notifier attached after registration, compile panicking during Runtime.Close, and the runtime-close window F33 (observed from a close notification that runs inside the sweep: flag set / newer module closed while an older module is still open)",
                       "the sweep of Runtime.Close is ONE step of the step model; lock-free IsClosed reads of two modules can see it module by module (same finding F33, finer symptom): such histories are classified by Rt/RegistrySweep.v (relaxed specification with per-module sweep steps), not by the step model",
                       "Store.CloseWithExitCode's loop is one atomic step of the model (runs under the store lock; foreign CAS commutes)"]
    phases, tmark = {}, [time.time()]

    def phase(name):
        now = time.time(); phases[name] = round(phases.get(name, 0) + now - tmark[0], 1); tmark[0] = now
    proofs_ok = ck.proofs()
    phase("proofs")
    quick = tier == "quick"
    nseq, nconc, nprog, limit = (300, 300, 14, 250) if quick else (6000, 6000, 120, 3000)
    if not proofs_ok:
        nseq, nconc = nseq * 2, nconc * 2
    binp, log = build_harness("c10")
    if not binp:
        ck.violation("harness-build", {"kind": "build"}, {"log": log[-3000:]}, no_input=True)
        return ck.finish()
    cases = []
    for mode in ("seq", "forced", "conc"):
        rc, out = sh([binp, "-seed", str(seed), "-mode", mode, "-nseq", str(nseq), "-nconc", str(nconc), "-nprog", str(nprog), "-limit", str(limit)], timeout=3000)
        got = parse_lines(out)
        cases += got
        if rc != 0:
            if "concurrent map" in out and "interpreter.(*engine)" in out:
                # Go's fatal error for the unlocked map in the interpreter engine's Close: the process cannot survive it
                ck.violation("data-race", ENGCLOSE_SIG, {"mode": mode, "fatal": out[out.find("fatal error"):][:2500]})
            else:
                ck.violation("harness-crash", {"kind": "crash", "mode": mode}, {"rc": rc, "tail": out[-3000:]}, no_input=False)
    phase("harness")
    if not cases:
        return ck.finish()
    # the concurrent histories once more under the race detector (needs cgo)
    race_note = "not run"
    t0 = time.time()
    rbin, rlog = build_harness("c10", race=True)
    race_cases = []
    if rbin:
        rrc, rout = sh([rbin, "-seed", str(seed + 7919), "-mode", "conc", "-nconc", str(nconc if quick else nconc // 4)],
                       timeout=3000, env=dict(GOENV, GORACE="halt_on_error=0 exitcode=0"))
        race_cases = parse_lines(rout)  # race reports go to stderr and can cut a JSON line in two: such lines are dropped
        reports = re.findall(r"WARNING: DATA RACE.*?={18}", rout, re.S)
        race_note = "%d histories under -race in %.1fs, %d race reports" % (len(race_cases), time.time() - t0, len(reports))
        for rep in reports:
            frames = [l.strip() for l in rep.split("\n") if "github.com/tetratelabs/wazero" in l and "(" in l and "zz_verif" not in l]
            if "InstantiateModule" in rep and "ensureResourcesClosed" in rep:
                # the plain write of CloseNotifier/CodeCloser after registration against a close of the registered module
                ck.violation("notify-lost", LOST_SIG, {"race_report": rep[:3000]})
            elif "interpreter.(*engine).Close()" in rep:
                ck.violation("data-race", ENGCLOSE_SIG, {"race_report": rep[:3000]})
            elif not frames:
                ck.violation("harness-race", {"kind": "harness-race"}, {"race_report": rep[:3000]}, no_input=True)
            else:
                ck.violation("data-race", {"kind": "data-race", "site": frames[0].split("/")[-1][:80]}, {"race_report": rep[:3000]})
        cases += race_cases
    else:
        race_note = "race build unavailable: " + rlog[-200:].replace("\n", " ")
    ck.note("race detector: " + race_note)
    phase("race")

    for c in cases:
        c["counters"] = c.get("counters") or []
    seqs = [c for c in cases if c["kind"] == "seq"]
    concs = [c for c in cases if c["kind"] == "conc"]
    forced = [c for c in cases if c["kind"] == "forced"]
    ck.cases = len(cases)

    def fresh(kind, sig, detail, **kw):
        if sum(1 for v in ck.violations if v["kind"] == kind) < 3:
            ck.violation(kind, sig, detail, **kw)

    # ---------------- sequential histories: model (Coq) and oracle
    seq_in = []
    for c in seqs:
        keep = [(o, r) for o, r in zip(c["ops"], c["rets"]) if r != ["skip"]]
        c["ops"], c["rets"] = [o for o, _ in keep], [r for _, r in keep]
        if not representable(c["rets"]):
            bad = [(o, r) for o, r in keep if coq_ret(r) is None][0]
            fresh("unexpected-result", {"kind": "unexpected-result", "op": bad[0][0], "class": bad[1][0]}, {"case": c})
            continue
        seq_in.append(c)
    mism = {}
    SH = 400
    for s in range(0, len(seq_in), SH):
        shard = seq_in[s:s + SH]
        body = ";\n".join("(%s, %s, %s)" % (coq_list(coq_op(o) for o in c["ops"]), coq_list(coq_ret(r) for r in c["rets"]),
                                            coq_list("(%d, %d, %d)" % (x[0], x[1], x[2]) for x in c["counters"])) for c in shard)
        lbody = ";\n".join("(%s, %s)" % (coq_list(coq_op(o) for o in c["ops"]),
                                          coq_list("(%d, %s)" % (x[0], coq_bool(x[5] == 1)) for x in c["counters"] if len(x) > 5 and x[5] >= 0)) for c in shard)
        v = HDR + "Definition cases : list seq_case := [\n" + body + "].\nDefinition M := Eval vm_compute in mismatches 0 cases.\nPrint M.\n" + \
            "Definition lcases : list (list op * list (nat * bool)) := [\n" + lbody + "].\nDefinition LM := Eval vm_compute in seq_list_mismatches 0 lcases.\nPrint LM.\n"
        rc, o = coq_eval("c10_seq_%d" % s, v)
        lst, llst = parse_zlist(o, "M"), parse_zlist(o, "LM")
        if rc != 0 or lst is None or llst is None:
            ck.violation("model-eval", {"kind": "model-eval"}, {"rc": rc, "out": o[-2000:]}, no_input=True)
            return ck.finish()
        for i in range(0, len(lst), 2): mism[s + lst[i]] = lst[i + 1]
        for i in llst: mism.setdefault(s + i, -3)   # -3: the list membership at the end differs from the model's
    for idx, c in enumerate(seq_in):
        why = oracle_seq(c["ops"], c["rets"])
        evs = [{"op": o, "ret": r, "inv": 2 * j + 1, "res": 2 * j + 2} for j, (o, r) in enumerate(zip(c["ops"], c["rets"]))]
        cprob = oracle_counters(evs, c["counters"])
        rprob = oracle_rtclose(evs, c["counters"]) or oracle_listed(evs, c["counters"])
        d = mism.get(idx)
        if why is None and not cprob and not rprob and d is None: continue
        if rprob:
            fresh(rprob[0][0], dict(kind=rprob[0][0], mode="seq", **rprob[0][1]), {"case": c, "oracle": rprob[0][2], "model_first_diff": d})
        elif why is not None:
            j = int(re.match(r"op (\d+)", why).group(1))
            fresh("seq-property-fails", {"kind": "seq-property-fails", "op": c["ops"][j][0], "got": c["rets"][j][0]},
                  {"case": c, "oracle": why, "model_first_diff": d})
        elif cprob:
            fresh(cprob[0][0], {"kind": cprob[0][0], "mode": "seq"}, {"case": c, "oracle": cprob, "model_first_diff": d})
        else:
            fresh("seq-model-differs", {"kind": "seq-model-differs"}, {"case": c, "model_first_diff": d}, no_input=True)

    phase("seq")
    # ---------------- timed histories (concurrent and forced): classification by the model inside Coq, oracle in Python
    hists = []
    n_panic_hist = 0
    for c in forced:
        c["sched"], c["points"] = c.get("sched") or [], c.get("points") or []
        # a close of a handle the thread never obtained does nothing on the real runtime: not part of the history
        c["has_skip"] = any(e["ret"] == ["skip"] for e in c["events"])
        c["events"] = [e for e in c["events"] if e["ret"] != ["skip"]]
        c["rets"] = [[r for r in t if r != ["skip"]] for t in (c.get("rets") or [])]
    for c in concs + forced:
        if c.get("deadlock"):
            fresh("forced-deadlock", {"kind": "forced-deadlock", "label": c.get("label")}, {"case": c})
            continue
        if not representable([e["ret"] for e in c["events"]]):
            bad = [e for e in c["events"] if coq_ret(e["ret"]) is None][0]
            fresh("unexpected-result", {"kind": "unexpected-result", "op": bad["op"][0], "class": bad["ret"][0]}, {"case": c})
            continue
        pan = [e for e in c["events"] if e["ret"][0] == "panic"]
        if pan:
            # the specification never panics: such a history is not linearizable by definition; classify the panic itself
            typeid_path = all(e["op"][0] == "compile" or (e["op"][0] == "inst" and e["op"][1] == 1) for e in pan)
            if typeid_path and all("nil map" in e["ret"][1] for e in pan) and any(e["op"][0] == "rtclose" for e in c["events"]):
                ck.violation("panic-during-runtime-close", PANIC_SIG, {"case": c, "panicking": pan[0]})
            else:
                fresh("panic", {"kind": "panic", "op": pan[0]["op"][0]}, {"case": c, "panicking": pan[0]})
            n_panic_hist += 1
            continue
        hists.append(c)
    # ---------------- every forced schedule once more on the step model (Coq), decision by decision: same results per thread,
    # same closed words and counters at the end (Rt/RegistryAnon.v check_sched_v / sched_mismatches)
    sched_in, sched_diff, n_unmapped = [], {}, 0
    win_dist = {}
    for c in forced:
        blocks, wins = walk_schedule(c)
        mech = "user-code" if c.get("blocks") else "hook"
        for win, anon, host in wins:
            key = "%s:%s/%s%s" % (mech, win, "anonymous" if anon else "named", "-host" if host else "")
            win_dist[key] = win_dist.get(key, 0) + 1
        if blocks is None or not c.get("rets") or not all(representable(t) for t in c["rets"]) or c["label"].startswith("double-close"):
            n_unmapped += 1
            continue
        sched_in.append((c, blocks))
    jobs, shards = [], []
    for s0 in range(0, len(sched_in), SH):
        shard = sched_in[s0:s0 + SH]
        body = ";\n".join("(%s, %s, %s, %s, %s, %s)" % (
            coq_bool(c["atomic"]), coq_list(coq_op(o) for o in (c["pre"] or [])),
            coq_list(coq_list(coq_op(o) for o in t) for t in c["prog"]),
            coq_list("(%d, %d)" % b for b in blocks),
            coq_list(coq_list(coq_ret(r) for r in t) for t in c["rets"]),
            coq_list("(%d, %d, %d, %d, %d)" % (x[0], 1 if x[4] == 1 else 0, x[1], x[2], x[5] if len(x) > 5 and x[5] >= 0 else 9)
                     for x in c["counters"])) for c, blocks in shard)
        v = HDR + "Definition cases : list sched_case := [\n" + body + "].\nDefinition S := Eval vm_compute in sched_mismatches 0 cases.\nPrint S.\n"
        jobs.append(("c10_sched_%d" % s0, v, 600)); shards.append(shard)
    for shard, (rc, o) in zip(shards, par_eval(jobs)):
        lst = parse_zlist(o, "S")
        if rc != 0 or lst is None:
            ck.violation("model-eval", {"kind": "model-eval"}, {"rc": rc, "out": o[-2000:]}, no_input=True)
            return ck.finish()
        for i in range(0, len(lst), 2): sched_diff[id(shard[lst[i]][0])] = (lst[i + 1], shard[lst[i]][1])
    SCHED_CODE = {1: "the model cannot follow the schedule", 2: "the schedule does not complete the program in the model",
                  3: "results differ", 4: "final closed words / close counters differ"}
    # ---------------- the property itself on every timed history: modules handed out vs Runtime.Close
    direct_bad, direct_seen = set(), {}
    # shortest forced schedules first: the report carries the simplest concrete schedule
    for c in sorted(forced, key=lambda c: (len(c["sched"]), len(c["events"]))) + concs:
        if c.get("deadlock"): continue
        probs = oracle_rtclose(c["events"], c["counters"]) or oracle_listed(c["events"], c["counters"])
        if not probs: continue
        direct_bad.add(id(c))
        kind, who, why = probs[0]
        dkey = (kind, c["kind"], who["anonymous"], who["host"], "user-code" if c.get("blocks") else "hook" if c["kind"] == "forced" else "timing")
        direct_seen[dkey] = direct_seen.get(dkey, 0) + 1
        if direct_seen[dkey] > 2: continue
        detail = {"case": c, "oracle": why}
        if c["kind"] == "forced":
            detail["schedule"] = dict(label=c["label"], setup=c["pre"], program=c["prog"], decisions=c["sched"], stopped_at=c["points"],
                                      close_atomic=c["atomic"], results=c["rets"])
            if id(c) in sched_diff:
                detail["model_under_the_same_schedule"] = dict(blocks=sched_diff[id(c)][1], verdict=SCHED_CODE.get(sched_diff[id(c)][0]))
        ck.violation(kind, dict(kind=kind, mode=c["kind"], **who), detail)
    if direct_seen:
        ck.extra["property_oracle_failures"] = {"/".join(map(str, k)): v for k, v in direct_seen.items()}
    for c, blocks in sched_in:
        if id(c) in sched_diff and id(c) not in direct_bad:
            code = sched_diff[id(c)][0]
            fresh("forced-schedule-model-differs", {"kind": "forced-schedule-model-differs", "code": code},
                  {"case": c, "blocks": blocks, "verdict": SCHED_CODE.get(code)}, no_input=True)
    ck.extra["forced_schedules_replayed_on_model"] = len(sched_in)
    phase("schedule-replay")
    # hints from an untrusted search; verdicts from Coq: lin_check on the reordered history (class 0), the relaxed checks with the
    # supplied order (class 1: module-close window = F10 class; class 2: runtime-close window), class 3 otherwise
    klass, lin_batch, nonlin, sweep_level = {}, [], [], {}
    for idx, c in enumerate(hists):
        ev = c["events"]
        order = search(ev, [("whole", j) for j in range(len(ev))])
        if order is not None:
            lin_batch.append((idx, [ev[j] for j in order]))
            continue
        for cls, rt in ((1, False), (2, True)):
            items = split_events(ev, rt)
            perm = search(ev, items)
            if perm is not None:
                nonlin.append((idx, cls, rt, perm)); break
        else:
            # the sweep of a Runtime.Close seen module by module (lock-free IsClosed of two modules): still the runtime-close window
            insts = sorted({e["op"][3] for e in ev if e["op"][0] == "inst" and e["ret"] == ["ok"]})
            perm = search(ev, split_events2(ev, insts)) if any(e["op"][0] == "rtclose" for e in ev) and len(insts) <= 12 else None
            if perm is not None:
                sweep_level[idx] = insts
                nonlin.append((idx, 2, "sweep", perm))
            else:
                nonlin.append((idx, 3, True, None))
    phase("hint-search")
    jobs, shards = [], []
    for s0 in range(0, len(lin_batch), SH):
        shard = lin_batch[s0:s0 + SH]
        v = HDR + "Definition hs : list (list ev) := [\n" + ";\n".join(coq_list(coq_event(e) for e in evs) for _, evs in shard) + \
            "].\nDefinition K := Eval vm_compute in lin_all 0 hs.\nPrint K.\n"
        jobs.append(("c10_lin_%d" % s0, v, 300)); shards.append(shard)
    for shard, (rc, o) in zip(shards, par_eval(jobs)):
        lst = parse_zlist(o, "K")
        if rc != 0 or lst is None:
            ck.violation("model-eval", {"kind": "model-eval"}, {"rc": rc, "out": o[-2000:]}, no_input=True)
            return ck.finish()
        for i in lst:
            fresh("model-rejects-hint", {"kind": "model-rejects-hint"}, {"case": hists[shard[i][0]]}, no_input=True)
    confirmed_nonlin = 0
    for idx, cls, rt, perm in nonlin: klass[idx] = cls
    rel2 = [x for x in nonlin if x[3] is not None and x[2] == "sweep"]
    for s0 in range(0, len(rel2), SH):
        shard = rel2[s0:s0 + SH]
        v = HDR.replace("Rt.RegistryAnon", "Rt.RegistryAnon Rt.RegistrySweep") + "Definition R2 := Eval vm_compute in relaxed2_all [\n" + ";\n".join(
            "(%s, %s, %s)" % (coq_list(coq_event(e) for e in hists[idx]["events"]), coq_list(str(i) for i in sweep_level[idx]), coq_list(str(i) for i in perm))
            for idx, cls, rt, perm in shard) + "].\nPrint R2.\n"
        rc, o = coq_eval("c10_relaxed2_%d" % s0, v, timeout=300)
        lst = parse_zlist(o, "R2")
        if rc != 0 or lst is None or len(lst) != len(shard):
            ck.violation("model-eval", {"kind": "model-eval"}, {"rc": rc, "out": o[-2000:]}, no_input=True)
            return ck.finish()
        for (idx, cls, rt, perm), okv in zip(shard, lst):
            if okv != 1:
                fresh("model-rejects-hint", {"kind": "model-rejects-hint", "relaxed": "sweep"}, {"case": hists[idx]}, no_input=True)
    rel = [x for x in nonlin if x[3] is not None and x[2] != "sweep"]
    for s0 in range(0, len(rel), SH):
        shard = rel[s0:s0 + SH]
        v = HDR + "Definition R := Eval vm_compute in relaxed_all [\n" + ";\n".join(
            "(%s, %s, %s)" % (coq_list(coq_event(e) for e in hists[idx]["events"]), coq_bool(rt), coq_list(str(i) for i in perm))
            for idx, cls, rt, perm in shard) + "].\nPrint R.\n"
        rc, o = coq_eval("c10_relaxed_%d" % s0, v, timeout=300)
        lst = parse_zlist(o, "R")
        if rc != 0 or lst is None or len(lst) != len(shard):
            ck.violation("model-eval", {"kind": "model-eval"}, {"rc": rc, "out": o[-2000:]}, no_input=True)
            return ck.finish()
        for (idx, cls, rt, perm), okv in zip(shard, lst):
            if okv != 1:
                fresh("model-rejects-hint", {"kind": "model-rejects-hint", "relaxed": True}, {"case": hists[idx]}, no_input=True)
    # the model's own complete search must agree that these histories are not linearizable (small ones, bounded time)
    small = [x for x in nonlin if len(hists[x[0]]["events"]) <= 9][:200]
    if small:
        v = HDR + "Definition hs : list (list ev) := [\n" + ";\n".join(coq_list(coq_event(e) for e in hists[x[0]]["events"]) for x in small) + \
            "].\nDefinition L := Eval vm_compute in lin_all 0 hs.\nPrint L.\n"
        rc, o = coq_eval("c10_nonlin", v, timeout=120)
        lst = parse_zlist(o, "L")
        if rc == 0 and lst is not None:
            confirmed_nonlin = len(lst)
            if len(lst) != len(small):
                bad = [small[i] for i in range(len(small)) if i not in lst][0]
                fresh("model-oracle-disagree", {"kind": "model-oracle-disagree"}, {"case": hists[bad[0]], "note": "lin_check accepts a history the hint search rejects"}, no_input=True)
    ck.extra["nonlinearizable_confirmed_by_lin_check"] = confirmed_nonlin
    phase("lin-coq")
    dist = {"seq_ops": {}, "seq_rets": {}, "hist_class": {0: 0, 1: 0, 2: 0, 3: 0}, "hist_len": {}, "forced_labels": {}, "conc_overlap": 0}
    f10_witness_seen = None
    for idx, c in enumerate(hists):
        k = klass.get(idx, 0)
        dist["hist_class"][k] += 1
        dist["hist_len"][len(c["events"])] = dist["hist_len"].get(len(c["events"]), 0) + 1
        lin = oracle_lin(c["events"])
        if lin is not None and lin != (k == 0):
            fresh("model-oracle-disagree", {"kind": "model-oracle-disagree"}, {"case": c, "model_class": k, "oracle_linearizable": lin}, no_input=True)
        label = c.get("label", "conc")
        if c["kind"] == "forced":
            dist["forced_labels"][label.split("/")[0]] = dist["forced_labels"].get(label.split("/")[0], 0) + 1
        if label == "witness:F10": f10_witness_seen = k
        if k == 1:
            if c["kind"] == "forced" and c["atomic"]:
                fresh("atomic-not-linearizable", {"kind": "atomic-not-linearizable"}, {"case": c, "model_class": k})
            else:
                ck.violation("close-window", F10_SIG, {"case": c, "model_class": k,
                             "explained_by": "relaxed spec: a Close that lost the CAS may return before the winner's delete"})
        elif k == 2 and idx in sweep_level:
            dist["hist_class"]["2_module_by_module"] = dist["hist_class"].get("2_module_by_module", 0) + 1
            ck.violation("rt-close-window", dict(RTWIN_SIG, granularity="module-by-module"), {"case": c, "model_class": k,
                         "explained_by": "relaxed spec, finer (Rt/RegistrySweep.v): the flag is visible before the sweep AND the sweep closes the listed "
                                         "modules one after the other, which lock-free IsClosed reads of two modules can observe"})
        elif k == 2:
            ck.violation("rt-close-window", RTWIN_SIG, {"case": c, "model_class": k,
                         "explained_by": "relaxed spec: the runtime's closed flag is visible before the store is swept"})
        elif k == 3:
            fresh("not-linearizable", {"kind": "not-linearizable", "mode": c["kind"]}, {"case": c})
        for kind, why in oracle_counters(c["events"], c["counters"]):
            if kind == "notify-lost":
                ck.violation("notify-lost", LOST_SIG, {"case": c, "oracle": why})
            else:
                fresh(kind, {"kind": kind, "mode": c["kind"]}, {"case": c, "oracle": why})
    if f10_witness_seen is None:
        ck.note("F10 witness schedule was not emitted by the harness")
    elif f10_witness_seen == 0:
        ck.note("F10 witness no longer reproduces on the real code (history linearizable): the finding looks repaired")
    # keep one violation per known-finding class (they are all the same line)
    seen, uniq = set(), []
    for v in ck.violations:
        key = json.dumps(v["sig"], sort_keys=True)
        if v["sig"].get("kind") == "rt-close-window": key = json.dumps(RTWIN_SIG, sort_keys=True)   # one line for F33, whatever the granularity
        if (v["sig"] in (F10_SIG, RTWIN_SIG, LOST_SIG, ENGCLOSE_SIG, PANIC_SIG) or v["sig"].get("kind") == "rt-close-window") and key in seen: continue
        seen.add(key); uniq.append(v)
    ck.violations = uniq

    phase("oracle-lin")
    # ---------------- forced schedules: observed result vectors must be producible by the step model (small programs)
    groups = {}
    for c in forced:
        if c.get("deadlock") or not c.get("rets") or not all(representable(t) for t in c["rets"]): continue
        nops = sum(len(t) for t in c["prog"])
        # the model's exhaustive exploration is only cheap for two threads (<= ~20k interleavings)
        if nops > 3 or len(c["prog"]) > 2 or c["label"].startswith("double-close"): continue
        key = json.dumps([c["atomic"], c["pre"] or [], c["prog"]])
        groups.setdefault(key, {})[json.dumps(c["rets"])] = c
    defs, order = [], []
    for gi, (key, obs) in enumerate(sorted(groups.items())):
        atomic, pre, prog = json.loads(key)
        olist = sorted(obs)
        order.append((key, olist))
        defs.append("Definition G%d := Eval vm_compute in outcomes_missing %s %s %s %s.\nPrint G%d.\n" % (
            gi, coq_bool(atomic), coq_list(coq_op(o) for o in pre), coq_list(coq_list(coq_op(o) for o in t) for t in prog),
            coq_list(coq_list(coq_list(coq_ret(r) for r in t) for t in json.loads(ov)) for ov in olist), gi))
    if defs:
        rc, o = coq_eval("c10_outcomes", HDR + "".join(defs), timeout=900)
        if rc != 0:
            ck.violation("model-eval", {"kind": "model-eval"}, {"rc": rc, "out": o[-2000:]}, no_input=True)
            return ck.finish()
        for gi, (key, olist) in enumerate(order):
            lst = parse_zlist(o, "G%d" % gi) or []
            for i in lst:
                c = groups[key][olist[i]]
                fresh("forced-outcome-not-in-model", {"kind": "forced-outcome-not-in-model", "atomic": c["atomic"]}, {"case": c}, no_input=True)
    ck.extra["forced_programs_compared_with_model"] = len(defs)
    phase("outcome-sets")
    ck.extra["phase_seconds"] = phases
    ck.note("phases (s): " + json.dumps(phases))

    # ---------------- bookkeeping
    for c in seq_in:
        for o, r in zip(c["ops"], c["rets"]):
            dist["seq_ops"][o[0]] = dist["seq_ops"].get(o[0], 0) + 1
            dist["seq_rets"][r[0]] = dist["seq_rets"].get(r[0], 0) + 1
    for c in concs:
        ev = c["events"]
        if any(a["inv"] < b["inv"] < a["res"] for a in ev for b in ev if a is not b): dist["conc_overlap"] += 1
    flav = {0: "anonymous(WithName-empty)", 1: "anonymous(no-name,no-name-section)", 2: "anonymous(name-section-overridden-by-empty)"}
    anon_dist = {}
    for mode, group in (("seq", seq_in), ("conc", concs), ("forced", forced)):
        dd = anon_dist.setdefault(mode, {})
        for c in group:
            evs = c["events"] if "events" in c else [{"op": o, "ret": r} for o, r in zip(c["ops"], c["rets"])]
            anon_ids = {e["op"][3] for e in evs if e["op"][0] == "inst" and e["op"][2] == 0 and e["ret"] == ["ok"]}
            for e in evs:
                o, r = e["op"], e["ret"]
                if o[0] == "inst":
                    key = "inst-host" if o[1] == 1 else ("inst-" + flav[o[3] % 3] if o[2] == 0 else "inst-named")
                    key += "/" + r[0]
                elif o[0] in ("close", "isclosed") and o[1] in anon_ids: key = o[0] + "-of-anonymous"
                elif o[0] == "rtclose" and anon_ids: key = "rtclose-in-history-with-anonymous-handed-out"
                else: continue
                dd[key] = dd.get(key, 0) + 1
    dist["anonymous"] = anon_dist
    dist["rtclose_windows"] = win_dist
    dist["forced_schedule_vs_model"] = {"replayed": len(sched_in), "not_mapped": n_unmapped, "differ": len(sched_diff)}
    dist["histories_with_panic"] = n_panic_hist
    dist["counts"] = {"seq": len(seqs), "conc": len(concs), "conc_race": len(race_cases), "forced": len(forced)}
    ck.dist = dist
    distinct = {json.dumps([c.get("ops"), c.get("prog"), c.get("sched"), [[e["op"], e["ret"], e["inv"], e["res"]] for e in c.get("events", [])]]) for c in cases
                if len(c.get("ops") or c.get("events") or []) > 2}
    ck.distinct = len(distinct)
    ck.samples = [dict(kind="seq", ops=seqs[3]["ops"][:8], rets=seqs[3]["rets"][:8])] if len(seqs) > 3 else []
    if concs: ck.samples.append(dict(kind="conc", events=[[e["thr"], e["op"], e["ret"], e["inv"], e["res"]] for e in concs[0]["events"][:8]]))
    if forced: ck.samples.append(dict(kind="forced", label=forced[0]["label"], sched=forced[0]["sched"], points=forced[0]["points"], rets=forced[0]["rets"]))
    ck.extra["rule"] = ("sequential random histories (model run_ops + spec oracle + counters); timed concurrent histories from 8 goroutines over 3 names "
                        "(model lin_check/classify inside Coq + independent memoised oracle), also under -race; schedules forced through the yield hook "
                        "(witness replays, exhaustive/sampled schedules of small programs, result vectors compared with the model's outcome set; "
                        "every mapped schedule replayed decision by decision on the step model: same results, closed words and counters); window families: "
                        "an instantiate (anonymous in three flavours / named / host) sits after Store.instantiate or after registerModule while Runtime.Close "
                        "runs to completion, forced through the yield hook and by user code inside InstantiateModule; every timed history ends with IsClosed "
                        "probes; the property's own oracle: nothing handed out is open once Runtime.Close has returned; "
                        "non-trivial = more than two operations/events; distinct by full content")
    ck.extra["race"] = race_note
    if not proofs_ok and not any(not v.get("no_input") for v in ck.violations):
        ck.violation("proof-broken", {"kind": "proof-broken"}, getattr(ck, "proof_failure", {}), no_input=True)
    return ck.finish()
