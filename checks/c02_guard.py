"""C02, guard stream: access programs of every instruction family (plain, SIMD, atomic, bulk; loads feeding every
kind of consumer directly) at the end of memories followed by an inaccessible page, run in child processes.
Per call: interpreter vs compiler, both vs the specification (Python oracle below) and vs Engine/Access.v (in Coq);
a child that dies = a host access outside the linear memory."""
import json, struct
from vcheck import *
from c02_amode import eval_shards

M32 = (1 << 32) - 1
M64 = (1 << 64) - 1
PAGE = 65536
I32, I64, F32, F64 = 0x7f, 0x7e, 0x7d, 0x7c
HOLE_BYTES = {"i32": 4, "f32": 4, "i64": 8, "f64": 8, "v128": 16}
ATOMIC_FAMS = ("atomic_load", "atomic_store", "rmw", "cmpxchg", "notify", "wait")
BULK_FAMS = ("fill", "copy", "init")


def src_val(s, c):
    k = s["k"]
    if k == "a": return c["a"]
    if k == "b": return c["b"]
    if k == "x": return c["x"] & M32
    if k == "const": return s.get("c", 0)
    return (c["a"] + s.get("c", 0)) & M32


def le(bs): return int.from_bytes(bytes(bs), "little")


def norm_slot(t, v):
    if t in (I32, F32): v &= M32
    if t == F32 and (v & 0x7fffffff) > 0x7f800000: return "nan"
    if t == F64 and (v & 0x7fffffffffffffff) > 0x7ff0000000000000: return "nan"
    return v


def norm_res(types, res):
    return [norm_slot(t, v) for t, v in zip(types, res or [])] + list((res or [])[len(types):])


class Win:
    """the bytes of the memory before the call, as far as the harness handed them over (zeros beyond the old size)"""
    def __init__(self, c):
        self.segs = [(c["wlo"], bytes.fromhex(c["win"]))] + [(lo, bytes.fromhex(h)) for lo, h in c.get("segs") or []]

    def get(self, ea, n):
        if n == 0: return b""
        for lo, b in self.segs:
            if lo <= ea and ea + n <= lo + len(b): return b[ea - lo: ea - lo + n]
        return None


def shape_bytes(shape, bs, c):
    k = shape[0]
    def ext(bs, w, sx):
        f = 0xff if sx and bs[-1] & 0x80 else 0
        return bytes(bs) + bytes([f]) * (w - len(bs))
    if k == "raw": return bytes(bs)
    if k == "zext": return ext(bs, shape[1], False)
    if k == "sext": return ext(bs, shape[1], True)
    if k == "lanes":
        cw = shape[1]
        return b"".join(ext(bs[i:i + cw], 2 * cw, shape[2]) for i in range(0, len(bs), cw))
    if k == "splat": return bytes(bs) * (16 // len(bs))
    if k == "zero": return ext(bs, 16, False)
    if k == "lane":
        vec = bytearray(struct.pack("<QQ", c["x"], c["y"]))
        vec[shape[1] * len(bs):(shape[1] + 1) * len(bs)] = bs
        return bytes(vec)
    if k == "const": return bytes.fromhex(shape[1])
    raise ValueError(k)


def value_bytes(m, c):
    """the bytes a store-like instruction writes, from the arguments"""
    fam, n = m["fam"], m["n"]
    if fam == "vstore": return struct.pack("<QQ", c["x"], c["y"])
    if fam == "store_lane": return struct.pack("<QQ", c["x"], c["y"])[m.get("lane", 0) * n:(m.get("lane", 0) + 1) * n]
    if m.get("vc") is not None: return struct.pack("<Q", m["vc"])[:n]
    return struct.pack("<Q", c["x"])[:n]


def alu(op, n, o, v):
    mod = 1 << (8 * n)
    v %= mod
    return {"add": (o + v) % mod, "sub": (o - v) % mod, "and": o & v, "or": o | v, "xor": o ^ v, "xchg": v}[op]


def type_mask(m): return M32 if m.get("hole") == "i32" else M64


def slots_of(bs):
    if len(bs) == 4: return [le(bs)]
    if len(bs) == 8: return [le(bs)]
    return [le(bs[:8]), le(bs[8:16])]


def expect(p, f, c, seg):
    """The specification, on the implementation's inputs only. Returns dict: trap (None|'oob'|'unaligned'),
    pre (list of slots), main (list of slots | 'twin' | None when unknown), writes [(ea, bytes)], size1, unknown (bool:
    the window does not hold the bytes needed), facts for the distribution."""
    w = Win(c)
    size = c["size0"]
    out = dict(trap=None, slots=[], main=None, writes=[], unknown=False, pos=None, ea=None, size_at_main=None, after_grow=False)
    if f.get("pre"):
        pm = f["pre"]
        ea = src_val(pm["base"], c) + pm["off"]
        if ea + pm["n"] > size:
            out["trap"] = "oob"; out["size1"] = size; return out
        bs = w.get(ea, pm["n"])
        if bs is None: out["unknown"] = True; bs = bytes(pm["n"])
        out["slots"] += slots_of(shape_bytes(pm["shape"], bs, c))
    if f.get("between") in ("grow", "callgrow"):
        pages = size // PAGE
        if pages + f.get("delta", 0) <= p["max"]:
            size += f.get("delta", 0) * PAGE; out["slots"].append(pages)
            out["after_grow"] = f.get("delta", 0) > 0
        else:
            out["slots"].append(M32)
    out["size1"] = size
    out["size_at_main"] = size
    m = f["main"]
    fam = m["fam"]
    if fam in BULK_FAMS:
        n, d = src_val(m["l"], c), src_val(m["d"], c)
        out["ea"], out["n"] = d, n
        out["pos"] = "last" if d + n == size else "first-oob" if d + n == size + 1 else None
        if fam == "fill":
            if d + n > size: out["trap"] = "oob"; return out
            out["writes"].append((d, bytes([c["y"] & 0xff]) * n))
        elif fam == "copy":
            s = src_val(m["s"], c)
            if d + n > size or s + n > size: out["trap"] = "oob"; return out
            bs = w.get(s, n)
            if bs is None: out["unknown"] = True
            else: out["writes"].append((d, bs))
        else:
            s = src_val(m["s"], c)
            sg = seg if m.get("seg", 0) == 0 else b""
            if d + n > size or s + n > len(sg): out["trap"] = "oob"; return out
            out["writes"].append((d, sg[s:s + n]))
        return out
    n = m["n"]
    ea = src_val(m["base"], c) + m["off"]
    out["ea"], out["n"] = ea, n
    out["pos"] = "last" if ea + n == size else "first-oob" if ea + n == size + 1 else None
    oob = ea + n > size
    if oob:          # out of bounds first, atomics included: "an access whose effective address plus width exceeds the current size
        out["trap"] = "oob"; return out   # traps with an out-of-bounds error"; only an in-bounds misaligned atomic is 'unaligned'
    if fam in ATOMIC_FAMS and ea % n != 0:
        out["trap"] = "unaligned"; return out
    if fam == "wait" and not p.get("shared"):   # in bounds and aligned: waiting needs a shared memory
        out["trap"] = "shared"; return out
    old = w.get(ea, n)
    if old is None: out["unknown"] = True; old = bytes(n)
    if fam in ("load", "vload"):
        out["hole"] = shape_bytes(m["shape"], old, c)
        out["main"] = "twin"
    elif fam == "load_lane":
        out["main"] = slots_of(shape_bytes(m["shape"], old, c))
    elif fam in ("store", "vstore", "store_lane", "atomic_store"):
        out["writes"].append((ea, value_bytes(m, c)))
    elif fam == "load_store":
        ea2 = src_val(m["d"], c) + m.get("doff", 0)
        out["ea2"] = ea2
        if ea2 + n > size: out["trap"] = "oob"; return out
        out["writes"].append((ea2, alu(m["rmw"], n, le(old), c["x"]).to_bytes(n, "little") if m.get("rmw") else old))
    elif fam == "atomic_load":
        out["main"] = slots_of(shape_bytes(m["shape"], old, c))
    elif fam == "rmw":
        out["writes"].append((ea, alu(m["rmw"], n, le(old), c["x"] & type_mask(m)).to_bytes(n, "little")))
        out["main"] = slots_of(shape_bytes(m["shape"], old, c))
    elif fam == "cmpxchg":
        mod = 1 << (8 * n)
        if le(old) == (c["x"] & type_mask(m)) % mod:
            out["writes"].append((ea, ((c["y"] & type_mask(m)) % mod).to_bytes(n, "little")))
        out["main"] = slots_of(shape_bytes(m["shape"], old, c))
    elif fam == "notify":
        out["main"] = [0]
    elif fam == "wait":
        out["main"] = [2 if le(old) == (c["x"] & type_mask(m)) % (1 << (8 * n)) else 1]
    return out


def diff_map(c):
    d = {}
    for start, hx in c.get("diff") or []:
        for i, b in enumerate(bytes.fromhex(hx)): d[start + i] = b
    return d


def oracle(p, f, c, seg):
    """returns (None | reason, facts)"""
    e = expect(p, f, c, seg)
    trap = c.get("trap") or None
    got = diff_map(c)
    if e["trap"]:
        ok = trap == e["trap"]
        if not ok: return "the specification traps (%s); the engine: %s" % (e["trap"], trap or "returned " + str(c.get("res"))), e
        if got: return "a trapping access changed memory at %s" % sorted(got)[:8], e
        if c["size1"] != e["size1"]: return "size after the call %d, expected %d" % (c["size1"], e["size1"]), e
        return None, e
    # no trap from the memory accesses
    m = f["main"]
    tw = c.get("twin")
    if e["main"] == "twin":
        if tw is None: return "the harness expected a trap where the specification does not trap", e
        hole = c.get("hole") or [0, 0]
        hb = struct.pack("<QQ", hole[0], hole[1])[:HOLE_BYTES[m["hole"]]]
        if not e["unknown"] and hb != e["hole"][:len(hb)]:
            return "reference value of the addressed bytes %s, the harness used %s" % (e["hole"].hex(), hb.hex()), e
        if tw.get("trap"):
            if trap != tw["trap"]: return "the consumer traps (%s) on the addressed value; the engine: %s" % (tw["trap"], trap or "returned"), e
            if got: return "a trapping call changed memory", e
            return None, e
        want = e["slots"] + list(tw.get("res") or [])
    else:
        want = e["slots"] + (e["main"] or [])
    if trap: return "in bounds (ea=%s n=%s size=%s) but the engine trapped: %s" % (e["ea"], e.get("n"), e["size_at_main"], trap), e
    types = f["res"]
    if norm_res(types, c.get("res")) != norm_res(types, want) and not e["unknown"]:
        return "results %s, the addressed bytes give %s" % (c.get("res"), want), e
    if c["size1"] != e["size1"]: return "size after the call %d, expected %d" % (c["size1"], e["size1"]), e
    # exactly the addressed bytes change
    allowed = {}
    for ea, bs in e["writes"]:
        for i, b in enumerate(bs): allowed[ea + i] = b
    if e["unknown"] or c.get("difftrunc"):
        lo_hi = [(e["ea"], e["ea"] + (e.get("n") or 0))] + [(a, a + len(b)) for a, b in e["writes"]]
        if e.get("ea2") is not None: lo_hi.append((e["ea2"], e["ea2"] + (e.get("n") or 0)))
        bad = [i for i in got if not any(l <= i < h for l, h in lo_hi)]
        if bad: return "bytes outside the addressed range changed: %s" % bad[:8], e
        return None, e
    w = Win(c)
    for i, b in got.items():
        if i not in allowed: return "byte %d changed (to %d) but is not addressed (ea=%s n=%s)" % (i, b, e["ea"], e.get("n")), e
        if allowed[i] != b: return "byte %d is %d after the call, the specification gives %d" % (i, b, allowed[i]), e
    for i, b in allowed.items():
        old = w.get(i, 1)
        if old is not None and old[0] != b and i not in got:
            return "byte %d should have become %d but did not change" % (i, b), e
    return None, e


# ---- Coq cases ----
def zi(v): return "(zi %d)" % v if v < 1 << 62 else "(zh %d %d)" % (v >> 32, v & M32)


def hx(bs): return '(hex "%s")' % bytes(bs).hex()


def coq_shape(shape, c):
    k = shape[0]
    if k == "raw": return "SRaw"
    if k == "zext": return "(SZext %d)" % shape[1]
    if k == "sext": return "(SSext %d)" % shape[1]
    if k == "lanes": return "(SLanes %d %s)" % (shape[1], "true" if shape[2] else "false")
    if k == "splat": return "SSplat"
    if k == "zero": return "SZero"
    if k == "lane": return "(SLane %s %d)" % (hx(struct.pack("<QQ", c["x"], c["y"])), shape[1])
    if k == "const": return "(SConst %s)" % hx(bytes.fromhex(shape[1]))
    raise ValueError(k)


RMW = {"add": "RAdd", "sub": "RSub", "and": "RAnd", "or": "ROr", "xor": "RXor", "xchg": "RXchg"}


def coq_case(p, f, c, seg):
    """the call as a gcase of Engine/Access.v; None when it cannot be expressed (no window)"""
    if c.get("big") or c.get("difftrunc") or sum(len(h) for _, h in c.get("diff") or []) > 8192 or len(c["win"]) > 8192: return None
    w = Win(c)
    ops = []
    if f.get("pre"):
        pm = f["pre"]
        ops.append("OAcc (ALoad %s %d) %s" % (zi(src_val(pm["base"], c) + pm["off"]), pm["n"], coq_shape(pm["shape"], c)))
    if f.get("between") in ("grow", "callgrow"):
        ops.append("OGrow %d %d" % (f.get("delta", 0), p["max"]))
    m = f["main"]
    fam = m["fam"]
    if fam in BULK_FAMS:
        n, d = src_val(m["l"], c), src_val(m["d"], c)
        if fam == "fill": ops.append("OAcc (AFill %s %s %s) SRaw" % (zi(d), zi(c["y"] & M32), zi(n)))
        elif fam == "copy": ops.append("OAcc (ACopy %s %s %s) SRaw" % (zi(d), zi(src_val(m["s"], c)), zi(n)))
        else: ops.append("OAcc (AInit %s %s %s %s) SRaw" % (hx(seg if m.get("seg", 0) == 0 else b""), zi(d), zi(src_val(m["s"], c)), zi(n)))
    else:
        n = m["n"]
        ea = src_val(m["base"], c) + m["off"]
        tm = type_mask(m)
        if fam in ("load", "vload", "load_lane"):
            ops.append("OAcc (ALoad %s %d) %s" % (zi(ea), n, coq_shape(m["shape"], c)))
        elif fam in ("store", "vstore"):
            ops.append("OAcc (AStore %s %s) SRaw" % (zi(ea), hx(value_bytes(m, c))))
        elif fam == "store_lane":
            ops.append("OAcc (AStore %s (sub %s %d %d)) SRaw" % (zi(ea), hx(struct.pack("<QQ", c["x"], c["y"])), m.get("lane", 0) * n, n))
        elif fam == "load_store":
            old = w.get(ea, n) or bytes(n)
            ops.append('OAcc (ALoad %s %d) (SConst [])' % (zi(ea), n))
            if m.get("rmw"):   # the value stored: the model's own arithmetic on the bytes it reads
                val = "(le_bytes %d (rmw_new %s %d (le_val %s) %s))" % (n, RMW[m["rmw"]], n, hx(old), zi(c["x"]))
            else:
                val = hx(old)
            ops.append("OAcc (AStore %s %s) SRaw" % (zi(src_val(m["d"], c) + m.get("doff", 0)), val))
        elif fam == "atomic_load":
            ops.append("OAcc (AAtomLoad %s %d) %s" % (zi(ea), n, coq_shape(m["shape"], c)))
        elif fam == "atomic_store":
            ops.append("OAcc (AAtomStore %s %s) SRaw" % (zi(ea), hx(value_bytes(m, c))))
        elif fam == "rmw":
            ops.append("OAcc (ARmw %s %s %d %s) %s" % (RMW[m["rmw"]], zi(ea), n, zi(c["x"] & tm), coq_shape(m["shape"], c)))
        elif fam == "cmpxchg":
            ops.append("OAcc (ACmpxchg %s %d %s %s) %s" % (zi(ea), n, zi(c["x"] & tm), zi(c["y"] & tm), coq_shape(m["shape"], c)))
        elif fam == "notify":
            ops.append("OAcc (AAtomLoad %s %d) %s" % (zi(ea), n, coq_shape(m["shape"], c)))
        elif fam == "wait":
            ops.append("OAcc (AAtomLoad %s %d) (SWait %s)" % (zi(ea), n, zi((c["x"] & tm) % (1 << (8 * n)))))
        else:
            raise ValueError(fam)
    trap = c.get("trap") or ""
    tcode = {"": 0, "oob": 1, "unaligned": 2}.get(trap, 3)
    res = b""
    if not trap:
        types = list(f["res"])
        vals = list(c.get("res") or [])
        k = 0
        if f.get("pre"): res += struct.pack("<Q", vals[k] & M64); k += 1
        if f.get("between") in ("grow", "callgrow"): res += struct.pack("<I", vals[k] & M32); k += 1
        if fam in ("load", "vload"):
            hole = c.get("hole") or [0, 0]
            res += struct.pack("<QQ", hole[0], hole[1])[:HOLE_BYTES[m["hole"]]]
        else:
            for t, v in zip(types[k:], vals[k:]):
                res += struct.pack("<I", v & M32) if t in (I32, F32) else struct.pack("<Q", v & M64)
    diff = " ++ ".join("at_from %s %s" % (zi(s), '(hex "%s")' % h) for s, h in (c.get("diff") or [])) or "[]"
    return ("{| g_mem := {| v_size := %s; v_lo := %s; v_win := (hex \"%s\") |};\n g_ops := [%s];\n g_trap := %d; g_res := %s; g_diff := %s; g_size := %s |}"
            % (zi(c["size0"]), zi(c["wlo"]), c["win"], "; ".join(ops), tcode, hx(res), diff, zi(c["size1"])))


GUARD_HEADER = ("From Coq Require Import String ZArith List Uint63. Import ListNotations.\n"
                "From Verif Require Import Lib.CaseNum Engine.Access.\nOpen Scope string_scope.\nOpen Scope list_scope.\nOpen Scope Z_scope.\n")
CODES = {1: "trap / no trap (or its class) differs from the model", 2: "the bytes that changed differ from the model's", 3: "the size after the call differs",
         4: "the value read differs from the model's", 9: "window too small (error of the check)"}


def bump(d, k, n=1): d[k] = d.get(k, 0) + n


def run(ck, binp, seed, tier, viol):
    n = 150 if tier == "quick" else 2500
    rc, out = sh([binp, "-mode", "guard", "-seed", str(seed), "-n", str(n), "-par", "6"], timeout=3000)
    descs, obs, died = {}, {}, []
    for l in out.split("\n"):
        if not l.startswith("{"): continue
        e = json.loads(l)
        if e["ev"] == "desc": descs[e["id"]] = e
        elif e["ev"] == "obs": obs.setdefault(e["id"], {})[e["engine"]] = e
        elif e["ev"] == "died": died.append(e)
    if rc != 0 or not descs:
        viol("guard-process-fault", {"kind": "process-fault", "stream": "guard"}, {"rc": rc, "tail": out[-3000:]})
        return 0, 0, {}, []
    dist = {"programs": len(descs), "sweep_programs": sum(1 for d in descs.values() if d["kind"] == "sweep"), "calls": 0, "children_died": len(died),
            "family": {}, "instruction": {}, "consumer_group": {}, "consumers_distinct": 0, "outcome": {}, "main_access_at_last_in_bounds_position": 0,
            "main_access_at_first_out_of_bounds_position": 0, "foldable_load_with_consumer_at_last_position": 0, "after_grow": 0, "between": {},
            "with_earlier_access_on_same_base": 0, "pages_before_call": {}, "static_offset>=2^31": 0, "effective_address>=2^32": 0, "base": {},
            "memories": {"moving": 0, "fixed": 0, "shared": 0}, "misaligned_atomic": 0, "bulk_overlapping_copy": 0, "coq_cases": 0, "coq_skipped_no_window": 0,
            "twin_calls": 0, "memory_changing_calls": 0}
    cons_seen = set()
    # ---- a child died: a host access outside the linear memory (or another fatal fault) ----
    for d in died:
        p = descs.get(d["id"], {})
        fidx = None
        a = (d.get("args") or "").split()
        if len(a) >= 6: fidx = int(a[1])
        detail = {"what": "the child process running this program died%s" % (" inside a call of generated code" if d.get("incall") else ""),
                  "engine": d.get("engine"), "how": d.get("how"), "signal": d.get("signal"), "fault_address": d.get("fault_addr"),
                  "memory_base": d.get("mem_base"), "memory_size": d.get("mem_size"), "fault_relative_to_memory": d.get("rel"),
                  "call_index": d.get("call"), "reproduced_when_run_alone": d.get("confirmed"),
                  "call": dict(zip(("export", "a", "b", "x", "y"), ["m%s" % a[1]] + [int(v) for v in a[2:6]])) if len(a) >= 6 else None,
                  "function": (p.get("funcs") or [None])[fidx] if fidx is not None and p.get("funcs") and fidx < len(p["funcs"]) else None,
                  "memory": {"min_pages": p.get("min"), "max_pages": p.get("max"), "shared": p.get("shared"), "allocator_moves_on_grow": p.get("moving")},
                  "replay": "instantiate `wasm` (features: v2%s) with an experimental.MemoryAllocator that puts a PROT_NONE page right after the memory, fill the memory, "
                            "call the export with (a, b, x, y); harness: h_c02 -mode guardchild -seed %d -n %d -from %d -to %d" % (
                                "+threads" if p.get("threads") else "", seed, n, d["id"], d["id"] + 1),
                  "wasm": p.get("wasm"), "stderr": (d.get("stderr") or "")[:2500]}
        fam = ((detail["function"] or {}).get("main") or {}).get("fam")
        if d.get("signal") in ("SIGSEGV", "SIGBUS"):
            viol("wild-access", {"kind": "wild-access", "stream": "guard"}, detail)
        else:
            viol("guard-child-died", {"kind": "child-died", "stream": "guard", "family": fam}, detail)
    # ---- per call: engines, oracle ----
    items, where = [], []
    seen_case = {}
    samples = []
    for pid in sorted(descs):
        p = descs[pid]
        seg = bytes.fromhex(p["seg"])
        eo = obs.get(pid, {})
        bump(dist["memories"], "shared" if p["shared"] else "moving" if p["moving"] else "fixed")
        for eng in ("interp", "compiler"):
            if eng not in eo:
                if not any(d["id"] == pid for d in died):
                    viol("guard-missing-observation", {"kind": "missing-observation", "stream": "guard"}, {"program": pid, "engine": eng}, no_input=True)
                continue
            if eo[eng].get("err"):
                viol("guard-engine-error", {"kind": "engine-error", "stream": "guard", "engine": eng}, {"err": eo[eng]["err"], "program": pid, "wasm": p["wasm"], "funcs": p["funcs"]})
        if "interp" in eo and "compiler" in eo and not eo["interp"].get("err") and not eo["compiler"].get("err"):
            for ci, cc in zip(eo["interp"]["calls"], eo["compiler"]["calls"]):
                f = p["funcs"][ci["f"]]
                e = expect(p, f, ci, seg)
                ta, tb = ci.get("trap") or "", cc.get("trap") or ""
                ka = (ci["a"], ci["b"], ci["x"], ci["y"], ta, norm_res(f["res"], ci.get("res")), ci.get("diff"), ci["size1"])
                kb = (cc["a"], cc["b"], cc["x"], cc["y"], tb, norm_res(f["res"], cc.get("res")), cc.get("diff"), cc["size1"])
                if ka != kb:
                    viol("guard-engines-differ", {"kind": "engines-differ", "stream": "guard", "family": f["main"]["fam"]},
                         {"function": f, "interpreter": ci, "compiler": cc, "program": pid, "wasm": p["wasm"]})
                    break
        for eng in ("interp", "compiler"):
            if eng not in eo or eo[eng].get("err"): continue
            for c in eo[eng]["calls"]:
                f = p["funcs"][c["f"]]
                m = f["main"]
                why, e = oracle(p, f, c, seg)
                if why:
                    viol("guard-access-differs-from-spec", {"kind": "access-differs-from-spec", "stream": "guard", "engine": eng, "family": m["fam"]},
                         {"why": why, "engine": eng, "function": f, "call": c, "memory": {"min": p["min"], "max": p["max"], "shared": p["shared"], "moving": p["moving"]},
                          "program": pid, "wasm": p["wasm"]})
                if eng == "compiler":
                    dist["calls"] += 1
                    bump(dist["family"], m["fam"]); bump(dist["instruction"], m["name"])
                    if m.get("cons"):
                        bump(dist["consumer_group"], m.get("group")); cons_seen.add((m["name"], m["cons"]))
                    bump(dist["outcome"], c.get("trap") or "values")
                    if e["pos"] == "last":
                        dist["main_access_at_last_in_bounds_position"] += 1
                        if m["fam"] in ("load", "vload") and m["shape"][0] == "raw" and m.get("cons") != "return":
                            dist["foldable_load_with_consumer_at_last_position"] += 1
                    if e["pos"] == "first-oob": dist["main_access_at_first_out_of_bounds_position"] += 1
                    if e.get("after_grow"): dist["after_grow"] += 1
                    if f.get("between"): bump(dist["between"], f["between"])
                    if f.get("pre"): dist["with_earlier_access_on_same_base"] += 1
                    bump(dist["pages_before_call"], str(c["size0"] // PAGE))
                    if m.get("off", 0) >= 1 << 31: dist["static_offset>=2^31"] += 1
                    if (e.get("ea") or 0) >= 1 << 32: dist["effective_address>=2^32"] += 1
                    if m.get("base"): bump(dist["base"], m["base"]["k"])
                    if m["fam"] in ATOMIC_FAMS and e.get("ea") is not None and e["ea"] % max(e.get("n") or 1, 1) != 0: dist["misaligned_atomic"] += 1
                    if m["fam"] == "copy" and not e["trap"]:
                        s_, d_, n_ = src_val(m["s"], c), src_val(m["d"], c), src_val(m["l"], c)
                        if s_ != d_ and abs(s_ - d_) < n_: dist["bulk_overlapping_copy"] += 1
                    if e["unknown"]: bump(dist, "oracle_without_the_addressed_bytes")
                    if c.get("twin"): dist["twin_calls"] += 1
                    if c.get("diff"): dist["memory_changing_calls"] += 1
                    if len(samples) < 3 and e["pos"] == "last" and m.get("cons"):
                        samples.append(dict(stream="guard", instruction=m["name"], consumer=m["cons"], offset=m["off"], args=[c["a"], c["b"], c["x"], c["y"]],
                                            size=c["size0"], result=c.get("res"), twin=c.get("twin")))
                # model case (skipped when the consumer itself trapped: not a memory matter)
                tw = c.get("twin")
                if tw and tw.get("trap") and c.get("trap") == tw["trap"]: continue
                if c.get("trap") == "shared" or (f["main"]["fam"] == "wait" and not p.get("shared") and not c.get("trap")): continue  # Access.v has no shared flag: oracle and engine comparison only
                cq = coq_case(p, f, c, seg)
                if cq is None:
                    if eng == "compiler": dist["coq_skipped_no_window"] += 1
                    continue
                if cq in seen_case: continue
                seen_case[cq] = 1
                items.append(cq); where.append((pid, eng, c))
    dist["consumers_distinct"] = len(cons_seen)
    dist["coq_cases"] = len(items)
    mism, err = eval_shards("c02_guard", items, GUARD_HEADER, "gmismatches", shard=100, workers=8)
    if err:
        viol("model-eval", {"kind": "model-eval", "stream": "guard"}, {"err": err}, no_input=True)
    for k, code in mism:
        pid, eng, c = where[k]
        p = descs[pid]; f = p["funcs"][c["f"]]
        why, _ = oracle(p, f, c, bytes.fromhex(p["seg"]))
        viol("guard-access-differs-from-model", {"kind": "access-differs-from-model", "stream": "guard", "code": code, "family": f["main"]["fam"]},
             {"code": code, "meaning": CODES.get(code), "oracle": why, "engine": eng, "function": f, "call": c, "coq": items[k], "program": pid, "wasm": p["wasm"]},
             no_input=(why is None))
    ncalls = sum(len(e.get("calls") or []) for v in obs.values() for e in v.values())
    return ncalls, len(items), dist, samples
