"""C13, second part of the check (called from c13.run): settings lattice over one directory, entries damaged in the
middle / trailing bytes / not-a-file / unreadable / vanished directory, goroutines of one process on one key.

Model (coq/Rt/CacheExt.v, theorems in coq/Properties/C13.v): the key as a function of (binary, listener pattern,
ensure-termination, CPU word); a compile session over one directory (C13_warm_equals_cold); damaged entries
(C13_accepted_shape and the single-field theorems); what the reader allocates (C13_alloc_prefix_bounded and its limit).
Oracle (Python, on the implementation's observations alone): see the docstrings of the *_oracle functions."""
import hashlib, json, os, re, shutil, tempfile
from vcheck import *

# Entries damaged in fields that no check of the reader covers (function offsets, a code length of zero, the count's high
# bytes) are outside the letter of the property text (which names truncation and another version); what the real code
# does with them - executes them, panics, allocates gigabytes - is reported as an observation of its own class.
# They are printed as notes; C13_DAMAGED_AS_VIOLATIONS=1 turns them into VIOLATION lines.
AS_NOTES = os.environ.get("C13_DAMAGED_AS_VIOLATIONS") != "1"   # default: notes (middle-of-entry damage is outside the property text)
GIB = 1 << 30


def _B():
    import c13
    return c13


def zl(b): return "[" + "; ".join(str(x) for x in b) + "]"


def coq_bools(l): return "[" + "; ".join("true" if x else "false" for x in l) + "]"


def parse_set(s):
    d = dict(kv.split("=", 1) for kv in s.split(";"))
    return d


def finals(fs):
    B = _B()
    return {f["name"]: B.b64(f["data"]) for f in fs if not f["name"].endswith(".tmp")}


def temps(fs):
    return [f["name"] for f in fs if f["name"].endswith(".tmp")]


def out_key(run):
    """what a process showed: exit code, stage of a failure, results, trace, termination behaviour, listener pattern"""
    o = run.get("out") or {}
    return json.dumps([run["rc"], o.get("ok"), o.get("stage"), o.get("res"), o.get("small"), o.get("spin"), o.get("trace"), o.get("lis")])


def expected_trace_shape(lis, nloc):
    """f (0) calls the helpers 1..nloc-2 in order; `spin` (nloc-1) is not called by f"""
    if lis is None:
        return []
    ev = []
    if lis[0]: ev.append("B0")
    for j in range(1, nloc - 1):
        if lis[j]: ev += ["B%d" % j, "A%d" % j]
    if lis[0]: ev.append("A0")
    return ev


# ------------------------------------------------------------------------------------------------ settings

def settings_part(ck, report, dist, binp, tier, seed):
    B = _B()
    nm, norders, full = (2, 3, False) if tier == "quick" else (10, 6, True)
    dwarf = os.path.join(REPO, "internal/testing/dwarftestdata/testdata/zig-cc/main.wasm")
    base = tempfile.mkdtemp(prefix="c13s_", dir=WORK)
    try:
        cmd = B.LIMIT2 + [binp, "-mode", "settings", "-seed", str(seed), "-dir", base, "-mods", str(nm), "-conc", str(norders)]
        if os.path.exists(dwarf): cmd += ["-dwarfmod", dwarf]
        if full: cmd.append("-full")
        rc, out = sh(cmd, timeout=2400)
    finally:
        shutil.rmtree(base, ignore_errors=True)
    evs = [e for e in jlines(out) if e.get("kind") in ("set-ref", "set-order")]
    nref = sum(1 for e in evs if e["kind"] == "set-ref")
    if rc != 0 or nref < nm or len(evs) != nref * (1 + norders):
        ck.violation("harness-crash", {"kind": "crash", "mode": "settings"}, {"rc": rc, "events": len(evs), "tail": out[-3000:]})
        return 0
    sd = dist.setdefault("settings", {"modules": 0, "points": 0, "orders": 0, "processes": 0, "distinct_keys": 0, "rejected_by_features": 0,
                                      "same_key_entries_differing_in_source_map_only": 0, "shared_key_dimensions": {}})
    cold = {}      # mod -> list of dict(set, run, name, data, okc)
    kcases, kmeta = [], []
    for e in evs:
        if e["kind"] != "set-ref": continue
        m = e["mod"]
        wasm = B.b64(e["wasm"])
        pts = []
        sd["modules"] += 1
        for p in e["points"]:
            s = parse_set(p["set"]); r = p["run"]; o = r.get("out") or {}
            fin = finals(p["files"]); tmp = temps(p["files"])
            okc = r["rc"] == 0 and bool(o.get("ok"))
            pt = dict(set=p["set"], s=s, run=r, fin=fin, okc=okc, name=None, data=None)
            pts.append(pt)
            sd["points"] += 1; sd["processes"] += 1
            sig = lambda cls: {"kind": "property-fails", "part": "settings", "class": cls}
            det = lambda text: {"oracle": text, "module": m, "modfile": e.get("modfile"), "settings": p["set"], "run": r,
                                "files": [(n, len(d)) for n, d in fin.items()], "wasm_hex": wasm.hex()[:4000]}
            if tmp:
                report("property-fails", sig("temp-file-left"), det("an undisturbed process left a temporary file behind: %s" % tmp))
            if not okc:
                if r["rc"] == 3 and o.get("stage") == "compile":
                    sd["rejected_by_features"] += 1
                    if fin:
                        report("property-fails", sig("rejected-module-cached"), det("CompileModule failed, yet the directory holds an entry"))
                else:
                    report("property-fails", sig("wrong-result"), det("a fresh process with an empty directory failed"))
                continue
            if e.get("modfile") is None or not e.get("modfile"):
                if o["res"] != e["want"] or o["small"] != 1000:
                    report("property-fails", sig("wrong-result"), det("f(%d) = %d expected %d; spin(1000) = %d" % (e["arg"], o["res"], e["want"], o["small"])))
                if s["term"] == "1" and o["spin"] != "early":
                    report("property-fails", sig("termination-lost"), det("close-on-context-done is on, yet a long loop under a 5 ms deadline ended with: %s" % o["spin"]))
                shape = [t.split("[")[0] for t in o.get("trace") or []]
                if shape != expected_trace_shape(o.get("lis"), e["nloc"]):
                    report("property-fails", sig("listener-events"), det("listener events %s do not match the functions the factory took (%s)" % (o.get("trace"), o.get("lis"))))
            if s["eng"] == "i":
                if fin:
                    report("property-fails", sig("unexpected-name"), det("the interpreter wrote into the cache directory"))
                continue
            if len(fin) != 1:
                report("property-fails", sig("unexpected-name"), det("a single compilation left %d final names" % len(fin)))
                continue
            pt["name"], pt["data"] = next(iter(fin.items()))
            pe = B.parse_entry(B.VER, pt["data"])
            if pe[0] != "ok" or pe[2] != len(pt["data"]):
                report("property-fails", sig("invalid-entry-visible"), det("the entry of an undisturbed run does not parse"))
                pt["name"] = None
                continue
            pt["parsed"] = pe[1]
            lis = o.get("lis")
            kcases.append("{| k_wasm := w%d; k_lis := %s; k_term := %s; k_cpu := %d |}" % (len(cold), coq_bools(lis or []), "true" if s["term"] == "1" else "false", o["cpu"]))
            kmeta.append((m, len(pts) - 1))
        cold[m] = dict(ev=e, pts=pts, wasm=wasm, idx=len(cold))
        # ---- key separation: the same name only for the same generated code
        byname = {}
        for pt in pts:
            if pt["name"]: byname.setdefault(pt["name"], []).append(pt)
        sd["distinct_keys"] += len(byname)
        for name, group in byname.items():
            g0 = group[0]
            for g in group[1:]:
                diffdims = sorted(k for k in g["s"] if g["s"][k] != g0["s"][k])
                for k in diffdims:
                    sd["shared_key_dimensions"][k] = sd["shared_key_dimensions"].get(k, 0) + 1
                if g["parsed"]["code"] != g0["parsed"]["code"] or g["parsed"]["offs"] != g0["parsed"]["offs"]:
                    report("property-fails", {"kind": "property-fails", "part": "settings", "class": "key-shared-different-code", "dims": "+".join(diffdims)},
                           {"oracle": "two settings of the same binary get the same cache key although the code generated for them differs: whichever runs second "
                                      "loads code compiled for the other", "module": m, "modfile": e.get("modfile"), "settings": [g0["set"], g["set"]], "name": name,
                            "code_lengths": [len(g0["parsed"]["code"]), len(g["parsed"]["code"])], "wasm_hex": wasm.hex()[:4000]})
                elif g["data"] != g0["data"]:
                    sd["same_key_entries_differing_in_source_map_only"] += 1
    # ---- the key model: names = sha256(sha256(id_pre) ++ suffix), strings from Coq
    names_ok = True
    digests = {}
    if kcases:
        defs = "\n".join("Definition w%d : bytes := %s." % (c["idx"], zl(c["wasm"])) for c in cold.values())
        KS = 12   # per definition: key_strings is not tail recursive and its result is long
        v = "From Verif Require Import Lib.GoInt Rt.CacheCodec Rt.CacheExt.\nOpen Scope Z_scope.\n" + defs + "\n"
        for j in range(0, len(kcases), KS):
            v += "Definition K%dx := Eval vm_compute in key_strings [\n%s].\nPrint K%dx.\n" % (j, ";\n".join(kcases[j:j + KS]), j)
        rc, o = coq_eval("c13_keys", v)
        lst = []
        for j in range(0, len(kcases), KS):
            part = parse_zlist(o, "K%dx" % j) if rc == 0 else None
            if part is None:
                ck.violation("model-eval", {"kind": "model-eval", "part": "keys"}, {"rc": rc, "out": o[-2000:]}, no_input=True)
                return 0
            lst += part
        pos = 0
        for (m, pi) in kmeta:
            la = lst[pos]; a = bytes(lst[pos + 1:pos + 1 + la]); pos += 1 + la
            lb = lst[pos]; b = bytes(lst[pos + 1:pos + 1 + lb]); pos += 1 + lb
            d1 = hashlib.sha256(a).digest()
            d2 = hashlib.sha256(d1 + b).hexdigest()
            pt = cold[m]["pts"][pi]
            pt["d1"], pt["d2"], pt["suffix"] = d1, d2, b
            if d2 != pt["name"]:
                names_ok = False
                report("model-differs", {"kind": "model-differs", "part": "settings", "class": "key"},
                       {"why": "the file name is not sha256(sha256(binary ++ listener records ++ termination flag) ++ \"WAZEVO\" ++ cpu word) of the model's strings",
                        "module": m, "settings": pt["set"], "observed": pt["name"], "model": d2}, no_input=True)
    # ---- orders over one directory
    scases, smeta = [], []
    for e in evs:
        if e["kind"] != "set-order": continue
        m = e["mod"]; c = cold[m]; pts = c["pts"]
        sd["orders"] += 1
        prev = {}
        obs, sets_ = [], []
        usable = names_ok
        for st in e["steps"]:
            pt = pts[st["i"]]; r = st["run"]
            sd["processes"] += 1
            fin = finals(st["files"]); tmp = temps(st["files"])
            sig = lambda cls: {"kind": "property-fails", "part": "settings", "class": cls}
            det = lambda text: {"oracle": text, "module": m, "modfile": e.get("modfile"), "order": [pts[i]["set"] for i in e["order"]], "step": st["i"],
                                "settings": pt["set"], "run": r, "cold_run": pt["run"], "before": sorted((n, len(d)) for n, d in prev.items()),
                                "after": sorted((n, len(d)) for n, d in fin.items()), "wasm_hex": c["wasm"].hex()[:4000]}
            if out_key(r) != out_key(pt["run"]):
                report("property-fails", sig("warm-differs-from-cold"),
                       det("with other settings' entries already in the directory this process behaved differently from the same settings on an empty directory"))
            if tmp:
                report("property-fails", sig("temp-file-left"), det("an undisturbed process left a temporary file behind: %s" % tmp))
            exp = dict(prev)
            if pt["name"] and pt["name"] not in prev:
                exp[pt["name"]] = pt["data"]
            if fin != exp:
                changed = sorted(n for n in set(fin) | set(exp) if fin.get(n) != exp.get(n))
                report("property-fails", sig("directory-changed-unexpectedly"),
                       det("after this process the directory is not the previous one plus (at most) the entry these settings produce cold; differing names: %s" % changed))
                usable = False
            if pt["name"] and pt["s"]["eng"] == "c":
                sets_.append(pt)
                obs.append(2 if not pt["okc"] else 1 if len(fin) > len(prev) else 0)
            prev = fin
        if usable and sets_:
            sets_coq = "[" + "; ".join("(%s, %s)" % (coq_bools(pt["run"]["out"].get("lis") or []), "true" if pt["s"]["term"] == "1" else "false") for pt in sets_) + "]"
            scases.append((c["idx"], "(ht%d, gt%d, w%d, cpu%d, %s, %s, %s, %d)" % (c["idx"], c["idx"], c["idx"], c["idx"], zl(B.VER), sets_coq, zl(obs), len(prev))))
            smeta.append(e)
    if scases:
        # per module: the binary, the CPU word, the hash table (distinct digests numbered) and the compiler table (the modules
        # read from the cold entries), shared by the orders of the module
        defs = ""
        for m, c in cold.items():
            i = c["idx"]
            pts = [pt for pt in c["pts"] if pt["name"] and pt["s"]["eng"] == "c" and "d2" in pt]
            if not pts: continue
            num = {}
            def idn(x):
                if x not in num: num[x] = len(num) + 1
                return num[x]
            ht, gt, seen = [], [], set()
            for pt in pts:
                key = (json.dumps(pt["run"]["out"].get("lis")), pt["s"]["term"])
                if key in seen: continue
                seen.add(key)
                lis = coq_bools(pt["run"]["out"].get("lis") or []); t = "true" if pt["s"]["term"] == "1" else "false"
                kin = "{| k_wasm := w%d; k_lis := %s; k_term := %s; k_cpu := cpu%d |}" % (i, lis, t, i)
                a_, b_ = idn(pt["d1"]), idn(bytes.fromhex(pt["d2"]))
                ht.append("(id_pre %s, %d)" % (kin, a_)); ht.append("(%d :: key_suffix cpu%d, %d)" % (a_, i, b_))
                p = pt["parsed"]
                gt.append("(%s, %s, {| cm_offsets := %s; cm_exec := %s; cm_sm_wasm := %s; cm_sm_exec := %s |})" % (
                    lis, t, "[" + "; ".join("(%d)" % (x - (1 << 64) if x >= 1 << 63 else x) for x in p["offs"]) + "]", zl(p["code"]),
                    zl([x for x, _ in p["sm"]]), zl([y for _, y in p["sm"]])))
            defs += ("Definition w%d : bytes := %s.\nDefinition cpu%d := %d.\nDefinition ht%d : list (list Z * Z) := [%s].\n"
                     "Definition gt%d : list (list bool * bool * cmod) := [%s].\n") % (
                i, zl(c["wasm"]), i, pts[0]["run"]["out"]["cpu"], i, ";\n  ".join(ht), i, ";\n  ".join(gt))
        v = ("From Verif Require Import Lib.GoInt Rt.CacheCodec Rt.CacheFs Rt.CacheExt.\nOpen Scope Z_scope.\n" + defs +
             "Definition cases : list scase := [\n" + ";\n".join(sc for _, sc in scases) + "].\n"
             "Definition M := Eval vm_compute in s_mismatches 0 cases.\nPrint M.\n")
        rc, o = coq_eval("c13_sessions", v)
        lst = parse_zlist(o, "M")
        if rc != 0 or lst is None:
            ck.violation("model-eval", {"kind": "model-eval", "part": "sessions"}, {"rc": rc, "out": o[-2000:]}, no_input=True)
            return 0
        for i in range(0, len(lst), 2):
            e = smeta[lst[i]]
            report("model-differs", {"kind": "model-differs", "part": "settings", "class": "session", "code": lst[i + 1]},
                   {"why": "the sequence loaded / compiled / reported (or the number of entries at the end) differs from Rt.CacheExt.session", "module": e["mod"],
                    "order": e["order"]}, no_input=True)
    return sd["processes"]


# ------------------------------------------------------------------------------------------------ damaged entries, reader alone

FIELD = {"count": "count", "codelen": "codelen", "smlen": "source-map-length"}
_noted = set()


def finding(ck, report, sig, detail):
    """a finding about damage outside the letter of the property text"""
    if AS_NOTES:
        key = json.dumps(sig, sort_keys=True)
        if key in _noted: return
        _noted.add(key)
        ck.note("C13 damaged-entry observation (outside the property text; C13_DAMAGED_AS_VIOLATIONS=1 reports it): %s: %s" % (json.dumps(sig, sort_keys=True), detail.get("oracle", "")[:300]))
    else:
        report("property-fails", sig, detail)


def damaged_part(ck, report, dist, binp, tier, seed):
    B = _B()
    n = 12 if tier == "quick" else 150
    rc, out = sh(B.LIMIT + [binp, "-mode", "damaged", "-seed", str(seed), "-n", str(n)], timeout=2400)
    evs = [e for e in jlines(out) if e.get("kind") == "damaged"]
    if rc != 0 or len(evs) != n:
        ck.violation("harness-crash", {"kind": "crash", "mode": "damaged"}, {"rc": rc, "events": len(evs), "tail": out[-3000:]})
        return 0
    dd = dist.setdefault("damaged_reader", {"entries": n, "probes": 0, "outcomes": {}, "max_heap_bytes_for_entry_bytes": [0, 0], "died_out_of_memory": 0})
    acases, ameta = [], []
    for e in evs:
        v, ser = B.b64(e["v"]), B.b64(e["ser"])
        for p in e["probes"]:
            dd["probes"] += 1
            data = bytearray(ser); data[p["pos"]] = p["val"]; data = bytes(data)
            o = p.get("out")
            field = p["what"].split("-")[0]
            if o is None:
                oom = "out of memory" in (p.get("stderr") or "") or "cannot allocate" in (p.get("stderr") or "")
                cl, heap, ml = (4 if oom else 3), -1, -1
                key = p["what"] + (":died-out-of-memory" if oom else ":died")
                if oom:
                    dd["died_out_of_memory"] += 1
                    finding(ck, report, {"kind": "property-fails", "part": "damaged-unprotected", "class": "allocation-unbounded", "field": FIELD.get(field, field)},
                            {"oracle": "one changed byte (position %d := 0x%02x, field %s) of a %d-byte entry makes deserializeCompiledModule ask for memory out of all proportion: "
                                       "the process died under the 4 GB address-space limit of the harness: %s" % (p["pos"], p["val"], p["what"], len(ser), (p.get("stderr") or "")[:160]),
                             "version": v.decode("latin1"), "entry_hex": ser.hex(), "damaged_hex": data.hex(), "probe": p})
                else:
                    report("property-fails", {"kind": "property-fails", "part": "damaged", "class": "reader-died", "field": FIELD.get(field, field)},
                           {"oracle": "the reader died on a damaged entry", "version": v.decode("latin1"), "damaged_hex": data.hex(), "probe": p})
            else:
                cl = {"ok": 0, "stale": 1, "error": 2, "panic": 3}[o["o"]]
                heap = o["heap"]
                mm = re.search(r"\(len=(\d+)\)", o.get("detail") or "")
                ml = int(mm.group(1)) if mm and "executable" in o["detail"] else -1
                key = p["what"] + ":" + o["o"]
                if heap > dd["max_heap_bytes_for_entry_bytes"][0]:
                    dd["max_heap_bytes_for_entry_bytes"] = [heap, len(ser)]
                if heap > 64 * len(ser) + (1 << 20):
                    finding(ck, report, {"kind": "property-fails", "part": "damaged-unprotected", "class": "allocation-unbounded", "field": FIELD.get(field, field)},
                            {"oracle": "one changed byte (position %d := 0x%02x, field %s) of a %d-byte entry makes deserializeCompiledModule allocate %d bytes on the Go heap before it "
                                       "reports the entry" % (p["pos"], p["val"], p["what"], len(ser), heap),
                             "version": v.decode("latin1"), "entry_hex": ser.hex(), "damaged_hex": data.hex(), "probe": p})
                if o["o"] == "panic":
                    report("property-fails", {"kind": "property-fails", "part": "damaged", "class": "reader-panics", "field": FIELD.get(field, field)},
                           {"oracle": "the reader panics on a damaged entry: %s" % o.get("detail"), "version": v.decode("latin1"), "damaged_hex": data.hex(), "probe": p})
                if o["o"] == "ok":
                    # these probes only ever ask for MORE than the file holds: C13_accepted_sizes_within_file
                    report("property-fails", {"kind": "property-fails", "part": "damaged", "class": "oversized-field-accepted", "field": FIELD.get(field, field)},
                           {"oracle": "an entry whose %s field asks for more than the file holds was accepted" % field, "version": v.decode("latin1"),
                            "damaged_hex": data.hex(), "probe": p})
            dd["outcomes"][key] = dd["outcomes"].get(key, 0) + 1
            acases.append("(%s, %s, %d, %d, %d)" % (zl(v), zl(data), cl, heap, ml)); ameta.append((e, p))
    for s in range(0, len(acases), 400):
        v = ("From Verif Require Import Lib.GoInt Rt.CacheCodec Rt.CacheExt.\nOpen Scope Z_scope.\nDefinition cases : list acase := [\n" +
             ";\n".join(acases[s:s + 400]) + "].\nDefinition M := Eval vm_compute in a_mismatches (2 ^ 30) 0 cases.\nPrint M.\n")
        rc, o = coq_eval("c13_alloc_%d" % s, v)
        lst = parse_zlist(o, "M")
        if rc != 0 or lst is None:
            ck.violation("model-eval", {"kind": "model-eval", "part": "alloc"}, {"rc": rc, "out": o[-2000:]}, no_input=True)
            return 0
        for i in range(0, len(lst), 2):
            e, p = ameta[s + lst[i]]
            why = {1: "the reader died although the model asks for less than 1 GiB", 2: "outcome class differs", 3: "Go heap bytes allocated by the call are not 8 * count (+ slack)",
                   4: "the length handed to mmap differs"}.get(lst[i + 1], str(lst[i + 1]))
            report("model-differs", {"kind": "model-differs", "part": "damaged", "class": p["what"].split("-")[0], "code": lst[i + 1]},
                   {"why": why, "probe": p, "version": B.b64(e["v"]).decode("latin1"), "entry_hex": B.b64(e["ser"]).hex()}, no_input=True)
    return len(acases)


# ------------------------------------------------------------------------------------------------ damaged / special entries, whole runtime

PROTECTED = {"magic-byte", "crc-byte", "count-high", "codelen-high", "codelen-negative", "flag-set"}   # rejected by construction (theorems)
HARMLESS = {"trailing-garbage", "trailing-sourcemap-like", "flag-other"}                                # the same module by construction
FIELD_OF = {"offset0-byte": "offsets", "offset-last-byte": "offsets", "offset-high-byte": "offsets", "codelen-zero": "codelen",
            "codelen-minus": "codelen", "codelen-plus": "codelen", "count-low": "count", "count-low-minus": "count", "count-high": "count"}


def observed_class(ev, entry, name):
    """0 ran correctly, file untouched; 1 ran correctly, file now the complete entry; 2 reported; 5 died out of memory;
    3 died / panicked; 9 wrong result or anything else"""
    B = _B()
    a = ev["after"]
    d0 = finals(ev["files"]).get(name); d1 = finals(ev["files_after"]).get(name)
    if a["rc"] == 3 and a.get("out") and a["out"].get("stage") == "compile" and d1 == d0: return 2
    if B.run_ok(a, ev["want"]) and d1 == d0: return 0
    if B.run_ok(a, ev["want"]) and d1 == entry: return 1
    if a["rc"] not in (0, 3):
        err = a.get("stderr") or ""
        return 5 if ("out of memory" in err or "cannot allocate" in err) else 3
    return 9


def fs_ext_part(ck, report, dist, refs, evs, head):
    B = _B()
    fd = dist.setdefault("damaged_runtime", {"events": 0, "by_kind": {}})
    dcases, dmeta = [], []
    for ev in evs:
        m = ev["mod"]
        if m not in refs: continue
        name, entry = refs[m]
        what = ev["what"]
        fd["events"] += 1
        a = ev["after"]
        if ev["kind"] == "special":
            # not a byte string: the oracle alone. Reported, or compiled afresh with the right result; never a crash.
            ok_run = B.run_ok(a, ev["want"])
            reported = a["rc"] == 3 and a.get("out") and a["out"].get("stage") in ("compile", "cache")
            cls = "reported" if reported else "ran" if ok_run else "FAILED"
            fd["by_kind"][what + ":" + cls] = fd["by_kind"].get(what + ":" + cls, 0) + 1
            sig = {"kind": "property-fails", "part": "fs", "class": "later-process-fails", "event": "special", "point": what}
            if not (ok_run or reported):
                report("property-fails", sig, {"oracle": "%s in place of the entry: the next process neither reported it nor compiled afresh correctly: %s" % (what, json.dumps(a)[:400]), "event": ev})
            fin2 = finals(ev["files_after"])
            for n, d in fin2.items():
                if what == "unreadable" and d == entry: continue
                if n != name or d != entry:
                    report("property-fails", dict(sig, **{"class": "partial-entry-visible"}), {"oracle": "%s: afterwards the directory holds %s (%d bytes), not the complete entry" % (what, n, len(d)), "event": ev})
            if what.startswith("dir-vanishes"):
                later = ev["runs"][-1]
                if not B.run_ok(later, ev["want"]) or fin2.get(name) != entry:
                    report("property-fails", sig, {"oracle": "after the cache directory had vanished a later process did not run correctly and restore the entry: %s" % json.dumps(later)[:300], "event": ev})
            if what == "dir-vanishes-between-runs" and not ok_run:
                report("property-fails", sig, {"oracle": "the cache directory was removed between two runs; the next process must recreate it and compile afresh: %s" % json.dumps(a)[:300], "event": ev})
            continue
        oc = observed_class(ev, entry, name)
        d0 = finals(ev["files"]).get(name, b"")
        fd["by_kind"][what + ":" + str(oc)] = fd["by_kind"].get(what + ":" + str(oc), 0) + 1
        inp = "(apply_patches e%d [%s])" % (m, "; ".join("(%d, %d)" % (i, d0[i]) for i in range(min(len(d0), len(entry))) if d0[i] != entry[i]))
        if len(d0) > len(entry): inp = "(%s ++ %s)" % (inp, zl(d0[len(entry):]))
        dcases.append("(%s, e%d, %s, %d)" % (zl(B.VER), m, inp, oc)); dmeta.append(ev)
        detail = lambda text: {"oracle": text, "what": what, "position": ev["n"], "next_process": a, "module": m, "entry_hex": entry.hex(), "damaged_hex": d0.hex()}
        if what in HARMLESS:
            if oc not in (0, 1):
                report("property-fails", {"kind": "property-fails", "part": "fs", "class": "later-process-fails", "event": "damaged", "point": what},
                       detail("a complete entry followed by / carrying ignorable bytes (%s): the next process did not run correctly" % what))
        elif what in PROTECTED:
            if oc == 5 and what == "count-high":
                finding(ck, report, {"kind": "property-fails", "part": "damaged-unprotected", "class": "allocation-unbounded", "field": "count"},
                        detail("one changed byte of the count field of a %d-byte entry: the next process died for want of memory (4 GB address-space limit) while reading it" % len(entry)))
            elif oc not in (1, 2):
                report("property-fails", {"kind": "property-fails", "part": "fs", "class": "bad-entry-used", "event": "damaged", "point": what},
                       detail("damage that the reader detects by construction (%s) was not reported or discarded: observed class %d" % (what, oc)))
        else:
            if oc in (3, 5, 9):
                finding(ck, report, {"kind": "property-fails", "part": "damaged-unprotected", "class": "damaged-entry-executed", "field": FIELD_OF.get(what, what)},
                        detail("an entry damaged in one field (%s) was neither reported nor discarded: the next process %s" %
                               (what, "died: " + (a.get("stderr") or "")[:200] if oc in (3, 5) else "computed a wrong result or failed later: " + json.dumps(a.get("out"))[:200])))
    if dcases:
        v = head + ("Definition cases : list dcase := [\n" + ";\n".join(dcases) + "].\nDefinition M := Eval vm_compute in d_mismatches 0 cases.\nPrint M.\n")
        v = v.replace("Rt.CacheCodec Rt.CacheFs.", "Rt.CacheCodec Rt.CacheFs Rt.CacheExt.", 1)
        rc, o = coq_eval("c13_damaged_rt", v)
        lst = parse_zlist(o, "M")
        if rc != 0 or lst is None:
            ck.violation("model-eval", {"kind": "model-eval", "part": "damaged-runtime"}, {"rc": rc, "out": o[-2000:]}, no_input=True)
            return 0
        for i in range(0, len(lst), 2):
            ev = dmeta[lst[i]]
            report("model-differs", {"kind": "model-differs", "part": "damaged-runtime", "class": ev["what"], "model_class": lst[i + 1]},
                   {"why": "a damaged entry was treated differently from the model (0 used, 4 used although another module, 1 discarded, 2 reported, 3 panic in the reader; model says %d)" % lst[i + 1],
                    "event": {k: ev[k] for k in ("kind", "what", "n", "mod", "after")}}, no_input=True)
    return len(dcases) + sum(1 for e in evs if e["kind"] == "special")


# ------------------------------------------------------------------------------------------------ goroutines on one key

def samekey_part(ck, report, dist, binp, tier, seed):
    B = _B()
    nm, g, extra = (3, 16, 60) if tier == "quick" else (12, 32, 600)
    base = tempfile.mkdtemp(prefix="c13k_", dir=WORK)
    try:
        rc, out = sh(B.LIMIT2 + [binp, "-mode", "samekey", "-seed", str(seed), "-dir", base, "-mods", str(nm), "-conc", str(g), "-n", str(extra)], timeout=1500)
    finally:
        shutil.rmtree(base, ignore_errors=True)
    evs = [e for e in jlines(out) if e.get("kind") == "samekey"]
    if rc != 0 or len(evs) != nm * 12 + extra:
        ck.violation("harness-crash", {"kind": "crash", "mode": "samekey"}, {"rc": rc, "events": len(evs), "tail": out[-3000:]})
        return 0
    kd = dist.setdefault("samekey", {"rounds": 0, "goroutines": g, "by_state": {}})
    fcases, fmeta, defs, seen = [], [], [], set()
    for e in evs:
        kd["rounds"] += 1
        ref_name, ref = e["ref"]["name"], B.b64(e["ref"]["data"])
        st = e["state"]
        fin, tmp = B.files_of(e["files"]); fin2, tmp2 = B.files_of(e["files_after"])
        sig = lambda cls: {"kind": "property-fails", "part": "samekey", "class": cls, "state": st, "variant": e["variant"]}
        det = lambda text: {"oracle": text, "event": {k: e[k] for k in e if k not in ("ref", "files", "files_after", "planted")}, "ref_len": len(ref),
                            "files": [(n, len(d)) for n, d in fin + tmp], "files_after": [(n, len(d)) for n, d in fin2 + tmp2]}
        key = "%s:%d ok/%d err" % (st, e["ok"], e["nerr"])
        kd["by_state"][key] = kd["by_state"].get(key, 0) + 1
        if e["panics"]:
            # one signature whatever the state / variant in which the race was hit
            report("property-fails", {"kind": "property-fails", "part": "samekey", "class": "panic"},
                   det("%d goroutines of one process compiled the same binary at once through one %s (directory %s): %d of them panicked when instantiating / calling: %s" %
                       (e["g"], "runtime" if e["variant"] == "one-runtime" else "compilation cache object", st, len(e["panics"]), e["panics"][:2])))
        if e["wrong"]:
            report("property-fails", sig("wrong-result"), det("%d goroutines computed a wrong result" % e["wrong"]))
        if tmp or tmp2:
            report("property-fails", sig("temp-file-left"), det("no goroutine failed or died, yet temporary files remain"))
        if st == "truncated":
            trunc = B.b64(e["planted"])
            # every goroutine reports, or - if the entry was meanwhile replaced - runs correctly
            if e["ok"] and dict(fin).get(ref_name) != ref:
                report("property-fails", sig("bad-entry-used"), det("goroutines ran although the final name still holds the truncated entry"))
            for n, d in fin + fin2:
                if n != ref_name or d not in (ref, trunc):
                    report("property-fails", sig("partial-entry-visible"), det("the final name holds neither the planted nor the complete entry"))
            continue
        if e["nerr"] or (e["ok"] != e["g"] and not e["panics"] and not e["wrong"]):
            report("property-fails", sig("compile-error"), det("%d of %d goroutines compiling the same binary at once failed: %s" % (e["nerr"], e["g"], e["errs"][:3])))
        if fin != [(ref_name, ref)] or fin2 != [(ref_name, ref)]:
            report("property-fails", sig("partial-entry-visible"), det("after %d goroutines compiled the same binary the directory does not hold exactly the entry a sequential compilation produces" % e["g"]))
        a = e["after"]
        if not (a.get("ok") and a.get("res") == e["want"]):
            report("property-fails", sig("later-process-fails"), det("a later runtime over the directory failed: %s" % json.dumps(a)[:300]))
        # the directory model: g complete Adds in any order leave the one entry and no temporary file (only from an empty directory)
        if st == "cold":
            if e["mod"] not in seen:
                seen.add(e["mod"]); defs.append("Definition k%d : bytes := %s." % (e["mod"], zl(ref)))
            me = ["EStep %d %d" % (w, len(ref) if i == 1 else 30 + w) for w in range(e["g"]) for i in range(B.FULL_ADD)]
            fcases.append(B.coq_fcase(0, "k%d" % e["mod"], e["g"], me, e["files"], ref)); fmeta.append(e)
        else:
            if e["mod"] not in seen:
                seen.add(e["mod"]); defs.append("Definition k%d : bytes := %s." % (e["mod"], zl(ref)))
            fcases.append(B.coq_fcase(1, "k%d" % e["mod"], 1, [], e["files"], ref)); fmeta.append(e)
    if fcases:
        v = ("From Verif Require Import Lib.GoInt Rt.CacheCodec Rt.CacheFs.\nOpen Scope Z_scope.\n" + "\n".join(defs) + "\nDefinition cases : list fcase := [\n" +
             ";\n".join(fcases) + "].\nDefinition M := Eval vm_compute in fs_mismatches 0 cases.\nPrint M.\n")
        rc, o = coq_eval("c13_samekey", v)
        lst = parse_zlist(o, "M")
        if rc != 0 or lst is None:
            ck.violation("model-eval", {"kind": "model-eval", "part": "samekey"}, {"rc": rc, "out": o[-2000:]}, no_input=True)
            return 0
        for i in range(0, len(lst), 2):
            e = fmeta[lst[i]]
            report("model-differs", {"kind": "model-differs", "part": "samekey", "class": "directory-state", "state": e["state"], "code": lst[i + 1]},
                   {"why": "the directory after the goroutines differs from Rt.CacheFs", "variant": e["variant"], "mod": e["mod"]}, no_input=True)
    return len(evs)
