"""C04 — linked modules share state exactly as the specification says."""
import json
from concurrent.futures import ThreadPoolExecutor
from vcheck import *
from wcommon import *

LINK_ERR = {1, 2, 3, 4, 5, 6, 7, 8, 9, 20, 21}
EVENT_NAMES = {0: "instantiate-class", 1: "call-result", 2: "snapshot-globals", 3: "snapshot-memory", 4: "snapshot-pages"}
# deviations from the specification that are open findings (each has its own sig); they do not explain a model mismatch
DEVIATIONS = ("memory-import-max-vs-unbounded", "elem-oob-ignored", "elem-null-ignored")


def coq_actions(c, obs, ci=None):
    """(Coq text of one engine's history, step index of every action). With ci, modules are referred to by the
    names md_<ci>_<n> (defined once per case by coq_mod_defs and shared by both engines' histories).
    Live-frame cases (c["fam"] == "live") are rendered for Rt/LinkLive.v: (limit, host table, [LA action | LHost sigs])."""
    acts, idx = [], []
    live = c.get("fam") == "live"
    for si, (st, o) in enumerate(zip(c["steps"], obs)):
        if o.get("skip") or st.get("tag") == "pre":   # "pre" snapshots serve the Python frame oracle only
            continue
        k = st["k"]
        if k == "hinst":
            acts.append("LHost [%s]" % "; ".join("(%s, %s)" % (zl(h["p"]), zl(h["r"])) for h in c.get("hosts") or []))
            idx.append(si)
            continue
        if k == "inst":
            acts.append("AInst %s %d" % (c["mods"][st["n"]]["coq"] if ci is None else "md_%d_%d" % (ci, st["n"]), o["code"]))
        elif k == "call" and st.get("role") == "tgrow" and not o.get("trap"):
            # table.grow is outside W: the model grows the instance's table itself (Rt/LinkCheck.v tab_grow) and compares the result
            acts.append("ATabGrow %d %d %d" % (st["n"], st["args"][0], o["res"][0]))
        elif k == "call":
            ob = ("OTrap %d" % trap_code(o["trap"])) if o.get("trap") else ("ORes " + zl(o.get("res") or []))
            acts.append("ACall %d %d %s (%s)" % (st["n"], st["f"], zl(st.get("args") or []), ob))
        else:
            mem = "; ".join("(%d, %d)" % (a, v) for a, v in (o.get("mem") or []))
            acts.append("ASnap %d %s [%s] (%d)" % (st["n"], zl(o.get("globals") or []), mem, o["pages"]))
        if live: acts[-1] = "LA (%s)" % acts[-1]
        idx.append(si)
    if live:
        ht = "; ".join("(%d%%nat, %d%%nat)" % (h["mod"], h["f"]) for h in c.get("hosts") or [])
        return "(%d, [%s], [\n %s])" % (c["limit"], ht, ";\n ".join(acts)), idx
    return "(%d, [\n %s])" % (c["limit"], ";\n ".join(acts)), idx


def coq_mod_defs(c, ci):
    return "".join("Definition md_%d_%d : modul := %s.\n" % (ci, m["n"], m["coq"]) for m in c["mods"] if not m.get("host"))


def eval_link(name, items, defs, shard=20, workers=10, fn="link_events", typ="lcase"):
    """evaluate Rt.LinkCheck.link_events (Rt.LinkLive.live_events for the live-frame family) over the histories in
    parallel shards; (events, error text or None). defs[i]: definitions needed by items[i] (emitted once per shard)."""
    def one(s):
        part = items[s:s + shard]
        dd = []
        for d in defs[s:s + shard]:
            if d not in dd: dd.append(d)
        v = ("From Coq Require Import ZArith List. Import ListNotations.\n"
             "From Verif Require Import Wasm.Numerics Wasm.Sem Wasm.Harness Rt.Linking Rt.LinkCheck Rt.LinkLive.\nOpen Scope Z_scope.\n"
             + "".join(dd) +
             "Definition cases : list %s := [\n" % typ + ";\n".join(part) + "].\n"
             "Definition M := Eval vm_compute in %s 0 cases.\nPrint M.\n" % fn)
        rc, o = coq_eval("%s_%d" % (name, s), v, timeout=900)
        lst = parse_zlist(o, "M")
        if rc != 0 or lst is None:
            return s, None, "coq evaluation failed (rc %d): %s" % (rc, o[-1500:])
        return s, lst, None

    ev, err = [], None
    with ThreadPoolExecutor(max_workers=workers) as ex:
        for s, lst, e in ex.map(one, range(0, len(items), shard)):
            if e:
                err = err or e
                continue
            for i in range(0, len(lst), 4):
                ev.append((s + lst[i], lst[i + 1], lst[i + 2], lst[i + 3]))
    return ev, err


# ---------------------------------------------------------------- the specification as a Python predicate
def limits_match(amin, ahm, amax, imin, ihm, imax):
    return amin >= imin and ((not ihm) or (ahm and amax <= imax))


def spec_import_ok(im, cur, live, curt=-1):
    """cur / curt: the current size of the memory / table the import names (the external type of a memory or table
    instance has its CURRENT size as the minimum); curt < 0: not observed, the declared minimum stands in"""
    if im["mod"] not in live or im["xkind"] != im["kind"]:
        return False
    k = im["kind"]
    if k == 0: return im["sig"] == im["xsig"]
    if k == 1: return im["elem"] == im["xelem"] and limits_match(curt if curt >= 0 else im["xmin"], im["xhasmax"], im["xmax"], im["min"], im["hasmax"], im["max"])
    if k == 2:   # memory types match iff the limits match AND the shared flags are equal (threads proposal)
        return limits_match(cur, im["xhasmax"], im["xmax"], im["min"], im["hasmax"], im["max"]) and im.get("shared", False) == im.get("xshared", False)
    return im["mut"] == im["xmut"] and im["vt"] == im["xvt"]


def memdict(o): return {a: v for a, v in (o.get("mem") or [])}


def oracle(c, eng, obs):
    """The property judged on one engine's observations alone. Yields (kind, sig-extras, text, step index)."""
    live, codes, mods, limit = set(), {}, c["mods"], c["limit"]
    snaps = {}
    for si, (st, o) in enumerate(zip(c["steps"], obs)):
        if o.get("skip"): continue
        k = st["k"]
        if k == "snap":
            snaps[(st.get("tag"), st.get("of", 0), st["n"])] = o
            if st.get("tag") == "self":   # values captured at instantiation are the current values of what they refer to
                for gi, want in enumerate(mods[st["n"]].get("ginit") or []):
                    if want is not None and o["globals"][gi] != want:
                        yield ("init-not-current", {}, "step %d: global %d of instance %d is %d right after instantiation, the value it refers to is %d"
                               % (si, gi, st["n"], o["globals"][gi], want), si)
        elif k == "hinst":
            live.add(st["n"])
        elif k == "call":
            t = o.get("trap") or ""
            if t.startswith("other") or t == "gopanic":
                yield ("unusable-after", {}, "step %d: call on instance %d failed outside the WebAssembly trap classes: %s %s" % (si, st["n"], t, o.get("err")), si)
            if st.get("live"):
                for w in live_oracle(c, st, o, si): yield w
            if st.get("expecttrap") and o.get("trap") != st["expecttrap"]:
                # (elem (i32.const k) funcref (ref.null func)) of a later module on the shared table: the slot is null afterwards
                yield ("elem-null-ignored", {}, "step %d: instance %d calls through slot %d of the shared table after instance %d's active element segment put ref.null there: "
                       "the specification says the call traps (%s), observed %s (store.go applyElements skips null entries, so the old reference stays)"
                       % (si, st["n"], st["args"][0], st.get("of", -1), st["expecttrap"], {k2: o.get(k2) for k2 in ("res", "trap")}), si)
            if st.get("expect") is not None:
                m = mods[st.get("of", 0)]
                if st["probe"] == "table" and m["fault"] in ("data", "start") and codes.get(m["n"]) not in (30, 31):
                    continue  # the expectation presumes that the instantiation got as far as its segments
                if (o.get("res") or [None])[0] != st["expect"]:
                    if st["probe"] == "table" and m["fault"] == "data":
                        yield ("data-before-elements", {}, "step %d: element segment of the instantiation that failed on a data segment is not in the shared table: %s" % (si, o), si)
                    else:
                        yield ("shared-object", {"object": st["probe"]}, "step %d: %s written through one instance, read through instance %d: expected %d, observed %s"
                               % (si, st["probe"], st["n"], st["expect"], {k2: o.get(k2) for k2 in ("res", "trap")}), si)
        elif k == "inst":
            m = mods[st["n"]]
            code = o["code"]
            codes[st["n"]] = code
            if m["fault"] == "mutoff" and code != 98:
                yield ("elem-offset-mutable-global", {}, "step %d: element offset global.get of a mutable import accepted (class %d)" % (si, code), si)
            if code == 98:
                continue
            curt = o.get("curt") or {}
            bad = [i for i, im in enumerate(m["imports"]) if not spec_import_ok(im, (o.get("cur") or {}).get(str(i), -1), live, curt.get(str(i), -1))]
            accepted = code not in LINK_ERR
            if accepted and bad:
                im = m["imports"][bad[0]]
                if im["kind"] == 2 and im["xkind"] == 2 and im.get("shared", False) != im.get("xshared", False):
                    yield ("accepts-spec-rejects", {"extern": 2, "what": "shared-flag"},
                           "step %d: memory import declared %s accepted against an exported memory that is %s (limits import %s, export %s)"
                           % (si, "shared" if im.get("shared") else "not shared", "shared" if im.get("xshared") else "not shared",
                              (im["min"], im["hasmax"], im["max"]), (im["xmin"], im["xhasmax"], im["xmax"])), si)
                elif im["kind"] == 2 and im["xkind"] == 2 and im["hasmax"] and not im["xhasmax"] and im["max"] >= limit:
                    yield ("memory-import-max-vs-unbounded", {}, "step %d: memory import with max %d accepted against an exporter without max" % (si, im["max"]), si)
                else:
                    yield ("accepts-spec-rejects", {"extern": im["kind"]}, "step %d: import %s accepted, extern_match rejects it" % (si, im), si)
            if not accepted and not bad:
                # "exactly when": a rejection of a link whose imports all match is a defect (e.g. a confused function type). One
                # class has a sig of its own: a table import's minimum judged against the exporter's DECLARED minimum instead
                # of the table's current size (witness w-table-grown: the table grew before it was imported).
                grown = [(i, im) for i, im in enumerate(m["imports"]) if im["kind"] == 1 and im["xkind"] == 1 and im["xmin"] < im["min"] <= curt.get(str(i), -1)]
                if code == 4 and grown:
                    i, im = grown[0]
                    yield ("rejects-spec-accepts", {"extern": 1, "what": "table-current-size"},
                           "step %d: table import %d (min %d) of an exported table declared with min %d that has %d elements now is rejected (%s); the external type of a table "
                           "instance has its CURRENT size as minimum (as resolveImports does for memories), so the import matches" % (si, i, im["min"], im["xmin"], curt[str(i)], o.get("err")), si)
                else:
                    yield ("rejects-valid-link", {"class": code}, "step %d: class %d although every import matches its export (%s)" % (si, code, o.get("err")), si)
            if code == 0:
                live.add(st["n"])
                continue
            # a failed instantiation: earlier instances are as before, except for the partial writes the specification mandates
            for n in sorted(live):
                pre, post = snaps.get(("pre", st["n"], n)), None
                for sj in range(si + 1, len(c["steps"])):
                    s2 = c["steps"][sj]
                    if s2["k"] != "snap" or s2.get("tag") != "post" or s2.get("of", 0) != st["n"]: break
                    if s2["n"] == n and not obs[sj].get("skip"): post = obs[sj]
                if pre is None or post is None or code == 31:
                    continue
                if pre["globals"] != post["globals"] or pre["pages"] != post["pages"]:
                    yield ("failed-instantiation-frame", {"class": code}, "step %d: instance %d globals/pages changed by a failed instantiation" % (si, n), si)
                want = memdict(pre)
                if code == 30 and mods[n]["memof"] == m["memof"] and m["memof"] >= 0:
                    for seg in (m["datas"] or [])[:o["failidx"]]:
                        for j, b in enumerate(seg[1:]):
                            want[seg[0] + j] = b
                if {a: v for a, v in want.items() if v} != memdict(post):
                    yield ("failed-instantiation-frame", {"class": code},
                           "step %d: instance %d memory after the failed instantiation is not (before + the data segments preceding the failing one)" % (si, n), si)


def live_oracle(c, st, o, si):
    """The property on one live-frame probe: instance st.n's frame touches the shared object, calls out, and while that
    frame is live the object is written (dir cw) / read (dir cr) by another instance, the same instance re-entered, or
    the host. The objects are the exporter's objects themselves, not copies, so: the value the frame reads after the
    call is the last value written to the object by ANYONE (cw); what anyone reads during the call is what the frame
    wrote last (cr); a growth performed during the call is visible to the frame (size, and the new cells are accessible).
    And it is THE object that grows, nothing else: of all tables and memories of all instances (sizes read from every
    instance before and after the call) those that are the shared object by design have size min(before + growth attempts,
    max) afterwards, in every instance's index space, and every other one keeps its size."""
    L = st["live"]
    sig = {"object": L["kind"], "dir": L["dir"]}
    what = ("%s, live frame in instance %d (%s of the object)%s, %s by %s through hops %s (instances %s%s), first instruction %s, before the call: %s, loop %d, grow %s%s, "
            "call engine of the writer's code vs the writer: %s"
            % (L["kind"], L["mods"][0], L["reader"], (", entered by the host through instance %d (%s)" % (L["entry"], L["entryvia"])) if L.get("entry", -1) >= 0 else "",
               "written" if L["dir"] == "cw" else "read", L["writer"], L["path"], L["mods"], (", shared table at index %s there" % L["tidx"]) if L.get("tidx") else "",
               L["first"], L["touch"], L["loop"], L["grow"], (", slot written by table.%s" % L["wmode"]) if L.get("wmode") else "", L.get("ctx")))
    if o.get("trap"):
        yield ("live-frame-visibility", sig, "step %d: %s: the call trapped (%s); no instruction on the path can trap" % (si, what, o["trap"]), si)
        return
    res = o.get("res") or []
    for i, v in zip(L["expidx"], L["expval"]):
        if i >= len(res) or res[i] != v:
            yield ("live-frame-visibility", sig, "step %d: %s: args %s, result %d is %s, the last value written to the shared object makes it %d (all results %s)"
                   % (si, what, st.get("args"), i, res[i] if i < len(res) else None, v, res), si)
            return
    if L.get("sizeidx"):
        before, after = res[L["sizeidx"][0]], res[L["sizeidx"][1]]
        bound = L["max"] if L["max"] >= 0 else 65536
        want = min(before + L["grows"], max(bound, before))
        if after != want:
            yield ("live-frame-visibility", dict(sig, what="size"), "step %d: %s: size before the call %d, %d growth(s) by one during the call (maximum %d), size read by the frame after the call %d, expected %d"
                   % (si, what, before, L["grows"], L["max"], after, want), si)
            return
    # every table and memory of every instance, before and after
    pre = {z["n"]: z for z in o.get("pre") or []}
    grows = L["grows"] if L["dir"] == "cw" else 0
    bound = L["max"] if L["max"] >= 0 else 65536
    for z in o.get("post") or []:
        b, mo = pre.get(z["n"]), c["mods"][z["n"]]
        if b is None: continue
        idents = mo.get("tabs") or []
        objs = [("table %d" % ti, L["kind"] == "tab" and ti < len(idents) and idents[ti] == L["obj"], x, y, idents[ti] if ti < len(idents) else None)
                for ti, (x, y) in enumerate(zip(b["tabs"], z["tabs"]))]
        objs.append(("memory", L["kind"] == "mem" and mo["memof"] == L["obj"][0], b["pages"], z["pages"], mo["memof"]))
        if len(b["tabs"]) != len(z["tabs"]): objs.append(("number of tables", False, len(b["tabs"]), len(z["tabs"]), None))
        for name, shared, x, y, ident in objs:
            want = min(x + grows, max(bound, x)) if shared else x
            if y != want:
                yield ("live-frame-visibility", dict(sig, what="size"),
                       "step %d: %s: %s of instance %d (%s, by design %s) has size %d before and %d after the call, expected %d (%d growth(s) by one of the shared object, maximum %d); all sizes before %s, after %s"
                       % (si, what, name, z["n"], "the shared object" if shared else "NOT the shared object", ident, x, y, want, grows, L["max"], o.get("pre"), o.get("post")), si)
                return


def is_reexport_call(c, si):
    """the step is a call of / through a function the instance imports: the class of the repaired compiler defect 5c1e7ea"""
    if si is None or si < 0: return False
    st = c["steps"][si]
    return st["k"] == "call" and (st.get("tag") == "reexport" or st["f"] < c["mods"][st["n"]]["nimpf"])


def hazard_before(c, si):
    """some call at or before step si goes through an import whose exporter imports functions itself: exactly the calls
    the repaired defect 5c1e7ea sent to the wrong function (possibly silently, so that the state diverges only later)"""
    if si is None or si < 0: return False
    for st in c["steps"][:si + 1]:
        if st["k"] != "call": continue
        if st.get("tag") == "reexport": return True
        m = c["mods"][st["n"]]
        if st["f"] < m["nimpf"]:
            im = [i for i in m["imports"] if i["kind"] == 0][st["f"]]
            if im["mod"] < len(c["mods"]) and c["mods"][im["mod"]]["nimpf"] > 0: return True
    return False


def engines_differ(c):
    a, b = c["engines"]["interp"], c["engines"]["compiler"]
    keys = ("skip", "code", "res", "trap", "globals", "mem", "pages", "pre", "post", "curt")
    for si, (x, y) in enumerate(zip(a, b)):
        if "exhaust" in (x.get("trap"), y.get("trap")): return None
        px, py = {k: x.get(k) for k in keys}, {k: y.get(k) for k in keys}
        if px != py:
            return si, "step %d %s: interpreter %s, compiler %s" % (si, c["steps"][si], str(px)[:300], str(py)[:300])
    return None


def bump(d, k): d[k] = d.get(k, 0) + 1


def run(tier, seed):
    ck = Check("C04", tier, seed)
    ck.trusted += ["coq/Rt/LinkLive.v (host functions of the live-frame family as HReenter; the host's own writes through api.MutableGlobal / api.Memory are modelled as re-entering the exported setter), harness/c04/live.go",
                   "tools/go2coq (memoryBytesNumToPages, MemoryPagesToBytesNum, newMemorySizer regenerated on every run)",
                   "hand transcription of resolveImports / instantiate / applyElements / applyData / the constant-expression validators into coq/Rt/Linking.v, tied by the correspondence run",
                   "coq/Wasm/Sem.v (reference semantics W), coq/Rt/LinkCheck.v, harness/c04 (generator, encoder, Coq printer), checks/c04.py (oracle)"]
    ck.assumptions += ["value types i32/i64 and funcref tables only; in the graphs replayed on W one memory and one table per module, no passive segments, ref.null element entries only in witness w-elem-null, "
                       "table.grow only in witness w-table-grown (model: Rt/LinkCheck.v tab_grow on the store); the live-frame family's table graphs (several tables per module, "
                       "table.set/grow/fill/copy/init, passive segments) are outside W (engines + oracle only)",
                       "at most one incompatible import per generated module (resolveImports iterates a Go map: with several, the reported error class is not deterministic)",
                       "default page limit (65536) in the run; the theorem takes the limit as a parameter and assumes declared maxima within it",
                       "closing an exporter while importers are live is C09/C10, not this property"]
    proofs_ok = ck.proofs()
    n = 90 if tier == "quick" else 6000
    nlive = 36 if tier == "quick" else 2500
    binp, log = build_harness("c04")
    if not binp:
        ck.violation("harness-build", {"kind": "build"}, {"log": log[-3000:]}, no_input=True)
        return ck.finish()
    rc, out = sh([binp, "-seed", str(seed), "-n", str(n), "-nlive", str(nlive)], timeout=3000)
    lines = [json.loads(l) for l in out.split("\n") if l.startswith("{")]
    cases = [l for l in lines if "aux" not in l]
    aux = [l for l in lines if "aux" in l]
    if rc != 0 or not cases:
        ck.violation("harness-crash", {"kind": "crash"}, {"rc": rc, "tail": out[-3000:]})
        return ck.finish()
    dist = {"instantiations": {}, "import_variants": {}, "probes": {"mem": 0, "global": 0, "table": 0, "table-null": 0}, "calls": 0, "traps": {}, "skipped_steps": 0,
            "stricter_than_spec": 0, "model_out_of_fuel": 0, "elem_oob_ignored": 0,
            "memory_sharedness": {"graphs_with_threads": 0, "import_shared/export_shared": {}, "import_shared/export_unshared": {}, "import_unshared/export_shared": {}, "import_unshared/export_unshared": {}},
            "live": {"graphs": 0, "witness_graphs": 0, "probes": 0, "modelled_in_W": 0, "engines_and_oracle_only": 0, "owner_frame_direct_call_global": 0,
                     "object": {}, "direction": {}, "live_frame_of": {}, "touched_by": {}, "hops": {}, "first_instruction": {}, "before_call": {}, "path": {},
                     "looped": 0, "with_growth": 0, "instances_per_graph": {}, "host_functions": {},
                     "index_spaces": {"graphs_with_blind_instance": 0, "entered_through": {}, "enter_function_reaches_probe_by": {}, "table_slot_written_by(copy falls back to set in an instance with a single table)": {},
                                      "call_engine_vs_writer(all probes)": {}, "call_engine_vs_writer(growing probes)": {}, "shared_table_index_per_instance": {},
                                      "tables_per_instance": {}, "instances_with_private_memory_not_seeing_shared": 0,
                                      "probes_where_instances_on_path_bind_shared_table_at_different_indices": 0}}}
    shown = set()

    def viol(kind, sig, c, eng, si, detail, no_input=False):
        # a compiler-only anomaly on a call of an imported function is the (repaired) re-export defect coming back
        if (c.get("fam") != "live" and eng in ("compiler", None) and (is_reexport_call(c, si) or hazard_before(c, si))
                and (kind in ("engines-disagree", "unusable-after") or kind == "model-differs")):
            if not any(w[3] == si for w in oracle(c, "interp", c["engines"]["interp"])):
                kind, sig, no_input = "reexported-import-host-call", {"kind": "reexported-import-host-call"}, False
        key = json.dumps(sig, sort_keys=True)
        if key in shown: return
        shown.add(key)
        detail = dict(detail, case=c["id"], witness=c.get("witness"), engine=eng, step_index=si, step=(c["steps"][si] if si is not None and si >= 0 else None),
                      mods=[dict(n=m["n"], fault=m["fault"], imports=m["imports"], wasm=m.get("wasm"), host=m.get("host", False)) for m in c["mods"]])
        if c.get("fam") == "live":   # the concrete graph (above), its host functions, and the call sequence up to the failing step
            detail["host_functions"] = c.get("hosts")
            detail["call_sequence"] = [dict(k=s2["k"], instance=s2["n"], function=s2.get("f"), args=s2.get("args"),
                                            interp={k2: ox.get(k2) for k2 in ("code", "res", "trap") if ox.get(k2) not in (None, "")},
                                            compiler={k2: oy.get(k2) for k2 in ("code", "res", "trap") if oy.get(k2) not in (None, "")})
                                       for s2, ox, oy in list(zip(c["steps"], c["engines"].get("interp") or [], c["engines"].get("compiler") or []))[:(si + 1 if si is not None and si >= 0 else 0)]
                                       if s2["k"] != "snap"]
        ck.violation(kind, sig, detail, no_input=no_input)

    nontrivial = 0
    items, owner, defs = [], [], []          # histories replayed through Rt/LinkCheck.v
    litems, lowner, ldefs = [], [], []       # live-frame histories replayed through Rt/LinkLive.v
    nhist = 0
    for ci, c in enumerate(cases):
        c["limit"] = c.get("limit", 65536)
        for eng in ("interp", "compiler"):
            obs = c["engines"].get(eng)
            if not obs:
                viol("engine-error", {"kind": "engine-error", "engine": eng}, c, eng, None, {}); continue
            nhist += 1
            if c.get("fam") == "live":
                if not c.get("nomodel"):
                    txt, idx = coq_actions(c, obs, ci)
                    litems.append(txt); lowner.append((ci, eng, idx)); ldefs.append(coq_mod_defs(c, ci))
            else:
                txt, idx = coq_actions(c, obs, ci)
                items.append(txt); owner.append((ci, eng, idx)); defs.append(coq_mod_defs(c, ci))
            for kind, extra, text, si in oracle(c, eng, obs):
                sig = dict(kind=kind, **extra)
                if kind == "rejects-valid-link": dist["stricter_than_spec"] += 1
                if kind in ("rejects-valid-link", "shared-object", "failed-instantiation-frame", "unusable-after", "accepts-spec-rejects", "init-not-current", "live-frame-visibility"): sig["engine"] = eng
                viol(kind, sig, c, eng, si, {"oracle": text})
        d = engines_differ(c)
        if d:
            viol("engines-disagree", {"kind": "engines-disagree"}, c, None, d[0], {"oracle": d[1]})
        obs = c["engines"].get("compiler") or []
        okprobe = 0
        if c.get("threads"): dist["memory_sharedness"]["graphs_with_threads"] += 1
        if c.get("fam") == "live":
            dl = dist["live"]
            dl["graphs"] += 1
            if c.get("witness"): dl["witness_graphs"] += 1
            bump(dl["instances_per_graph"], str(sum(1 for m in c["mods"] if not m.get("host"))))
            dx = dl["index_spaces"]
            if c.get("blind"): dx["graphs_with_blind_instance"] += 1
            kind0 = next((s2["live"]["kind"] for s2 in c["steps"] if s2.get("live")), None)
            obj0 = next((s2["live"]["obj"] for s2 in c["steps"] if s2.get("live")), None)
            for m in c["mods"]:
                if m.get("host"): continue
                if kind0 == "tab":
                    bump(dx["tables_per_instance"], str(len(m.get("tabs") or [])))
                    bump(dx["shared_table_index_per_instance"], str((m.get("tabs") or []).index(obj0)) if obj0 in (m.get("tabs") or []) else "not visible")
                if kind0 == "mem" and m["memof"] >= 0 and m["memof"] != obj0[0]: dx["instances_with_private_memory_not_seeing_shared"] += 1
            for h in c.get("hosts") or []: bump(dl["host_functions"], h["kind"])
        for st, o in zip(c["steps"], obs):
            if o.get("skip"): dist["skipped_steps"] += 1; continue
            if st["k"] == "hinst": continue
            if st.get("live"):
                L, dl = st["live"], dist["live"]
                dl["probes"] += 1; okprobe += 1
                dl["modelled_in_W" if L["model"] else "engines_and_oracle_only"] += 1
                for key, val in (("object", L["kind"]), ("direction", L["dir"]), ("live_frame_of", L["reader"]), ("touched_by", L["writer"]), ("hops", str(L["hops"])),
                                 ("first_instruction", L["first"]), ("before_call", L["touch"]), ("path", L["path"])):
                    bump(dl[key], val)
                dx = dl["index_spaces"]
                bump(dx["entered_through"], "the probe's own instance" if L.get("entry", -1) < 0 else "another instance")
                if L.get("entry", -1) >= 0: bump(dx["enter_function_reaches_probe_by"], L["entryvia"])
                if L.get("wmode"): bump(dx["table_slot_written_by(copy falls back to set in an instance with a single table)"], "table." + L["wmode"])
                bump(dx["call_engine_vs_writer(all probes)"], L.get("ctx"))
                if L["grow"]: bump(dx["call_engine_vs_writer(growing probes)"], L.get("ctx"))
                if len(set(t for t in (L.get("tidx") or []) if t >= 0)) > 1: dx["probes_where_instances_on_path_bind_shared_table_at_different_indices"] += 1
                if L["loop"]: dl["looped"] += 1
                if L["grow"]: dl["with_growth"] += 1
                if L["kind"] in ("g32", "g64") and L["reader"] == "owner" and L["first"] == "call" and L["dir"] == "cw": dl["owner_frame_direct_call_global"] += 1
            if st["k"] == "inst":
                m = c["mods"][st["n"]]
                key = "%s:%d" % (m["fault"], o["code"])
                dist["instantiations"][key] = dist["instantiations"].get(key, 0) + 1
                for im in m["imports"]:
                    if im["kind"] == 2 and im["xkind"] == 2 and o["code"] != 98:
                        bump(dist["memory_sharedness"]["import_%s/export_%s" % ("shared" if im.get("shared") else "unshared", "shared" if im.get("xshared") else "unshared")], str(o["code"]))
                    if im["variant"] != "ok":
                        key = "%s/%s:%d" % (["func", "table", "memory", "global"][im["kind"]], im["variant"], o["code"])
                        dist["import_variants"][key] = dist["import_variants"].get(key, 0) + 1
            elif st["k"] == "call":
                dist["calls"] += 1
                if o.get("trap"): dist["traps"][o["trap"]] = dist["traps"].get(o["trap"], 0) + 1
                if st.get("probe") and not st.get("live"):
                    dist["probes"][st["probe"]] += 1; okprobe += 1
        if okprobe >= 2: nontrivial += 1
    ck.cases = nhist
    ck.distinct = nontrivial
    # a re-exported imported HOST function called from Go: "imported functions ... are the exporter's objects themselves
    # ... on both engines identically" — the call must reach the host function on both engines
    dist["aux_observations"] = {a["aux"]: a["engines"] for a in aux}
    for a in aux:
        if a["aux"] == "lookup-imported-function":
            for eng, what in a["engines"].items():
                if not what.startswith("ok"):
                    ck.violation("lookup-imported-function", {"kind": "lookup-imported-function", "engine": eng},
                                 {"what": "experimental/table.LookupFunction(B, table 0, slot 0) where the slot holds B's imported function A.f1", "engines": a["engines"]})
        if a["aux"] == "shared-table-sibling-instances":
            for eng, what in a["engines"].items():
                if not what.startswith("ok"):
                    ck.violation("sibling-instances-shared-table", {"kind": "sibling-instances-shared-table", "engine": eng},
                                 {"what": "one compiled module instantiated twice (i1, i2) importing T's table; each writes its own `get` (reads its own global) into slot 0; "
                                          "i1.set(11); i2.set(22); calls through slot 0 by call_indirect (ind) and return_call_indirect (tail) from both instances", "engines": a["engines"]})
        if a["aux"] == "start-section-names-imported-host-function":
            for eng, what in a["engines"].items():
                if not what.startswith("ok"):
                    ck.violation("reexported-host-function-direct-call", {"kind": "reexported-host-function-direct-call", "engine": eng, },
                                 {"module": "(module (import \"env\" \"h0\" (func)) (start 0))", "engines": a["engines"]})
        if a["aux"] == "reexported-host-function-called-from-go":
            for eng, what in a["engines"].items():
                if not what.startswith("ok"):
                    ck.violation("reexported-host-function-direct-call", {"kind": "reexported-host-function-direct-call", "engine": eng},
                                 {"module": "(module (import \"env\" \"h\" (func (param i32))) (export \"h\" (func 0)))",
                                  "call": "m.ExportedFunction(\"h\").Call(ctx, 7)", "engines": a["engines"]})
    ck.dist = dist
    ck.samples = [dict(id=c["id"], witness=c.get("witness"), mods=[dict(n=m["n"], fault=m["fault"], imports=[(i["kind"], i["variant"]) for i in m["imports"]]) for m in c["mods"]],
                       steps=[(s["k"], s["n"], s.get("role")) for s in c["steps"][:12]]) for c in cases[:6]]
    ck.extra["rule"] = ("generated graphs (exporter, 1-2 importers each optionally preceded by a faulty variant, plus 11 fixed witnesses, among them w-grown / w-table-grown: the exporter's memory / table "
                        "grows (memory.grow / table.grow) before an importer declares the current size as its minimum (must be accepted) and one more (must be rejected), and w-elem-null: an importer's "
                        "active element segment puts ref.null over a non-null slot of the shared table) x interleaved calls/probes/snapshots x both engines; "
                        "every engine history is replayed through Rt/Linking.v instantiate + W (coq/Rt/LinkCheck.v: instantiation class vs code_accept AND vs extern_match, call results, "
                        "per-instance globals/memory/pages) and judged by the Python oracle (spec import predicate, write-here/read-there probes, captured initial values, "
                        "frame of failed instantiations, engine agreement); non-trivial = at least two probes ran across live instances. "
                        "Live-frame family (6 fixed witness graphs: the seeded-defect graph for i32 and i64, every reader x writer x first-instruction combination per object kind; then random graphs): "
                        "a host module + 3-5 instances; a frame touches a shared mutable global / memory cell / table slot, calls out (call of an import or call_indirect through the shared table, 1-3 hops "
                        "through other instances, the table or host functions), the object is written or read meanwhile by another instance, the same instance re-entered, or the host "
                        "(api.MutableGlobal / api.Memory), possibly grown, and is read again in the same frame; globals and memory are also replayed on W (Rt/LinkLive.v: host functions re-enter), "
                        "table slots are engine-vs-engine + oracle; oracle: the value read after the call is the last value written by anyone. "
                        "Index spaces differ between the instances of a graph: in table graphs every instance has 0-5 tables, the shared one at index 0, 1 or 2 next to private tables defined there or "
                        "imported from earlier instances (in either order), or not at all; a last 'blind' instance never sees the object and has a private memory / table / globals at the indices where "
                        "the others have the shared one; about half of the probes are entered through an 'enter' function of another instance (often the blind one) that calls the probe directly, "
                        "through the table or through the host, so the instance whose call engine runs differs from the instance whose code writes / grows / executes ref.func; the slot is written by "
                        "table.set / table.fill / table.init (passive segment) / table.copy (from a private table), all with explicit table indices; the sizes of EVERY table and memory of EVERY instance "
                        "are read before and after each probe: the shared object has min(before + growth attempts, max) in every instance's index space, everything else keeps its size")
    ev, err = eval_link("c04", items, defs)
    if err:
        ck.violation("model-eval", {"kind": "model-eval"}, {"err": err}, no_input=True)
    lev, err = eval_link("c04live", litems, ldefs, shard=8, fn="live_events", typ="livecase") if litems else ([], None)
    if err:
        ck.violation("model-eval", {"kind": "model-eval", "family": "live"}, {"err": err}, no_input=True)
    for k, ai, kind, val in [(k, ai, kind, val, ) for k, ai, kind, val in ev] + [(-1 - k, ai, kind, val) for k, ai, kind, val in lev]:
        ci, eng, idx = owner[k] if k >= 0 else lowner[-1 - k]
        c = cases[ci]
        si = idx[ai] if ai < len(idx) else -1
        st = c["steps"][si] if si >= 0 else None
        o = c["engines"][eng][si] if si >= 0 else None
        if kind == 7:
            dist["model_out_of_fuel"] += 1
        elif kind == 6:
            pass  # rejected although extern_match accepts: counted by the oracle as a note
        elif kind == 8:
            dist["elem_oob_ignored"] += 1
            viol("elem-oob-ignored", {"kind": "elem-oob-ignored"}, c, eng, si,
                 {"model": "an active element segment is out of range; store.go applyElements ends silently and the instantiation goes on (class %d) where the specification traps" % o["code"]})
        elif kind == 5:
            m = c["mods"][st["n"]]
            ims = [im for im in m["imports"] if im["kind"] == 2 and im["xkind"] == 2 and im["hasmax"] and not im["xhasmax"] and im["max"] >= c["limit"]]
            if ims:
                viol("memory-import-max-vs-unbounded", {"kind": "memory-import-max-vs-unbounded"}, c, eng, si, {"model": "Coq extern_match rejects an import that resolveImports accepts", "imports": ims})
            else:
                viol("accepts-spec-rejects", {"kind": "accepts-spec-rejects", "engine": eng, "extern": -1}, c, eng, si, {"model": "Coq extern_match rejects an accepted import", "obs": o})
        else:
            m = c["mods"][st["n"]] if st else None
            if st and st["k"] == "inst" and m["fault"] == "mutoff":
                viol("elem-offset-mutable-global", {"kind": "elem-offset-mutable-global"}, c, eng, si, {"model_class": val, "obs": o})
                continue
            if st and st["k"] == "inst" and kind == 0 and val == 0 and o["code"] == 4:
                ct = o.get("curt") or {}
                if any(im["kind"] == 1 and im["xkind"] == 1 and im["xmin"] < im["min"] <= ct.get(str(i), -1) for i, im in enumerate(m["imports"])):
                    # the model judges a table import against the table's current size (Rt/Linking.v code_accept), the code does not
                    viol("rejects-spec-accepts", {"kind": "rejects-spec-accepts", "extern": 1, "what": "table-current-size"}, c, eng, si,
                         {"model": "Rt/Linking.v code_accept (table minimum vs the CURRENT size, = the specification) accepts; resolveImports answers class 4 (compares with the declared minimum)", "obs": o})
                    continue
            why = [w for w in oracle(c, eng, c["engines"][eng]) if w[0] not in DEVIATIONS]
            viol("model-differs", {"kind": "model-differs", "engine": eng, "what": EVENT_NAMES.get(kind, str(kind))}, c, eng, si,
                 {"model_value": val, "obs": o, "coq": [x["coq"][:3000] for x in c["mods"]], "oracle": [w[2] for w in why][:3]}, no_input=not why)
    if not proofs_ok and not any(not v["no_input"] for v in ck.violations):
        ck.violation("proof-broken", {"kind": "proof-broken"}, getattr(ck, "proof_failure", {}), no_input=True)
    return ck.finish()
