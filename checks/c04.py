"""C04 — linked modules share state exactly as the specification says."""
import json
from vcheck import *
from wcommon import *

LINK_ERR = {1, 2, 3, 4, 5, 6, 7, 8, 20, 21}
EVENT_NAMES = {0: "instantiate-class", 1: "call-result", 2: "snapshot-globals", 3: "snapshot-memory", 4: "snapshot-pages"}


def coq_actions(c, obs):
    """(Coq text of the action list, step index of every action) for one engine's run."""
    acts, idx = [], []
    for si, (st, o) in enumerate(zip(c["steps"], obs)):
        if o.get("skip"):
            continue
        k = st["k"]
        if k == "inst":
            acts.append("AInst %s %d" % (c["mods"][st["n"]]["coq"], o["code"]))
        elif k == "call":
            ob = ("OTrap %d" % trap_code(o["trap"])) if o.get("trap") else ("ORes " + zl(o.get("res") or []))
            acts.append("ACall %d %d %s (%s)" % (st["n"], st["f"], zl(st.get("args") or []), ob))
        else:
            mem = "; ".join("(%d, %d)" % (a, v) for a, v in (o.get("mem") or []))
            acts.append("ASnap %d %s [%s] (%d)" % (st["n"], zl(o.get("globals") or []), mem, o["pages"]))
        idx.append(si)
    return "(%d, [\n %s])" % (c["limit"], ";\n ".join(acts)), idx


def eval_link(name, items, shard=12, workers=10):
    """evaluate link_events over the cases in parallel shards; (events, error text or None)"""
    from concurrent.futures import ThreadPoolExecutor

    def one(s):
        part = items[s:s + shard]
        v = ("From Coq Require Import ZArith List. Import ListNotations.\n"
             "From Verif Require Import Wasm.Numerics Wasm.Sem Wasm.Harness Rt.Linking Rt.LinkCheck.\nOpen Scope Z_scope.\n"
             "Definition cases : list lcase := [\n" + ";\n".join(part) + "].\n"
             "Definition M := Eval vm_compute in link_events 0 cases.\nPrint M.\n")
        rc, o = coq_eval("%s_%d" % (name, s), v, timeout=900)
        lst = parse_zlist(o, "M")
        if rc != 0 or lst is None:
            return s, None, "coq evaluation failed (rc %d): %s" % (rc, o[-1500:])
        return s, lst, None

    ev, err = [], None
    with ThreadPoolExecutor(max_workers=workers) as ex:
        for s, lst, e in ex.map(one, range(0, len(items), shard)):
            if e:
                err = err or e
                continue
            for i in range(0, len(lst), 4):
                ev.append((s + lst[i], lst[i + 1], lst[i + 2], lst[i + 3]))
    return ev, err


# ---------------------------------------------------------------- the specification as a Python predicate
def limits_match(amin, ahm, amax, imin, ihm, imax):
    return amin >= imin and ((not ihm) or (ahm and amax <= imax))


def spec_import_ok(im, cur, live):
    if im["mod"] not in live or im["xkind"] != im["kind"]:
        return False
    k = im["kind"]
    if k == 0: return im["sig"] == im["xsig"]
    if k == 1: return im["elem"] == im["xelem"] and limits_match(im["xmin"], im["xhasmax"], im["xmax"], im["min"], im["hasmax"], im["max"])
    if k == 2: return limits_match(cur, im["xhasmax"], im["xmax"], im["min"], im["hasmax"], im["max"])
    return im["mut"] == im["xmut"] and im["vt"] == im["xvt"]


def memdict(o): return {a: v for a, v in (o.get("mem") or [])}


def oracle(c, eng, obs, limit):
    """The property on one engine's observations alone. Yields (kind, sig-extras, text)."""
    live = set()
    mods = c["mods"]
    snaps = {}  # (tag, of, n) -> obs
    for si, (st, o) in enumerate(zip(c["steps"], obs)):
        if o.get("skip"): continue
        k = st["k"]
        if k == "snap":
            snaps[(st.get("tag"), st.get("of", 0), st["n"])] = o
        elif k == "call":
            t = o.get("trap") or ""
            if t.startswith("other") or t == "gopanic":
                yield ("unusable-after", {}, "step %d: call on instance %d failed outside the WebAssembly trap classes: %s %s" % (si, st["n"], t, o.get("err")))
            if st.get("expect") is not None:
                if (o.get("res") or [None])[0] != st["expect"]:
                    m = mods[st.get("of", 0)]
                    if st["probe"] == "table" and m["fault"] == "data":
                        yield ("data-before-elements", {}, "step %d: element segment of the instantiation that failed on a data segment is not in the shared table: %s" % (si, o))
                    else:
                        yield ("shared-object", {"object": st["probe"]}, "step %d: %s written through one instance, read through instance %d: expected %d, observed %s" % (si, st["probe"], st["n"], st["expect"], o))
        elif k == "inst":
            m = mods[st["n"]]
            code = o["code"]
            if m["fault"] == "mutoff" and code != 98:
                yield ("elem-offset-mutable-global", {}, "step %d: element offset global.get of a mutable import accepted (class %d)" % (si, code))
            if code == 98:
                continue
            bad = [i for i, im in enumerate(m["imports"]) if not spec_import_ok(im, (o.get("cur") or {}).get(str(i), -1), live)]
            accepted = code not in LINK_ERR
            if accepted and bad:
                im = m["imports"][bad[0]]
                if im["kind"] == 2 and im["xkind"] == 2 and im["hasmax"] and not im["xhasmax"] and im["max"] >= limit:
                    yield ("memory-import-max-vs-unbounded", {}, "step %d: memory import with max %d accepted against an exporter without max" % (si, im["max"]))
                else:
                    yield ("accepts-spec-rejects", {"extern": im["kind"]}, "step %d: import %s accepted, extern_match rejects it" % (si, im))
            if not accepted and not bad:
                yield ("note-stricter", {}, "step %d: class %d although every import matches (%s)" % (si, code, o.get("err")))
            if code == 0:
                live.add(st["n"])
                continue
            # a failed instantiation: earlier instances are as before, except for the partial writes the specification mandates
            for n in sorted(live):
                pre, post = snaps.get(("pre", st["n"], n)), None
                for sj in range(si + 1, len(c["steps"])):
                    s2 = c["steps"][sj]
                    if s2["k"] != "snap" or s2.get("tag") != "post" or s2.get("of", 0) != st["n"]: break
                    if s2["n"] == n and not obs[sj].get("skip"): post = obs[sj]
                if pre is None or post is None or code == 31:
                    continue
                if pre["globals"] != post["globals"] or pre["pages"] != post["pages"]:
                    yield ("failed-instantiation-frame", {"class": code}, "step %d: instance %d globals/pages changed by a failed instantiation" % (si, n))
                want = memdict(pre)
                if code == 30 and mods[n]["memof"] == m["memof"] and m["memof"] >= 0:
                    for seg in (m["datas"] or [])[:o["failidx"]]:
                        for j, b in enumerate(seg[1:]):
                            want[seg[0] + j] = b
                if {a: v for a, v in want.items() if v} != memdict(post):
                    yield ("failed-instantiation-frame", {"class": code}, "step %d: instance %d memory after the failed instantiation is not (before + the data segments preceding the failing one)" % (si, n))


def engines_differ(c):
    a, b = c["engines"]["interp"], c["engines"]["compiler"]
    for si, (x, y) in enumerate(zip(a, b)):
        if "exhaust" in (x.get("trap"), y.get("trap")): return None
        px = {k: x.get(k) for k in ("skip", "code", "res", "trap", "globals", "mem", "pages")}
        py = {k: y.get(k) for k in ("skip", "code", "res", "trap", "globals", "mem", "pages")}
        if px != py:
            return "step %d %s: interpreter %s, compiler %s" % (si, c["steps"][si], str(px)[:300], str(py)[:300])
    return None


def run(tier, seed):
    ck = Check("C04", tier, seed)
    ck.trusted += ["tools/go2coq (memoryBytesNumToPages, MemoryPagesToBytesNum, newMemorySizer regenerated on every run)",
                   "hand transcription of resolveImports / instantiate / applyElements / applyData into coq/Rt/Linking.v, tied by the correspondence run",
                   "coq/Wasm/Sem.v (reference semantics W), coq/Rt/LinkCheck.v, harness/c04 (generator, encoder, Coq printer), checks/c04.py (oracle)"]
    ck.assumptions += ["value types i32/i64 and funcref tables only; one memory and one table per module; no table.grow/table.set, no passive segments",
                       "at most one incompatible import per generated module (resolveImports iterates a Go map: with several, the reported error class is not deterministic)",
                       "closing an exporter while importers are live is C09/C10, not this property"]
    proofs_ok = ck.proofs()
    n = 110 if tier == "quick" else 4000
    binp, log = build_harness("c04")
    if not binp:
        ck.violation("harness-build", {"kind": "build"}, {"log": log[-3000:]}, no_input=True)
        return ck.finish()
    rc, out = sh([binp, "-seed", str(seed), "-n", str(n)], timeout=3000)
    cases = [json.loads(l) for l in out.split("\n") if l.startswith("{")]
    if rc != 0 or not cases:
        ck.violation("harness-crash", {"kind": "crash"}, {"rc": rc, "tail": out[-3000:]})
        return ck.finish()
    dist = {"instantiations": {}, "import_variants": {}, "probes": {"mem": 0, "global": 0, "table": 0}, "calls": 0, "traps": {}, "skipped_steps": 0,
            "stricter_than_spec": 0, "model_out_of_fuel": 0, "elem_oob_ignored": 0}
    shown = {}

    def viol(kind, sig, detail, **kw):
        # the witness of the re-exported-import defect: whatever goes wrong there under the compiler is that defect
        if detail.get("witness") == "w-reexport" and (sig.get("engine", "compiler") == "compiler") and kind not in ("elem-oob-ignored", "memory-import-max-vs-unbounded"):
            kind, sig = "reexported-import-host-call", {"kind": "reexported-import-host-call"}
            kw.pop("no_input", None)
        key = json.dumps(sig, sort_keys=True)
        if shown.get(key, 0) >= 1: return
        shown[key] = shown.get(key, 0) + 1
        ck.violation(kind, sig, detail, **kw)

    nontrivial = 0
    items, owner = [], []
    for ci, c in enumerate(cases):
        c["limit"] = c.get("limit", 65536)
        for eng in ("interp", "compiler"):
            obs = c["engines"].get(eng)
            if not obs:
                viol("engine-error", {"kind": "engine-error", "engine": eng}, {"case": c["id"]}); continue
            txt, idx = coq_actions(c, obs)
            items.append(txt); owner.append((ci, eng, idx))
            for kind, extra, text in oracle(c, eng, obs, c["limit"]):
                if kind == "note-stricter":
                    dist["stricter_than_spec"] += 1
                    if len(ck.notes) < 30 and dist["stricter_than_spec"] <= 3: ck.note("stricter than the specification (allowed): " + text)
                    continue
                sig = dict(kind=kind, **extra)
                if kind in ("shared-object", "failed-instantiation-frame", "unusable-after", "accepts-spec-rejects"): sig["engine"] = eng
                viol(kind, sig, {"oracle": text, "case": c["id"], "witness": c.get("witness"), "engine": eng,
                                 "mods": [dict(n=m["n"], fault=m["fault"], imports=m["imports"], wasm=m["wasm"]) for m in c["mods"]], "steps": c["steps"][:60]})
        d = engines_differ(c)
        if d:
            viol("engines-disagree", {"kind": "engines-disagree"}, {"oracle": d, "case": c["id"], "witness": c.get("witness"), "mods": [m["wasm"] for m in c["mods"]]})
        # distribution
        obs = c["engines"].get("compiler") or []
        okprobe = 0
        for st, o in zip(c["steps"], obs):
            if o.get("skip"): dist["skipped_steps"] += 1; continue
            if st["k"] == "inst":
                m = c["mods"][st["n"]]
                key = "%s:%d" % (m["fault"], o["code"])
                dist["instantiations"][key] = dist["instantiations"].get(key, 0) + 1
                for im in m["imports"]:
                    if im["variant"] != "ok":
                        key = "%s/%s:%d" % (["func", "table", "memory", "global"][im["kind"]], im["variant"], o["code"])
                        dist["import_variants"][key] = dist["import_variants"].get(key, 0) + 1
            elif st["k"] == "call":
                dist["calls"] += 1
                if o.get("trap"): dist["traps"][o["trap"]] = dist["traps"].get(o["trap"], 0) + 1
                if st.get("probe"):
                    dist["probes"][st["probe"]] += 1; okprobe += 1
        if okprobe >= 2: nontrivial += 1
    ck.cases = len(items)
    ck.distinct = nontrivial
    ck.dist = dist
    ck.samples = [dict(id=c["id"], witness=c.get("witness"), mods=[dict(n=m["n"], fault=m["fault"], imports=[(i["kind"], i["variant"]) for i in m["imports"]]) for m in c["mods"]],
                       steps=[(s["k"], s["n"], s.get("role")) for s in c["steps"][:12]]) for c in cases[:5]]
    ck.extra["rule"] = ("generated graphs (exporter, 1-2 importers each optionally preceded by a faulty variant, plus 4 fixed witnesses) x interleaved calls/probes/snapshots x both engines; "
                        "every engine history is replayed through Rt/Linking.v instantiate + W (coq/Rt/LinkCheck.v) and judged by the Python oracle; "
                        "non-trivial = at least two write-here/read-there probes ran across live instances")
    ev, err = eval_link("c04", items)
    if err:
        viol("model-eval", {"kind": "model-eval"}, {"err": err}, no_input=True)
    for k, ai, kind, val in ev:
        ci, eng, idx = owner[k]
        c = cases[ci]
        si = idx[ai] if ai < len(idx) else -1
        st = c["steps"][si] if si >= 0 else None
        if kind == 7:
            dist["model_out_of_fuel"] += 1
        elif kind == 6:
            pass  # counted by the oracle
        elif kind == 8:
            dist["elem_oob_ignored"] += 1
            viol("elem-oob-ignored", {"kind": "elem-oob-ignored"},
                 {"model": "an active element segment is out of range; store.go applyElements ends silently and the instantiation goes on (class %d) where the specification traps" % c["engines"][eng][si]["code"],
                  "case": c["id"], "witness": c.get("witness"), "step": st, "wasm": c["mods"][st["n"]]["wasm"]})
        elif kind == 5:
            m = c["mods"][st["n"]]
            o = c["engines"][eng][si]
            ims = [im for i, im in enumerate(m["imports"]) if im["kind"] == 2 and im["xkind"] == 2 and im["hasmax"] and not im["xhasmax"] and im["max"] >= c["limit"]]
            if ims:
                viol("memory-import-max-vs-unbounded", {"kind": "memory-import-max-vs-unbounded"}, {"model": "Coq extern_match rejects an import that resolveImports accepts", "case": c["id"], "imports": ims})
            else:
                viol("accepts-spec-rejects", {"kind": "accepts-spec-rejects", "engine": eng, "extern": -1}, {"model": "Coq extern_match rejects an accepted import", "case": c["id"], "imports": m["imports"], "obs": o})
        else:
            m = c["mods"][st["n"]] if st else None
            if st and st["k"] == "inst" and m["fault"] == "mutoff":
                viol("elem-offset-mutable-global", {"kind": "elem-offset-mutable-global"}, {"model_class": val, "obs": c["engines"][eng][si], "case": c["id"]})
                continue
            why = list(oracle(c, eng, c["engines"][eng], c["limit"]))
            why = [w for w in why if w[0] != "note-stricter"]
            viol("model-differs", {"kind": "model-differs", "engine": eng, "what": EVENT_NAMES.get(kind, str(kind))},
                 {"model_value": val, "step_index": si, "step": st, "obs": (c["engines"][eng][si] if si >= 0 else None), "case": c["id"], "witness": c.get("witness"),
                  "mods": [dict(n=x["n"], fault=x["fault"], wasm=x["wasm"], coq=x["coq"][:4000]) for x in c["mods"]], "oracle": [w[2] for w in why][:3]},
                 no_input=not why)
    if not proofs_ok and not any(not v["no_input"] for v in ck.violations):
        ck.violation("proof-broken", {"kind": "proof-broken"}, getattr(ck, "proof_failure", {}), no_input=True)
    return ck.finish()
