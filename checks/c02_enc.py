"""C02, direct stream D: the BYTES of amd64 memory operands. The real encodeEncMem / encodeRegMem / encodeEncEnc /
encodeRegReg and the real (*machine).Encode (harness/c02/enc.go + x_enc_export.go) against Engine/X86Enc.v:
(1) the bytes are compared with encode_mem / encode_rr evaluated inside Coq, (2) they are DECODED inside Coq by the
SDM decoder of X86Enc.v and the result compared with the operand that went in, (3) the same by an independent
restatement of the instruction format in Python (the oracle), (4) when GNU objdump is installed, the mov/lea
instances are disassembled by it and its reading of the operand compared as well (third-party reading of the format)."""
import json, os, random, re, shutil
from vcheck import *
from c02_amode import eval_shards, zc

M32 = (1 << 32) - 1
REGS64 = ["rax", "rcx", "rdx", "rbx", "rsp", "rbp", "rsi", "rdi", "r8", "r9", "r10", "r11", "r12", "r13", "r14", "r15"]
REGS32 = ["eax", "ecx", "edx", "ebx", "esp", "ebp", "esi", "edi"] + ["r%dd" % i for i in range(8, 16)]
PFX = {0: [], 1: [0x66], 2: [0xf0], 3: [0x66, 0xf0], 4: [0xf2], 5: [0xf3]}
KINDS = {0: "reg-reg", 1: "imm(base)", 2: "imm(rbp)", 3: "imm(base,index,scale)", 4: "rip-relative"}


def sext(v, n):
    v &= (1 << n) - 1
    return v - (1 << n) if v >> (n - 1) else v


# ---- the instruction format, restated in Python (Intel SDM vol. 2 ch. 2) ----
LEGACY = {0x66, 0xf0, 0xf2, 0xf3}
OTHER_PFX = {0x26, 0x2e, 0x36, 0x3e, 0x64, 0x65, 0x67}
VEX = {0xc4, 0xc5, 0x62}


def py_decode(bs):
    """bs: list of ints. returns dict(prefixes,w,opcode,reg,rm,len) or None"""
    i = 0
    pfx = []
    while i < len(bs) and bs[i] in LEGACY:
        pfx.append(bs[i]); i += 1
    rex = 0x40
    if i < len(bs) and 0x40 <= bs[i] <= 0x4f:
        rex = bs[i]; i += 1
    if i >= len(bs): return None
    b0 = bs[i]
    if b0 in LEGACY or b0 in OTHER_PFX or 0x40 <= b0 <= 0x4f or b0 in VEX: return None
    if b0 == 0x0f:
        if i + 1 >= len(bs): return None
        n = 3 if bs[i + 1] in (0x38, 0x3a) else 2
    else:
        n = 1
    if i + n > len(bs): return None
    opc = bs[i:i + n]; i += n
    if i >= len(bs): return None
    modrm = bs[i]; i += 1
    mod, regf, rm = modrm >> 6, (modrm >> 3) & 7, modrm & 7
    W, R, X, B = (rex >> 3) & 1, (rex >> 2) & 1, (rex >> 1) & 1, rex & 1
    out = dict(prefixes=pfx, w=bool(W), opcode=opc, reg=R * 8 + regf)
    if mod == 3:
        out["rm"] = ("reg", B * 8 + rm)
    else:
        base, index, rip = None, None, False
        dsize = {0: 0, 1: 1, 2: 4}[mod]
        if rm == 4:
            if i >= len(bs): return None
            sib = bs[i]; i += 1
            ss, idx, bb = sib >> 6, (sib >> 3) & 7, sib & 7
            if not (idx == 4 and X == 0): index = (X * 8 + idx, ss)
            if bb == 5 and mod == 0: dsize = 4
            else: base = B * 8 + bb
        elif rm == 5 and mod == 0:
            rip, dsize = True, 4
        else:
            base = B * 8 + rm
        if i + dsize > len(bs): return None
        d = sext(int.from_bytes(bytes(bs[i:i + dsize]), "little"), 8 * dsize) if dsize else 0
        i += dsize
        out["rm"] = ("rip", d) if rip else ("mem", base, index, d)
    if i > 15: return None
    out["len"] = i
    return out


def opcode_bytes(opcodes, n): return [(opcodes >> (8 * k)) & 0xff for k in range(n - 1, -1, -1)]


def opcode_wf(ops):
    if not ops: return False
    b0 = ops[0]
    if b0 in LEGACY or b0 in OTHER_PFX or 0x40 <= b0 <= 0x4f or b0 in VEX: return False
    if b0 == 0x0f:
        if len(ops) < 2: return False
        return len(ops) == (3 if ops[1] in (0x38, 0x3a) else 2)
    return len(ops) == 1


def want_rm(i):
    k = i["kind"]
    if k == 0: return ("reg", i["rm"])
    if k == 1: return ("mem", i["base"], None, sext(i["imm"], 32))
    if k == 2: return ("mem", 5, None, sext(i["imm"], 32))
    if k == 3: return ("mem", i["base"], (i["index"], i["shift"]), sext(i["imm"], 32))
    return ("rip", 0)


def want_of(c):
    i = c["in"]
    return dict(prefixes=PFX.get(i["prefix"], []), w=bool(i["rex"] & 1), opcode=opcode_bytes(i["opcodes"], i["opnum"]), reg=i["r"],
                rm=want_rm(i), len=len(c["raw"]))


def should_panic(i): return i["prefix"] > 5 or (i["kind"] == 3 and i["index"] == 4)


def disp_class(i):
    if i["kind"] in (0, 4): return "-"
    d = sext(i["imm"], 32)
    return "zero" if d == 0 else ("disp8" if -128 <= d <= 127 else "disp32")


# ---- Coq terms ----
def blist(bs): return "[" + "; ".join(str(b) for b in bs) + "]"


def coq_amode(i):
    k = i["kind"]
    if k == 1: return "XImmReg %s %d" % (zc(i["imm"]), i["base"])
    if k == 2: return "XImmRBP %s" % zc(i["imm"])
    if k == 3: return "XRegRegShift %s %d %d %d" % (zc(i["imm"]), i["base"], i["index"], i["shift"])
    return "XRipRel %s" % zc(i["imm"])


def coq_xcase(c):
    i = c["in"]
    return ("{| xc_ri := %d; xc_p := %d; xc_opcodes := %s; xc_n := %d%%nat; xc_r := %d; xc_a := %s; xc_rr := %s; xc_panic := %s; xc_bytes := %s; xc_rest := %s |}"
            % (i["rex"], i["prefix"], zc(i["opcodes"]), i["opnum"], i["r"], coq_amode(i) if i["kind"] else "XRipRel 0",
               "Some %d" % i["rm"] if i["kind"] == 0 else "None", "true" if c["out"].get("panic") else "false", blist(c["raw"]), blist(c["rest"])))


def coq_rm(rm):
    if rm[0] == "reg": return "OReg %d" % rm[1]
    if rm[0] == "rip": return "OMem (MRip %s)" % zs(rm[1])
    _, b, ix, d = rm
    return "OMem (MAddr %s %s %s)" % ("None" if b is None else "(Some %d)" % b, "None" if ix is None else "(Some (%d, %d))" % ix, zs(d))


def zs(v): return zc(v) if v >= 0 else "(zn %d)" % (-v)


ENC_HEADER = ("From Coq Require Import ZArith List Uint63. Import ListNotations.\n"
              "From Verif Require Import Lib.CaseNum Engine.X86Enc.\nOpen Scope Z_scope.\n")
CODES = {1: "the real encoder panics where the model does not (or the reverse)",
         2: "the real bytes, read by the SDM decoder, do not denote the prefixes / REX.W / opcode / reg / operand that went in, or another number of bytes",
         3: "the real bytes denote the same operand but differ from the model's bytes"}
SCODES = {2: "an instruction of the buffer does not decode to the instruction that went in (or a rip-relative operand misses its label)",
          5: "bytes left over after the last instruction", 6: "fuel"}


# ---- sequences through the real Encode ----
def seq_expected(it):
    op = it["op"]
    if op == "load64": pf, w, opc = [], True, [0x8b]
    elif op == "store":
        pf, w, opc = {1: ([], False, [0x88]), 2: ([0x66], False, [0x89]), 4: ([], False, [0x89]), 8: ([], True, [0x89])}[it["size"]]
    elif op == "movdqu": pf, w, opc = [0xf3], False, [0x0f, 0x6f]
    else: raise ValueError(op)
    return dict(prefixes=pf, w=w, opcode=opc, reg=it["reg"], rm=want_rm(it["am"]), rip=it["am"]["kind"] == 4, label=it.get("label", 0))


def seq_oracle(s):
    """None when the buffer is the list of instructions that went in; else a reason"""
    buf = list(bytes.fromhex(s["code"]))
    off, placed, uses = 0, {}, []
    for k, it in enumerate(s["items"]):
        if it["op"] == "label":
            placed[it["label"]] = off; continue
        e = seq_expected(it)
        d = py_decode(buf[off:])
        if d is None: return "item %d at offset %d does not decode" % (k, off)
        nxt = off + d["len"]
        if e["rip"]:
            if d["rm"][0] != "rip": return "item %d: operand %r, expected rip-relative" % (k, d["rm"])
            uses.append((k, e["label"], nxt + d["rm"][1]))
        elif d["rm"] != e["rm"]:
            return "item %d at offset %d: operand %r, expected %r" % (k, off, d["rm"], e["rm"])
        for f in ("prefixes", "w", "opcode", "reg"):
            if d[f] != e[f]: return "item %d at offset %d: %s %r, expected %r" % (k, off, f, d[f], e[f])
        off = nxt
    if off != len(buf): return "%d bytes left over" % (len(buf) - off)
    for l, o in placed.items():
        if s["labels"][l] != o: return "label %d recorded at %d, placed at %d" % (l, s["labels"][l], o)
    for k, l, tgt in uses:
        if tgt != placed[l]: return "item %d: rip-relative operand addresses offset %d, its label %d is at %d" % (k, tgt, l, placed[l])
    return None


def coq_scase(s):
    items = []
    for it in s["items"]:
        if it["op"] == "label": continue
        e = seq_expected(it)
        items.append("{| si_prefixes := %s; si_w := %s; si_opcode := %s; si_reg := %d; si_rm := %s; si_target := %s |}"
                     % (blist(e["prefixes"]), "true" if e["w"] else "false", blist(e["opcode"]), e["reg"], coq_rm(e["rm"]),
                        "Some %d" % s["labels"][e["label"]] if e["rip"] else "None"))
    return "{| sc_buf := %s; sc_items := [%s] |}" % (blist(list(bytes.fromhex(s["code"]))), "; ".join(items))


# ---- GNU objdump as a third reading of the format ----
def parse_intel_mem(txt):
    """'[rbx+rcx*4+0x10]' -> ('mem', base, index, disp) with register numbers; '[rip+0x0]' -> ('rip', d)"""
    base, index, d, rip = None, None, 0, False
    try:
        for sign, term in re.findall(r"([+-]?)([^+-]+)", txt):
            term = term.strip()
            if "*" in term:
                r, sc = term.split("*")
                if r != "riz": index = (REGS64.index(r), {1: 0, 2: 1, 4: 2, 8: 3}[int(sc)])   # riz: objdump's name for "no index"
            elif term == "rip": rip = True
            elif term in REGS64: base = REGS64.index(term)
            else: d = int(term, 16) * (-1 if sign == "-" else 1)
    except (ValueError, KeyError):
        return ("unparsed", txt)
    if d >= 1 << 63: d -= 1 << 64   # objdump prints a negative rip-relative displacement as a 64-bit number
    return ("rip", d) if rip else ("mem", base, index, d)


def objdump_lines(path):
    od = shutil.which("objdump")
    if not od: return None
    rc, out = sh([od, "-D", "-b", "binary", "-mi386:x86-64", "-M", "intel", "-w", path], timeout=120)
    lines = {}
    for l in out.split("\n"):
        m = re.match(r"\s*([0-9a-f]+):\s+((?:[0-9a-f]{2} )+)\s*(.*)$", l)
        if m: lines[int(m.group(1), 16)] = (len(m.group(2).split()), m.group(3).strip())
    return lines if rc == 0 and lines else None


def decoder_selftest(seed, viol, dist):
    """the trusted decoder against itself: EVERY ModRM (mod 00/01/10) x SIB x REX.X/B form of `mov r, m` (also the forms
    the encoder never emits: no base, no index, absolute, redundant displacements) with random reg / REX.W/R / displacement
    is read by the Coq decoder, by the Python restatement and by objdump; all three must agree"""
    rnd = random.Random(seed * 104729 + 7)
    forms = []
    for mod in (0, 1, 2):
        for rm in range(8):
            for xb in range(4):
                for sib in (range(256) if rm == 4 else [None]):
                    rex = 0x40 | rnd.randrange(4) << 2 | xb
                    bs = ([rex] if rex != 0x40 or rnd.random() < 0.3 else []) + [0x8b, mod << 6 | rnd.randrange(8) << 3 | rm] + ([sib] if sib is not None else [])
                    nd_ = {0: 4 if (rm == 5 or (sib is not None and sib & 7 == 5)) else 0, 1: 1, 2: 4}[mod]
                    bs += [rnd.choice([0, 0x7f, 0x80, 0xff, rnd.randrange(256)]) for _ in range(nd_)]
                    forms.append(bs)
    dist["decoder_selftest_forms"] = len(forms)
    decs = [py_decode(f + [0x90] * 4) for f in forms]
    bad = [f for f, d in zip(forms, decs) if d is None or d["len"] != len(f)]
    if bad:
        viol("enc-decoder-selftest", {"kind": "check-bug", "stream": "enc"}, {"why": "the Python decoder does not consume exactly the bytes of a well-formed instruction", "bytes": bytes(bad[0]).hex()}, no_input=True); return
    items = ["{| sc_buf := %s; sc_items := [{| si_prefixes := []; si_w := %s; si_opcode := [139]; si_reg := %d; si_rm := %s; si_target := None |}] |}"
             % (blist(f), "true" if d["w"] else "false", d["reg"], coq_rm(d["rm"])) for f, d in zip(forms, decs)]
    mm, err = eval_shards("c02_encself", items, ENC_HEADER, "smismatches", shard=800)
    if err: viol("model-eval", {"kind": "model-eval", "stream": "enc"}, {"err": err}, no_input=True)
    for k, code in mm:
        viol("enc-decoder-selftest", {"kind": "check-bug", "stream": "enc"}, {"why": "the Coq decoder and the Python decoder read different instructions", "bytes": bytes(forms[k]).hex(), "python": decs[k], "code": code}, no_input=True)
    path = os.path.join(WORK, "cases", "c02_enc_selftest.bin")
    open(path, "wb").write(b"".join(bytes(f) + b"\x90" * (16 - len(f)) for f in forms) + b"\x90" * 16)
    lines = objdump_lines(path)
    if lines is None:
        dist["decoder_selftest_objdump"] = "objdump not available"; return
    n = 0
    for k, (f, d) in enumerate(zip(forms, decs)):
        got = lines.get(16 * k)
        why = None
        if got is None or got[0] != len(f): why = "objdump reads %r" % (got,)
        else:
            m = re.search(r"\[([^\]]+)\]", got[1]) or re.search(r"ds:(0x[0-9a-f]+)", got[1])
            rd = parse_intel_mem(m.group(1)) if m else None
            if rd and rd[0] == "mem" and "ds:" in got[1] and "[" not in got[1]: rd = ("mem", None, None, sext(rd[3], 32))
            if rd != d["rm"]: why = "objdump reads the operand %r in %r" % (rd, got[1])
            elif not re.search(r"(^|[\s,])%s($|[\s,])" % (REGS64 if d["w"] else REGS32)[d["reg"]], got[1].split(",")[0] + ","): why = "objdump reads another register in %r" % got[1]
        if why:
            viol("enc-decoder-selftest", {"kind": "check-bug", "stream": "enc"}, {"why": why, "bytes": bytes(f).hex(), "python_and_coq": d}, no_input=True)
        n += 1
    dist["decoder_selftest_objdump"] = n


def objdump_check(cases, viol, dist):
    od = shutil.which("objdump")
    if not od:
        dist["objdump"] = "not installed"; return
    sel = [c for c in cases if not c["out"].get("panic") and c["in"]["kind"] != 0 and c["in"]["prefix"] == 0 and c["in"]["opnum"] == 1
           and c["in"]["opcodes"] in (0x8b, 0x8d, 0x89, 0x03, 0x3b)]
    if not sel: return
    path = os.path.join(WORK, "cases", "c02_enc_objdump.bin")
    offs, blob = [], b""
    for c in sel:   # 16-byte slots padded with nops: a misread instruction cannot desynchronise the following ones
        offs.append(len(blob)); blob += bytes(c["raw"]) + b"\x90" * (16 - len(c["raw"]))
    open(path, "wb").write(blob + b"\x90" * 16)
    lines = objdump_lines(path)
    if lines is None:
        dist["objdump"] = "failed"; return
    n = 0
    for c, o in zip(sel, offs):
        i = c["in"]
        got = lines.get(o)
        why = None
        if got is None: why = "no instruction starts at the offset where this one was placed"
        elif got[0] != len(c["raw"]): why = "objdump reads an instruction of %d bytes, %d were emitted" % (got[0], len(c["raw"]))
        else:
            m = re.search(r"\[([^\]]+)\]", got[1])
            regs = (REGS64 if i["rex"] & 1 else REGS32)
            if not m: why = "no memory operand in %r" % got[1]
            elif parse_intel_mem(m.group(1)) != want_rm(i): why = "objdump reads the operand %r" % (parse_intel_mem(m.group(1)),)
            elif not re.search(r"(^|[\s,])%s($|[\s,])" % regs[i["r"]], got[1].replace("[" + m.group(1) + "]", "")):
                why = "objdump does not read the register %s" % regs[i["r"]]
        if why:
            viol("enc-objdump-differs", {"kind": "enc-objdump-differs", "amode": KINDS[i["kind"]], "class": disp_class(i)},
                 {"why": why, "expected_operand": want_rm(i), "objdump": got, "tuple": i, "bytes": c["bytes"]})
        n += 1
    dist["objdump_checked"] = n


def run(ck, binp, seed, tier, viol):
    n, nseq = (1500, 60) if tier == "quick" else (60000, 1500)
    rc, out = sh([binp, "-mode", "enc", "-seed", str(seed), "-n", str(n), "-nseq", str(nseq)], timeout=600)
    recs = jlines(out)
    cases = [r for r in recs if r.get("t") == "enc"]
    seqs = [r for r in recs if r.get("t") == "seq"]
    if rc != 0 or not cases or not seqs:
        viol("enc-process-fault", {"kind": "process-fault", "stream": "enc"}, {"rc": rc, "tail": out[-3000:]})
        return 0, 0, {}, []
    rnd = random.Random(seed * 7919 + 13)
    dist = {"tuples": len(cases), "groups": {}, "amode_kinds": {}, "displacement_class": {}, "special_bases": {"rsp": 0, "r12": 0, "rbp": 0, "r13": 0},
            "index_r8_r15": 0, "base_r8_r15": 0, "reg_r8_r15": 0, "shifts": {}, "rex_info": {}, "legacy_prefix": {}, "opcode_bytes": {}, "expected_panics": 0,
            "through_regEnc_wrappers": 0, "encoded_lengths": {}, "mod_field": {}, "with_sib": 0, "with_rex": 0,
            "sequences": len(seqs), "sequence_instructions": 0, "rip_relative_in_sequences": 0, "rip_backward": 0, "rip_forward": 0}
    def bump(d, k): d[k] = d.get(k, 0) + 1
    # ---- oracle: the property on the implementation's bytes, by the Python restatement of the format ----
    for c in cases:
        i = c["in"]
        c["raw"] = list(bytes.fromhex(c["bytes"]))
        c["rest"] = [rnd.choice([0x24, 0x25, 0x05, 0x04, 0x0f, 0x66, 0x48, 0x00, 0xff, rnd.randrange(256)]) for _ in range(rnd.randrange(0, 7))]
        bump(dist["groups"], c["group"]); bump(dist["amode_kinds"], KINDS[i["kind"]]); bump(dist["displacement_class"], disp_class(i))
        bump(dist["rex_info"], {0: "none", 1: "W", 2: "always", 3: "W+always"}[i["rex"] & 3]); bump(dist["legacy_prefix"], str(i["prefix"])); bump(dist["opcode_bytes"], str(i["opnum"]))
        if i["via"]: dist["through_regEnc_wrappers"] += 1
        if i["kind"] in (1, 2, 3):
            b = 5 if i["kind"] == 2 else i["base"]
            if REGS64[b] in dist["special_bases"]: dist["special_bases"][REGS64[b]] += 1
            if b >= 8: dist["base_r8_r15"] += 1
        if i["kind"] == 3:
            bump(dist["shifts"], str(i["shift"]))
            if i["index"] >= 8: dist["index_r8_r15"] += 1
        if i["r"] >= 8: dist["reg_r8_r15"] += 1
        sig = {"kind": "enc-wrong-operand", "amode": KINDS[i["kind"]], "class": disp_class(i)}
        ops = opcode_bytes(i["opcodes"], i["opnum"])
        if not opcode_wf(ops) and not should_panic(i):
            viol("enc-generator", {"kind": "check-bug", "stream": "enc"}, {"why": "generated opcode bytes are not one opcode", "tuple": i}, no_input=True); continue
        if should_panic(i):
            dist["expected_panics"] += 1
            if not c["out"].get("panic"):
                viol("enc-missing-panic", dict(sig, kind="enc-missing-panic"), {"why": "the encoder accepted rsp as index / an invalid prefix", "tuple": i, "bytes": c["bytes"]})
            continue
        if c["out"].get("panic"):
            viol("enc-panic", dict(sig, kind="enc-panic"), {"panic": c["out"]["panic"], "tuple": i}); continue
        o = c["out"]
        if i["kind"] != 0:
            ok = o["akind"] == i["kind"] and (i["kind"] != 3 or o["ashift"] == i["shift"]) and bool(o.get("needs_label")) == (i["kind"] == 4)
            if i["kind"] in (1, 2, 3):
                b = 5 if i["kind"] == 2 else i["base"]
                ok = ok and o.get("bname") == REGS64[b] and o["benc"] == b
            if i["kind"] == 3: ok = ok and o.get("iname") == REGS64[i["index"]] and o["ienc"] == i["index"]
            if not ok:
                viol("enc-register-table", dict(sig, kind="enc-register-table"),
                     {"why": "amode constructor / regNames / regEncodings / needsLabelResolution disagree with the tuple (x86 register numbering rax rcx rdx rbx rsp rbp rsi rdi r8..r15)", "tuple": i, "out": o})
        want = want_of(c)
        got = py_decode(c["raw"] + c["rest"])
        c["oracle_ok"] = got == want
        if not c["oracle_ok"]:
            viol("enc-wrong-operand", sig, {"why": "the emitted bytes do not denote the operand that was encoded", "tuple": i, "bytes": c["bytes"], "followed_by": bytes(c["rest"]).hex(),
                                            "decoded": got, "expected": want})
        if got and c["oracle_ok"]:
            bump(dist["encoded_lengths"], str(got["len"]))
            np_ = len(want["prefixes"])
            has_rex = 0x40 <= c["raw"][np_] <= 0x4f
            modrm = c["raw"][np_ + (1 if has_rex else 0) + len(ops)]
            bump(dist["mod_field"], format(modrm >> 6, "02b"))
            if (modrm >> 6) != 3 and (modrm & 7) == 4: dist["with_sib"] += 1
            if has_rex: dist["with_rex"] += 1
    for s in seqs:
        dist["sequence_instructions"] += sum(1 for it in s["items"] if it["op"] != "label")
        if s.get("panic"):
            viol("enc-seq-panic", {"kind": "enc-seq-panic"}, {"panic": s["panic"], "case": s}); s["oracle"] = "panic"; continue
        s["oracle"] = seq_oracle(s)
        off = 0
        buf = list(bytes.fromhex(s["code"]))
        for it in s["items"]:
            if it["op"] == "label": continue
            d = py_decode(buf[off:])
            if not d: break
            off += d["len"]
            if it["am"]["kind"] == 4:
                dist["rip_relative_in_sequences"] += 1
                dist["rip_backward" if d["rm"][0] == "rip" and d["rm"][1] < 0 else "rip_forward"] += 1
        if s["oracle"]:
            viol("enc-seq-wrong", {"kind": "enc-seq-wrong", "rip": "rip-relative" in s["oracle"] or "label" in s["oracle"]},
                 {"why": s["oracle"], "items": s["items"], "code": s["code"], "labels": s["labels"]})
    objdump_check(cases, viol, dist)
    decoder_selftest(seed, viol, dist)
    # ---- model vs real, and the Coq decoder on the real bytes ----
    mism, err = eval_shards("c02_enc", [coq_xcase(c) for c in cases], ENC_HEADER, "xmismatches", shard=800)
    if err:
        viol("model-eval", {"kind": "model-eval", "stream": "enc"}, {"err": err}, no_input=True)
    for k, code in mism:
        c = cases[k]
        i = c["in"]
        bad = code == 2 or (code == 1 and bool(c["out"].get("panic")) != should_panic(i))
        if code == 2 and c.get("oracle_ok"):   # the two decoders disagree: a bug of one of them, not of the encoder
            viol("enc-decoders-disagree", {"kind": "check-bug", "stream": "enc"}, {"coq": coq_xcase(c), "tuple": i, "bytes": c["bytes"]}, no_input=True); continue
        viol("enc-differs-from-model" if not bad else "enc-wrong-operand-coq",
             {"kind": "enc-differs-from-model" if not bad else "enc-wrong-operand", "code": code, "amode": KINDS[i["kind"]], "class": disp_class(i)},
             {"code": code, "meaning": CODES.get(code), "tuple": i, "bytes": c["bytes"], "followed_by": bytes(c["rest"]).hex(), "coq": coq_xcase(c)}, no_input=not bad)
    good = [s for s in seqs if not s.get("panic")]
    smism, err = eval_shards("c02_encseq", [coq_scase(s) for s in good], ENC_HEADER, "smismatches", shard=100)
    if err:
        viol("model-eval", {"kind": "model-eval", "stream": "enc"}, {"err": err}, no_input=True)
    for k, code in smism:
        s = good[k]
        viol("enc-seq-wrong-coq", {"kind": "enc-seq-wrong", "code": code}, {"code": code, "meaning": SCODES.get(code), "python_oracle": s["oracle"], "items": s["items"], "code_bytes": s["code"],
                                                                          "labels": s["labels"]}, no_input=not s["oracle"])
    distinct = len(set(c["bytes"] + json.dumps(c["in"], sort_keys=True) for c in cases)) + len(set(s["code"] for s in seqs))
    samples = [dict(stream="enc", tuple=c["in"], bytes=c["bytes"], decoded=py_decode(c["raw"] + c["rest"]) if not c["out"].get("panic") else c["out"]["panic"]) for c in cases[2:4] + cases[-1:]]
    return len(cases) + len(seqs), distinct, dist, samples
