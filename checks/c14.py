"""C14 — memory size, growth and host memory API follow the limits exactly."""
import json, os
from vcheck import *

GUEST_OPS = {"ggrow", "gsize", "gload", "gstore"}


def coq_op(op):
    k = op[0]
    if k in ("ggrow", "hgrow"): return "OGrow %d" % op[1]
    if k in ("pages", "gsize"): return "OPages"
    if k == "size": return "OSizeBytes"
    if k == "read": return "ORead %d %d" % (op[1], op[2])
    if k == "readr": return "OReadRegion %d %d" % (op[1], op[2])
    if k == "write": return "OWrite %d %d %d" % (op[1], op[2], op[3])
    if k == "writer": return "OWriteRegion %d [%s]" % (op[1], "; ".join(str(b) for b in op[2:]))
    if k == "gload": return "ORead 1 %d" % op[1]
    if k == "gstore": return "OWrite 1 %d %d" % (op[1], op[2])
    raise ValueError(k)


def coq_obs(o):
    if o[0] == "ok": return "Ok %d" % o[1]
    if o[0] == "fail": return "Fail"
    return "Panic"


def coq_bool(b): return "true" if b else "false"


def coq_case(c):
    cf = c["cfg"]
    cfg = "{| c_min := %d; c_hasmax := %s; c_max := %d; c_limit := %d; c_capmax := %s; c_alloc := %s |}" % (
        cf["min"], coq_bool(cf["hasmax"]), cf["max"], cf["limit"], coq_bool(cf["capmax"]), coq_bool(cf["alloc"]))
    ops = "; ".join(coq_op(o) for o in c["ops"]) if c["accepted"] else ""
    obs = "; ".join(coq_obs(o) for o in (c.get("obs") or [])) if c["accepted"] else ""
    return "(%s, %s, [%s], [%s])" % (cfg, coq_bool(c["accepted"]), ops, obs)


def oracle(c):
    """The property evaluated on the implementation's observations alone (no model):
    returns a description of the first op that contradicts the statement, or None."""
    cf = c["cfg"]
    bound = min(cf["max"], cf["limit"]) if cf["hasmax"] else cf["limit"]
    valid = cf["min"] <= bound and (not cf["hasmax"] or (cf["min"] <= cf["max"] <= 65536)) and cf["limit"] <= 65536
    if c["accepted"] != valid:
        return "configuration %s: accepted=%s but the declared limits are %s" % (cf, c["accepted"], "valid" if valid else "invalid")
    if not c["accepted"]:
        return None
    shadow = {}  # byte contents as written through successful writes
    pg = cf["min"]  # the oracle keeps its own page count: the host's Grow(0) is one of the things under test
    for j, (op, ob) in enumerate(zip(c["ops"], c["obs"])):
        if c["pg"][j] != pg and not (c["engine"] == "compiler" and pg == 65536):
            return "op %d: host Grow(0) reports %d pages, %d expected from the history of successful grows" % (j, c["pg"][j], pg)
        ln = pg << 16
        if not (cf["min"] <= pg <= bound):
            return "op %d: %d pages outside [%d, %d]" % (j, pg, cf["min"], bound)
        k = op[0]
        if ob[0] not in ("ok", "fail"):
            return "op %d %s: %s" % (j, op, ob)
        if k in ("ggrow", "hgrow"):
            want = pg + op[1] <= bound
            if (ob[0] == "ok") != want or (want and ob[1] != pg):
                return "op %d: grow(%d) at %d pages (bound %d) -> %s" % (j, op[1], pg, bound, ob)
            if want: pg += op[1]
            # "exposes new pages as zero": the first byte of the new region as the host reads it right after the grow
            fr = (c.get("fresh") or [])
            if want and op[1] > 0 and j < len(fr) and fr[j] not in (0, -1) and not (c["engine"] == "compiler" and pg == 65536):
                return "op %d: grow(%d) to %d pages exposed a non-zero byte (%d) at the start of the new region" % (j, op[1], pg, fr[j])
            # a custom allocator is told about every size change: what it committed last is the memory's size
            cm = (c.get("committed") or [])
            if cf.get("alloc") and j < len(cm) and cm[j] != (pg << 16):
                return "op %d: after grow(%d) the memory has %d bytes but the custom allocator was last asked for %d" % (j, op[1], pg << 16, cm[j])
        elif k in ("pages", "gsize"):
            if ob != ["ok", pg]:
                return "op %d: %s returned %s at %d pages" % (j, k, ob, pg)
        elif k in ("read", "gload"):
            n, off = (op[1], op[2]) if k == "read" else (1, op[1])
            want = off + n <= ln
            if (ob[0] == "ok") != want:
                return "op %d: %s n=%d off=%d len=%d -> %s" % (j, k, n, off, ln, ob)
            if want:
                v = sum(shadow.get(off + i, 0) << (8 * i) for i in range(n))
                if ob[1] != v:
                    return "op %d: %s off=%d returned %d, expected %d" % (j, k, off, ob[1], v)
        elif k == "readr":
            if (ob[0] == "ok") != (op[1] + op[2] <= ln):
                return "op %d: Read(%d,%d) len=%d -> %s" % (j, op[1], op[2], ln, ob)
        elif k in ("write", "gstore", "writer"):
            if k == "write": off, bs = op[2], [(op[3] >> (8 * i)) & 255 for i in range(op[1])]
            elif k == "gstore": off, bs = op[1], [op[2] & 255]
            else: off, bs = op[1], [b & 255 for b in op[2:]]
            want = off + len(bs) <= ln
            if (ob[0] == "ok") != want:
                return "op %d: %s off=%d n=%d len=%d -> %s" % (j, k, off, len(bs), ln, ob)
            if want:
                for i, b in enumerate(bs): shadow[off + i] = b
    # guest operations made through another module: that module's own memory (3 pages) is nobody's business
    if c.get("front") and any(p != 3 for p in c.get("front_pg") or []):
        j = next(i for i, p in enumerate(c["front_pg"]) if p != 3)
        return ("the guest operations of this history were called through a front module that imports them and has a 3-page memory of its own: "
                "before op %d that memory has %d pages (sizes %s) — an operation on the memory under test changed another memory" % (j, c["front_pg"][j], c["front_pg"]))
    return None


def run(tier, seed):
    ck = Check("C14", tier, seed)
    ck.trusted += ["tools/go2coq (Go->Gallina translator for hasSize, Pages, Size, MemoryPagesToBytesNum, memoryBytesNumToPages, Memory.Validate, newMemorySizer)",
                   "hand transcription of Grow/Read*/Write* control flow in coq/Rt/MemInst.v, tied by the correspondence run",
                   "harness/c14 (Go) and checks/c14.py (case conversion, oracle)"]
    ck.assumptions += ["the experimental.MemoryAllocator used by the harness always succeeds up to max", "shared memories are not modelled",
                       "api.Memory.Size() wrapping to 0 at 65536 pages is documented behaviour, modelled as such"]
    proofs_ok = ck.proofs()
    n, huge = (160, 3) if tier == "quick" else (3000, 40)
    if not proofs_ok:
        n *= 3
    binp, log = build_harness("c14")
    if not binp:
        ck.violation("harness-build", {"kind": "build"}, {"log": log[-3000:]}, no_input=True)
        return ck.finish()
    rc, out = sh([binp, "-seed", str(seed), "-n", str(n), "-huge", str(huge)], timeout=3000)
    cases = []
    for ln in out.split("\n"):
        if ln.startswith("{"):
            cases.append(json.loads(ln))
    if rc != 0 or not cases:
        ck.violation("harness-crash", {"kind": "crash"}, {"rc": rc, "tail": out[-3000:]}, no_input=False)
        return ck.finish()
    ck.cases = len(cases)
    # distribution
    dist = {"accepted": 0, "rejected": 0, "engine": {}, "ops": {}, "outcomes": {}, "at_4GiB": 0}
    seen = set()
    for c in cases:
        dist["accepted" if c["accepted"] else "rejected"] += 1
        dist["engine"][c["engine"]] = dist["engine"].get(c["engine"], 0) + 1
        if c["accepted"]:
            if any(p == 65536 for p in c["pg"]): dist["at_4GiB"] += 1
            for op, ob in zip(c["ops"], c["obs"]):
                dist["ops"][op[0]] = dist["ops"].get(op[0], 0) + 1
                dist["outcomes"][ob[0]] = dist["outcomes"].get(ob[0], 0) + 1
        key = json.dumps([c["cfg"], c["engine"], c["ops"]], sort_keys=True)
        if c["accepted"] and len(c["ops"]) > 2: seen.add(key)
    ck.dist = dist
    ck.distinct = len(seen)
    ck.samples = [dict(cfg=c["cfg"], engine=c["engine"], ops=c["ops"][:6], obs=(c.get("obs") or [])[:6]) for c in cases[:3]]
    ck.extra["rule"] = ("boundary-dense (min,max?,limit,capacity-from-max,allocator) x grow/access histories generated from VERIF_SEED, run on both "
                        "engines; a case is non-trivial when the configuration is accepted and has more than two operations; distinct by (cfg, engine, ops)")
    # evaluate the model inside Coq in shards
    mism = []
    SH = 400
    for s in range(0, len(cases), SH):
        shard = cases[s:s + SH]
        v = ("From Verif Require Import Lib.GoInt Rt.MemInst.\nOpen Scope Z_scope.\n"
             "Definition cases : list case := [\n" + ";\n".join(coq_case(c) for c in shard) + "].\n"
             "Definition M := Eval vm_compute in mismatches 0 cases.\nPrint M.\n")
        rc, o = coq_eval("c14_%d" % s, v)
        lst = parse_zlist(o, "M")
        if rc != 0 or lst is None:
            ck.violation("model-eval", {"kind": "model-eval"}, {"rc": rc, "out": o[-2000:]}, no_input=True)
            return ck.finish()
        for i in range(0, len(lst), 2):
            mism.append((s + lst[i], lst[i + 1]))
    ck.extra["model_mismatches"] = len(mism)
    # every case is also judged by the oracle (the property on the implementation's own observations)
    reported = set()
    for idx, c in enumerate(cases):
        why = oracle(c)
        j = dict(mism).get(idx)
        if why is None and j is None:
            continue
        op = c["ops"][j] if (j is not None and j >= 0 and j < len(c["ops"])) else None
        pg = c["pg"][j] if (op is not None and j < len(c.get("pg", []))) else None
        sig = {"engine": c["engine"]}
        if op is not None and c["engine"] == "compiler" and op[0] in GUEST_OPS and pg == 65536:
            sig["kind"] = "compiler-guest-access-at-65536-pages"
        elif why is not None:
            sig["kind"] = "property-fails"
        else:
            sig["kind"] = "model-differs"
        detail = {"case": c, "model_first_diff_op": j, "oracle": why}
        key = (sig["kind"], sig["engine"])
        if key in reported and len(reported) > 6:
            continue
        reported.add(key)
        ck.violation(sig["kind"], sig, detail, no_input=(why is None and sig["kind"] == "model-differs"))
    if not proofs_ok and not any(v["kind"] == "property-fails" for v in ck.violations):
        ck.violation("proof-broken", {"kind": "proof-broken"}, getattr(ck, "proof_failure", {}), no_input=True)
    return ck.finish()
