"""C14 — memory size, growth and host memory API follow the limits exactly."""
import json, os
from vcheck import *

GUEST_OPS = {"ggrow", "gsize", "gload", "gstore"}


def coq_op(op):
    k = op[0]
    if k in ("ggrow", "hgrow"): return "OGrow %d" % op[1]
    if k in ("pages", "gsize"): return "OPages"
    if k == "size": return "OSizeBytes"
    if k == "read": return "ORead %d %d" % (op[1], op[2])
    if k == "readr": return "OReadRegion %d %d" % (op[1], op[2])
    if k == "write": return "OWrite %d %d %d" % (op[1], op[2], op[3])
    if k == "writer": return "OWriteRegion %d [%s]" % (op[1], "; ".join(str(b) for b in op[2:]))
    if k == "gload": return "ORead 1 %d" % op[1]
    if k == "gstore": return "OWrite 1 %d %d" % (op[1], op[2])
    raise ValueError(k)


def coq_obs(o):
    if o[0] == "ok": return "Ok %d" % o[1]
    if o[0] == "fail": return "Fail"
    return "Panic"


def coq_bool(b): return "true" if b else "false"


def coq_case(c):
    cf = c["cfg"]
    cfg = "{| c_min := %d; c_hasmax := %s; c_max := %d; c_limit := %d; c_capmax := %s; c_alloc := %s |}" % (
        cf["min"], coq_bool(cf["hasmax"]), cf["max"], cf["limit"], coq_bool(cf["capmax"]), coq_bool(cf["alloc"]))
    ops = "; ".join(coq_op(o) for o in c["ops"]) if c["accepted"] else ""
    obs = "; ".join(coq_obs(o) for o in (c.get("obs") or [])) if c["accepted"] else ""
    return "(%s, %s, [%s], [%s])" % (cfg, coq_bool(c["accepted"]), ops, obs)


def oracle(c):
    """The property evaluated on the implementation's observations alone (no model):
    returns a description of the first op that contradicts the statement, or None."""
    cf = c["cfg"]
    bound = min(cf["max"], cf["limit"]) if cf["hasmax"] else cf["limit"]
    valid = cf["min"] <= bound and (not cf["hasmax"] or (cf["min"] <= cf["max"] <= 65536)) and cf["limit"] <= 65536
    if c["accepted"] != valid:
        return "configuration %s: accepted=%s but the declared limits are %s" % (cf, c["accepted"], "valid" if valid else "invalid")
    if not c["accepted"]:
        return None
    shadow = {}  # byte contents as written through successful writes
    pg = cf["min"]  # the oracle keeps its own page count: the host's Grow(0) is one of the things under test
    for j, (op, ob) in enumerate(zip(c["ops"], c["obs"])):
        if c["pg"][j] != pg and not (c["engine"] == "compiler" and pg == 65536):
            return "op %d: host Grow(0) reports %d pages, %d expected from the history of successful grows" % (j, c["pg"][j], pg)
        ln = pg << 16
        if not (cf["min"] <= pg <= bound):
            return "op %d: %d pages outside [%d, %d]" % (j, pg, cf["min"], bound)
        k = op[0]
        if ob[0] not in ("ok", "fail"):
            return "op %d %s: %s" % (j, op, ob)
        if k in ("ggrow", "hgrow"):
            want = pg + op[1] <= bound
            if (ob[0] == "ok") != want or (want and ob[1] != pg):
                return "op %d: grow(%d) at %d pages (bound %d) -> %s" % (j, op[1], pg, bound, ob)
            if want: pg += op[1]
            # "exposes new pages as zero": the first byte of the new region as the host reads it right after the grow
            fr = (c.get("fresh") or [])
            if want and op[1] > 0 and j < len(fr) and fr[j] not in (0, -1) and not (c["engine"] == "compiler" and pg == 65536):
                return "op %d: grow(%d) to %d pages exposed a non-zero byte (%d) at the start of the new region" % (j, op[1], pg, fr[j])
            # a custom allocator is told about every size change: what it committed last is the memory's size
            cm = (c.get("committed") or [])
            if cf.get("alloc") and j < len(cm) and cm[j] != (pg << 16):
                return "op %d: after grow(%d) the memory has %d bytes but the custom allocator was last asked for %d" % (j, op[1], pg << 16, cm[j])
        elif k in ("pages", "gsize"):
            if ob != ["ok", pg]:
                return "op %d: %s returned %s at %d pages" % (j, k, ob, pg)
        elif k in ("read", "gload"):
            n, off = (op[1], op[2]) if k == "read" else (1, op[1])
            want = off + n <= ln
            if (ob[0] == "ok") != want:
                return "op %d: %s n=%d off=%d len=%d -> %s" % (j, k, n, off, ln, ob)
            if want:
                v = sum(shadow.get(off + i, 0) << (8 * i) for i in range(n))
                if ob[1] != v:
                    return "op %d: %s off=%d returned %d, expected %d" % (j, k, off, ob[1], v)
        elif k == "readr":
            if (ob[0] == "ok") != (op[1] + op[2] <= ln):
                return "op %d: Read(%d,%d) len=%d -> %s" % (j, op[1], op[2], ln, ob)
        elif k in ("write", "gstore", "writer"):
            if k == "write": off, bs = op[2], [(op[3] >> (8 * i)) & 255 for i in range(op[1])]
            elif k == "gstore": off, bs = op[1], [op[2] & 255]
            else: off, bs = op[1], [b & 255 for b in op[2:]]
            want = off + len(bs) <= ln
            if (ob[0] == "ok") != want:
                return "op %d: %s off=%d n=%d len=%d -> %s" % (j, k, off, len(bs), ln, ob)
            if want:
                for i, b in enumerate(bs): shadow[off + i] = b
    # guest operations made through another module: that module's own memory (3 pages) is nobody's business
    if c.get("front") and any(p != 3 for p in c.get("front_pg") or []):
        j = next(i for i, p in enumerate(c["front_pg"]) if p != 3)
        return ("the guest operations of this history were called through a front module that imports them and has a 3-page memory of its own: "
                "before op %d that memory has %d pages (sizes %s) — an operation on the memory under test changed another memory" % (j, c["front_pg"][j], c["front_pg"]))
    return None


# ------------------------------------------------------------------------------------------------
# extended cases (harness/c14/xcases.go): refusing allocator, shared memories, imported memory seen through two views

def areq_by_op(c):
    d = {}
    for k, size, ans in c.get("areq") or []:
        d.setdefault(k - 1, []).append((size, ans))
    return d


def coq_xcase(c):
    cf = c["cfg"]
    req = areq_by_op(c)
    min_ans = req[-1][0][1] == 1 if -1 in req else True
    cfg = ("{| x_c := {| c_min := %d; c_hasmax := %s; c_max := %d; c_limit := %d; c_capmax := %s; c_alloc := %s |}; "
           "x_shared := %s; x_threads := %s; x_min_ans := %s |}") % (
        cf["min"], coq_bool(cf["hasmax"]), cf["max"], cf["limit"], coq_bool(cf["capmax"]), coq_bool(cf["alloc"]),
        coq_bool(cf["shared"]), coq_bool(cf["threads"]), coq_bool(min_ans))
    ops, obs, reqs = [], [], []
    if c["status"] == 1:
        for j, (op, ob) in enumerate(zip(c["ops"], c["obs"])):
            v = coq_bool(c["view"][j] == 1)
            rs = req.get(j, [])
            if op[0] in ("ggrow", "hgrow"):
                ops.append("XGrow %s %s %d" % (v, coq_bool(rs[0][1] == 1 if rs else True), op[1]))
            else:
                ops.append("XBase %s (%s)" % (v, coq_op(op)))
            obs.append(coq_obs(ob))
            reqs.append("(%d)" % (-1 if not rs else (rs[0][0] if len(rs) == 1 else -2)))
    return "(%s, %d, [%s], [%s], [%s])" % (cfg, c["status"], "; ".join(ops), "; ".join(obs), "; ".join(reqs))


def xoracle(c):
    """The property on the observations of an extended case alone (no model). The allocator's own log (what it was asked,
    what it answered) is part of the observations: the schedule is the allocator's business."""
    cf = c["cfg"]
    bound = min(cf["max"], cf["limit"]) if cf["hasmax"] else cf["limit"]
    valid = cf["min"] <= bound and (not cf["hasmax"] or (cf["min"] <= cf["max"] <= 65536)) and cf["limit"] <= 65536
    if cf["shared"]:
        valid = valid and cf["threads"] and cf["hasmax"]
    req = areq_by_op(c)
    if c["status"] not in (0, 1, 2):
        return "set-up failed: %s" % c.get("err")
    if (c["status"] != 0) != valid:
        return "configuration %s: status=%d (%s) but the declared limits are %s" % (cf, c["status"], c.get("err"), "valid" if valid else "invalid")
    if c["status"] == 0:
        if c.get("areq"):
            return "a refused configuration reached the allocator: %s" % c["areq"]
        return None
    # instantiation: an allocator is asked once, for exactly the minimum (and told capacity <= max <= bound)
    if cf["alloc"]:
        if req.get(-1, [None])[0] is None or len(req[-1]) != 1 or req[-1][0][0] != cf["min"] << 16:
            return "instantiation: the allocator was asked %s, expected one request for %d bytes" % (req.get(-1), cf["min"] << 16)
        if (c.get("alloc_args") or [0, 0])[1] != bound << 16:
            return "instantiation: Allocate(cap,max)=%s but the maximum is %d bytes" % (c.get("alloc_args"), bound << 16)
        refused_min = req[-1][0][1] == 0 and cf["min"] > 0
    else:
        if c.get("areq"):
            return "no allocator configured but one was asked: %s" % c["areq"]
        refused_min = False
    if refused_min != (c["status"] == 2):
        return "instantiation: allocator %s the minimum of %d pages but status=%d (%s)" % (
            "refused" if refused_min else "granted", cf["min"], c["status"], c.get("err"))
    if c["status"] == 2:
        if c.get("after_panic") != "clean":
            return "instantiation failed (allocator refused the minimum) but not cleanly: %s" % c.get("after_panic")
        return None
    shadow, pg = {}, cf["min"]
    at_top = lambda: c["engine"] == "compiler" and pg == 65536    # F12 territory: what the compiled guest sees at 65536 pages
    for j, (op, ob) in enumerate(zip(c["ops"], c["obs"])):
        via = "importer" if c["view"][j] == 1 else "exporter"
        if c["pg"][j] != pg:
            return "op %d: host Grow(0) reports %d pages, %d expected from the history of successful grows" % (j, c["pg"][j], pg)
        ln = pg << 16
        k = op[0]
        if ob[0] not in ("ok", "fail"):
            return "op %d %s via %s: %s" % (j, op, via, ob)
        rs = req.get(j, [])
        if k in ("ggrow", "hgrow"):
            d = op[1]
            within = pg + d <= bound
            asked = cf["alloc"] and within and d > 0
            if asked != (len(rs) > 0) or len(rs) > 1 or (asked and rs[0][0] != (pg + d) << 16):
                return "op %d: grow(%d) at %d pages (bound %d, allocator %s): the allocator was asked %s, expected %s" % (
                    j, d, pg, bound, cf["alloc"], rs, [(pg + d) << 16] if asked else "nothing")
            refused = asked and rs[0][1] == 0
            want = within and not refused
            if (ob[0] == "ok") != want or (want and ob[1] != pg):
                return "op %d: grow(%d) via %s at %d pages (bound %d, allocator %s) -> %s" % (
                    j, d, via, pg, bound, "refused" if refused else ("agreed" if asked else "not asked"), ob)
            old = pg
            if want: pg += d
            fr = c.get("fresh") or []
            if want and d > 0 and j < len(fr) and fr[j] != 0 and not at_top():
                return "op %d: grow(%d) to %d pages exposed a non-zero byte (%d) at the start of the new region" % (j, d, pg, fr[j])
            if not want and j < len(fr) and fr[j] != -1:
                return "op %d: failed grow(%d) at %d pages changed the size" % (j, d, old)
        else:
            if rs:
                return "op %d %s: the allocator was asked %s by an operation that is not a grow" % (j, op, rs)
            if k in ("pages", "gsize"):
                if ob != ["ok", pg]:
                    return "op %d: %s via %s returned %s at %d pages" % (j, k, via, ob, pg)
            elif k == "size":
                if ob != ["ok", ln & 0xffffffff]:
                    return "op %d: Size() returned %s at %d pages" % (j, ob, pg)
            elif k in ("read", "gload"):
                n, off = (op[1], op[2]) if k == "read" else (1, op[1])
                want = off + n <= ln
                if (ob[0] == "ok") != want:
                    return "op %d: %s via %s n=%d off=%d len=%d -> %s" % (j, k, via, n, off, ln, ob)
                if want:
                    v = sum(shadow.get(off + i, 0) << (8 * i) for i in range(n))
                    if ob[1] != v:
                        return "op %d: %s via %s off=%d returned %d, expected %d" % (j, k, via, off, ob[1], v)
            elif k == "readr":
                if (ob[0] == "ok") != (op[1] + op[2] <= ln):
                    return "op %d: Read(%d,%d) len=%d -> %s" % (j, op[1], op[2], ln, ob)
            elif k in ("write", "gstore", "writer"):
                if k == "write": off, bs = op[2], [(op[3] >> (8 * i)) & 255 for i in range(op[1])]
                elif k == "gstore": off, bs = op[1], [op[2] & 255]
                else: off, bs = op[1], [b & 255 for b in op[2:]]
                want = off + len(bs) <= ln
                if (ob[0] == "ok") != want:
                    return "op %d: %s via %s off=%d n=%d len=%d -> %s" % (j, k, via, off, len(bs), ln, ob)
                if want:
                    for i, b in enumerate(bs): shadow[off + i] = b
        # after every operation: the guest through both modules and the host through both agree on the size
        vw = c["views"][j]
        exp = [pg, pg if cf["imported"] else -1, pg, pg if cf["imported"] else -1]
        for i, nm in enumerate(("memory.size in the exporter", "memory.size in the importer", "host pages of the exporter", "host pages of the importer")):
            if vw[i] != exp[i] and not (i < 2 and at_top()):
                return "after op %d %s via %s: %s is %d, %d pages expected (views %s)" % (j, op, via, nm, vw[i], pg, vw)
        cm = c.get("committed") or []
        if cf["alloc"] and j < len(cm) and cm[j] != (pg << 16):
            return "after op %d %s: the memory has %d bytes but the allocator's committed size is %d" % (j, op, pg << 16, cm[j])
    if any(k - 1 >= len(c["ops"]) for k, _, _ in c.get("areq") or []):
        return "the allocator was asked by a size probe: %s" % c["areq"]
    return None


def run(tier, seed):
    ck = Check("C14", tier, seed)
    ck.trusted += ["tools/go2coq (Go->Gallina translator for hasSize, Pages, Size, MemoryPagesToBytesNum, memoryBytesNumToPages, Memory.Validate, newMemorySizer)",
                   "hand transcription of Grow/Read*/Write* control flow in coq/Rt/MemInst.v, tied by the correspondence run",
                   "hand transcription of decodeMemory (shared), NewMemoryInstance and all branches of Grow (allocator answer, shared) in coq/Rt/MemInstX.v, "
                   "tied by the extended correspondence run (observations AND the allocator's request log)",
                   "harness/c14 (Go; its allocator keeps the allocator contract whenever it answers) and checks/c14.py (case conversion, oracles)"]
    ck.assumptions += ["api.Memory.Size() wrapping to 0 at 65536 pages is documented behaviour, modelled as such",
                       "the allocator is an arbitrary oracle for WHETHER it answers; when it answers it keeps its contract (a buffer of the requested "
                       "length, old contents kept, new bytes zero, same address for shared memories)",
                       "an allocator answering nil to Reallocate(0) at the instantiation of a SHARED memory is outside the model (observed: the memory "
                       "instantiates with a nil buffer and the first grow the allocator agrees to panics 'shared memory cannot move'); never generated",
                       "shared memories: sequential histories only (the mutex / atomic length stores of Grow have no sequential content); "
                       "no concurrent guest code while the host grows"]
    proofs_ok = ck.proofs()
    n, huge = (160, 3) if tier == "quick" else (3000, 40)
    if not proofs_ok:
        n *= 3
    binp, log = build_harness("c14")
    if not binp:
        ck.violation("harness-build", {"kind": "build"}, {"log": log[-3000:]}, no_input=True)
        return ck.finish()
    nx = 110 if tier == "quick" else 1500
    rc, out = sh([binp, "-seed", str(seed), "-n", str(n), "-huge", str(huge), "-nx", str(nx)], timeout=3000)
    cases = []
    for ln in out.split("\n"):
        if ln.startswith("{"):
            cases.append(json.loads(ln))
    if rc != 0 or not cases:
        ck.violation("harness-crash", {"kind": "crash"}, {"rc": rc, "tail": out[-3000:]}, no_input=False)
        return ck.finish()
    ck.cases = len(cases)
    xcases = [c for c in cases if c.get("x")]
    cases = [c for c in cases if not c.get("x")]
    # distribution
    dist = {"accepted": 0, "rejected": 0, "engine": {}, "ops": {}, "outcomes": {}, "at_4GiB": 0}
    seen = set()
    for c in cases:
        dist["accepted" if c["accepted"] else "rejected"] += 1
        dist["engine"][c["engine"]] = dist["engine"].get(c["engine"], 0) + 1
        if c["accepted"]:
            if any(p == 65536 for p in c["pg"]): dist["at_4GiB"] += 1
            for op, ob in zip(c["ops"], c["obs"]):
                dist["ops"][op[0]] = dist["ops"].get(op[0], 0) + 1
                dist["outcomes"][ob[0]] = dist["outcomes"].get(ob[0], 0) + 1
        key = json.dumps([c["cfg"], c["engine"], c["ops"]], sort_keys=True)
        if c["accepted"] and len(c["ops"]) > 2: seen.add(key)
    ck.dist = dist
    ck.distinct = len(seen)
    ck.samples = [dict(cfg=c["cfg"], engine=c["engine"], ops=c["ops"][:6], obs=(c.get("obs") or [])[:6]) for c in cases[:3]]
    ck.extra["rule"] = ("boundary-dense (min,max?,limit,capacity-from-max,allocator) x grow/access histories generated from VERIF_SEED, run on both "
                        "engines; a case is non-trivial when the configuration is accepted and has more than two operations; distinct by (cfg, engine, ops)")
    # evaluate the model inside Coq in shards
    mism = []
    SH = 400
    for s in range(0, len(cases), SH):
        shard = cases[s:s + SH]
        v = ("From Verif Require Import Lib.GoInt Rt.MemInst.\nOpen Scope Z_scope.\n"
             "Definition cases : list case := [\n" + ";\n".join(coq_case(c) for c in shard) + "].\n"
             "Definition M := Eval vm_compute in mismatches 0 cases.\nPrint M.\n")
        rc, o = coq_eval("c14_%d" % s, v)
        lst = parse_zlist(o, "M")
        if rc != 0 or lst is None:
            ck.violation("model-eval", {"kind": "model-eval"}, {"rc": rc, "out": o[-2000:]}, no_input=True)
            return ck.finish()
        for i in range(0, len(lst), 2):
            mism.append((s + lst[i], lst[i + 1]))
    ck.extra["model_mismatches"] = len(mism)
    # every case is also judged by the oracle (the property on the implementation's own observations)
    reported = set()
    for idx, c in enumerate(cases):
        why = oracle(c)
        j = dict(mism).get(idx)
        if why is None and j is None:
            continue
        op = c["ops"][j] if (j is not None and j >= 0 and j < len(c["ops"])) else None
        pg = c["pg"][j] if (op is not None and j < len(c.get("pg", []))) else None
        sig = {"engine": c["engine"]}
        if op is not None and c["engine"] == "compiler" and op[0] in GUEST_OPS and pg == 65536:
            sig["kind"] = "compiler-guest-access-at-65536-pages"
        elif why is not None:
            sig["kind"] = "property-fails"
        else:
            sig["kind"] = "model-differs"
        detail = {"case": c, "model_first_diff_op": j, "oracle": why}
        key = (sig["kind"], sig["engine"])
        if key in reported and len(reported) > 6:
            continue
        reported.add(key)
        ck.violation(sig["kind"], sig, detail, no_input=(why is None and sig["kind"] == "model-differs"))
    # ---- extended cases: refusing allocator / shared / imported memory through two views
    xd = {"cases": len(xcases), "status": {}, "shared": 0, "allocator": 0, "imported": 0, "allocator_requests": 0, "allocator_refusals": 0,
          "refused_grows_within_bound": 0, "ops_via_importer": 0, "at_4GiB": 0, "ops": {}, "outcomes": {}}
    for c in xcases:
        xd["status"][str(c["status"])] = xd["status"].get(str(c["status"]), 0) + 1
        if c["status"] == 1:
            for f in ("shared", "imported"): xd[f] += 1 if c["cfg"][f] else 0
            xd["allocator"] += 1 if c["cfg"]["alloc"] else 0
            xd["ops_via_importer"] += sum(c["view"])
            if any(p == 65536 for p in c["pg"]): xd["at_4GiB"] += 1
            for op, ob in zip(c["ops"], c["obs"]):
                xd["ops"][op[0]] = xd["ops"].get(op[0], 0) + 1
                xd["outcomes"][ob[0]] = xd["outcomes"].get(ob[0], 0) + 1
            key = json.dumps([c["cfg"], c["engine"], c["ops"], c["view"]], sort_keys=True)
            if len(c["ops"]) > 2: seen.add(key)
        xd["allocator_requests"] += len(c.get("areq") or [])
        xd["allocator_refusals"] += sum(1 for a in (c.get("areq") or []) if a[2] == 0)
        xd["refused_grows_within_bound"] += sum(1 for a in (c.get("areq") or []) if a[2] == 0 and a[0] > 0)
    ck.dist["extended"] = xd
    ck.distinct = len(seen)
    ck.extra["rule"] += ("; extended cases: (min,max?,limit,capacity-from-max,allocator with a refusal schedule (request-number mask / size threshold) "
                         "derived from VERIF_SEED, shared, threads feature, imported) x histories whose every operation goes through the exporter or "
                         "the importer of the memory, both engines, plus fixed witnesses at 65535/65536 pages for the shared / refusing / imported flavours")
    xmism = []
    for s0 in range(0, len(xcases), SH):
        shard = xcases[s0:s0 + SH]
        v = ("From Verif Require Import Lib.GoInt Rt.MemInst Rt.MemInstX.\nOpen Scope Z_scope.\n"
             "Definition cases : list xcase := [\n" + ";\n".join(coq_xcase(c) for c in shard) + "].\n"
             "Definition M := Eval vm_compute in xmismatches 0 cases.\nPrint M.\n")
        rc, o = coq_eval("c14x_%d" % s0, v)
        lst = parse_zlist(o, "M")
        if rc != 0 or lst is None:
            ck.violation("model-eval", {"kind": "model-eval"}, {"rc": rc, "out": o[-2000:]}, no_input=True)
            return ck.finish()
        for i in range(0, len(lst), 2):
            xmism.append((s0 + lst[i], lst[i + 1]))
    ck.extra["model_mismatches_extended"] = len(xmism)
    for idx, c in enumerate(xcases):
        why = xoracle(c)
        j = dict(xmism).get(idx)
        if why is None and j is None:
            continue
        jo = j - 1000000 if (j is not None and j >= 1000000) else j
        op = c["ops"][jo] if (jo is not None and 0 <= jo < len(c["ops"])) else None
        pg = c["pg"][jo] if (op is not None and jo < len(c.get("pg", []))) else None
        flavour = "+".join(f for f in ("shared", "alloc", "imported") if c["cfg"][f]) or "plain"
        sig = {"engine": c["engine"]}
        # F12 (32-bit load of the length in compiled code): memory.size is 0 at 65536 pages for every flavour; guest ACCESSES
        # fail only on a local unshared memory (shared and imported memories are bounds-checked with a 64-bit length)
        if (op is not None and j < 1000000 and c["engine"] == "compiler" and pg == 65536 and
                (op[0] == "gsize" or (op[0] in GUEST_OPS and not c["cfg"]["shared"] and c["view"][jo] == 0))):
            sig["kind"] = "compiler-guest-access-at-65536-pages"
        elif why is not None:
            sig["kind"] = "property-fails"
            sig["flavour"] = flavour
        else:
            sig["kind"] = "model-differs"
            sig["flavour"] = flavour
        detail = {"case": c, "model_first_diff_op": j, "oracle": why,
                  "note": "model_first_diff_op >= 1000000: the allocator requests differ at op (value - 1000000); -2: instantiation status differs"}
        key = (sig["kind"], sig["engine"], sig.get("flavour"))
        if key in reported and len(reported) > 6:
            continue
        reported.add(key)
        ck.violation(sig["kind"], sig, detail, no_input=(why is None and sig["kind"] == "model-differs"))
    if not proofs_ok and not any(v["kind"] == "property-fails" for v in ck.violations):
        ck.violation("proof-broken", {"kind": "proof-broken"}, getattr(ck, "proof_failure", {}), no_input=True)
    return ck.finish()
