"""C01, SSA stream: translation validation of the optimizing compiler's CFG-level SSA passes.

harness/c01s dumps, from inside package ssa, the control-flow graph of every function after frontend lowering (stage 0),
after the pre-layout passes (stage 1) and after the whole of RunPasses (stage 3), together with what the passes
computed (dead-block flags, reverse post order, immediate dominators, loop-header flags, loop nesting forest, block
layout with trampolines, fallthrough marks, lowest common ancestors). Each function becomes one `rcase` evaluated by
`vm_compute` with the verified checkers of coq/Engine/SsaCfg.v (soundness: coq/Proofs/SsaCfgP.v, Properties/C01.v):
a rejected certificate is a violation. The same statements, written directly from the path-based definitions, are
evaluated here in Python as the oracle that also locates the offending block.
"""
import json, os
from vcheck import *

CHECKERS = ["wf", "cfg_kept", "bookkeeping", "dead_block", "rpo", "dom_pre", "loop_pre", "layout", "dom_post", "loop_post",
            "forest", "lca"]
EXIT_OPS = {"Return", "Exit", "ReturnCall", "ReturnCallIndirect", ""}


# ----------------------------------------------------------------------------------------------------------------
# decoding of one dumped function into the model's vocabulary

class Malformed(Exception):
    pass


class TooLarge(Exception):
    pass


class Fn:
    """the three stages of one function, block ids as in the builder, the return block renamed to R = #blocks after layout"""

    def __init__(self, f):
        self.raw = f
        st0, st1, st3 = f["stages"]
        self.n0, self.n1 = st1["n"], st3["n"]
        self.R = self.n1
        self.vals, self.bodies = {}, {}
        if st0["n"] != st1["n"]:
            raise Malformed("pre-layout passes changed the number of blocks")
        self.s0, self.s1, self.s3 = (self.stage(s) for s in (st0, st1, st3))

    def val(self, v):
        return self.vals.setdefault(v, len(self.vals))

    def tgt(self, t):
        return self.R if t == -1 else t

    def term(self, b, strict):
        br, n = b["br"], b["nins"]
        T = lambda x: (self.tgt(x["t"][0]), [self.val(a) for a in x.get("args") or []])
        if not br:
            if strict and b["last"] not in EXIT_OPS:
                raise Malformed("block %d ends with %s" % (b["id"], b["last"]))
            return ("exit",)
        if len(br) == 1 and br[0]["op"] == "jump" and br[0]["pos"] == n - 1:
            return ("jump", T(br[0]), bool(br[0].get("ft")))
        if len(br) == 2 and br[0]["op"] in ("brz", "brnz") and br[1]["op"] == "jump" and br[0]["pos"] == n - 2 and br[1]["pos"] == n - 1:
            if br[0].get("ft"):
                raise Malformed("conditional branch marked fallthrough in block %d" % b["id"])
            return ("cond", br[0]["op"] == "brnz", self.val(br[0]["c"]), T(br[0]), T(br[1]), bool(br[1].get("ft")))
        if len(br) == 1 and br[0]["op"] == "br_table" and br[0]["pos"] == n - 1:
            args = [self.val(a) for a in br[0].get("args") or []]
            return ("table", self.val(br[0]["c"]), [(self.tgt(t), args) for t in br[0]["t"]])
        raise Malformed("block %d: branches %s in a block of %d instructions" % (b["id"], [(x["op"], x["pos"]) for x in br], n))

    def stage(self, st):
        S = {"n": st["n"], "order": [self.tgt(x) for x in st["order"]], "roots": [self.tgt(x) for x in st["roots"]],
             "lca": [[self.tgt(x) for x in t] for t in st.get("lca") or []], "blocks": []}
        for b in st["blocks"]:
            S["blocks"].append({
                "valid": b["valid"], "term": self.term(b, b["valid"] and st["stage"] > 0),
                "body": self.bodies.setdefault(b["body"], len(self.bodies)), "params": b["params"], "nins": b["nins"],
                "preds": [self.tgt(x) for x in b["preds"]], "succs": [self.tgt(x) for x in b["succs"]],
                "rpo": b["rpo"], "idom": b["idom"], "hdr": bool(b.get("hdr")), "kids": [self.tgt(x) for x in b.get("kids") or []],
                "rootid": b["rootid"]})
        return S


def targets(t):
    if t[0] == "jump": return [t[1][0]]
    if t[0] == "cond": return [t[3][0], t[4][0]]
    if t[0] == "table": return [x[0] for x in t[2]]
    return []


def shape(t):
    """kind, polarity and target blocks of a terminator (values and block arguments may be renamed by the pre-layout passes)"""
    return (t[0], t[1] if t[0] == "cond" else None, targets(t))


def graph(S, R):
    """successor lists from the terminators, the return block dropped"""
    return [[v for v in targets(b["term"]) if v != R] for b in S["blocks"]]


# ----------------------------------------------------------------------------------------------------------------
# the oracle: the statements themselves, from the path-based definitions

def reach_avoiding(g, d):
    if d == 0 or not g: return set()
    seen, work = {0}, [0]
    while work:
        u = work.pop()
        for v in g[u]:
            if v != d and v not in seen:
                seen.add(v); work.append(v)
    return seen


class Dom:
    def __init__(self, g):
        self.g, self.n = g, len(g)
        self.reach = reach_avoiding(g, self.n)
        self.av = [reach_avoiding(g, d) for d in range(self.n)]

    def dom(self, d, v):
        """every path entry ~> v passes through d"""
        return v == d or v not in self.av[d]

    def sdoms(self, v):
        return [d for d in range(self.n) if d != v and self.dom(d, v)]

    def idom_ok(self, p, b):
        return p != b and self.dom(p, b) and all(self.dom(d, p) for d in self.sdoms(b))


def o_wf(fn):
    for S in (fn.s0, fn.s1, fn.s3):
        n = S["n"]
        if n == 0: return 0
        for i, b in enumerate(S["blocks"]):
            for t in targets(b["term"]):
                if not (t < n or t == fn.R): return i
    return None


def o_cfg_kept(fn):
    for i, (a, b) in enumerate(zip(fn.s0["blocks"], fn.s1["blocks"])):
        if shape(a["term"]) != shape(b["term"]): return i
    return None


def o_bookkeeping(fn):
    for S in (fn.s1, fn.s3):
        bl = S["blocks"]
        for i, b in enumerate(bl):
            if not b["valid"]: continue
            if sorted(b["succs"]) != sorted(targets(b["term"])): return i
            want = sorted(u for u, x in enumerate(bl) if x["valid"] for t in targets(x["term"]) if t == i)
            if sorted(p for p in b["preds"] if bl[p]["valid"]) != want: return i
    return None


def o_dead(fn, D1):
    for i, b in enumerate(fn.s1["blocks"]):
        if b["valid"] != (i in D1.reach): return i
    return None


def o_rpo(fn, D1):
    order = fn.s1["order"]
    if len(set(order)) != len(order) or set(order) != D1.reach or (order and order[0] != 0): return order[0] if order else 0
    rank = {b: i for i, b in enumerate(order)}
    for u in order:
        if fn.s1["blocks"][u]["rpo"] != rank[u]: return u
        for v in D1.g[u]:
            if not (rank[u] < rank[v] or D1.dom(v, u)): return u
    return None


def o_dom(S, D):
    for i, b in enumerate(S["blocks"]):
        if i not in D.reach: continue      # the builder's slice holds stale entries for dead blocks; the tie projects them away
        if i == 0:
            if b["idom"] != 0: return i
        elif not (0 <= b["idom"] < D.n and D.idom_ok(b["idom"], i)): return i
    return None


def o_loop(S, D):
    for i, b in enumerate(S["blocks"]):
        want = i in D.reach and any(u in D.reach and i in D.g[u] and D.dom(i, u) for u in range(D.n))
        if b["hdr"] != want: return i
    return None


def o_forest(S, D):
    bl = S["blocks"]
    for i in range(D.n):
        par = [h for h in range(D.n) if i in bl[h]["kids"]]
        if i not in D.reach:
            if par or i in S["roots"]: return i
            continue
        H = [h for h in D.sdoms(i) if bl[h]["hdr"]]
        if (i in S["roots"]) != (bl[i]["hdr"] and not H): return i
        if not H:
            if par: return i
        elif len(par) != 1 or bl[par[0]]["kids"].count(i) != 1 or par[0] not in H or not all(D.dom(h, par[0]) for h in H): return i
    return None


def o_lca(S, D):
    for u, v, l in S["lca"]:
        if not (u in D.reach and v in D.reach and 0 <= l < D.n and D.dom(l, u) and D.dom(l, v)
                and all(D.dom(d, l) for d in range(D.n) if D.dom(d, u) and D.dom(d, v))): return u
    return None


def resolve(fn, t):
    bl = fn.s3["blocks"]
    for _ in range(fn.n1 + 1):
        b, args = t
        if not (fn.n0 <= b < fn.n1): return t
        tt = bl[b]["term"]
        if args or tt[0] != "jump": return None
        t = tt[1]
    return None


def step(fn, S, b, o, res):
    t = S["blocks"][b]["term"]
    if t[0] == "exit": return "exit"
    if t[0] == "jump": x = t[1]
    elif t[0] == "cond": x = t[3] if (o != 0) == t[1] else t[4]
    else: x = t[2][min(o, len(t[2]) - 1)]
    return resolve(fn, x) if res else x


def o_layout(fn):
    b1, b3, order = fn.s1["blocks"], fn.s3["blocks"], fn.s3["order"]
    if len(set(order)) != len(order) or not order or order[0] != 0: return 0
    for i in range(fn.n0):
        if (i in order) != b1[i]["valid"]: return i
    for pos, b in enumerate(order):
        if not (0 <= b < fn.n1): return b
        t = b3[b]["term"]
        nxt = order[pos + 1] if pos + 1 < len(order) else None
        for x in targets(t):
            if x != fn.R and x not in order: return b
        if t[0] in ("jump", "cond"):
            j, ft = (t[1], t[2]) if t[0] == "jump" else (t[4], t[5])
            if ft != (j[0] == nxt): return b
        if b >= fn.n0:
            if t[0] != "jump" or b3[b]["nins"] != 1 or b3[b]["params"] != 0: return b
            continue
        tb = b1[b]["term"]
        if tb[0] != t[0] or any(b1[b][k] != b3[b][k] for k in ("body", "params", "nins")): return b
        if t[0] in ("cond", "table") and t[2 if t[0] == "cond" else 1] != tb[2 if t[0] == "cond" else 1]: return b
        outs = range(2) if t[0] != "table" else range(len(tb[2]) + 1)
        if t[0] == "table" and len(t[2]) != len(tb[2]): return b
        for o in outs:
            if step(fn, fn.s3, b, o, True) != step(fn, fn.s1, b, o, False): return b
            x = step(fn, fn.s1, b, o, False)
            if x != "exit" and x[0] != fn.R and not b1[x[0]]["valid"]: return b
    return None


def oracle(fn):
    """checker name -> offending block (None = the statement holds)"""
    res = {"wf": o_wf(fn)}
    if res["wf"] is not None:
        return res
    D1, D3 = Dom(graph(fn.s1, fn.R)), Dom(graph(fn.s3, fn.R))
    res.update(cfg_kept=o_cfg_kept(fn), bookkeeping=o_bookkeeping(fn), dead_block=o_dead(fn, D1), rpo=o_rpo(fn, D1),
               dom_pre=o_dom(fn.s1, D1), loop_pre=o_loop(fn.s1, D1), layout=o_layout(fn), dom_post=o_dom(fn.s3, D3),
               loop_post=o_loop(fn.s3, D3), forest=o_forest(fn.s3, D3), lca=o_lca(fn.s3, D3))
    return res


def stats(fn, dist):
    D3 = Dom(graph(fn.s3, fn.R))
    b1, b3 = fn.s1["blocks"], fn.s3["blocks"]
    dist["functions"] += 1
    dist["blocks_lowered"] += fn.n0
    dist["blocks_dead"] += sum(1 for b in b1 if not b["valid"])
    dist["blocks_laid_out"] += len(fn.s3["order"])
    dist["edges"] += sum(len(targets(b3[b]["term"])) for b in fn.s3["order"])
    dist["loop_headers"] += sum(1 for b in b3 if b["hdr"])
    dist["trampolines"] += sum(1 for b in fn.s3["order"] if b >= fn.n0)
    dist["br_tables"] += sum(1 for b in fn.s3["order"] if b3[b]["term"][0] == "table")
    dist["cond_branches"] += sum(1 for b in fn.s3["order"] if b3[b]["term"][0] == "cond")
    dist["inverted_branches"] += sum(1 for b in fn.s3["order"] if b < fn.n0 and b3[b]["term"][0] == "cond" and b1[b]["term"][0] == "cond"
                                     and b3[b]["term"][1] != b1[b]["term"][1])
    dist["fallthrough_jumps"] += sum(1 for b in fn.s3["order"] if b3[b]["term"][0] in ("jump", "cond") and b3[b]["term"][-1])
    dist["back_edges"] += sum(1 for u in fn.s3["order"] for v in D3.g[u] if D3.dom(v, u))
    dist["self_loops_before_layout"] += sum(1 for u, b in enumerate(b1) if b["valid"] and u in targets(b["term"]))
    dist["exit_blocks"] += sum(1 for b in fn.s3["order"] if b3[b]["term"][0] == "exit")
    dist["lca_queries"] += len(fn.s3["lca"])
    depth = 0
    for b in fn.s3["order"]:
        depth = max(depth, sum(1 for h in D3.sdoms(b) if b3[h]["hdr"]) + (1 if b3[b]["hdr"] else 0))
    k = "nesting_depth_%d" % min(depth, 4) + ("+" if depth >= 4 else "")
    dist[k] = dist.get(k, 0) + 1
    k = "blocks_%s" % ("1-4" if fn.n1 <= 4 else "5-12" if fn.n1 <= 12 else "13-30" if fn.n1 <= 30 else "31+")
    dist[k] = dist.get(k, 0) + 1


# ----------------------------------------------------------------------------------------------------------------
# Coq case terms (coq/Engine/SsaCfgRaw.v: RCase)

NONE = 4095
CAP_MODULES = 1500


def _il(xs): return "[" + ";".join(str(int(x)) for x in xs) + "]"
def _bl(xs): return "[" + ";".join("true" if x else "false" for x in xs) + "]"
def _ill(xss): return "[" + ";".join(_il(xs) for xs in xss) + "]"
def _b(x): return "true" if x else "false"


def coq_term(t):
    if t[0] == "exit": return "RExit"
    if t[0] == "jump": return "(RJump %d %s %s)" % (t[1][0], _il(t[1][1]), _b(t[2]))
    if t[0] == "cond": return "(RCond %s %d %d %s %d %s %s)" % (_b(t[1]), t[2], t[3][0], _il(t[3][1]), t[4][0], _il(t[4][1]), _b(t[5]))
    return "(RTable %d %s %s)" % (t[1], _il([x[0] for x in t[2]]), _il(t[2][0][1] if t[2] else []))


def shape_only(t):
    """stage 0 is only compared for kind, polarity and target blocks: drop values and arguments (they dominate the text)"""
    if t[0] == "jump": return ("jump", (t[1][0], []), False)
    if t[0] == "cond": return ("cond", t[1], 0, (t[3][0], []), (t[4][0], []), False)
    if t[0] == "table": return ("table", 0, [(x[0], []) for x in t[2]])
    return t


def coq_blocks(S, shape=False):
    if shape:
        return "[" + ";\n   ".join("RB %s 0 0 0" % coq_term(shape_only(b["term"])) for b in S["blocks"]) + "]"
    return "[" + ";\n   ".join("RB %s %d %d %d" % (coq_term(b["term"]), b["body"], b["params"], b["nins"]) for b in S["blocks"]) + "]"


def coq_case(fn):
    s0, s1, s3 = fn.s0, fn.s1, fn.s3
    if fn.n1 >= NONE or len(fn.vals) >= 2 ** 31: raise TooLarge()
    in1, in3 = set(s1["order"]), set(s3["order"])
    opt = lambda ok, x: x if ok and x >= 0 else NONE
    return ("(RCase %d\n  %s\n  %s\n  %s %s %s\n  %s %s %s %s\n  %s\n  %s %s %s\n  %s %s %s %s %s\n  %s)" % (
        fn.R, coq_blocks(s0, True), coq_blocks(s1), _bl(b["valid"] for b in s1["blocks"]),
        _ill(b["succs"] for b in s1["blocks"]), _ill(b["preds"] for b in s1["blocks"]),
        _il(s1["order"]), _il(opt(True, b["rpo"]) for b in s1["blocks"]),
        _il(opt(i in in1, b["idom"]) for i, b in enumerate(s1["blocks"])), _bl(b["hdr"] for b in s1["blocks"]),
        coq_blocks(s3), _bl(b["valid"] for b in s3["blocks"]),
        _ill(b["succs"] for b in s3["blocks"]), _ill(b["preds"] for b in s3["blocks"]),
        _il(s3["order"]), _il(opt(i in in3, b["idom"]) for i, b in enumerate(s3["blocks"])), _bl(b["hdr"] for b in s3["blocks"]),
        _ill(b["kids"] for b in s3["blocks"]), _il(s3["roots"]),
        "[" + ";".join("(%d,%d,%d)" % tuple(q) for q in s3["lca"]) + "]"))


def eval_cases(name, items, shard=150):
    """items: list of RCase terms. Returns (list of (case index, checker index), error text or None).
    Shards are balanced by size (the checkers are polynomial in the number of blocks) and run in parallel."""
    import concurrent.futures
    k = max(1, (len(items) + shard - 1) // shard)
    order = sorted(range(len(items)), key=lambda i: -len(items[i]))
    shards = [order[s::k] for s in range(k)]

    def one(si):
        idx = shards[si]
        v = ("From Coq Require Import List Uint63. Import ListNotations.\nFrom Verif Require Import Engine.SsaCfg Engine.SsaCfgRaw.\n"
             "Local Open Scope uint63_scope.\nDefinition cases := [\n" + ";\n".join(items[i] for i in idx) + "].\n"
             "Definition M := Eval vm_compute in ssa_mismatches 0 cases.\nPrint M.\n")
        rc, o = coq_eval("%s_%d" % (name, si), v, timeout=900)
        m = re.search(r"M\s*=\s*(\[.*?\])\s*:", o, re.S)
        if rc != 0 or not m:
            return None, "coq evaluation failed (rc %d): %s" % (rc, o[-1500:])
        nums = [int(x) for x in re.findall(r"\d+", re.sub(r"%[A-Za-z0-9_]+", "", m.group(1)))]
        return [(idx[nums[i]], nums[i + 1]) for i in range(0, len(nums), 2)], None
    out = []
    with concurrent.futures.ThreadPoolExecutor(max_workers=8) as ex:
        for r, err in ex.map(one, range(k)):
            if err: return out, err
            out += r
    return sorted(out), None


# ----------------------------------------------------------------------------------------------------------------
# the stream (called from checks/c01.py)

def _compact(st):
    return {"order": st["order"], "roots": st["roots"], "blocks": [
        {k: b[k] for k in ("id", "valid", "preds", "succs", "br", "rpo", "idom", "hdr", "kids", "last", "nins") if k in b} for b in st["blocks"]]}


def stream(ck, cases, tier, seed, dist, engines_agree=None):
    """cases: the C01 cases (dicts with "wasm" hex) that were just run on both engines."""
    t0 = time.time()
    sd = {k: 0 for k in ("functions", "blocks_lowered", "blocks_dead", "blocks_laid_out", "edges", "loop_headers", "trampolines", "br_tables",
                         "cond_branches", "inverted_branches", "fallthrough_jumps", "back_edges", "self_loops_before_layout", "exit_blocks",
                         "lca_queries")}
    sd.update(modules=0, shape_modules=0, shape_calls=0, certificates_checked_in_coq=0, distinct_certificates=0, rejected=0)
    dist["ssa_stream"] = sd
    ck.trusted.append("harness/c01s (overlay accessors in packages ssa/wazevo that project the builder's blocks, branch instructions and pass results "
                      "to JSON; the four phases of RunPasses run one by one, cross-checked against the real RunPasses on a second lowering), "
                      "checks/c01_ssa.py + coq/Engine/SsaCfgRaw.v (decoding into the checkers' vocabulary)")
    ck.assumptions.append("SSA stream: the CFG-level passes (dead blocks, reverse post order, dominators, loop headers and forest, LCA, block layout "
                          "with trampolines / inverted branches / fallthrough marks) are VALIDATED per compiled function by verified checkers, not "
                          "verified once and for all; value-level passes (phi elimination, dead code, nop elimination), instruction selection, "
                          "register allocation and encoding remain exercised only")
    binp, log = build_harness("c01s")
    if not binp:
        ck.violation("harness-build", {"kind": "build", "harness": "c01s"}, {"log": log[-3000:]}, no_input=True)
        return
    by_wasm = {}
    for c in cases[:CAP_MODULES]:      # thorough tier: the first CAP_MODULES programs (about 5000 functions) bound time and memory
        by_wasm.setdefault(c["wasm"], c)
    rc, out = sh([binp], timeout=900 if tier == "quick" else 3000, inp="\n".join(by_wasm) + "\n")
    mods = []
    for l in out.split("\n"):
        if l.startswith("{"):
            try: mods.append(json.loads(l))
            except ValueError: pass
    runs = {m["src"][9:]: m for m in mods if m["src"].startswith("shaperun:")}
    mods = [m for m in mods if not m["src"].startswith("shaperun:")]
    for m in mods:
        if m["src"].startswith("shape:"):
            r = runs.get(m["src"][6:])
            m["runs"], m["engdiff"] = (r.get("runs") or [], r.get("engdiff")) if r else ([], None)
    nstdin = sum(1 for m in mods if m["src"] == "stdin")
    if rc != 0 or nstdin != len(by_wasm) or (len(runs) != sum(1 for m in mods if m["src"].startswith("shape:")) and not any(r.get("engdiff") for r in runs.values())):
        ck.violation("ssa-harness-crash", {"kind": "ssa-harness-crash"},
                     {"rc": rc, "modules_in": len(by_wasm), "modules_out": nstdin, "tail": out[-1500:],
                      "meaning": "the compiler's frontend or SSA passes crashed or did not terminate while the harness re-ran them (rc 124 = timeout)"})
        if not mods:
            return
    items, meta, index = [], [], {}
    shown = {}

    def report(kind, sig, detail, **kw):
        key = json.dumps(sig, sort_keys=True)
        shown[key] = shown.get(key, 0) + 1
        if shown[key] <= 2:
            ck.violation(kind, sig, detail, **kw)

    for m in mods:
        sd["modules"] += 1
        if m["src"].startswith("shape:"):
            sd["shape_modules"] += 1
            sd["shape_calls"] += len(m.get("runs") or [])
            if m.get("engdiff"):
                report("engines-differ", {"kind": "engines-differ", "stream": "ssa-shapes"}, {"shape": m["src"], "diff": m["engdiff"], "wasm_hex": m["wasm"]})
        if m.get("err"):
            report("ssa-compile-failed", {"kind": "ssa-compile-failed"}, {"src": m["src"], "err": m["err"], "wasm_hex": m["wasm"]})
            continue
        for f in m["funcs"]:
            where = {"src": m["src"], "function_index": f["fn"], "wasm_hex": m["wasm"]}
            if f["stages"][2] != f["real"]:
                report("ssa-staging", {"kind": "ssa-staging"}, dict(where, meaning="running the phases of RunPasses one by one gives another result than RunPasses"), no_input=True)
                continue
            try:
                fn = Fn(f)
                term = coq_case(fn)
            except TooLarge:
                sd["skipped_too_large"] = sd.get("skipped_too_large", 0) + 1
                continue
            except Malformed as e:
                report("ssa-certificate-rejected", {"kind": "ssa-certificate-rejected", "checker": "wf"}, dict(where, why=str(e), final=_compact(f["stages"][2])))
                sd["rejected"] += 1
                continue
            stats(fn, sd)
            if term in index:
                meta[index[term]]["also"] += 1
                continue
            index[term] = len(items)
            items.append(term)
            meta.append({"where": where, "fn": fn, "raw": f, "also": 0, "mod": m})
    sd["distinct_certificates"] = len(items)
    mism, err = eval_cases("c01_ssa", items, shard=60 if tier == "quick" else 150)
    if err:
        ck.violation("model-eval", {"kind": "model-eval", "stream": "ssa"}, {"err": err}, no_input=True)
        return
    sd["certificates_checked_in_coq"] = len(items) * len(CHECKERS)
    ck.cases += len(items)
    rejected = {}
    for i, k in mism:
        rejected.setdefault(i, []).append(CHECKERS[k])
    for i, mt in enumerate(meta):
        orc = {k: v for k, v in oracle(mt["fn"]).items() if v is not None}
        rej = rejected.get(i, [])
        for name in rej:
            sd["rejected"] += 1
            m, det = mt["mod"], dict(mt["where"])
            det.update(checker=name, offending_block=orc.get(name), oracle_agrees=name in orc, same_certificate_in_other_functions=mt["also"],
                       stages={"lowered": _compact(mt["raw"]["stages"][0]), "pre_layout": _compact(mt["raw"]["stages"][1]), "final": _compact(mt["raw"]["stages"][2])},
                       meaning="the real pass produced a result that the verified checker (Properties/C01.v) cannot certify")
            if m["src"] == "stdin" and engines_agree and "engines" in by_wasm.get(m["wasm"], {}):
                det["engines_differ_on_this_module"] = engines_agree(by_wasm[m["wasm"]])
            elif m["src"] != "stdin":
                det["engines_differ_on_this_module"] = m.get("engdiff") or None
            report("ssa-certificate-rejected", {"kind": "ssa-certificate-rejected", "checker": name}, det)
        for name, blk in orc.items():
            if name not in rej and not (name != "wf" and "wf" in rej):
                report("ssa-oracle-differs", {"kind": "ssa-oracle-differs", "checker": name},
                       dict(mt["where"], checker=name, offending_block=blk, meaning="the Python oracle rejects what the Coq checker accepts"), no_input=True)
    ck.note("ssa stream: %d functions of %d modules (%d hand-written shapes), %d blocks laid out, %d trampolines, %d loop headers; "
            "%d certificates x %d checkers evaluated in Coq, %d rejected; %.1fs" %
            (sd["functions"], sd["modules"], sd["shape_modules"], sd["blocks_laid_out"], sd["trampolines"], sd["loop_headers"],
             len(items), len(CHECKERS), sd["rejected"], time.time() - t0))
    if ck.samples is not None and meta:
        mt = meta[min(len(meta) - 1, 3)]
        ck.samples.append({"ssa_stream_function": mt["where"]["src"], "function_index": mt["where"]["function_index"], "final": _compact(mt["raw"]["stages"][2])})
