"""C19 — configuration values are immutable."""
import hashlib, json, os, re, sys
sys.path.insert(0, os.path.join(os.path.dirname(os.path.dirname(os.path.abspath(__file__))), "lib"))
from vcheck import *

# ---------------------------------------------------------------------------------------------
# transcript guard: Rt/Config.v is a hand transcription of these functions. Their normalised source
# (comments and white space removed) is pinned here; when one of them changes the model is stale and
# the run says so (the dynamic search below still runs against the changed code).
TRANSCRIBED = {
    "config.go": ["NewRuntimeConfig", "NewRuntimeConfigCompiler", "NewRuntimeConfigInterpreter", "runtimeConfig.clone",
                  "runtimeConfig.WithCoreFeatures", "runtimeConfig.WithCloseOnContextDone", "runtimeConfig.WithMemoryLimitPages",
                  "runtimeConfig.WithCompilationCache", "runtimeConfig.WithMemoryCapacityFromMax", "runtimeConfig.WithDebugInfoEnabled",
                  "runtimeConfig.WithCustomSections", "NewModuleConfig", "moduleConfig.clone", "moduleConfig.WithArgs", "toByteSlices",
                  "moduleConfig.WithEnv", "moduleConfig.WithFS", "moduleConfig.WithFSConfig", "moduleConfig.WithName",
                  "moduleConfig.WithStartFunctions", "moduleConfig.WithStderr", "moduleConfig.WithStdin", "moduleConfig.WithStdout",
                  "moduleConfig.WithWalltime", "moduleConfig.WithSysWalltime", "moduleConfig.WithNanotime", "moduleConfig.WithSysNanotime",
                  "moduleConfig.WithNanosleep", "moduleConfig.WithOsyield", "moduleConfig.WithSysNanosleep", "moduleConfig.WithRandSource",
                  "moduleConfig.toSysContext", "type runtimeConfig", "type moduleConfig", "var engineLessConfig"],
    "fsconfig.go": ["NewFSConfig", "fsConfig.clone", "fsConfig.WithDirMount", "fsConfig.WithReadOnlyDirMount", "fsConfig.WithFSMount",
                    "fsConfig.WithSysFSMount", "fsConfig.preopens", "type fsConfig"],
    "internal/sock/sock.go": ["Config.WithTCPListener", "Config.clone", "type Config"],
    "experimental/sock/sock.go": ["NewConfig", "internalSockConfig.WithTCPListener", "WithConfig", "type internalSockConfig"],
    "runtime.go": ["runtime.InstantiateModule", "NewRuntimeWithConfig"],
    "internal/sysfs/dirfs.go": ["DirFS"],
}

PINNED = {
    "config.go:NewModuleConfig": "0da2b9c46aad6a41",
    "config.go:NewRuntimeConfig": "4196eede8623b5f5",
    "config.go:NewRuntimeConfigCompiler": "727faa57e833b5f0",
    "config.go:NewRuntimeConfigInterpreter": "cd2309276a1dca00",
    "config.go:moduleConfig.WithArgs": "c85439c7bc8edb8e",
    "config.go:moduleConfig.WithEnv": "00aeb60ab17adb15",
    "config.go:moduleConfig.WithFS": "140d2d5055103b10",
    "config.go:moduleConfig.WithFSConfig": "11fcb4acc173ad19",
    "config.go:moduleConfig.WithName": "9da4dc8d65cb66f7",
    "config.go:moduleConfig.WithNanosleep": "90fe27d127802505",
    "config.go:moduleConfig.WithNanotime": "b9d280b8cb1cac31",
    "config.go:moduleConfig.WithOsyield": "22bbadc11becf795",
    "config.go:moduleConfig.WithRandSource": "1021d94971a9fe7f",
    "config.go:moduleConfig.WithStartFunctions": "0c500206f7d960d8",
    "config.go:moduleConfig.WithStderr": "6300574805584923",
    "config.go:moduleConfig.WithStdin": "47dcc3ef6354f73b",
    "config.go:moduleConfig.WithStdout": "b599a967dbe5cc9a",
    "config.go:moduleConfig.WithSysNanosleep": "67f4ad19f2cb5b6c",
    "config.go:moduleConfig.WithSysNanotime": "b48f2246dba4e3b9",
    "config.go:moduleConfig.WithSysWalltime": "dd92d21f80247ee3",
    "config.go:moduleConfig.WithWalltime": "c274c4d98732ea31",
    "config.go:moduleConfig.clone": "c11d2382498b8d3d",
    "config.go:moduleConfig.toSysContext": "b00ae2385ccc9d41",
    "config.go:runtimeConfig.WithCloseOnContextDone": "39aa937432dd4148",
    "config.go:runtimeConfig.WithCompilationCache": "880eb543c3f52c18",
    "config.go:runtimeConfig.WithCoreFeatures": "ecf6d2664898ba25",
    "config.go:runtimeConfig.WithCustomSections": "a541f8755aafcb6d",
    "config.go:runtimeConfig.WithDebugInfoEnabled": "1ea1a495b9ed951b",
    "config.go:runtimeConfig.WithMemoryCapacityFromMax": "4c4beef83818f8bb",
    "config.go:runtimeConfig.WithMemoryLimitPages": "3cfff53377cd05f8",
    "config.go:runtimeConfig.clone": "8af077c8c0a3ff5d",
    "config.go:toByteSlices": "f402cdbc3b7796fc",
    "config.go:type moduleConfig": "f149caf271a60ba5",
    "config.go:type runtimeConfig": "d6edd28f87ab1b16",
    "config.go:var engineLessConfig": "c6cc3fa6172e5f73",
    "experimental/sock/sock.go:NewConfig": "65cd71c6648147a3",
    "experimental/sock/sock.go:WithConfig": "dd7f5b5886a4acd2",
    "experimental/sock/sock.go:internalSockConfig.WithTCPListener": "8de57b38063061c1",
    "experimental/sock/sock.go:type internalSockConfig": "794d1ef8cebef525",
    "fsconfig.go:NewFSConfig": "e0b7ede2747fe1f2",
    "fsconfig.go:fsConfig.WithDirMount": "d2f6d03e7aa92255",
    "fsconfig.go:fsConfig.WithFSMount": "8c372772d6332255",
    "fsconfig.go:fsConfig.WithReadOnlyDirMount": "dd330feb21d0eae3",
    "fsconfig.go:fsConfig.WithSysFSMount": "68f3120faac62479",
    "fsconfig.go:fsConfig.clone": "854d4e9e208675cf",
    "fsconfig.go:fsConfig.preopens": "0b07e779742ad132",
    "fsconfig.go:type fsConfig": "9c3bcb1e75a61c5b",
    "internal/sock/sock.go:Config.WithTCPListener": "e55c2301cbe002c9",
    "internal/sock/sock.go:Config.clone": "628674b92a983620",
    "internal/sock/sock.go:type Config": "89d1279f2410be4d",
    "internal/sysfs/dirfs.go:DirFS": "b4092c757e9b58d7",
    "runtime.go:NewRuntimeWithConfig": "094a624fbafd7915",
    "runtime.go:runtime.InstantiateModule": "7cfe846325b23956",
}


def _normalise(src):
    src = re.sub(r"//[^\n]*", "", src)
    return re.sub(r"\s+", "", src)


def extract_decls(path):
    """top-level func / type / var declarations of a gofmt'ed file: name -> normalised text"""
    try:
        text = open(path).read()
    except OSError:
        return {}
    out = {}
    lines = text.split("\n")
    i = 0
    while i < len(lines):
        ln = lines[i]
        m = re.match(r"(func|type|var)\s+(.*)", ln)
        if not m:
            i += 1
            continue
        j = i
        if ln.rstrip().endswith("{") or ln.rstrip().endswith("("):
            closer = "}" if ln.rstrip().endswith("{") else ")"
            j = i + 1
            while j < len(lines) and not lines[j].startswith(closer):
                j += 1
            if j < len(lines) and closer == ")" and lines[j].rstrip().endswith("{"):   # multi-line signature
                while j < len(lines) and not lines[j].startswith("}"):
                    j += 1
        body = "\n".join(lines[i:j + 1])
        kind, rest = m.group(1), m.group(2)
        if kind == "func":
            mm = re.match(r"\(\s*\w+\s+\*?(\w+)\s*\)\s*(\w+)", rest)
            name = (mm.group(1) + "." + mm.group(2)) if mm else re.match(r"(\w+)", rest).group(1)
        else:
            name = kind + " " + re.match(r"(\w+)", rest).group(1)
        out[name] = _normalise(body)
        i = j + 1
    return out


def transcript_state():
    cur = {}
    for rel, names in TRANSCRIBED.items():
        decls = extract_decls(os.path.join(REPO, rel))
        for n in names:
            t = decls.get(n)
            cur[rel + ":" + n] = hashlib.sha1(t.encode()).hexdigest()[:16] if t is not None else "missing"
    return cur


def transcript_diff():
    cur = transcript_state()
    return sorted(k for k in set(cur) | set(PINNED) if cur.get(k) != PINNED.get(k))


# ---------------------------------------------------------------------------------------------
# cases -> Coq
def z(v): return "(%d)" % v if v < 0 else "%d" % v
def zl(l): return "[" + "; ".join(z(x) for x in l) + "]"
def rows(r): return "[" + "; ".join(zl(x) for x in r) + "]"
def cb(v): return "true" if v else "false"
def optn(i): return "None" if i < 0 else "(Some %d%%nat)" % i


def coq_op(op):
    k = op[0]
    if k == "newR": return "ONewRuntimeConfig %s" % z(op[1])
    if k == "newM": return "ONewModuleConfig"
    if k == "newF": return "ONewFSConfig"
    if k == "newS": return "ONewSockConfig"
    if k == "inst": return "OInstantiate %d %s" % (op[1], optn(op[2]))
    if k == "newrt": return "ONewRuntime %d" % op[1]
    if k == "S": return "OS %d %s" % (op[1], z(op[2]))
    p, m, a = op[1], op[2], op[3:]
    if k == "R":
        if m in ("CoreFeatures", "MemoryLimitPages", "CompilationCache"):
            return "OR %d (RWith%s %s)" % (p, m, z(a[0]))
        return "OR %d (RWith%s %s)" % (p, m, cb(a[0]))
    if k == "M":
        if m in ("Args", "StartFunctions"): return "OM %d (MWith%s %s)" % (p, m, zl(a[0]))
        if m == "FSConfig": return "OM %d (MWithFSConfig %s)" % (p, optn(a[0]))
        return "OM %d (MWith%s%s)" % (p, m, "".join(" " + z(x) for x in a))
    if k == "F":
        if m == "SysFSMount":
            return "OF %d (FWithSysFSMount %s %s %s %s)" % (p, z(a[0]), z(a[1]), z(a[2]), cb(a[3]))
        return "OF %d (FWith%s %s %s %s)" % (p, m, z(a[0]), z(a[1]), z(a[2]))
    raise ValueError(op)


def coq_case(c):
    return "([%s],\n  [%s],\n  %s,\n  [%s])" % ("; ".join(coq_op(o) for o in c["ops"]), ";\n   ".join(rows(r) for r in c["final"]),
                                             zl(c["ids"]), "; ".join(rows(r) for r in c["obs"]))


def decode_mismatch(d):
    pol = ["tight (cap = need)", "doubling", "roomy (cap = 2*need+3)"][d // 10000]
    d %= 10000
    if d >= 3000: return pol, "observation of op %d" % (d - 3000), ("op", d - 3000)
    if d >= 2000: return pol, "identity classes (who shares which array/map/struct)", ("ids", None)
    return pol, "deep dump of node %d" % (d - 1000), ("node", d - 1000)


def oracle(c):
    """C19 on the implementation's own dumps, no model: every node's dump after every later operation
    (and at the end, and after the concurrent phase) equals its dump when it was created."""
    bad = []
    if len(c["created"]) != len(c["final"]):
        return ["%d nodes created, %d at the end" % (len(c["created"]), len(c["final"]))], None
    first = None
    for opi, ni in c["changed"]:
        bad.append("node %d (%s) differs from its creation dump after op %d %s" %
                   (ni, c["kinds"][ni], opi, c["ops"][opi] if opi < len(c["ops"]) else "<8 goroutines deriving concurrently>"))
        if first is None: first = (opi, ni)
    for ni, (a, b) in enumerate(zip(c["created"], c["final"])):
        if a != b:
            bad.append("node %d (%s): created %s, final %s" % (ni, c["kinds"][ni], a, b))
            if first is None: first = (len(c["ops"]), ni)
    # "extended independently": the environment a guest sees when instantiated with a module configuration is the one
    # its own chain of WithEnv calls built (overwriting keeps the position, a new key is appended) - whatever was
    # derived from or instantiated with its ancestors before
    envs, nn = {}, 0
    for opi, (op, ob) in enumerate(zip(c["ops"], c["obs"])):
        if op[0] == "inst":
            want = envs.get(op[1])
            if want is not None and len(ob) == 3 and ob[1] != [x for kv in want for x in kv]:
                bad.append("op %d %s: the guest sees the environment %s, the configuration (node %d) was built with %s" %
                           (opi, op, ob[1], op[1], [x for kv in want for x in kv]))
                if first is None: first = (opi, op[1])
            continue
        if ob != [] or op[0] not in ("newM", "newS", "newF", "newR", "M", "R", "F", "S"): continue   # panicked derivations and newrt create no node
        if nn < len(c["kinds"]):
            if op[0] == "newM": envs[nn] = []
            elif op[0] == "M" and op[1] in envs:
                e = list(envs[op[1]])
                if op[2] == "Env":
                    k, v = op[3], op[4]
                    i = next((j for j, kv in enumerate(e) if kv[0] == k), None)
                    if i is None: e.append((k, v))
                    else: e[i] = (k, v)
                envs[nn] = e
        nn += 1
    return bad, first


def op_name(c, opi):
    if opi >= len(c["ops"]): return "concurrent"
    o = c["ops"][opi]
    return o[2] if o[0] in ("R", "M", "F") else o[0]


def run(tier, seed):
    ck = Check("C19", tier, seed)
    ck.trusted += ["hand transcription of config.go / fsconfig.go / internal/sock/sock.go / InstantiateModule into coq/Rt/Config.v "
                   "(pinned transcript compared with the source on every run; behaviour tied by the correspondence run)",
                   "harness/c19 (Go: tree generator, overlay exports in package wazero and experimental/sock, canonical dump) and checks/c19.py "
                   "(case conversion, oracle)",
                   "sys.StripPrefixesAndTrailingSlash is taken from the implementation (the model receives its result)"]
    ck.assumptions += ["strings, readers/writers, clock functions, file systems and caches are opaque immutable identities; the bytes of an "
                       "argument or environment entry are never written after creation (checked by the dumps, not proved)",
                       "the model is sequential: the frame theorem (a derivation reads old cells and writes only cells it allocated) is the "
                       "argument for use from several goroutines; the harness additionally derives from 8 goroutines (race detector in the thorough tier)",
                       "Go's append growth policy is not modelled: theorems hold for every policy with need <= cap; the model is compared with the "
                       "implementation under three policies",
                       "WithStartFunctions stores the caller's variadic slice as is: a caller that passes s... and later writes s changes the "
                       "configuration (reported as a note; not a With... method changing a configuration)"]
    proofs_ok = ck.proofs()
    stale = transcript_diff()
    if stale:
        ck.note("transcript guard: source of modelled functions changed: %s" % ", ".join(stale))
    n, nops = (500, 16) if tier == "quick" else (24000, 22)
    binp, log = build_harness("c19")
    if not binp:
        ck.violation("harness-build", {"kind": "build"}, {"log": log[-3000:]}, no_input=True)
        return ck.finish()
    rc, out = sh([binp, "-seed", str(seed), "-n", str(n), "-ops", str(nops)], timeout=1200)
    cases, probe = [], {}
    for ln in out.split("\n"):
        if ln.startswith("{"):
            d = json.loads(ln)
            if "probe" in d: probe = d
            else: cases.append(d)
    if rc != 0 or not cases:
        ck.violation("harness-crash", {"kind": "crash"}, {"rc": rc, "tail": out[-3000:]}, no_input=False)
        return ck.finish()
    race_report = None
    if tier != "quick":
        rbin, rlog = build_harness("c19", race=True)
        if rbin:
            rrc, rout = sh([rbin, "-seed", str(seed + 1), "-n", "600", "-ops", "14", "-conc", "1"], timeout=1200)
            if "DATA RACE" in rout or rrc != 0:
                race_report = rout[rout.find("WARNING: DATA RACE"):][:4000] if "DATA RACE" in rout else rout[-3000:]
        else:
            ck.note("race build unavailable: " + rlog[-300:])
    ck.cases = len(cases)
    strtab = probe.get("strtab", [])
    if probe.get("value"):
        ck.note("note: WithStartFunctions keeps the caller's slice (writing the slice after the call changes the configuration)")
    # distribution
    dist = {"ops": {}, "node_kinds": {}, "tree_sizes": {}, "panics": 0, "instantiate_ok": 0, "instantiate_refused": 0,
            "instantiate_with_sock": 0, "concurrent_trees": 0, "concurrent_ops": 0, "override_existing_key": 0, "sibling_pairs": 0}
    seen = set()
    for c in cases:
        parents = {}
        for o, ob in zip(c["ops"], c["obs"]):
            name = (o[0] + "." + o[2]) if o[0] in ("R", "M", "F") else o[0]
            dist["ops"][name] = dist["ops"].get(name, 0) + 1
            if ob == [[-1]]: dist["panics"] += 1
            if o[0] == "inst":
                dist["instantiate_refused" if ob == [[-2]] else "instantiate_ok"] += 1
                if o[2] >= 0: dist["instantiate_with_sock"] += 1
            if o[0] == "M" and o[2] == "Env" and o[1] < len(c["created"]) and o[3] in c["created"][o[1]][4][0::2]:
                dist["override_existing_key"] += 1
            if o[0] in ("R", "M", "F", "S"):
                parents[(o[0], o[1])] = parents.get((o[0], o[1]), 0) + 1
        dist["sibling_pairs"] += sum(v - 1 for v in parents.values() if v > 1)
        for k in c["kinds"]: dist["node_kinds"][k] = dist["node_kinds"].get(k, 0) + 1
        sz = str(len(c["kinds"]))
        dist["tree_sizes"][sz] = dist["tree_sizes"].get(sz, 0) + 1
        if c["conc"]:
            dist["concurrent_trees"] += 1
            dist["concurrent_ops"] += c["conc_ops"]
        if len(c["kinds"]) >= 3: seen.add(json.dumps(c["ops"]))
    ck.dist = dist
    ck.distinct = len(seen)
    ck.samples = [dict(ops=c["ops"][:8], kinds=c["kinds"], final_node0=c["final"][0] if c["final"] else None) for c in cases[:3]]
    ck.extra["rule"] = ("random derivation trees (every With... method of RuntimeConfig, ModuleConfig, FSConfig incl. WithSysFSMount, sock Config; "
                        "InstantiateModule with/without a sock context; NewRuntimeWithConfig) generated from VERIF_SEED; every node deep-dumped at creation, "
                        "after every later op and at the end; a tree is non-trivial with >= 3 nodes; distinct by op list. Model evaluated in Coq under three "
                        "append growth policies and compared on: final dump of every node, identity classes (sharing), per-op observations (panic / guest view)")
    ck.extra["string_table_size"] = len(strtab)
    # model evaluation
    mism = {}
    SH = 250
    for s in range(0, len(cases), SH):
        shard = cases[s:s + SH]
        v = ("From Coq Require Import List ZArith.\nFrom Verif Require Import Rt.Config.\nImport ListNotations.\nOpen Scope Z_scope.\n"
             "Definition cases : list case := [\n" + ";\n".join(coq_case(c) for c in shard) + "].\n"
             "Definition M := Eval vm_compute in mismatches 0 cases.\nPrint M.\n")
        rc, o = coq_eval("c19_%d" % s, v)
        lst = parse_zlist(o, "M")
        if rc != 0 or lst is None:
            ck.violation("model-eval", {"kind": "model-eval"}, {"rc": rc, "out": o[-2000:]}, no_input=True)
            return ck.finish()
        for i in range(0, len(lst), 2):
            mism[s + lst[i]] = lst[i + 1]
    ck.extra["model_mismatches"] = len(mism)
    ck.extra["transcript_changed"] = stale
    # oracle on every case
    reported = set()
    found_real = any(oracle(c)[0] for c in cases)
    for idx, c in enumerate(cases):
        bad, first = oracle(c)
        d = mism.get(idx)
        if not bad and d is None:
            continue
        detail = {"case_index": idx, "ops": c["ops"], "kinds": c["kinds"], "oracle": bad[:6],
                  "strings": {i: strtab[i] for i in range(min(len(strtab), 64))}}
        if d is not None:
            pol, what, _ = decode_mismatch(d)
            detail["model"] = "differs from the implementation under the %s policy: %s" % (pol, what)
        if not bad and found_real:
            continue   # the model also differs elsewhere, but a real failing input is being reported
        if bad:
            opi, ni = first
            sig = {"kind": "config-mutated", "node": c["kinds"][ni], "by": op_name(c, opi)}
            detail["created"] = c["created"][ni]; detail["final"] = c["final"][ni]
        else:
            sig = {"kind": "model-differs"}
            _, _, (w, i) = decode_mismatch(d)
            if w == "node" and i < len(c["final"]): detail["impl_node"] = c["final"][i]
            if w == "op" and i < len(c["ops"]): detail["op"] = c["ops"][i]; detail["impl_obs"] = c["obs"][i]
        key = json.dumps(sig, sort_keys=True)
        if key in reported: continue
        reported.add(key)
        ck.violation(sig["kind"], sig, detail, no_input=not bad)
    if race_report:
        found_real = True
        ck.violation("data-race", {"kind": "data-race"}, {"report": race_report}, no_input=False)
    if stale and not found_real:
        ck.violation("model-stale", {"kind": "model-stale", "functions": stale},
                     {"why": "the Go source of functions transcribed into coq/Rt/Config.v changed; the theorems are about the old text. "
                             "Re-transcribe the model (and re-pin with `python3 checks/c19.py --pin`).", "changed": stale}, no_input=True)
    if not proofs_ok and not found_real:
        ck.violation("proof-broken", {"kind": "proof-broken"}, getattr(ck, "proof_failure", {}), no_input=True)
    return ck.finish()


if __name__ == "__main__":
    if len(sys.argv) > 1 and sys.argv[1] == "--pin":
        cur = transcript_state()
        print("PINNED = {")
        for k in sorted(cur): print('    "%s": "%s",' % (k, cur[k]))
        print("}")
