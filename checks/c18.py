"""C18 — the default module configuration exposes nothing of the host and runs reproducibly."""
import json, os
from vcheck import *


def zlist(xs):
    return "[" + "; ".join(str(int(x)) for x in xs) + "]"


def nats(xs):
    return "[" + "; ".join("%d%%nat" % int(x) for x in xs) + "]"


def blobs(xs):
    return "[" + "; ".join(zlist(x) for x in xs) + "]"


def coq_call(c):
    k = c[0]
    if k == "clock_time_get": return "ClockTimeGet %d %d" % (c[1], c[2])
    if k == "clock_res_get": return "ClockResGet %d" % c[1]
    if k == "random_get": return "RandomGet %d%%nat" % c[1]
    if k == "args_sizes_get": return "ArgsSizesGet"
    if k == "args_get": return "ArgsGet"
    if k == "environ_sizes_get": return "EnvironSizesGet"
    if k == "environ_get": return "EnvironGet"
    if k == "fd_read": return "FdRead %d %s" % (c[1], nats(c[2]))
    if k == "fd_write": return "FdWrite %d %s" % (c[1], blobs(c[2]))
    if k == "fd_pread": return "FdPread %d %s %d" % (c[1], nats(c[2]), c[3])
    if k == "fd_pwrite": return "FdPwrite %d %s %d" % (c[1], blobs(c[2]), c[3])
    if k == "fd_prestat_get": return "FdPrestatGet %d" % c[1]
    if k == "fd_prestat_dir_name": return "FdPrestatDirName %d %d" % (c[1], c[2])
    if k == "fd_fdstat_get": return "FdFdstatGet %d" % c[1]
    if k == "fd_fdstat_set_flags": return "FdFdstatSetFlags %d %d" % (c[1], c[2])
    if k == "fd_fdstat_set_rights": return "FdFdstatSetRights %d %d %d" % (c[1], c[2], c[3])
    if k == "fd_filestat_get": return "FdFilestatGet %d" % c[1]
    if k == "fd_filestat_set_size": return "FdFilestatSetSize %d %d" % (c[1], c[2])
    if k == "fd_filestat_set_times": return "FdFilestatSetTimes %d %d %d %d" % (c[1], c[2], c[3], c[4])
    if k == "fd_advise": return "FdAdvise %d %d %d %d" % (c[1], c[2], c[3], c[4])
    if k == "fd_allocate": return "FdAllocate %d %d %d" % (c[1], c[2], c[3])
    if k == "fd_close": return "FdClose %d" % c[1]
    if k == "fd_datasync": return "FdDatasync %d" % c[1]
    if k == "fd_sync": return "FdSync %d" % c[1]
    if k == "fd_readdir": return "FdReaddir %d %d %d" % (c[1], c[2], c[3])
    if k == "fd_renumber": return "FdRenumber %d %d" % (c[1], c[2])
    if k == "fd_seek": return "FdSeek %d %d %d" % (c[1], c[2], c[3])
    if k == "fd_tell": return "FdTell %d" % c[1]
    if k == "poll_clock": return "PollClock %d %d %d %d" % (c[1], c[2], c[3], c[4])
    if k == "poll":
        def sub(x):
            if x[0] == "clock": return "SClock %d %d %d" % (x[1], x[2], x[3])
            if x[0] == "read": return "SFdRead %d %d" % (x[1], x[2])
            if x[0] == "write": return "SFdWrite %d %d" % (x[1], x[2])
            return "SOther %d %d" % (x[1], x[2])
        return "Poll [%s]" % "; ".join(sub(x) for x in c[1])
    if k == "sched_yield": return "SchedYield"
    if k == "path_open": return "PathOpen %d %s" % (c[1], zlist(c[2]))
    if k == "path_create_directory": return "PathCreateDirectory %d %s" % (c[1], zlist(c[2]))
    if k == "path_filestat_get": return "PathFilestatGet %d %d %s" % (c[1], c[2], zlist(c[3]))
    if k == "path_filestat_set_times": return "PathFilestatSetTimes %d %d %s %d %d %d" % (c[1], c[2], zlist(c[3]), c[4], c[5], c[6])
    if k == "path_link": return "PathLink %d %d %s %d %s" % (c[1], c[2], zlist(c[3]), c[4], zlist(c[5]))
    if k == "path_readlink": return "PathReadlink %d %s %d" % (c[1], zlist(c[2]), c[3])
    if k == "path_remove_directory": return "PathRemoveDirectory %d %s" % (c[1], zlist(c[2]))
    if k == "path_rename": return "PathRename %d %s %d %s" % (c[1], zlist(c[2]), c[3], zlist(c[4]))
    if k == "path_symlink": return "PathSymlink %s %d %s" % (zlist(c[1]), c[2], zlist(c[3]))
    if k == "path_unlink_file": return "PathUnlinkFile %d %s" % (c[1], zlist(c[2]))
    if k == "proc_exit": return "ProcExit %d" % c[1]
    if k == "proc_raise": return "ProcRaise %d" % c[1]
    if k == "sock_accept": return "SockAccept %d %d" % (c[1], c[2])
    if k == "sock_recv": return "SockRecv %d %s %d" % (c[1], nats(c[2]), c[3])
    if k == "sock_send": return "SockSend %d %s %d" % (c[1], blobs(c[2]), c[3])
    if k == "sock_shutdown": return "SockShutdown %d %d" % (c[1], c[2])
    raise ValueError(k)


def coq_res(r):
    e = r["e"]
    return "(%s, %s)" % (("(%d)" % e) if e < 0 else str(e), zlist(r.get("b") or []))


def live(calls):
    """the calls a guest makes: up to and including its first proc_exit"""
    for i, c in enumerate(calls):
        if c[0] == "proc_exit": return calls[:i + 1]
    return calls


EPOCH_NS = 1640995200000 * 1000000      # 2022-01-01T00:00:00Z, the documented fake epoch
MS = 1000000


def le(bs):
    return sum(b << (8 * i) for i, b in enumerate(bs))


def i32(v):
    v &= 0xffffffff
    return v - (1 << 32) if v >= (1 << 31) else v


# where the descriptor argument(s) of a call sit
FD_ARG = {"fd_read": [1], "fd_write": [1], "fd_pread": [1], "fd_pwrite": [1], "fd_prestat_get": [1], "fd_prestat_dir_name": [1],
          "fd_fdstat_get": [1], "fd_fdstat_set_flags": [1], "fd_filestat_get": [1], "fd_filestat_set_size": [1],
          "fd_filestat_set_times": [1], "fd_advise": [1], "fd_allocate": [1], "fd_close": [1], "fd_datasync": [1], "fd_sync": [1],
          "fd_readdir": [1], "fd_renumber": [1], "fd_seek": [1], "fd_tell": [1], "path_open": [1], "path_create_directory": [1],
          "path_filestat_get": [1], "path_filestat_set_times": [1], "path_link": [1, 4], "path_readlink": [1],
          "path_remove_directory": [1], "path_rename": [1, 3], "path_symlink": [2], "path_unlink_file": [1],
          "sock_accept": [1], "sock_recv": [1], "sock_send": [1], "sock_shutdown": [1]}
# calls that would reveal or change a file, directory or socket of the host if they succeeded at all
NEVER_OK = {"path_open", "path_create_directory", "path_filestat_get", "path_filestat_set_times", "path_link", "path_readlink",
            "path_remove_directory", "path_rename", "path_symlink", "path_unlink_file", "sock_accept", "sock_recv", "sock_send",
            "sock_shutdown", "fd_readdir"}
NOW_FLAGS = 2 | 8


def oracle(calls, trace, stream):
    """The property on one trace alone, from the documentation of the defaults (no model): clocks are the documented
    sequences (every value 1 ms after the previous READING; besides clock_time_get only a set_times call with a "now"
    flag may read), random bytes continue the one fixed stream, no arguments/environment/stdin/files/sockets are visible,
    the only descriptors are 0, 1, 2 until closed, a closed descriptor stays closed, and what a stdio descriptor shows
    (fd_filestat_get) carries no timestamp, inode, device or size."""
    wall_lo = wall_hi = mono = pos = 0
    opened = {0: "in", 1: "out", 2: "out"}       # descriptor -> what it is (followed through close and renumber)
    calls = live(calls)
    if len(trace) != len(calls): return "the trace has %d entries for %d calls" % (len(trace), len(calls)), "length"
    for j, (c, r) in enumerate(zip(calls, trace)):
        k, e, b = c[0], r["e"], r.get("b") or []
        if k == "proc_exit":
            if e != -1 or le(b) != (c[1] & 0xffffffff): return "call %d %s did not end the guest with that exit code: %s" % (j, c, r), k
            continue
        if e < 0: return "call %d %s: the guest ended (%s) without calling proc_exit" % (j, c, r), k
        fds = [i32(c[i]) for i in FD_ARG.get(k, [])]
        if e == 0 and k in NEVER_OK: return "call %d %s succeeded: a file, directory or socket of the host is visible" % (j, c), k
        if e == 0 and fds and k != "fd_renumber" and any(fd not in opened for fd in fds[:1]):
            return "call %d %s succeeded on descriptor %d, which is not open (open: %s)" % (j, c, fds[0], sorted(opened)), k
        if k == "clock_time_get" and (c[1] & 0xffffffff) in (0, 1):
            if e != 0: return "call %d %s failed with errno %d" % (j, c, e), k
            if (c[1] & 0xffffffff) == 0:
                v = le(b)
                if (v - EPOCH_NS) % MS or not (wall_lo <= (v - EPOCH_NS) // MS <= wall_hi):
                    return "call %d %s returned %d, the documented fake clock gives %d + k ms for %d <= k <= %d" % (j, c, v, EPOCH_NS, wall_lo, wall_hi), k
                wall_lo = wall_hi = (v - EPOCH_NS) // MS + 1
            else:
                want = mono * MS; mono += 1
                if le(b) != want: return "call %d %s returned %d, the documented fake clock gives %d" % (j, c, le(b), want), k
        elif k in ("fd_filestat_set_times", "path_filestat_set_times"):
            if c[-1] & NOW_FLAGS: wall_hi += 2       # each "now" timestamp may take a reading of the (fake) wall clock
            if e == 0: return "call %d %s succeeded: there is no file whose times could be set" % (j, c), k
        elif k == "clock_res_get" and (c[1] & 0xffffffff) in (0, 1):
            if e != 0 or le(b) != (1000 if (c[1] & 0xffffffff) == 0 else 1): return "call %d %s -> errno %d resolution %s" % (j, c, e, le(b)), k
        elif k == "random_get":
            if e != 0 or len(b) != c[1]: return "call %d %s -> errno %d, %d bytes" % (j, c, e, len(b)), k
            if b != stream[pos:pos + c[1]]: return "call %d %s at stream position %d returned bytes that are not the fixed stream" % (j, c, pos), k
            pos += c[1]
        elif k in ("args_sizes_get", "environ_sizes_get"):
            if e != 0 or any(b): return "call %d %s reports host data: errno %d sizes %s" % (j, c, e, b), k
        elif k in ("args_get", "environ_get"):
            if e != 0 or b: return "call %d %s wrote %s" % (j, c, b), k
        elif k in ("fd_read", "fd_pread"):
            if e == 0 and (le(b[:4]) != 0 or len(b) > 4): return "call %d %s delivered input %s" % (j, c, b), k
            if e == 0 and opened.get(fds[0]) != "in" and any(c[2]): return "call %d %s read from a descriptor that is not stdin" % (j, c), k
        elif k in ("fd_write", "fd_pwrite"):
            total = sum(len(x) for x in c[2])
            if e == 0 and total and (k == "fd_pwrite" or opened.get(fds[0]) != "out"): return "call %d %s wrote to something that is not stdout/stderr" % (j, c), k
            if e == 0 and le(b) != total: return "call %d %s wrote %d of %d bytes" % (j, c, le(b), total), k
        elif k == "fd_prestat_dir_name":
            if e == 0 and b: return "call %d %s returned a name %s" % (j, c, b), k
        elif k == "fd_filestat_get" and e == 0:
            dev, ino, ft, nlink, size, at, mt, ct = (le(b[8 * i:8 * i + 8]) for i in range(8))
            if dev or ino or size or at or mt or ct:
                return "call %d %s shows host data: dev %d ino %d size %d atim %d mtim %d ctim %d" % (j, c, dev, ino, size, at, mt, ct), k
            if ft in (3, 4, 7): return "call %d %s: descriptor is a directory, regular file or symlink (filetype %d)" % (j, c, ft), k
        elif k in ("fd_seek", "fd_tell", "fd_filestat_set_size", "fd_allocate"):
            if e == 0 and k == "fd_allocate" and ((c[2] + c[3]) & (2 ** 64 - 1)) == 0: pass      # nothing to allocate
            elif e == 0: return "call %d %s succeeded: stdio has no position or size" % (j, c), k
        elif k == "fd_close" and e == 0:
            opened.pop(fds[0], None)
        elif k == "fd_renumber" and e == 0:
            src, dst = i32(c[1]), i32(c[2])
            if src not in opened or dst < 0: return "call %d %s succeeded on a descriptor that is not open (open: %s)" % (j, c, sorted(opened)), k
            opened[dst] = opened.pop(src)
        elif k == "poll_clock":
            if c[3] == 0 and e != 0: return "call %d %s failed with errno %d" % (j, c, e), k
        elif k == "poll" and e == 0:
            # stdin is empty and never blocks: every subscription is answered exactly once, identified by its userdata
            n = len(c[1])
            evs = [b[4 + 32 * i: 4 + 32 * i + 32] for i in range(n)]
            if le(b[:4]) != n: return "call %d %s reported %d events for %d subscriptions" % (j, c, le(b[:4]), n), k
            got = sorted(le(ev[:8]) for ev in evs)
            want = sorted(x[3] if x[0] == "clock" else x[2] for x in c[1])
            if got != want: return "call %d %s answered userdata %s" % (j, c, got), k
            for x in c[1]:          # a subscription on a closed descriptor is answered with an error, never as ready
                if x[0] in ("read", "write") and i32(x[1]) not in opened:
                    if all(le(ev2[8:10]) == 0 for ev2 in evs if le(ev2[:8]) == x[2]):
                        return "call %d %s: subscription on closed descriptor %d reported ready" % (j, c, i32(x[1])), k
    return None, None


def run(tier, seed):
    ck = Check("C18", tier, seed)
    ck.trusted += ["tools/go2coq: only constants are folded (FakeEpochNanos, ms, clock ids, errno values, rights); clockResolutionInvalid is transcribed (method call outside the subset)",
                   "hand transcription of toSysContext/NewContext and of all 46 wasi_snapshot_preview1 functions (as they act on the no-op stdio files and on closed descriptors: imports/wasi_snapshot_preview1/{fs,sock,poll,proc,clock,random,args,environ,sched}.go, internal/sys/{fs,stdio}.go, experimental/sys/unimplemented.go, wasip1.ToErrno) in coq/Sys/DefaultCtx.v, tied by the correspondence run",
                   "the fixed-seed random stream is abstract in the theorems; in the run it is taken from the longest trace of the first child process and every other trace, process and engine must continue the same stream",
                   "harness/c18 (Go: self re-executing children, proxy guest) and checks/c18.py (case conversion, oracle)"]
    ck.assumptions += ["all 46 functions of wasi_snapshot_preview1 are modelled; pointer arguments are valid (memory-fault paths, EFAULT, belong to C15); path arguments are ASCII (fs.ValidPath also demands UTF-8: the model answers 'unmodelled' otherwise and the run never generates such a path); what the EMBEDDER gets when it calls into an instance after the guest's proc_exit is not part of the guest's trace (C06)",
                       "fd_prestat_get on descriptors 0..2 answers success with an empty name (stdio entries are flagged pre-open): modelled as implemented",
                       "math/rand's Read is positional (the k-th byte does not depend on chunking): checked by the run, assumed by the abstract stream"]
    proofs_ok = ck.proofs()
    n = 150 if tier == "quick" else 3000
    binp, log = build_harness("c18")
    if not binp:
        ck.violation("harness-build", {"kind": "build"}, {"log": log[-3000:]}, no_input=True)
        return ck.finish()
    rc, out = sh([binp, "-seed", str(seed), "-n", str(n)], timeout=3000)
    recs = []
    for ln in out.split("\n"):
        if ln.startswith("{"):
            try: recs.append(json.loads(ln))
            except ValueError: pass
    scripts = {r["script"]: live(r["calls"]) for r in recs if r["t"] == "script"}      # a guest's calls end with its proc_exit
    children = [r for r in recs if r["t"] == "child"]
    traces = [r for r in recs if r["t"] == "trace"]
    bad_children = [c for c in children if c["status"] != "ok"]
    if rc != 0 or not scripts or len(children) < 5 or bad_children or not traces:
        ck.violation("harness-crash", {"kind": "crash"}, {"rc": rc, "children": bad_children or children, "tail": out[-2000:]}, no_input=False)
        return ck.finish()
    by = {}
    for t in traces:
        by.setdefault(t["script"], {})[t["variant"]] = t
    variants = sorted({t["variant"] for t in traces})
    starts = sorted(c["started_unix_ms"] for c in children)
    ck.extra["children"] = [{k: c[k] for k in ("variant", "engine", "mode", "cwd", "nenv", "argv", "started_unix_ms", "wall_ms")} for c in children]
    ck.extra["start_spread_ms"] = starts[-1] - starts[0]
    if starts[-1] - starts[0] < 1000:
        ck.violation("harness-crash", {"kind": "crash"}, {"why": "children were not started at least 1 s apart", "children": children}, no_input=True)

    reported = set()

    def report(kind, sig, detail, no_input=False):
        key = json.dumps(sig, sort_keys=True)
        if key in reported: return
        reported.add(key)
        ck.violation(kind, sig, detail, no_input=no_input)

    # the oracle stream: the longest random byte sequence of the first child; all others must be prefixes of it
    def rand_bytes(si, var):
        o = []
        for c, r in zip(scripts[si], by[si][var]["trace"]):
            if c[0] == "random_get" and r["e"] == 0: o += r.get("b") or []
        return o
    stream = max((rand_bytes(si, variants[0]) for si in scripts), key=len)

    dist = {"calls": {}, "errno": {}, "variants": variants, "scripts": len(scripts), "random_bytes": 0, "clock_readings": 0,
            "requested_sleep_ms": 0, "elapsed_ms_max": 0, "fd_close_ok": 0, "calls_on_closed_stdio": 0, "proc_exit": 0,
            "scripts_closing_stdin": 0, "wall_readings_by_set_times": 0}
    # 1. byte equality across processes, engines, start times, environments, interleaving (oracle) + per-trace oracle
    for si, calls in scripts.items():
        ref = by[si][variants[0]]["trace"]
        req_sleep = sum(c[2] for c in calls if c[0] == "poll_clock" and c[3] == 0) // 1000000
        dist["requested_sleep_ms"] += req_sleep
        for var in variants:
            t = by[si].get(var)
            if t is None:
                report("harness-crash", {"kind": "crash"}, {"why": "missing trace", "script": si, "variant": var}, no_input=True)
                continue
            dist["elapsed_ms_max"] = max(dist["elapsed_ms_max"], t["ms"])
            if t["trace"] != ref:
                j = next((i for i, (a, b) in enumerate(zip(t["trace"], ref)) if a != b), min(len(t["trace"]), len(ref)))
                cname = calls[j][0] if j < len(calls) else "?"
                report("trace-differs", {"kind": "trace-differs", "call": cname},
                       {"script": si, "variants": [variants[0], var], "call_index": j, "call": calls[j] if j < len(calls) else None,
                        "first": ref[j] if j < len(ref) else None, "other": t["trace"][j] if j < len(t["trace"]) else None,
                        "calls": calls[:j + 1], "children": ck.extra["children"]})
            why, cname = oracle(calls, t["trace"], stream)
            if why:
                report("property-fails", {"kind": "property-fails", "call": cname}, {"script": si, "variant": var, "oracle": why, "calls": calls})
            if req_sleep >= 1000 and t["ms"] >= req_sleep // 2:
                report("property-fails", {"kind": "property-fails", "call": "poll_oneoff"},
                       {"script": si, "variant": var, "oracle": "the script asked for %d ms of sleep and took %d ms: sleeping is real" % (req_sleep, t["ms"])})
        closed = set()
        for c, r in zip(calls, ref):
            fds = [i32(c[i]) for i in FD_ARG.get(c[0], [])]
            if fds and fds[0] in closed: dist["calls_on_closed_stdio"] += 1
            if c[0] == "fd_close" and r["e"] == 0:
                closed.add(fds[0]); dist["fd_close_ok"] += 1
                if fds[0] == 0: dist["scripts_closing_stdin"] += 1
            if c[0] == "proc_exit": dist["proc_exit"] += 1
            if c[0] == "path_filestat_set_times" and c[-1] & 10 or c[0] == "fd_filestat_set_times" and c[-1] & 10 and r["e"] == 52:
                dist["wall_readings_by_set_times"] += 1
            dist["calls"][c[0]] = dist["calls"].get(c[0], 0) + 1
            dist["errno"][str(r["e"])] = dist["errno"].get(str(r["e"]), 0) + 1
            if c[0] == "random_get": dist["random_bytes"] += c[1]
            if c[0] == "clock_time_get" and c[1] in (0, 1): dist["clock_readings"] += 1

    # 2. the Coq model's trace (evaluated inside Coq) against every distinct observed trace
    cases, owners = [], []
    for si, calls in scripts.items():
        seen = {}
        for var in variants:
            t = by[si].get(var)
            if t is None: continue
            key = json.dumps(t["trace"])
            if key in seen or len(seen) >= 2: continue      # the model is compared with at most two distinct traces per script
            seen[key] = var
            cases.append("([%s],\n  [%s])" % ("; ".join(coq_call(c) for c in calls), "; ".join(coq_res(r) for r in t["trace"])))
            owners.append((si, var))
    SH = 60
    for s in range(0, len(cases), SH):
        v = ("From Verif Require Import Lib.GoInt Sys.DefaultCtx.\nOpen Scope Z_scope.\n"
             "Definition rs : list Z := %s.\nDefinition cases : list case := [\n%s].\n"
             "Definition M := Eval vm_compute in mismatches rs 0 cases.\nPrint M.\n" % (zlist(stream), ";\n".join(cases[s:s + SH])))
        rc, o = coq_eval("c18_%d" % s, v)
        lst = parse_zlist(o, "M")
        if rc != 0 or lst is None:
            ck.violation("model-eval", {"kind": "model-eval"}, {"rc": rc, "out": o[-2000:]}, no_input=True)
            break
        for i in range(0, len(lst), 2):
            si, var = owners[s + lst[i]]
            j = lst[i + 1]
            calls = scripts[si]
            why, _ = oracle(calls, by[si][var]["trace"], stream)
            cname = calls[j][0] if 0 <= j < len(calls) else "?"
            report("model-differs", {"kind": "model-differs", "call": cname},
                   {"script": si, "variant": var, "call_index": j, "call": calls[j] if 0 <= j < len(calls) else None,
                    "impl": by[si][var]["trace"][j] if 0 <= j < len(calls) else None, "oracle": why, "calls": calls[:j + 1]},
                   no_input=(why is None))
    ck.cases = sum(len(scripts[si]) for si in scripts) * len(variants)
    ck.distinct = len({json.dumps(scripts[si]) for si in scripts if len(scripts[si]) > 2}) * len(variants)
    ck.dist = dist
    ck.samples = [dict(script=si, calls=scripts[si][:5], trace=by[si][variants[0]]["trace"][:5]) for si in list(scripts)[1:4]]
    ck.extra["rule"] = ("WASI-only guest scripts over all 46 wasi_snapshot_preview1 functions generated from VERIF_SEED (plus two fixed probe scripts: defaults, and every descriptor function on open / closed / never-opened descriptors while stdio is closed step by step, ending in proc_exit) run under wazero.NewModuleConfig() in %d traces each: "
                        "separate child processes with different environment, working directory, argv, start time (>= 1 s apart) and engine, and two "
                        "instances interleaved in one runtime; traces (errno + result bytes per call) must be byte-equal to each other (oracle), satisfy the "
                        "documented defaults (oracle) and equal the Coq model's trace; a case is one call of one trace, distinct by (script, variant)" % len(variants))
    if not proofs_ok and not any(v["kind"] in ("trace-differs", "property-fails") for v in ck.violations):
        ck.violation("proof-broken", {"kind": "proof-broken"}, getattr(ck, "proof_failure", {}), no_input=True)
    return ck.finish()
